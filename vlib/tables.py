"""Turn `h264v tables` (the implementation's complete graphs of its finite-domain functions)
into coq/Gen/ImplTables.v and coq/Gen/ImplLevel.v.  Files are rewritten only when they change."""
import os

HDR = ("(* GENERATED on every run by check.py from `h264v tables` (the real crate). Do not edit. *)\n"
       "From Coq Require Import NArith List String.\nImport ListNotations.\nLocal Open Scope N_scope.\nLocal Open Scope string_scope.\n")

def b(x): return "true" if x == "1" else "false"

def write_if_changed(path, text):
    old = open(path).read() if os.path.exists(path) else None
    if old != text:
        with open(path, "w") as f:
            f.write(text)
        return True
    return False

def generate(lines, coqdir):
    t = {}
    for l in lines:
        p = l.split()
        if p:
            t.setdefault(p[0], []).append(p[1:])
    s = HDR
    # hdr: b -> Some (ref_idc, type id, value back) | None (refused)
    rows = []
    for p in t["hdr"]:
        if p[1] == "ok":
            tid = p[3] if p[3] != "PANIC" else "999"
            rows.append(f"({p[0]}, Some ({p[2]},{tid},{p[4]}))")
        else:
            rows.append(f"({p[0]}, None)")
    s += "Definition impl_hdr : list (N * option (N*N*N)) :=\n [" + ";".join(rows) + "].\n"
    # ut: id -> Some (Some (id back, name)) ok | Some None refused | None panic
    rows = []
    for p in t["ut"]:
        if p[1] == "ok":
            rows.append(f'({p[0]}, Some (Some ({p[2]},"{p[3]}")))')
        elif p[1] == "err":
            rows.append(f"({p[0]}, Some None)")
        else:
            rows.append(f"({p[0]}, None)")
    s += "Definition impl_ut : list (N * option (option (N*string))) :=\n [" + ";".join(rows) + "].\n"
    # uteq: key 32*a+b -> Some (a == b as the crate's PartialEq says) | None (error / panic)
    rows = [f"({32 * int(p[0]) + int(p[1])}, {'Some ' + b(p[2]) if p[2] in ('0', '1') else 'None'})" for p in t.get("uteq", [])]
    s += "Definition impl_uteq : list (N * option bool) :=\n [" + ";".join(rows) + "].\n"
    # answers that changed when the conversions were asked again in another order (none for a pure function)
    rows = [f"({p[0]},{p[1]})" for p in t.get("lvlx", [])] + [f"({p[0]},999)" for p in t.get("profx", [])]
    s += "Definition impl_order_dependent : list (N * N) :=\n [" + ";".join(rows) + "].\n"
    rows = [f'({p[0]},({p[1]},"{p[2]}",{b(p[3])},{p[4]}))' for p in t["prof"]]
    s += "Definition impl_prof : list (N * (N*string*bool*N)) :=\n [" + ";".join(rows) + "].\n"
    rows = [f"({p[0]},({b(p[1])},{b(p[2])},{b(p[3])},{b(p[4])},{b(p[5])},{b(p[6])},{p[7]},{p[8]}))" for p in t["cf"]]
    s += "Definition impl_cf : list (N * (bool*bool*bool*bool*bool*bool*N*N)) :=\n [" + ";".join(rows) + "].\n"
    for key in ("spsid", "ppsid"):
        rows = [f"({p[0]}, Some {p[2]})" if p[1] == "ok" else f"({p[0]}, None)" for p in t[key]]
        s += f"Definition impl_{key} : list (N * option N) :=\n [" + ";".join(rows) + "].\n"
    rows = [f'({p[0]}, Some ("{p[2]}",{p[3]}))' if p[1] == "ok" else f"({p[0]}, None)" for p in t["t35"]]
    s += "Definition impl_t35 : list (N * option (string*N)) :=\n [" + ";".join(rows) + "].\n"
    rows = [f'({p[0]}, Some "{p[1]}")' if p[1] != "none" else f"({p[0]}, None)" for p in t["seitype"]]
    s += "Definition impl_seitype : list (N * option string) :=\n [" + ";".join(rows) + "].\n"
    ch1 = write_if_changed(os.path.join(coqdir, "Gen", "ImplTables.v"), s)
    # level table: per flags byte a row of (level_idc, idc back, name index)
    names, rowsf = [], {}
    for f, l, back, name in t["lvl"]:
        if name not in names:
            names.append(name)
        rowsf.setdefault(int(f), []).append(f"({l},{back},{names.index(name)})")
    s = HDR
    s += "Definition level_names : list string := [" + ";".join(f'"{n}"' for n in names) + "].\n"
    for f in sorted(rowsf):
        s += f"Definition lvl_row_{f} : list (N*N*N) := [" + ";".join(rowsf[f]) + "].\n"
    s += "Definition impl_lvl : list (N * list (N*N*N)) :=\n [" + ";".join(f"({f},lvl_row_{f})" for f in sorted(rowsf)) + "].\n"
    ch2 = write_if_changed(os.path.join(coqdir, "Gen", "ImplLevel.v"), s)
    return ch1 or ch2, {k: len(v) for k, v in t.items()}
