"""Cross-check of the extraction and of the OCaml driver: a sample of the cases is translated - by this independent
Python reading of the case syntax - into Gallina terms and evaluated by `vm_compute` inside Coq on the very
definitions that are extracted; each must equal the answer `modelrun` gave.  A failure means the tie
(model <-> extracted binary) is broken, not that the crate violates the property."""
import os, subprocess, re


def nlist(bs):
    return "[" + "; ".join(str(b) for b in bs) + "]"


def unhex(s):
    return list(bytes.fromhex(s)) if s not in ("-", "") else []


def src(s):
    if s.startswith("raw:"):
        return "(SrcRaw %s)" % nlist(unhex(s[4:]))
    assert s.startswith("nal:")
    rest = s[4:]
    c, chunks = rest.split(":", 1)
    return "(SrcNal %s [%s])" % ("true" if c == "c" else "false", "; ".join(nlist(unhex(x)) for x in chunks.split("/")))


def bitop(op):
    simple = {"ue": "OpUe", "se": "OpSe", "b": "OpB", "m": "OpMore", "f": "OpFin", "s": "OpFinSei", "t8": "(OpTo 1)", "t16": "(OpTo 2)", "t32": "(OpTo 4)"}
    if op in simple:
        return simple[op]
    for w in ("8", "16", "32"):
        if op.startswith("u%s." % w):
            return "(OpU %s %s)" % (w, op.split(".")[1])
    if op.startswith("i32."):
        return "(OpI32 %s)" % op[4:]
    if op.startswith("k"):
        return "(OpSkip %s)" % op[1:]
    if op.startswith("R"):
        return "(OpReader %s)" % op[1:]
    raise ValueError(op)


def byteop(op):
    if op == "f":
        return "BoFill"
    if op == "e":
        return "BoEnd"
    if op == "K":
        return "BoClone"
    if op.startswith("r"):
        return "(BoRead %s%%nat)" % op[1:]
    if op.startswith("c"):
        return "(BoConsume %s%%nat)" % op[1:]
    raise ValueError(op)


def ctx(s):
    items = [x for x in s.split(",") if x and x != "-"]
    return "[" + "; ".join("(%s %s)" % ("CtxSps" if it[0] == "S" else "CtxPps", nlist(unhex(it[1:]))) for it in items) + "]"


def split(s, c=","):
    return [x for x in s.split(c) if x]


def pol(s):
    return "[" + "; ".join("Ignore" if ch == "I" else "Buffer" for ch in s) + "]"


def term(case):
    p = case.split()
    cmd, a = p[0], p[1:] + [""] * 4
    if cmd == "bits":
        return "cmd_bits %s [%s]" % (src(a[0]), "; ".join(bitop(o) for o in split(a[1])))
    if cmd == "rbsp":
        return "cmd_rbsp %s %s %s [%s]" % (src(a[0]), a[1], a[2], "; ".join(byteop(o) for o in split(a[3])))
    if cmd == "refnal":
        return "cmd_refnal %s [%s]" % (src(a[0]), "; ".join(byteop(o) for o in split(a[1])))
    if cmd == "annexb":
        ops = ["AReset" if o == "r" else "ANew" if o == "n" else "(APush %s)" % nlist(unhex(o[1:])) for o in split(a[0])]
        return "cmd_annexb [%s]" % "; ".join(ops)
    if cmd == "accum":
        frs = []
        for f in [x for x in split(a[0]) if x != "-"]:
            bufs, e = f.split(";")
            frs.append("([%s], %s)" % ("; ".join(nlist(unhex(b)) for b in split(bufs, "/")), "true" if e == "1" else "false"))
        return "cmd_accum [%s] %s" % ("; ".join(frs), pol(a[1]))
    if cmd == "sps":
        return "cmd_sps %s" % src(a[0])
    if cmd in ("pps", "slice"):
        return "cmd_%s %s %s" % (cmd, ctx(a[0]), src(a[1]))
    if cmd == "sei":
        return "cmd_sei %s %s%%nat" % (src(a[0]), a[1] if a[1] else "2")
    if cmd == "bp":
        return "cmd_bp %s %s" % (ctx(a[0]), nlist(unhex(a[1])))
    if cmd == "pt":
        return "cmd_pt %s %s %s" % (ctx(a[0]), a[1], nlist(unhex(a[2])))
    if cmd == "t35":
        return "cmd_t35 %s" % nlist(unhex(a[0]))
    if cmd == "avcc":
        return "cmd_avcc %s" % nlist(unhex(a[0]))
    if cmd == "decode_nal":
        return "cmd_decode_nal %s" % nlist(unhex(a[0]))
    if cmd == "ctx":
        ops = []
        for o in split(a[0]):
            if o.startswith("gs"):
                ops.append("(CoGetSps %s)" % o[2:])
            elif o.startswith("gp"):
                ops.append("(CoGetPps %s)" % o[2:])
            elif o == "it":
                ops.append("CoIter")
            elif o.startswith("S"):
                ops.append("(CoSps %s)" % nlist(unhex(o[1:])))
            else:
                ops.append("(CoPps %s)" % nlist(unhex(o[1:])))
        return "cmd_ctx [%s]" % "; ".join(ops)
    if cmd == "pipeline":
        av = "None" if a[0] == "-" else "(Some %s)" % nlist(unhex(a[0]))
        ops = ["AReset" if o == "r" else "(APush %s)" % nlist(unhex(o)) for o in split(a[1])]
        return "cmd_pipeline %s [%s] %s" % (av, "; ".join(ops), pol(a[2]))
    raise ValueError("no translation for " + cmd)


def coq_string(s):
    return '"' + s.replace('"', '""') + '"'


def cross_check(coq_dir, work_dir, pairs, timeout=600):
    """pairs: [(case, modelrun_answer)].  Returns (n_checked, error_text or None, failing_case or None)."""
    lines = ["From H264 Require Import Base.Prelude Model.RefNal Model.Rbsp Model.Source Model.AnnexB Model.Accum Model.Context Model.Pps Model.Driver.",
             "From Coq Require Import String List NArith.", "Import ListNotations.", "Local Open Scope string_scope.", "Local Open Scope N_scope."]
    kept = []
    for case, ans in pairs:
        try:
            t = term(case)
        except Exception:
            continue
        kept.append(case)
        lines.append("(* CASE %d *) Goal (%s) = %s. Proof. vm_compute. reflexivity. Qed." % (len(kept) - 1, t, coq_string(ans)))
    if not kept:
        return 0, None, None
    path = os.path.join(work_dir, "xcheck_%d.v" % os.getpid())
    open(path, "w").write("\n".join(lines) + "\n")
    try:
        p = subprocess.run(["coqc", "-q", "-noglob", "-Q", coq_dir, "H264", path], stdout=subprocess.PIPE, stderr=subprocess.STDOUT,
                           text=True, timeout=timeout)
    except subprocess.TimeoutExpired:
        return len(kept), "coqc timed out on the extraction cross-check", None
    finally:
        for ext in (".vo", ".vok", ".vos", ".glob"):
            try:
                os.remove(path[:-2] + ext)
            except OSError:
                pass
    if p.returncode == 0:
        os.remove(path)
        return len(kept), None, None
    m = re.search(r'line (\d+)', p.stdout)
    failing = None
    if m:
        ln = int(m.group(1))
        src_lines = open(path).read().split("\n")
        mm = re.search(r"CASE (\d+)", src_lines[ln - 1]) if ln - 1 < len(src_lines) else None
        if mm:
            failing = kept[int(mm.group(1))]
    return len(kept), p.stdout[-1500:], failing
