"""Parsing of annexb call traces ("<hex>/<hex>;<end>" calls, "|" after every operation, "#" after a fresh reader)."""
import itertools


def parse_trace(ans):
    """-> list of ops, each a list of calls (list_of_slices_hex, end)"""
    ops, cur = [], []
    for tok in ans.split():
        if tok == "|":
            ops.append(cur)
            cur = []
        elif ";" in tok:
            bufs, e = tok.rsplit(";", 1)
            slices = [s for s in bufs.split("/")] if bufs else []
            cur.append((slices, e == "1"))
        else:
            cur.append((["?" + tok], False))
    if cur:
        ops.append(cur)
    return ops


def units_of(ops):
    """(closed units as hex strings, open remainder hex)"""
    units, cur = [], ""
    for calls in ops:
        for slices, end in calls:
            for s in slices:
                if s != "-":
                    cur += s
            if end:
                units.append(cur)
                cur = ""
    return units, cur


def all_strings(alphabet, maxlen):
    for n in range(maxlen + 1):
        for t in itertools.product(alphabet, repeat=n):
            yield bytes(t)


def segment(stream):
    """reference Annex B segmentation of a whole stream followed by reset (Python mirror of Spec/AnnexBSpec.v)"""
    units = []
    i, n = 0, len(stream)
    inside = False
    cur = bytearray()
    while i < n:
        if not inside:
            if stream[i:i + 3] == b"\x00\x00\x01":
                inside = True
                cur = bytearray()
                i += 3
            else:
                i += 1
        else:
            if stream[i:i + 3] == b"\x00\x00\x01":
                units.append(bytes(cur))
                cur = bytearray()
                i += 3
            elif stream[i:i + 3] == b"\x00\x00\x00":
                units.append(bytes(cur))
                inside = False
                i += 1
            else:
                cur.append(stream[i])
                i += 1
    if inside:
        units.append(bytes(cur))
    return units
