"""Parsing of annexb call traces ("<hex>/<hex>;<end>" calls, "|" after every operation, "#" after a fresh reader)."""
import itertools


def parse_trace(ans):
    """-> list of ops, each a list of calls (list_of_slices_hex, end)"""
    ops, cur = [], []
    for tok in ans.split():
        if tok == "|":
            ops.append(cur)
            cur = []
        elif ";" in tok:
            bufs, e = tok.rsplit(";", 1)
            slices = [s for s in bufs.split("/")] if bufs else []
            cur.append((slices, e == "1"))
        else:
            cur.append((["?" + tok], False))
    if cur:
        ops.append(cur)
    return ops


def units_of(ops):
    """(closed units as hex strings, open remainder hex)"""
    units, cur = [], ""
    for calls in ops:
        for slices, end in calls:
            for s in slices:
                if s != "-":
                    cur += s
            if end:
                units.append(cur)
                cur = ""
    return units, cur


def all_strings(alphabet, maxlen):
    for n in range(maxlen + 1):
        for t in itertools.product(alphabet, repeat=n):
            yield bytes(t)


def segment(stream):
    """reference Annex B segmentation of a whole stream followed by reset (Python mirror of Spec/AnnexBSpec.v)"""
    units = []
    i, n = 0, len(stream)
    inside = False
    cur = bytearray()
    while i < n:
        if not inside:
            if stream[i:i + 3] == b"\x00\x00\x01":
                inside = True
                cur = bytearray()
                i += 3
            else:
                i += 1
        else:
            if stream[i:i + 3] == b"\x00\x00\x01":
                units.append(bytes(cur))
                cur = bytearray()
                i += 3
            elif stream[i:i + 3] == b"\x00\x00\x00":
                units.append(bytes(cur))
                inside = False
                i += 1
            else:
                cur.append(stream[i])
                i += 1
    if inside:
        units.append(bytes(cur))
    return units


# ---- big synthetic streams (harness command `annexbig`): sizes on the command line, bytes made on both sides ----

def synth(a, b):
    """bytes a..b of the synthetic non-zero stream (period 251), the same function as harness::synth"""
    pat = bytes(((j * 7 + 3) % 255 + 1) for j in range(251))
    k0 = a // 251
    return (pat * ((b - k0 * 251) // 251 + 2))[a - k0 * 251: b - k0 * 251]


def fast_segment(stream):
    """segment() for long streams: the same definition, scanning with bytes.find"""
    units, n = [], len(stream)
    i = stream.find(b"\x00\x00\x01")
    while i >= 0:
        start = i + 3
        # the unit ends before the next 00 00 00 or 00 00 01
        j = start
        while True:
            z = stream.find(b"\x00\x00", j)
            if z < 0 or z + 2 >= n:
                # no further 00 00 x: the unit runs to the end of the stream (reset)
                units.append(stream[start:])
                return units
            if stream[z + 2] in (0, 1):
                units.append(stream[start:z])
                if stream[z + 2] == 1:
                    i = z
                else:
                    i = stream.find(b"\x00\x00\x01", z + 1)
                break
            j = z + 1
    return units


def big_script_units(script):
    """units (bytes) delivered for an annexbig script; every reset segments what was pushed since the previous one"""
    pos, cur, units = 0, bytearray(), []
    for t in script.split(","):
        if not t or t == "|":
            continue
        if t == "r":
            units += fast_segment(bytes(cur))
            cur = bytearray()
        elif t == "s":
            cur += b"\x00\x00\x01"
        elif t == "o":
            cur += b"\x01"
        elif t[0] == "z":
            cur += bytes(int(t[1:]))
        elif t[0] == "d":
            n = int(t[1:])
            cur += synth(pos, pos + n)
            pos += n
        elif t[0] == "x":
            cur += bytes.fromhex(t[1:])
        else:
            raise ValueError(t)
    if cur:
        raise ValueError("annexbig scripts must end with r (or a: abandoned, handled by the caller)")
    return units


def bulk_check(script, answer):
    """scripts with D<n> tokens (n bytes of 0xAB pushed in 32 MiB pieces, several GiB in all): the stream is segmented with
    every D run shortened to a 9-byte marker; the unit holding a marker is then re-measured with the real run length"""
    import zlib, re
    marker = b"\xab" * 9
    runs = [int(x) for x in re.findall(r"(?:^|,)D(\d+)", script)]
    reduced = re.sub(r"(^|,)D\d+", lambda m: m.group(1) + "x" + marker.hex(), script)
    units = big_script_units(reduced)
    want, k = [], 0
    block = b"\xab" * (1 << 20)
    for u in units:
        j = u.find(marker)
        if j < 0 or k >= len(runs):
            want.append("U%d:%08x" % (len(u), zlib.crc32(u)))
            continue
        if u.count(marker) != 1 and u.find(marker, j + 9) >= 0:
            return "oracle: two bulk runs in one unit are not supported"
        n = runs[k]
        k += 1
        c = zlib.crc32(u[:j])
        left = n
        while left > 0:
            m = min(left, len(block))
            c = zlib.crc32(block[:m], c)
            left -= m
        c = zlib.crc32(u[j + 9:], c)
        want.append("U%d:%08x" % (len(u) - 9 + n, c))
    toks = answer.split()
    if toks != want:
        return "units differ from the segmentation of the multi-GiB stream: got %s want %s" % (toks[:4], want[:4])
    return None


def big_check(case, answer):
    """verdict on an `annexbig` answer against the segmentation of the script's stream (None = as the property says)"""
    import zlib
    p = case.lstrip("!").split()
    mode, script = p[1], p[2]
    if ",D" in script or script.startswith("D"):
        return bulk_check(script, answer)
    abandoned = script.endswith(",a")
    if abandoned:
        # the reader is dropped without a reset: what reset would have completed stays an incomplete view at best
        script = script[:-2] + ",r"
    units = big_script_units(script)
    toks = answer.split()
    if mode == "F":
        bad = [t for t in toks if not t.startswith("U")]
        if bad:
            return "the fragment handler saw %s" % bad[:3]
        want = ["U%d:%08x" % (len(u), zlib.crc32(u)) for u in units]
        if toks != want:
            k = next((i for i, (a, b) in enumerate(zip(toks, want)) if a != b), min(len(toks), len(want)))
            return "units differ from the start-code segmentation at unit %d: got %s want %s (%d vs %d units)" % (
                k, toks[k:k + 2], want[k:k + 2], len(toks), len(want))
        return None
    nonempty = [u for u in units if u]
    u = 0
    for t in toks:
        body, complete = t[1:].split(";")
        ln, crc = body.split(":")
        ln = int(ln)
        if u >= len(nonempty):
            return "more handler invocations than NALs: %s" % t
        unit = nonempty[u]
        if complete == "1":
            if ln != len(unit) or crc != "%08x" % zlib.crc32(unit):
                return "complete NAL %d: got %s want L%d:%08x" % (u, t, len(unit), zlib.crc32(unit))
            u += 1
        else:
            if ln > len(unit) or crc != "%08x" % zlib.crc32(unit[:ln]):
                return "incomplete view of NAL %d is not a prefix of it: %s" % (u, t)
    if u != len(nonempty) and not (abandoned and u == len(nonempty) - 1):
        return "%d NALs completed, the stream holds %d" % (u, len(nonempty))
    return None


def big_scripts(rng, tier):
    """annexbig scripts: units of 2^k-1..2^k+2 bytes (k to 24 quick / 26 thorough) in 1..3 pushes behind zero padding; the same
    volume carried across resets; zero padding of 2^k-2..2^k+2 bytes and multiples of 256 before a start code; empty units
    followed by long units in the same push.  Every script ends with a reset."""
    out = []
    tops = [8, 12, 16, 18, 20, 24] if tier == "quick" else [8, 12, 16, 17, 18, 19, 20, 22, 24, 25, 26]
    for k in tops:
        for d in (-1, 0, 1, 2):
            n = (1 << k) + d
            cuts = sorted(rng.sample(range(1, n), min(n - 1, rng.choice([0, 1, 2]))))
            toks = ["z%d" % rng.choice([0, 1, 2, 3, 254, 255, 256, 257]), "s"]
            last = 0
            for c in cuts + [n]:
                toks += ["d%d" % (c - last), "|"]
                last = c
            toks += ["s", "d5", "r"]
            out.append(toks)
            out.append(["s", "d%d" % (n - 1000 if n > 2000 else n), "r", "s", "d2000", "|", "d2000", "|", "d7", "r", "s", "d9", "r"])
    for z in sorted({(1 << k) + d for k in range(8, 17) for d in (-2, -1, 0, 1, 2)} | {512 + 256 * j + e for j in range(4) for e in (0, 1)}):
        out.append(["s", "d3", "z%d" % z, "o", "d4", "r"])
        out.append(["z%d" % z, "o", "d4", "|", "s", "d2", "r"])
    for n in (4090, 4095, 4096, 4097, 5000, 8192, 65536):
        out.append(["s", "s", "d%d" % n, "s", "d3", "r"])
        out.append(["s", "z2", "o", "d%d" % n, "r"])
        out.append(["s", "d2", "s", "s", "d%d" % n, "z3", "s", "d1", "r"])
        out.append(["z3", "o", "z2", "o", "d%d" % n, "|", "d1", "r"])
    # 2^32 bytes through one reader (D<n> = n bytes pushed in 32 MiB pieces, ~13 s per case and build): a unit open while
    # the running total passes 2^32; exactly 2^32 bytes between two resets with a unit open at the reset; thorough: also with
    # zeros held back at the reset and 2^32 +- 1
    G = 1 << 32
    out.append(["s", "d100", "D%d" % (G + 100), "d50", "r", "s", "d3", "r"])
    out.append(["z7", "s", "d9", "r", "s", "d5", "D%d" % (G - 8), "r", "d6", "s", "d4", "r"])     # bytes after the reset are outside a unit
    if tier != "quick":
        out.append(["s", "d5", "D%d" % (G - 8), "r", "r", "o", "d6", "s", "d4", "r"])
        out.append(["s", "d5", "D%d" % (G - 10), "z2", "r", "o", "d6", "s", "d2", "r"])
        out.append(["s", "d5", "D%d" % (G - 7), "r", "s", "d4", "r"])
        out.append(["s", "d5", "D%d" % (G - 9), "r", "d6", "s", "d4", "r"])
    return [",".join(t) for t in out]
