"""Generator-side helpers: bit writer (clause 9.1 codewords), emulation prevention, chunking.
They only shape the inputs; nothing here decides a verdict."""
import binascii


def hx(b):
    b = bytes(b)
    return binascii.hexlify(b).decode() if b else "-"


# "alias" injection: while ALIAS = [index, add] is set, the index-th Exp-Golomb element written (across all writers) gets
# `add` (a multiple of 256) added to its code number - a value that a narrowing cast (`as u8`, `as u16`) would map back
# onto the original one.  See aliased() below.
ALIAS = None
UE_SEEN = 0
UE_LIMIT = (1 << 32) - 2


class BitWriter:
    def __init__(self):
        self.bits = []

    def u(self, n, v):
        for i in range(n - 1, -1, -1):
            self.bits.append((v >> i) & 1)
        return self

    def b(self, v):
        self.bits.append(1 if v else 0)
        return self

    def ue(self, v):
        global UE_SEEN
        if ALIAS is not None and UE_SEEN == ALIAS[0] and 0 <= v and v + ALIAS[1] <= UE_LIMIT:
            v += ALIAS[1]
        UE_SEEN += 1
        v1 = v + 1
        m = v1.bit_length() - 1
        self.bits += [0] * m + [1]
        self.u(m, v1 - (1 << m))
        return self

    def se(self, k):
        self.ue(2 * k - 1 if k > 0 else -2 * k)
        return self

    def raw(self, bits):
        self.bits += list(bits)
        return self

    def trailing(self):
        self.bits.append(1)
        while len(self.bits) % 8:
            self.bits.append(0)
        return self

    def pad(self, bit=0):
        while len(self.bits) % 8:
            self.bits.append(bit)
        return self

    def bytes(self):
        bs = list(self.bits)
        while len(bs) % 8:
            bs.append(0)
        out = bytearray()
        for i in range(0, len(bs), 8):
            v = 0
            for x in bs[i:i + 8]:
                v = (v << 1) | x
            out.append(v)
        return bytes(out)


def escape(payload):
    """7.4.1: insert 03 before a byte <= 03 that follows two zero bytes; 03 after a final 00 00? (final 00 gets 03)."""
    out = bytearray()
    zeros = 0
    for b in payload:
        if zeros >= 2 and b <= 3:
            out.append(3)
            zeros = 0
        out.append(b)
        zeros = zeros + 1 if b == 0 else 0
    if zeros >= 2:          # the payload ends with 00 00 (cabac_zero_words): a final 03 is appended
        out.append(3)
    return bytes(out)


def unescape(nal_payload):
    """reference removal of emulation prevention bytes; returns (bytes, ok)"""
    out = bytearray()
    zeros = 0
    i = 0
    n = len(nal_payload)
    while i < n:
        b = nal_payload[i]
        if zeros >= 2:
            if b == 3:
                if i + 1 < n and nal_payload[i + 1] > 3:
                    return bytes(out), False
                zeros = 0
                i += 1
                continue
            if b == 0:
                return bytes(out), False
        out.append(b)
        zeros = zeros + 1 if b == 0 else 0
        i += 1
    return bytes(out), True


def chunkings(rng, data, n=1, sizes=(1, 2, 3, 127, 128, 129)):
    """n random partitions of data into non-empty chunks"""
    res = []
    for _ in range(n):
        parts, i = [], 0
        mode = rng.randrange(4)
        while i < len(data):
            if mode == 0:
                k = 1
            elif mode == 1:
                k = rng.choice(sizes)
            elif mode == 2:
                k = rng.randrange(1, max(2, len(data)))
            else:
                k = rng.randrange(1, 9)
            parts.append(data[i:i + k])
            i += k
        res.append(parts)
    return res


def nal_src(chunks, complete=True):
    return "nal:%s:%s" % ("c" if complete else "i", "/".join(hx(c) for c in chunks))


def all_partitions(data):
    """all ways to cut data into non-empty consecutive chunks (2^(n-1))"""
    n = len(data)
    if n == 0:
        yield []
        return
    for mask in range(1 << (n - 1)):
        parts, start = [], 0
        for i in range(n - 1):
            if mask >> i & 1:
                parts.append(data[start:i + 1])
                start = i + 1
        parts.append(data[start:])
        yield parts


def aliased(rng, enc, adds=None):
    """enc() encodes something using rng; returns enc()'s result with one randomly chosen Exp-Golomb element displaced by a
    multiple of 256 (2^8, 2^9, 2^16, 2^17, 2^24, 2^25: the value and, for se(v), v itself wrap onto the original under a
    cast to 8 / 16 / 24 bits).  The random choices inside enc are replayed identically."""
    global ALIAS, UE_SEEN
    st = rng.getstate()
    ALIAS, UE_SEEN = None, 0
    enc()
    n = UE_SEEN
    st2 = rng.getstate()
    j = rng.randrange(max(1, n))
    add = rng.choice(adds or [1 << 8, 1 << 9, 1 << 8, 1 << 9, 1 << 16, 1 << 17, 1 << 24, 1 << 25])
    rng.setstate(st)
    ALIAS, UE_SEEN = [j, add], 0
    try:
        out = enc()
    finally:
        ALIAS = None
    rng.setstate(st2)
    rng.random()
    return out
