"""Protocol of one property check: build, proof step, correspondence step, verdict, evidence."""
import os, sys, time, json, hashlib, random, importlib, traceback


def h8(s):
    return hashlib.sha1(s.encode()).hexdigest()[:10]


class Verdict:
    def __init__(self, pid):
        self.pid = pid
        self.violations = []   # (replay_path, suffix)
        self.known = []

    def violation(self, ck, name, payload, no_input=False):
        path = os.path.join(ck.ROOT, "replays", "%s-%s.json" % (self.pid, name))
        payload = dict(payload, property=self.pid,
                       replay_cmd="python3 check.py %s --replay %s" % (self.pid, os.path.relpath(path, ck.ROOT)))
        ck.write_json(path, payload)
        self.violations.append((os.path.relpath(path, ck.ROOT), " no-failing-input-found" if no_input else ""))


def match_known(known, pid, case):
    for k in known:
        if k.get("status") == "known" and k.get("property") == pid:
            sig = k.get("signature", "")
            if sig and sig in case:
                return k
    return None


def compare(mod, r):
    """Returns None when implementation and model agree on the property's observable,
    else (kind, detail).  kind in {'panic','devrel','value','format'}."""
    case = r["case"]
    if r.get("dev_panic") or r.get("rel_panic"):
        # a panic is acceptable only where the model also aborts at a documented precondition
        if not (hasattr(mod, "panic_expected") and mod.panic_expected(case, r)):
            return ("panic", "implementation panicked (dev=%s release=%s)" % (r.get("dev_panic"), r.get("rel_panic")))
    if "flaky=DIFF" in r["dev"]:
        return ("value", "a transient Interrupted from the underlying reader, retried, changed what was delivered / parsed: " + r["dev"].split("flaky=DIFF")[1][:200])
    if "rel" in r and r["rel"] != r["dev"]:
        return ("devrel", "debug and release builds answer differently (release runs the cases in the opposite order: build-dependent arithmetic, or state carried between calls)")
    if r["model"] is None or "MODEL-STACK-OVERFLOW" in r["model"]:
        # no model answer (implementation-only case, or the extracted model ran out of stack on a very large input - a
        # limit of the tool, counted in the evidence, not a statement about the crate): the oracles still judge the answer
        return None
    canon = getattr(mod, "canon", lambda c, a: a)
    from vlib.props.C04 import canon as fps_canon   # the model prints fps as an exact rational, the crate as f64 bits
    a, m = canon(case, fps_canon(case, r["dev"])), canon(case, fps_canon(case, r["model"]))
    if a == m:
        return None
    # a property-level notion of agreement, where the raw answers carry detail the property does not speak about
    if hasattr(mod, "agree") and mod.agree(case, a, m):
        return None
    from check import leaves
    if leaves(a) == leaves(m):
        return ("format", "answers differ only in formatting")
    # both sides reject the input but name different errors: the correspondence is broken, yet for the properties that
    # only speak about accepted inputs / about "is an error" this input does not violate the property itself
    if getattr(mod, "ERROR_IDENTITY_IRRELEVANT", False) and a.startswith("E:") and m.startswith("E:") \
            and not (r.get("dev_panic") or r.get("rel_panic")):
        return ("errdiff", "implementation and model both reject this input, with different errors (no property-violating input)")
    if getattr(mod, "VALUE_DIFF_NO_INPUT", False):
        return ("modeldiff", "implementation and model answer differently; this property (no abort / bounded resources) is not about the value, "
                             "the owning property's check judges it")
    return ("value", "implementation and model disagree on the observable")


def run_property(ck, pid, tier, seed, replay):
    t0 = time.time()
    mod = importlib.import_module("vlib.props." + pid)
    v = Verdict(pid)
    rng = random.Random(seed * 1000003 + int(pid[1:]))
    evidence = {"property_id": pid, "tier": tier if tier in ("quick", "thorough") else "quick", "seed": seed,
                "level": "proof", "coverage": {}, "assumptions": list(getattr(mod, "ASSUMPTIONS", [])), "wall_s": 0.0,
                "violations": 0}
    cov = evidence["coverage"]
    cov["trusted_base"] = ck.TRUSTED_BASE
    cov["checker_cmd"] = "make -C coq Props/%s.vo && coqc Props/%s.v (Print Assumptions) + audit grep" % (pid, pid) + \
                         ("; coqchk -o H264.Props.%s" % pid if tier == "thorough" else "")
    try:
        with ck.Lock():
            ck.build_harness()
            table_lines, tcounts = ck.regen_tables()
            ck.build_model()
            pr = ck.proof_step(pid, thorough=(tier == "thorough" and not replay))
    except ck.BuildError as e:
        print("BUILD-ERROR: " + str(e)[-3000:])
        v.violation(ck, "build", {"why": "the check could not build: " + str(e)[-2000:],
                                  "broken": "build of harness/model against /repo's working tree"}, no_input=True)
        return finish(ck, v, evidence, t0)

    cov["obligations"] = pr["obligations"]
    cov["discharged"] = pr["discharged"]
    cov["theorems"] = pr["theorems"]
    if "coqchk" in pr:
        cov["coqchk"] = pr["coqchk"]
    if pr["errors"]:
        for e in pr["errors"]:
            print("PROOF-STEP: " + e[-1500:])
        rows = mod.table_oracle(table_lines) if hasattr(mod, "table_oracle") else []
        if rows:
            v.violation(ck, "table-" + h8(json.dumps(rows)), {
                "why": "a theorem about the implementation's own tables no longer holds",
                "failing_rows": rows[:20], "broken": pr.get("failed_at", "Props/%s.v" % pid),
                "errors": [e[-800:] for e in pr["errors"]]})
        else:
            v.violation(ck, "proof", {
                "why": "a proof obligation no longer checks", "broken": pr.get("failed_at", "Props/%s.v" % pid),
                "errors": [e[-1500:] for e in pr["errors"]]}, no_input=True)

    # ---------------- correspondence ----------------
    known = ck.load_known()
    if replay:
        rp = json.load(open(os.path.join(ck.ROOT, replay) if not os.path.isabs(replay) else replay))
        cases = rp.get("cases") or ([rp["case"]] if "case" in rp else [])
        if not cases and "failing_rows" in rp:
            rows = mod.table_oracle(table_lines) if hasattr(mod, "table_oracle") else []
            print("replay: table rows failing now: %s" % rows[:20])
            return 1 if rows or pr["errors"] else 0
        if not cases:
            print("replay: nothing to execute (broken: %s); proof step now: %s" % (rp.get("broken"), "FAILS" if pr["errors"] else "ok"))
            return 1 if pr["errors"] else 0
        origin = ["replay"] * len(cases)
    else:
        corpus = ck.corpus_cases(pid)
        gen = mod.gen(tier, rng)
        cases = corpus + gen
        origin = ["corpus"] * len(corpus) + ["gen"] * len(gen)
        if tier == "thorough" and os.environ.get("H264V_FUZZ_SECS", "120") != "0":
            # coverage-guided search for further inputs on which crate and model differ; what it finds is judged below like
            # any generated case (it only widens the set of inputs, it decides nothing)
            from vlib import fuzzdiff
            try:
                fcases, finfo = fuzzdiff.findings(ck, pid, mod, int(os.environ.get("H264V_FUZZ_SECS", "120")))
            except Exception as e:
                fcases, finfo = [], {"skipped": "fuzz step failed: %s" % e}
            cov["fuzz"] = finfo
            cases += fcases
            origin += ["fuzz"] * len(fcases)

    stats = {}
    if cases:
        results, crashes = ck.run_cases(cases, timeout=(3600 if tier == "thorough" else 1200), want_release=getattr(mod, "WANT_RELEASE", True))
        for kind, rc, err in crashes:
            print("PROCESS-CRASH: %s exited %s %s" % (kind, rc, err))
        bad = []
        distinct = set()
        for r, o in zip(results, origin):
            d = compare(mod, r)
            if hasattr(mod, "extra_check") and d is None:
                d = mod.extra_check(r)
            if hasattr(mod, "classify"):
                for key in mod.classify(r):
                    stats[key] = stats.get(key, 0) + 1
            if (mod.nontrivial(r) if hasattr(mod, "nontrivial") else True):
                distinct.add(r["case"])
            if d is not None:
                bad.append((r, d, o))
        if hasattr(mod, "cross_check"):
            for r, d in mod.cross_check(results):
                bad.append((r, d, "cross"))
        cov["evaluations"] = len(results)
        cov["model_out_of_stack"] = sum(1 for r in results if r["model"] and "MODEL-STACK-OVERFLOW" in r["model"])
        cov["distinct_nontrivial"] = len(distinct)
        cov["rule"] = getattr(mod, "RULE", "")
        cov["exhaustive"] = bool(getattr(mod, "EXHAUSTIVE", False))
        cov["distribution"] = stats
        cov["corpus_cases"] = origin.count("corpus")
        samp = [r for r in results[:: max(1, len(results) // 5)]][:5]
        cov["samples"] = [{"case": r["case"][:400], "impl": r["dev"][:400], "model": (r["model"] or "(implementation only)")[:400]} for r in samp]
        # shrink / pick the smallest failing case per kind
        bad.sort(key=lambda x: len(x[0]["case"]))
        seen_kinds = {}
        for r, (kind, detail), o in bad:
            k = match_known(known, pid, r["case"])
            if k:
                v.known.append(k)
                continue
            seen_kinds.setdefault(kind, []).append((r, detail, o))
        for kind, lst in seen_kinds.items():
            r, detail, o = lst[0]
            if hasattr(mod, "shrink"):
                try:
                    r = mod.shrink(ck, mod, r, compare) or r
                except Exception:
                    traceback.print_exc()
            payload = {"why": detail, "kind": kind, "case": r["case"], "impl_dev": r["dev"][:4000],
                       "impl_release": r.get("rel", "")[:4000], "model": (r["model"] or "(implementation only)")[:4000], "origin": o,
                       "failing_cases_of_this_kind": len(lst),
                       "broken": "correspondence implementation vs Coq model (%s)" % getattr(mod, "CORRESPONDENCE", pid)}
            if kind == "devrel" or (not replay and len(cases) > 1 and r["case"] in cases):
                # the answer may depend on what the same process handled before: keep the block of consecutive cases the
                # case ran in (the release build answers a block in the opposite order) so that the replay reproduces it
                try:
                    j = cases.index(r["case"])
                    lo = (j // 16) * 16
                    if kind == "devrel":
                        payload["cases"] = cases[max(0, lo - 16):lo + 32]
                        payload["note"] = ("debug and release differ; the release build answers the cases in the opposite order, so this is "
                                           "either build-dependent arithmetic or state carried from one call into the next (a static, a "
                                           "thread_local cache, a pooled buffer). `cases` holds the neighbourhood the case ran in")
                except ValueError:
                    pass
            v.violation(ck, h8(kind + r["case"]), payload, no_input=(kind in ("format", "errdiff", "modeldiff")))
            print("DISAGREEMENT[%s] %s\n  case : %s\n  impl : %s\n  model: %s" % (kind, detail, r["case"][:600], r["dev"][:600], (r["model"] or "")[:600]))
        # ---------------- extraction cross-check: vm_compute inside Coq vs the extracted binary ----------------
        from vlib import coqeval
        pool = [r for r in results if r["model"] is not None and not r["model"].startswith("<no answer") and len(r["case"]) < 900]
        xr = random.Random(seed * 7919 + int(pid[1:]))
        xr.shuffle(pool)
        budget, sample = getattr(mod, "XCHECK_CHARS", 9000), []
        for r in pool:
            if len(sample) >= (getattr(mod, "XCHECK_N", 20) if tier != "thorough" else 4 * getattr(mod, "XCHECK_N", 20)):
                break
            if budget - len(r["case"]) < 0:
                continue
            budget -= len(r["case"])
            sample.append((r["case"], r["model"]))
        n_x, xerr, xfail = coqeval.cross_check(ck.COQ, os.path.join(ck.ROOT, "work"), sample)
        cov["extraction_crosscheck"] = {"cases": n_x, "agree": xerr is None}
        if xerr is not None:
            print("XCHECK: vm_compute in Coq and the extracted modelrun disagree on: %s\n%s" % (xfail, xerr[-800:]))
            v.violation(ck, "xcheck", {"why": "the extracted model binary does not compute what the Coq definitions compute (extraction / OCaml driver)",
                                       "case": xfail, "coqc": xerr[-1500:], "broken": "extraction cross-check (vlib/coqeval.py)"}, no_input=True)
    else:
        cov["evaluations"] = 0
        cov["distinct_nontrivial"] = 0
    if hasattr(mod, "table_oracle"):
        rows = mod.table_oracle(table_lines)
        cov["table_rows_checked"] = sum(tcounts.values())
        if rows and not pr["errors"]:
            v.violation(ck, "table-" + h8(json.dumps(rows)), {"why": "table oracle fails although the proof compiled (oracle/theorem mismatch)",
                                                              "failing_rows": rows[:20]})
    if replay:
        print("replay: %s" % ("still failing" if v.violations else "passes now"))
    return finish(ck, v, evidence, t0, write=not replay)


def finish(ck, v, evidence, t0, write=True):
    evidence["wall_s"] = round(time.time() - t0, 2)
    evidence["violations"] = len(v.violations)
    cov = evidence["coverage"]
    cov.setdefault("obligations", 0)
    cov.setdefault("discharged", 0)
    cov.setdefault("evaluations", 0)
    cov.setdefault("distinct_nontrivial", 0)
    if write:
        ck.write_json(os.path.join(ck.ROOT, "evidence", evidence["property_id"] + ".json"), evidence)
    seen = set()
    for k in v.known:
        if k["id"] not in seen:
            seen.add(k["id"])
            print("KNOWN-FINDING: property=%s %s" % (k["property"], k.get("what", k.get("line", k["id"]))))
    for path, suffix in v.violations:
        print("VIOLATION property=%s replay=%s%s" % (v.pid, path, suffix))
    if not v.violations:
        print("OK %s: %d/%d theorems, %d cases (%d non-trivial distinct), %.1fs" % (
            v.pid, cov["discharged"], cov["obligations"], cov["evaluations"], cov["distinct_nontrivial"], evidence["wall_s"]))
    return 1 if v.violations else 0
