"""Coverage-guided search for implementation/model disagreements (thorough tier; support for the correspondence, never a verdict).
The fuzz target (harness/fuzz/fuzz_targets/diff.rs) answers each mutated case line with the crate (in process) and with the
extracted model (child process) and records the cases on which the two differ; the runner then judges those cases like any
generated case (canonicalisation, property-level agreement, oracles).  Needs the nightly toolchain with cargo-fuzz (present in
this sandbox, works offline); when the build is not possible the step is skipped and the evidence says so."""
import os, random, importlib, subprocess, shutil, hashlib

SUPPORTED = ("sps", "pps", "slice", "sei", "bp", "pt", "t35", "avcc", "decode_nal", "bits", "rbsp", "refnal", "annexb")


def corpus_for(ck, pid, mod, limit=4000):
    rng = random.Random(1000003 + int(pid[1:]))
    cases = [c for c in ck.corpus_cases(pid) + mod.gen("quick", rng) if not c.startswith("!") and c.split()[0] in SUPPORTED and len(c) < 1500]
    rng.shuffle(cases)
    return cases[:limit]


def findings(ck, pid, mod, secs=120, keep=False):
    """-> (cases on which crate and model answered differently, info dict for the evidence)"""
    info = {"seconds": secs}
    env = dict(ck.ENV, CARGO_NET_OFFLINE="true", H264V_MODELRUN=ck.MODELRUN)
    try:
        rc, out = ck.sh(["cargo", "+nightly", "fuzz", "build", "diff"], cwd=ck.HARNESS, timeout=1800, env=env)
    except Exception as e:          # no cargo / timeout
        rc, out = 1, str(e)
    if rc != 0:
        info["skipped"] = "fuzz target could not be built: " + out[-300:]
        return [], info
    cs = corpus_for(ck, pid, mod)
    if not cs:
        info["skipped"] = "no case of a command the fuzz target understands"
        return [], info
    work = os.path.join(ck.ROOT, "work", "fuzz_" + pid)
    shutil.rmtree(work, ignore_errors=True)
    os.makedirs(work + "/corpus")
    for c in cs:
        open(os.path.join(work, "corpus", hashlib.sha1(c.encode()).hexdigest()[:16]), "w").write(c)
    out_file = os.path.join(work, "findings.txt")
    cmd = ["cargo", "+nightly", "fuzz", "run", "diff", work + "/corpus", "--", "-max_total_time=%d" % secs, "-seed=%d" % (7 + int(pid[1:]) + 1000 * int(os.environ.get("H264V_FUZZ_SEED", "0"))),
           "-max_len=4000", "-len_control=0", "-rss_limit_mb=4000", "-timeout=20", "-print_final_stats=1"]
    try:
        p = subprocess.run(cmd, cwd=ck.HARNESS, env=dict(env, H264V_FUZZ_OUT=out_file), stdout=subprocess.PIPE, stderr=subprocess.STDOUT,
                           text=True, timeout=secs + 900)
        txt, frc = p.stdout, p.returncode
    except subprocess.TimeoutExpired as e:
        txt, frc = (e.stdout.decode() if isinstance(e.stdout, bytes) else (e.stdout or "")), -9
    for l in txt.splitlines():
        if l.startswith("stat::number_of_executed_units"):
            info["executions"] = int(l.split(":")[-1])
        if l.startswith("stat::new_units_added"):
            info["new_units"] = int(l.split(":")[-1])
    info["seeds"] = len(cs)
    info["fuzzer_exit"] = frc
    found = open(out_file).read().splitlines() if os.path.exists(out_file) else []
    # a crash of the fuzz process itself (not a recorded disagreement): keep the crashing input as a case too
    art = os.path.join(ck.HARNESS, "fuzz", "artifacts", "diff")
    if frc not in (0, -9) and os.path.isdir(art):
        for f in sorted(os.listdir(art))[-3:]:
            try:
                line = open(os.path.join(art, f), errors="replace").read().strip()
                if line and line.split()[0] in SUPPORTED and line.isascii():
                    found.append(line)
            except Exception:
                pass
    info["raw_disagreements"] = len(found)
    if not keep:
        shutil.rmtree(work + "/corpus", ignore_errors=True)
    return found, info
