#!/usr/bin/env python3
"""Writes MANIFEST.json from the list of claimed properties (keeps it valid at all times)."""
import json, os, sys
ROOT = os.path.dirname(os.path.dirname(os.path.abspath(__file__)))
sys.path.insert(0, ROOT)
import importlib

CLAIMED = {
    # id: (technique, level text, level note, design ref)
    "C20": ("Coq theorems by complete enumeration (vm_compute + forallb_forall) over the tables dumped from the real crate on every run",
            "Proof: each statement of C20 is a Coq theorem about the implementation's own complete input/output graph (256 header bytes, 256 unit type ids, 256 profile bytes, 65536 flag/level pairs, 256 flag bytes, id constructors on the probe set), regenerated from /repo on every run; a finite domain swept completely is a proof, the bound is in the statement.",
            "Trusted: Coq kernel + vm_compute; the 60-line dump loop in harness/src/syntax.rs; id constructors beyond the probe set rest on the model (x > 31 / x > 255) tied by the parser correspondence.",
            "DESIGN.md 5 C20, 2.4"),
    "C07": ("Coq proof (induction on bits, N arithmetic) of the bit-reader model against clause 9.1 encoders + differential execution of model and crate",
            "Proof: read_ue/read_se/read_u of the model decode every codeword (all 2^32-1 codeNums, all widths) to the standard's value, consume exactly the codeword, reject >=32 leading zeros and truncated codewords, and never overflow; for arbitrary surrounding bits (hence any offset). The model is tied to rbsp::BitReader by running both on thousands of codeword sequences over contiguous, chunked and incomplete sources.",
            "Trusted: Coq kernel; bitstream-io modelled at documentation level; correspondence bounded by the generator (all codewords with prefix <= 10 (quick) / 15 (thorough), boundaries beyond).",
            "DESIGN.md 5 C07"),
    "C14": ("Coq proof (list induction) characterising has_more_rbsp_data / finish_rbsp / finish_sei_payload of the model + exhaustive differential execution on short bit strings at every position",
            "Proof: for every bit source (= every position of every RBSP) the model's more-data query is true iff a 1 lies strictly after the current bit and returns the source unchanged; finish_rbsp succeeds iff the remainder is 1 0^k, reports remaining data iff a later 1 exists and a read error otherwise; finish_sei_payload additionally accepts an empty remainder. Tied to rbsp::BitReader by exhaustive runs over all strings <= 2 bytes x all positions plus sampled NAL-path cases with cabac_zero_words, chunked and incomplete.",
            "Trusted: Coq kernel; bitstream-io modelled at documentation level; an independent Python oracle re-evaluates the property text on contiguous inputs.",
            "DESIGN.md 5 C14"),
    "C15": ("Coq proof (invariant over operation sequences) that the chunk-reader model delivers head ++ concat tail + differential execution incl. clones",
            "Proof: under RefNal::new's precondition (non-empty chunks) every sequence of read/fill_buf/consume hands over a prefix of the concatenated chunks with `delivered ++ remaining = all` as invariant; at the end a complete NAL reports EOF forever, an incomplete one WouldBlock forever and never EOF; header accessors of the model equal the implementation's dumped table. Tied to nal::RefNalReader by exhaustive small-scope runs (strings <= 5, all partitions, random valid scripts with clones).",
            "Trusted: Coq kernel; clone independence is by construction in the model and observed on the real reader by forking it in the harness.",
            "DESIGN.md 5 C15"),
    "C08": ("Coq proof (induction over delivery histories) that the accumulator model refines a whole-history specification + exhaustive differential execution over histories x policies",
            "Proof: for every history of fragment deliveries with non-empty slices and every Buffer/Ignore policy, the invocations of the model equal the specification (all bytes of the current NAL so far, complete iff this delivery ended it, silence after Ignore and for empty NALs), the end of a NAL restores the initial state, and a never-ignored non-empty NAL gets exactly one complete invocation. Tied to push::NalAccumulator by all histories <= 4 deliveries x all policies plus random long ones; an independent Python oracle replays the property text.",
            "Trusted: Coq kernel; precondition of nal_fragment (non-empty slices) as stated by the trait.",
            "DESIGN.md 5 C08"),
    "C01": ("Coq refinement proof: per-push invariant (model = byte-at-a-time abstract machine), fold over pieces, abstract machine + reset = whole-stream start-code segmentation; differential execution on all short streams x all partitions",
            "Proof: for every list of pushed pieces (empty ones included) the calls made by the model, followed by reset, deliver exactly segment(concat pieces) - the Annex B segmentation written as a function of the whole stream - with nothing left open; and without reset any two partitions of one stream leave the same state and the same delivered units/open bytes. The model makes the same calls with the same slices as annexb.rs (raw traces compared on every run: all streams <= 6 bytes over {00,01,02} x all partitions, longer sampled, grammar streams to 8 KiB); an independent Python segmentation oracle is evaluated on the implementation's own units.",
            "Trusted: Coq kernel; slices-as-lists abstraction ((fake,start) carried as (fake, buf[start..i])), memchr as per-byte steps - both exercised by the raw-trace comparison.",
            "DESIGN.md 5 C01, Appendix A.1"),
    "C18": ("Coq proof over all operation sequences (call shape lemma for maybe_emit/reset, reset = initial state, end count = number of units via the C01 refinement) + differential execution with resets at every cut",
            "Proof: every call made by any sequence of pushes/resets from any state passes only non-empty slices and is slice-less only with end=true; reset outside a unit makes no call; reset returns the reader to its initial state (the only cross-call memory), so later behaviour equals a new reader's; a reset-terminated section makes exactly as many end calls as its stream has units. Tied to annexb.rs by raw-trace equality on all streams <= 5 bytes x all partitions x resets at every cut, replayed against a fresh reader.",
            "Trusted: as C01.",
            "DESIGN.md 5 C18"),
    "C19": ("Coq proof (induction over insertion histories) that the Vec<Option<T>> map model is a last-writer-wins map + exhaustive differential execution through the public Context API",
            "Proof: lookup after any sequence of insertions returns the last value written under that id and nothing otherwise; iteration yields the stored values once each in increasing id order; the SPS and PPS stores are independent; lookups made by the PPS/slice/buffering-period models see the latest definition. Tied to lib.rs by all histories <= 3 insertions over boundary ids (0,1,2,30,31 / 0,1,31,32,254,255) with lookups of every id and iteration, plus random long histories over the full ranges.",
            "Trusted: Coq kernel; insertions use parameter sets obtained from the parsers (the only public way).",
            "DESIGN.md 5 C19"),
    "C16": ("Coq weakest-precondition proofs through the whole SPS / PPS / slice-header parser models (every read, check and loop) + exhaustive differential execution on all short RBSPs",
            "Proof: for every input the SPS model never aborts and an accepted SPS satisfies inv_sps (id < 32, log2 sizes <= 12+4, bit depths <= 6+8, <= 255 POC offsets, 1..32 CPBs, restriction fields <= 16 and consistent with max_num_ref_frames, 6+2|6 scaling lists of 16/64 non-zero entries); under any context of accepted SPS an accepted PPS satisfies inv_pps (refers to a context SPS, ref counts <= 32, <= 8 groups, offsets in range); under any context of accepted sets an accepted slice header satisfies inv_slice (frame_num / POC lsb below moduli, ref counts <= 32, QS 0..51, returned ids name context entries); contexts are closed under insertion of accepted sets. Tied to the crate by all RBSPs <= 2 bytes per parser under 4 contexts plus mutated valid sets, with the invariants re-evaluated on the implementation's own results.",
            "Trusted: Coq kernel; parser models tied by correspondence (C04-C06 generators too).",
            "DESIGN.md 5 C16"),
    "C13": ("Coq proof (case analysis + nia over N/Z) of the model's pixel_dimensions against the standard's formulas; complete table sweeps for level/profile; differential execution with an independent integer oracle",
            "Proof: for every SPS with ue-range sizes, pixel_dimensions of the model returns the standard's cropped frame size exactly when every product fits 32 bits and the crop lies within the picture, an error otherwise, never a panic; fps is the exact rational time_scale/(2*num_units_in_tick); the +1 / saturating helpers never overflow on accepted SPS; all 256 profile bytes and 65536 (flags, level) pairs of the implementation map back to their idc (theorems about the dumped tables). Tied to the crate on extreme-value SPS; fps compared as the correctly rounded f64.",
            "Trusted: Coq kernel; f64 division and rfc6381-codec's Display are modelled, not verified.",
            "DESIGN.md 5 C13"),
    "C09": ("Coq proof (index-bound invariant of the construction walk; list lemmas for built records) + differential execution on built, truncated and mutated records",
            "Proof: records built from <= 31 SPS and <= 255 PPS NALs of <= 65535 bytes (any reserved bits, any trailing bytes) are accepted and both iterators yield exactly the NAL byte strings in order; construction never panics; once construction has succeeded on any bytes whatsoever both iterators return (every yielded NAL non-empty) and create_context cannot panic (it folds the model SPS/PPS parsers, total by C16's proofs); every truncation below the end of the declared sets is refused with NotEnoughData; a version other than 1 is refused. Tied to avcc.rs by generated/truncated/mutated records incl. zero-length entries.",
            "Trusted: Coq kernel; slice indexing modelled as index-checked nth (out of bounds = PANIC).",
            "DESIGN.md 5 C09"),
    "C10": ("Coq proof (induction over message lists; arithmetic of the 0xFF size coding) + differential execution over message lists, truncations, chunked and escaped NALs",
            "Proof: for every non-empty list of messages with 32-bit types and sizes the model reader returns exactly those messages (type 128 in any position) then the end on every further call; after the end or any error it is done forever; a returned payload always lies within the buffered data; next() never aborts. Tied to SeiReader::next through contiguous RBSP, escaped chunked NALs, incomplete NALs, every truncation and repeated calls after the end.",
            "Trusted: Coq kernel; the byte source abstracts the RBSP reader by what it delivers before its first error (C02 model).",
            "DESIGN.md 5 C10"),
    "C03": ("Coq totality theorems (no PANIC / no FUEL outcome) for the model entry points under contexts reachable by accepted inputs + differential execution in debug (overflow checks, debug assertions) and release builds with a counting allocator",
            "Proof: bit reader, SPS, PPS (any accepted-SPS context incl. 2^32-macroblock sizes), slice header (fuelled loops never run out), SEI reader and payload parsers, AVCC construction/iterators/context creation, SPS helpers and the chunk reader never abort in the model; SEI payloads handed out lie within the buffered data. Partial: Annex B push/reset and the accumulator are total functions of the model by construction; ByteReader totality is checked by correspondence only; wall-clock linearity and real allocator behaviour are observed (size doubling to 256 KiB / 1 MiB, largest single request <= 300 x input + 1 MiB, dev = release answers), not proved.",
            "Trusted: Coq kernel; std, memchr, bitstream-io, rfc6381-codec, hex-slice, log; documented preconditions (consume <= buffer, non-empty RefNal chunks, matching payload_type).",
            "DESIGN.md 5 C03"),
    "C04": ("Coq round-trip proof of the SPS parser model against the standard's syntax written as an encoder (compositional Parses judgement, incl. scaling-list derivation, VUI, HRD) + weakest-precondition proof for accepted inputs + differential execution on generated conforming and malformed SPS",
            "Proof: for every SPS value within the standard's ranges (wf_sps: all 13 chroma-info profiles, chroma formats, bit depths, 8/12 scaling lists given by their delta_scale values with wrap-around / early termination / use-default, POC types with <= 255 offsets, frame/field/MBAFF, cropping, every VUI/HRD sub-structure, 32-bit Exp-Golomb values) parsing enc_sps(x) ++ trailing bits returns exactly x (derived scaling lists included), and succeeds iff what follows the structure is 1 0^k; the model's chroma-info profile list equals the implementation's (dumped table). Converse proved in part (C04_converse_partial: every accepted input is consumed front to back into a value satisfying inv_sps); the bit-exact re-encoding of accepted inputs is checked by correspondence + generator only. Tied to SeqParameterSet::from_bits on >40k generated cases per run (full Debug rendering + derived values).",
            "Trusted: Coq kernel; Spec/SyntaxSps.v is a hand transcription of 7.3.2.1.1, 7.3.2.1.1.1, E.1.1, E.1.2.",
            "DESIGN.md 5 C04"),
    "C02": ("Coq refinement proof: the chunked, windowed ByteReader model (fill_buf / consume / read histories, header skip, drain loop) and decode_nal (with its Cow variant) equal the specification function unescape for every input, chunking, window and history; unescape(escape p) = p; model tied to src/rbsp.rs by exhaustive small-scope differential execution plus an independent reference unescape",
            "Proof: Spec/Escape.v states 7.4.1 on whole byte strings. Theorems (Props/C02.v): unescape (escape p) = Some p; refusal of 00 00 00 and 00 00 03 xx(>03); C02_stream_history - for every chunking of the underlying reader (all chunks non-empty), every examination window >= 1, every header skip within the input and every sequence of fill_buf / consume(k) / read(n) calls, the bytes handed over are a prefix of unescape(payload), WouldBlock occurs only on an incomplete NAL after everything was delivered, InvalidData only when the payload is not clean and then everything delivered comes from a clean prefix, and the model never panics or runs out of fuel; C02_stream_drain - reading to the end yields exactly unescape(payload); C02_paths_agree - any two chunkings/windows of the same bytes give the same RBSP; C02_decode_nal - decode_nal nal = unescape(tl nal), Borrowed exactly when the output has the input's length, which (C02_borrow_iff_unchanged) is exactly when it equals the input. Proof route: scanner automaton uout = unescape (RbspSem), scan loop lemma (RbspScan), invariant + meaning preserved by try_fill_buf_slow/fill loop/fill_buf/consume/read with a termination measure (RbspReader), histories/drain/decode_nal (RbspStream). Correspondence on every run: all strings <= 6 over {00,01,03,04} x all partitions x 4 read styles x skips 0..2 x hook windows 1..4; escapes and forbidden sequences around offsets 125..131 / 253..259 of 120..4000-byte chunks; random escaped payloads; model = implementation on every operation result, implementation = reference unescape on drains and decode_nal.",
            "Trusted: Coq kernel; the correspondence run ties Model/Rbsp.v to src/rbsp.rs (generator bounds detection of model/code divergence: chunks > 128 bytes are covered by the window cases and the corpus); decode_nal theorem assumes the slice length fits usize.",
            "DESIGN.md 5 C02"),
    "C05": ("Coq round-trip proof against a spec encoder of 7.3.2.2 (all slice-group map types, optional tail, picture scaling lists) over every context of accepted SPS + weakest-precondition proof for accepted PPS + exact tail detection; model tied to src/nal/pps.rs by differential execution on generated conforming and malformed PPS",
            "Proof: Spec/SyntaxPps.v writes pic_parameter_set_rbsp as an encoder (enc_pps) with the standard's ranges (wf_pps, relative to the referenced SPS: run lengths / rectangles / change rate against PicSizeInMapUnits, slice_group_id width Ceil(Log2(n+1)), QP range with QpBdOffset, 6+(2|6) scaling lists). C05_roundtrip: for every context whose SPS were accepted and every conforming PPS, pps_from_bits (enc_pps p ++ rbsp trailing bits with any zero padding) = OK p, field for field; C05_body: the structure parser stops exactly at the trailing bits; C05_tail_exact: the optional tail is detected exactly when data precedes the trailing bits; C05_accepted / C05_consumes: every accepted PPS (any input) satisfies inv_pps and was consumed front to back, never aborting. Correspondence on every run: all 7 map types x 2..8 groups x tail on/off x list shapes x SPS variants, boundary values, malformed variants, model = implementation.",
            "Trusted: Coq kernel; the correspondence run ties Model/Pps.v to src/nal/pps.rs; Python generator/encoder shapes inputs only.",
            "DESIGN.md 5 C05"),
    "C06": ("Coq round-trip proof against a spec encoder of 7.3.3 / 7.3.3.1-3 (presence conditions as in the standard, reader left on the first bit of slice data) over every context of accepted parameter sets + weakest-precondition totality/invariant proof; model tied to src/nal/slice/mod.rs by differential execution over all flag combinations",
            "Proof: Spec/SyntaxSlice.v writes slice_header, ref_pic_list_modification, pred_weight_table and dec_ref_pic_marking as an encoder relative to the NAL header byte and the activated PPS/SPS; wf_slice states for every element the standard's presence condition (slice type family, NAL type 5, nal_ref_idc, separate_colour_plane, frame_mbs_only, POC type with bottom-field flag and field_pic, redundant_pic_cnt_present, weighted_pred/bipred, entropy_coding_mode, deblocking control) and the representable ranges; B slices with an explicit weight table are excluded as the property says, and the two deblocking offsets and slice_qs_delta, which the library does not store, are extra encoder inputs / recovered from SliceQS. C06_roundtrip: for every context of accepted sets, every conforming header and every following slice data `rest` (on any source kind), slice_header_read returns exactly the structure, the activated SPS and PPS ids, and the source positioned on `rest`. C06_accepted: for every input the parser never aborts (its unbounded loops never run out of fuel), consumes front to back and an accepted header satisfies inv_slice. Correspondence on every run: all slice types x NAL types x ref_idc x 2^13 context flag combinations with boundary values; the 16 bits after the header must be the generated slice data; model = implementation.",
            "Trusted: Coq kernel; the correspondence run ties Model/Slice.v to src/nal/slice/mod.rs; Python encoder of 7.3.3 shapes the inputs. Not covered (as the property allows): PPS with evolving slice groups (slice_group_change_cycle is not parsed by the library).",
            "DESIGN.md 5 C06"),
    "C11": ("Coq round-trip proofs of buffering_period (D.1.2) and pic_timing (D.1.3) against spec encoders for every accepted SPS, two's-complement time offset lemma, T.35 parser theorems with a complete sweep of the dumped implementation table, totality; model tied to src/nal/sei/*.rs by differential execution over all VUI shapes",
            "Proof: Spec/SyntaxSei.v writes D.1.2 / D.1.3 as encoders relative to the SPS whose VUI selects presences and widths. C11_bp_roundtrip: for every context of accepted SPS and every payload whose bits are enc_bp of a conforming structure (one delay pair per CPB for each HRD present, width initial_cpb_removal_delay_length_minus1+1 of that HRD) followed by the SEI payload alignment, buffering_period_read returns exactly that structure. C11_pt_roundtrip: CPB/DPB delays exactly when either HRD is present, with the widths of the NAL HRD if present and else of the VCL HRD; pic_struct and exactly NumClockTS optional clock timestamps, each with ct_type, flags, counting type, n_frames, full or flagged seconds/minutes/hours, and a signed time offset of the declared width (time_offset_length of the NAL HRD, else VCL HRD, else 24; C11_time_offset_signed is the two's-complement law). T.35: the country code (or extension byte) is returned and the remainder starts immediately after it; the model's table equals the implementation's on all 256 first bytes incl. consumed length; distinct codes give distinct values. C11_total: neither parser aborts on any payload. Correspondence on every run: all VUI shapes (no VUI, NAL only, VCL only, both with distinct CPB counts, widths 1..32, time_offset_length 0..31, pic_struct on/off) x value extremes, model = implementation.",
            "Trusted: Coq kernel; the correspondence run ties Model/Sei.v to src/nal/sei/buffering_period.rs, pic_timing.rs, user_data_registered_itu_t_t35.rs; the T.35 table is regenerated from the implementation every run.",
            "DESIGN.md 5 C11"),
    "C12": ("Composition of proved links (C01 framing, C08 accumulation, escape/unescape laws) + differential execution of the whole pipeline model against AnnexBReader::accumulate with a parsing handler",
            "Partial proof: the links are theorems (units = segmentation for every partition; one complete invocation per NAL with all bytes; escape produces no start codes and unescape inverts it); the composed statement (segment (annexb_encode nals) = nals, and parsing inside the handler = parsing alone) is executed, not proved: generated SPS/PPS/SEI/slice sequences with 3-/4-byte start codes, zero padding, payloads to 8 KiB x partitions {1,2,3,127,128,129,16,32,64,random,whole} x Buffer/Ignore policies, also with parameter sets from an AVC configuration record; every NAL also parsed alone in the same run.",
            "Trusted: Coq kernel for the links; pipeline glue (Model/Driver.v) validated by correspondence only.",
            "DESIGN.md 5 C12"),
    "C17": ("Coq monotonicity proofs (prefix presented as incomplete vs whole) for all primitives, combinators and the whole SPS, PPS and slice-header parsers incl. fuel-insensitivity of their loops, SEI reader prefix theorem, and the proof that the byte layers (C15 + C02) present a partial clean NAL as a prefix bit source with a would-block tail; purity/scratch reuse by differential execution",
            "Proof: C17_partial_view - for every clean NAL in any chunking and every prefix of its bytes in any chunking presented as an incomplete NAL, the bit sources built by chunk reader + RBSP reader are in the prefix relation (tail WouldBlock vs Eof; the complete one is the unescaped payload). mono: on the prefix a parser blocks, or returns the same value with sources still related, or fails where the whole fails: proved for read_bool/u/ue/se/skip/has_more_rbsp_data, bind/rep, and the whole SPS, PPS (any context) and slice-header (any context, any NAL header) parsers; their loops whose fuel is taken from the source length are proved insensitive to the larger fuel of the longer source. SPS and PPS never return a value on a proper prefix (they need the end of the RBSP); a slice header accepted from a prefix equals the one from the whole NAL. C17_sei_reader: on a prefix the SEI reader yields a prefix of the complete message sequence, then blocks (or fails as the whole does), never reporting the end. buffering_period / pic_timing / T.35 parse only complete payloads handed over by the SEI reader. Purity: model functions are values. Correspondence on every run: all prefixes x chunkings of generated and mutated NALs with cross-check prefix vs whole, repeated invocation with dirty scratch (pure=1).",
            "Trusted: Coq kernel; the correspondence run ties the models to the crate; reuse of scratch storage is a run-time facet observed, not proved.",
            "DESIGN.md 5 C17"),
}

PENDING_REASON = "not claimed yet in this revision: model and theorems for this layer are still being built (see DESIGN.md section 9 for the order of work)"

def main():
    props = [json.loads(l) for l in open(os.path.join(ROOT, "properties.jsonl"))]
    checks, na = [], []
    for p in props:
        pid = p["id"]
        if pid in CLAIMED and os.path.exists(os.path.join(ROOT, "vlib", "props", pid + ".py")):
            tech, text, note, ref = CLAIMED[pid]
            checks.append({
                "property_id": pid,
                "quick_cmd": "python3 check.py %s --tier quick" % pid,
                "thorough_cmd": "python3 check.py %s --tier thorough" % pid,
                "evidence_file": "/verif/evidence/%s.json" % pid,
                "replay_cmd_template": "python3 check.py %s --replay {path}" % pid,
                "engine": "coq-model+correspondence",
                "level_claimed": {"category": "proof", "text": text, "design_ref": ref},
                "level_note": note,
                "technique": tech,
            })
        else:
            na.append({"property_id": pid, "reason": PENDING_REASON})
    m = {
        "version": 1,
        "setup_cmd": "python3 check.py --setup",
        "hooks": {
            "guard": "h264_reader_verif",
            "enable": "RUSTFLAGS='--cfg h264_reader_verif' cargo build (harness/ depends on /repo by path; check.py sets it)",
            "baseline_off_cmd": "cd /repo && cargo test --workspace --no-fail-fast --offline",
            "source_commits": ["86a1003"],
            "add_only": True,
        },
        "engines": [{
            "name": "coq-model+correspondence",
            "path": "/verif/check.py",
            "serves_properties": [c["property_id"] for c in checks],
            "kind_free_text": "Coq 8.16 theorems over a hand-written executable model (coq/), tied to /repo by differential execution of the real crate (harness/) against the extracted model (ocaml/) and by theorems proved about tables dumped from the crate on every run",
        }],
        "checks": checks,
        "not_applicable": na,
        "notes": "See DESIGN.md. known_findings.json lists 13 genuine defects, all repaired by fix: commits in /repo.",
    }
    with open(os.path.join(ROOT, "MANIFEST.json"), "w") as f:
        json.dump(m, f, indent=1)
    print("MANIFEST.json: %d checks, %d not applicable" % (len(checks), len(na)))

if __name__ == "__main__":
    main()
