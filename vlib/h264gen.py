"""Generator-side encoders of H.264 syntax structures (7.3.2.1, E.1.1, 7.3.2.2, 7.3.3, D.1).
They shape inputs for the correspondence check: mostly-conforming streams with boundary values.
Nothing here decides a verdict (the Coq specs do that, on the model)."""
from vlib.bitgen import BitWriter, escape, hx

UE_MAX = (1 << 32) - 2
SE_MAX = (1 << 31) - 1
CHROMA_PROFILES = [100, 110, 122, 244, 44, 83, 86, 118, 128, 138, 139, 134, 135]


def pick(rng, choices):
    return choices[rng.randrange(len(choices))]


def ue_val(rng, bound=None, big=False):
    """a ue(v) value: small mostly, sometimes at a boundary"""
    if bound is not None:
        c = [0, 1, bound // 2, max(0, bound - 1), bound]
        return pick(rng, c)
    r = rng.random()
    if r < 0.6:
        return rng.randrange(0, 8)
    if r < 0.8:
        return rng.randrange(0, 300)
    if big or r < 0.9:
        return pick(rng, [255, 256, 65535, 65536, (1 << 31) - 1, 1 << 31, UE_MAX - 1, UE_MAX])
    return rng.randrange(0, 1 << 16)


def se_val(rng, lo=None, hi=None):
    if lo is not None:
        return pick(rng, [lo, lo + 1, 0, hi - 1, hi, rng.randrange(lo, hi + 1)])
    r = rng.random()
    if r < 0.6:
        return rng.randrange(-8, 9)
    if r < 0.85:
        return rng.randrange(-70000, 70000)
    return pick(rng, [SE_MAX, -SE_MAX, SE_MAX - 1, -(1 << 30), 1 << 30])


# ------------------------------------------------------------------ scaling lists

def gen_scaling_list(rng, size):
    """returns list of delta_scale values actually coded (stops after next_scale hits 0)"""
    mode = rng.randrange(5)
    deltas = []
    last, nxt = 8, 8
    for j in range(size):
        if nxt == 0:
            break
        if mode == 0:
            d = -8 if j == 0 else 0          # use default
        elif mode == 1:
            d = rng.randrange(-128, 128)     # arbitrary, wrap-around
        elif mode == 2:
            d = rng.choice([0, 1, -1, 127, -128])
        elif mode == 3:
            d = rng.randrange(-3, 4) if j < rng.randrange(1, size + 1) else -last  # early termination
        else:
            d = rng.choice([248 - 256, 8, -7])
        d = max(-128, min(127, d))
        deltas.append(d)
        nxt = (last + d + 256) % 256
        if nxt != 0:
            last = nxt
    return deltas


# values with a meaning of their own in the standard (Tables 7-3, 7-4: the default lists; Flat_4x4_16 / Flat_8x8_16): coded
# explicitly they are explicit lists like any other
DEFAULT_4x4_INTRA = [6, 13, 13, 20, 20, 20, 28, 28, 28, 28, 32, 32, 32, 37, 37, 42]
DEFAULT_4x4_INTER = [10, 14, 14, 20, 20, 20, 24, 24, 24, 24, 27, 27, 27, 30, 30, 34]
DEFAULT_8x8_INTRA = [6, 10, 10, 13, 11, 13, 16, 16, 16, 16, 18, 18, 18, 18, 18, 23, 23, 23, 23, 23, 23, 25, 25, 25, 25, 25, 25, 25,
                     27, 27, 27, 27, 27, 27, 27, 27, 29, 29, 29, 29, 29, 29, 29, 31, 31, 31, 31, 31, 31, 33, 33, 33, 33, 33,
                     36, 36, 36, 36, 38, 38, 38, 40, 40, 42]
DEFAULT_8x8_INTER = [9, 13, 13, 15, 13, 15, 17, 17, 17, 17, 19, 19, 19, 19, 19, 21, 21, 21, 21, 21, 21, 22, 22, 22, 22, 22, 22, 22,
                     24, 24, 24, 24, 24, 24, 24, 24, 25, 25, 25, 25, 25, 25, 25, 27, 27, 27, 27, 27, 27, 28, 28, 28, 28, 28,
                     30, 30, 30, 30, 32, 32, 32, 33, 33, 35]


def explicit_deltas(values):
    """delta_scale sequence coding exactly these values (7.3.2.1.1.1), never terminating early"""
    out, last = [], 8
    for v in values:
        d = (v - last + 128) % 256 - 128
        out.append(d)
        last = v
    return out


def enc_scaling_lists(w, rng, count):
    for i in range(count):
        present = rng.random() < 0.6
        w.b(present)
        if present:
            n = 16 if i < 6 else 64
            r = rng.random()
            if r < 0.12:
                # one of the standard's own tables, in the slot it belongs to or in another one, or a flat list
                tabs = [DEFAULT_4x4_INTRA, DEFAULT_4x4_INTER, [16] * 16] if n == 16 else [DEFAULT_8x8_INTRA, DEFAULT_8x8_INTER, [16] * 64]
                own = tabs[0 if (i < 3 or (i >= 6 and i % 2 == 0)) else 1]
                vals = list(own if rng.random() < 0.6 else rng.choice(tabs))
                if rng.random() < 0.2:
                    vals[rng.randrange(n)] += 1
                for d in explicit_deltas(vals):
                    w.se(d)
            else:
                for d in gen_scaling_list(rng, n):
                    w.se(d)


# ------------------------------------------------------------------ SPS

def gen_hrd(rng, force_cnt=None):
    cnt = force_cnt if force_cnt is not None else pick(rng, [0, 0, 0, 1, 2, 31])
    return {"cpb_cnt_minus1": cnt, "bit_rate_scale": rng.randrange(16), "cpb_size_scale": rng.randrange(16),
            "cpbs": [(ue_val(rng), ue_val(rng), rng.random() < 0.5) for _ in range(cnt + 1)],
            "icrdl": rng.choice([0, 1, 15, 23, 31]), "crdl": rng.choice([0, 1, 15, 23, 31]), "dodl": rng.choice([0, 1, 15, 23, 31]),
            "tol": rng.choice([0, 1, 8, 24, 31])}


def enc_hrd(w, h):
    w.ue(h["cpb_cnt_minus1"]).u(4, h["bit_rate_scale"]).u(4, h["cpb_size_scale"])
    for a, b, c in h["cpbs"]:
        w.ue(a).ue(b).b(c)
    w.u(5, h["icrdl"]).u(5, h["crdl"]).u(5, h["dodl"]).u(5, h["tol"])


# (num_units_in_tick, time_scale) pairs in actual use: exact x/1001 bases, their decimal approximations, PAL / film / 90 kHz
BROADCAST_TIMING = [(1001, 30000), (1001, 60000), (1001, 24000), (1001, 48000), (1001, 120000), (2002, 120000), (1, 50), (1, 60), (1, 48),
                    (1, 25), (1, 30), (500, 60000), (100, 5994), (125, 5994), (50, 5994), (100, 2997), (1000, 59940), (1000, 23976),
                    (1000, 47952), (3003, 180000), (3600, 180000), (1800, 90000), (1501, 90000), (1, 120), (2002, 120001), (21, 1007),
                    (25, 2997), (50, 2997), (900900, 27000000), (1080000, 27000000)]


def gen_colour_description(rng):
    """present colour description; a quarter of them carry exactly the values the standard infers when it is absent (2, 2, 2 =
    unspecified), another quarter small registered code points, the rest arbitrary bytes"""
    c = rng.random()
    if c < 0.25:
        return (2, 2, 2)
    if c < 0.5:
        return tuple(rng.choice([0, 1, 2, 2, 5, 9, 16, 18]) for _ in range(3))
    return (rng.randrange(256), rng.randrange(256), rng.randrange(256))


def gen_vui(rng, max_num_ref_frames, shape=None):
    """shape: None (random) or dict forcing nal/vcl hrd presence etc."""
    v = {}
    v["aspect"] = rng.choice([None, None] + list(range(0, 19)) + [128, 200, 254, 255, 255])   # every table entry of aspect_ratio_idc
    v["sar"] = (rng.choice([0, 1, 65535]), rng.choice([0, 1, 65535]))
    v["overscan"] = pick(rng, [None, True, False])
    v["vst"] = None if rng.random() < 0.5 else {"vf": rng.randrange(8), "fr": rng.random() < 0.5,
                                                 "cd": None if rng.random() < 0.5 else gen_colour_description(rng)}
    v["chroma_loc"] = None if rng.random() < 0.6 else (ue_val(rng, 5), ue_val(rng, 5))
    v["timing"] = None if rng.random() < 0.4 else (pick(rng, [0, 1, 1001, 0xffffffff, rng.getrandbits(32)]),
                                                   pick(rng, [0, 1, 50, 60000, 0xffffffff, rng.getrandbits(32)]), rng.random() < 0.5)
    if v["timing"] is not None and rng.random() < 0.35:
        v["timing"] = rng.choice(BROADCAST_TIMING) + (rng.random() < 0.7,)
    nal = rng.random() < 0.4
    vcl = rng.random() < 0.4
    if shape is not None:
        nal, vcl = shape.get("nal", nal), shape.get("vcl", vcl)
    v["nal_hrd"] = gen_hrd(rng, shape.get("cnt") if shape else None) if nal else None
    v["vcl_hrd"] = gen_hrd(rng, shape.get("cnt2", shape.get("cnt")) if shape else None) if vcl else None
    v["low_delay"] = rng.random() < 0.5
    v["pic_struct_present"] = shape.get("ps", rng.random() < 0.5) if shape else rng.random() < 0.5
    if rng.random() < 0.5:
        mdfb = max_num_ref_frames + pick(rng, [0, 1, 5]) if max_num_ref_frames < UE_MAX - 5 else max_num_ref_frames
        v["restr"] = {"mv": rng.random() < 0.5, "a": ue_val(rng, 16), "b": ue_val(rng, 16), "c": ue_val(rng, 16), "d": ue_val(rng, 16),
                      "reorder": pick(rng, [0, min(1, mdfb), mdfb]), "mdfb": mdfb}
        if rng.random() < 0.2:
            # present, but carrying exactly the values E.2.1 infers when the restrictions are absent
            v["restr"].update({"mv": True, "a": 2, "b": 1, "c": 16, "d": 16})
    else:
        v["restr"] = None
    return v


def enc_vui(w, v):
    w.b(v["aspect"] is not None)
    if v["aspect"] is not None:
        w.u(8, v["aspect"])
        if v["aspect"] == 255:
            w.u(16, v["sar"][0]).u(16, v["sar"][1])
    w.b(v["overscan"] is not None)
    if v["overscan"] is not None:
        w.b(v["overscan"])
    w.b(v["vst"] is not None)
    if v["vst"] is not None:
        w.u(3, v["vst"]["vf"]).b(v["vst"]["fr"]).b(v["vst"]["cd"] is not None)
        if v["vst"]["cd"] is not None:
            for x in v["vst"]["cd"]:
                w.u(8, x)
    w.b(v["chroma_loc"] is not None)
    if v["chroma_loc"] is not None:
        w.ue(v["chroma_loc"][0]).ue(v["chroma_loc"][1])
    w.b(v["timing"] is not None)
    if v["timing"] is not None:
        w.u(32, v["timing"][0]).u(32, v["timing"][1]).b(v["timing"][2])
    for k in ("nal_hrd", "vcl_hrd"):
        w.b(v[k] is not None)
        if v[k] is not None:
            enc_hrd(w, v[k])
    if v["nal_hrd"] is not None or v["vcl_hrd"] is not None:
        w.b(v["low_delay"])
    w.b(v["pic_struct_present"])
    w.b(v["restr"] is not None)
    if v["restr"] is not None:
        r = v["restr"]
        w.b(r["mv"]).ue(r["a"]).ue(r["b"]).ue(r["c"]).ue(r["d"]).ue(r["reorder"]).ue(r["mdfb"])


COMMON_SIZES = [(119, 67, True), (119, 33, False), (119, 67, None), (79, 44, None), (44, 35, None), (44, 17, False), (44, 29, None),
                (21, 17, None), (10, 8, None), (39, 29, None), (239, 134, True), (159, 89, None), (119, 68, None), (120, 67, None)]


def gen_sps(rng, sps_id=None, small=False, vui_shape=None, force=None):
    """returns a dict of syntax element values; small=True keeps sizes/values small (for PPS/slice contexts)"""
    force = force or {}
    s = {}
    s["profile_idc"] = force.get("profile_idc", pick(rng, CHROMA_PROFILES + [66, 77, 88, 66, 77, rng.randrange(256)]))
    s["constraint_flags"] = rng.randrange(256)
    s["level_idc"] = pick(rng, [9, 10, 11, 12, 13, 20, 30, 31, 40, 41, 51, 62, rng.randrange(256)])
    s["id"] = sps_id if sps_id is not None else pick(rng, [0, 0, 1, 15, 31])
    s["has_chroma"] = s["profile_idc"] in CHROMA_PROFILES
    s["chroma_format_idc"] = force.get("chroma_format_idc", pick(rng, [0, 1, 1, 2, 3, 3]))
    s["separate_colour_plane"] = force.get("separate_colour_plane", rng.random() < 0.5)
    s["bit_depth_luma_minus8"] = force.get("bit_depth_luma_minus8", pick(rng, [0, 0, 2, 6]))
    s["bit_depth_chroma_minus8"] = pick(rng, [0, 0, 2, 6])
    s["qpprime"] = rng.random() < 0.3
    s["scaling_matrix"] = rng.random() < 0.35
    s["log2_max_frame_num_minus4"] = force.get("log2_max_frame_num_minus4", pick(rng, [0, 1, 4, 12]))
    s["poc_type"] = force.get("poc_type", pick(rng, [0, 0, 1, 2]))
    s["log2_max_poc_lsb_minus4"] = pick(rng, [0, 2, 12])
    s["delta_pic_order_always_zero"] = force.get("delta_pic_order_always_zero", rng.random() < 0.5)
    s["offset_non_ref"] = se_val(rng)
    s["offset_top_bottom"] = se_val(rng)
    ncyc = pick(rng, [0, 1, 2, 7, 255]) if not small else pick(rng, [0, 1, 2])
    s["offsets_ref_frame"] = [se_val(rng) for _ in range(ncyc)]
    s["max_num_ref_frames"] = ue_val(rng) if not small else rng.randrange(0, 5)
    s["gaps"] = rng.random() < 0.5
    if small:
        s["w"], s["h"] = rng.randrange(0, 12), rng.randrange(0, 12)
    else:
        s["w"], s["h"] = ue_val(rng, big=rng.random() < 0.3), ue_val(rng, big=rng.random() < 0.3)
    fmo = rng.random() < 0.6
    if not small and rng.random() < 0.15:
        # sizes real encoders produce (1080p/i, 720p, SD, CIF, QCIF, VGA, 4K) - with and without cropping
        s["w"], s["h"], f = rng.choice(COMMON_SIZES)
        fmo = f if f is not None else fmo
    s["w"] = force.get("w", s["w"])
    s["h"] = force.get("h", s["h"])
    s["frame_mbs_only"] = force.get("frame_mbs_only", fmo)
    s["mbaff"] = rng.random() < 0.5
    s["direct8x8"] = rng.random() < 0.5
    s["crop"] = None if rng.random() < 0.5 else tuple(ue_val(rng) if rng.random() < 0.8 else ue_val(rng, big=True) for _ in range(4))
    s["vui"] = gen_vui(rng, s["max_num_ref_frames"], vui_shape) if (vui_shape is not None or rng.random() < 0.6) else None
    return s


def enc_sps(s, rng, trailing=True):
    w = BitWriter()
    w.u(8, s["profile_idc"]).u(8, s["constraint_flags"]).u(8, s["level_idc"]).ue(s["id"])
    if s["has_chroma"]:
        w.ue(s["chroma_format_idc"])
        if s["chroma_format_idc"] == 3:
            w.b(s["separate_colour_plane"])
        w.ue(s["bit_depth_luma_minus8"]).ue(s["bit_depth_chroma_minus8"]).b(s["qpprime"]).b(s["scaling_matrix"])
        if s["scaling_matrix"]:
            enc_scaling_lists(w, rng, 12 if s["chroma_format_idc"] == 3 else 8)
    w.ue(s["log2_max_frame_num_minus4"]).ue(s["poc_type"])
    if s["poc_type"] == 0:
        w.ue(s["log2_max_poc_lsb_minus4"])
    elif s["poc_type"] == 1:
        w.b(s["delta_pic_order_always_zero"]).se(s["offset_non_ref"]).se(s["offset_top_bottom"]).ue(len(s["offsets_ref_frame"]))
        for o in s["offsets_ref_frame"]:
            w.se(o)
    w.ue(s["max_num_ref_frames"]).b(s["gaps"]).ue(s["w"]).ue(s["h"]).b(s["frame_mbs_only"])
    if not s["frame_mbs_only"]:
        w.b(s["mbaff"])
    w.b(s["direct8x8"]).b(s["crop"] is not None)
    if s["crop"] is not None:
        for c in s["crop"]:
            w.ue(c)
    w.b(s["vui"] is not None)
    if s["vui"] is not None:
        enc_vui(w, s["vui"])
    if trailing:
        w.trailing()
    return w


def nal_bytes(nal_type, ref_idc, rbsp):
    return bytes([(ref_idc << 5) | nal_type]) + escape(rbsp)


def sps_nal(s, rng):
    return nal_bytes(7, 3, enc_sps(s, rng).bytes())


def effective_chroma_format_idc(s):
    return s["chroma_format_idc"] if s["has_chroma"] else 1


# ------------------------------------------------------------------ PPS

def gen_pps(rng, sps, pps_id=None, force=None):
    force = force or {}
    p = {"sps": sps}
    p["id"] = pps_id if pps_id is not None else pick(rng, [0, 0, 1, 31, 32, 255])
    p["sps_id"] = sps["id"]
    p["cabac"] = force.get("cabac", rng.random() < 0.5)
    p["bottom_field_poc"] = force.get("bottom_field_poc", rng.random() < 0.5)
    p["num_slice_groups_minus1"] = force.get("num_slice_groups_minus1", pick(rng, [0, 0, 0, 1, 2, 7]))
    p["map_type"] = force.get("map_type", rng.randrange(7))
    wmbs, hmu = sps["w"] + 1, sps["h"] + 1
    size = min(wmbs * hmu, 0xffffffff)
    n = p["num_slice_groups_minus1"]
    p["run_lengths"] = [pick(rng, [0, min(size - 1, 1), size - 1]) for _ in range(n + 1)]
    rects = []
    for _ in range(n):
        tl = rng.randrange(0, min(size, 50))
        br = min(size, tl + rng.randrange(0, 10) * wmbs + rng.randrange(0, max(1, wmbs - tl % wmbs)))
        if tl % wmbs > br % wmbs or br < tl:
            br = tl
        rects.append((tl, br))
    p["rects"] = rects
    p["change_dir"] = rng.random() < 0.5
    p["change_rate_minus1"] = pick(rng, [0, size - 1])
    npix = force.get("npix", pick(rng, [0, 1, 5, 17]))
    p["pic_size_in_map_units_minus1"] = npix
    bits = {1: 1, 2: 2, 3: 2, 4: 3, 5: 3, 6: 3, 7: 3}.get(n, 0)
    p["group_ids"] = [rng.randrange(0, 1 << bits) if bits else 0 for _ in range(npix + 1)]
    p["group_id_bits"] = bits
    p["l0"] = force.get("l0", pick(rng, [0, 1, 15, 31]))
    p["l1"] = pick(rng, [0, 1, 31])
    p["weighted_pred"] = force.get("weighted_pred", rng.random() < 0.5)
    p["weighted_bipred_idc"] = force.get("weighted_bipred_idc", rng.randrange(4))
    lo = -(26 + 6 * (sps["bit_depth_luma_minus8"] if sps["has_chroma"] else 0))
    p["pic_init_qp_minus26"] = pick(rng, [lo, lo + 1, 0, 25, rng.randrange(lo, 26)])
    p["pic_init_qs_minus26"] = force.get("pic_init_qs_minus26", pick(rng, [-26, 0, 25, rng.randrange(-26, 26)]))
    p["chroma_qp_index_offset"] = pick(rng, [-12, 0, 12, rng.randrange(-12, 13)])
    p["deblocking_ctrl"] = force.get("deblocking_ctrl", rng.random() < 0.5)
    p["constrained_intra"] = rng.random() < 0.5
    p["redundant_pic_cnt_present"] = force.get("redundant_pic_cnt_present", rng.random() < 0.4)
    p["ext"] = force.get("ext", rng.random() < 0.5)
    p["transform8x8"] = rng.random() < 0.5
    p["pic_scaling_matrix"] = rng.random() < 0.4
    p["second_chroma_qp"] = pick(rng, [-12, 0, 12, rng.randrange(-12, 13)])
    return p


def enc_pps(p, rng, trailing=True):
    w = BitWriter()
    w.ue(p["id"]).ue(p["sps_id"]).b(p["cabac"]).b(p["bottom_field_poc"]).ue(p["num_slice_groups_minus1"])
    n = p["num_slice_groups_minus1"]
    if n > 0:
        t = p["map_type"]
        w.ue(t)
        if t == 0:
            for r in p["run_lengths"]:
                w.ue(r)
        elif t == 2:
            for tl, br in p["rects"]:
                w.ue(tl).ue(br)
        elif t in (3, 4, 5):
            w.b(p["change_dir"]).ue(p["change_rate_minus1"])
        elif t == 6:
            w.ue(p["pic_size_in_map_units_minus1"])
            for g in p["group_ids"]:
                w.u(p["group_id_bits"], g)
    w.ue(p["l0"]).ue(p["l1"]).b(p["weighted_pred"]).u(2, p["weighted_bipred_idc"])
    w.se(p["pic_init_qp_minus26"]).se(p["pic_init_qs_minus26"]).se(p["chroma_qp_index_offset"])
    w.b(p["deblocking_ctrl"]).b(p["constrained_intra"]).b(p["redundant_pic_cnt_present"])
    if p["ext"]:
        w.b(p["transform8x8"]).b(p["pic_scaling_matrix"])
        if p["pic_scaling_matrix"]:
            cnt = 6 + ((6 if effective_chroma_format_idc(p["sps"]) == 3 else 2) if p["transform8x8"] else 0)
            enc_scaling_lists(w, rng, cnt)
        w.se(p["second_chroma_qp"])
    if trailing:
        w.trailing()
    return w


def pps_nal(p, rng):
    return nal_bytes(8, 3, enc_pps(p, rng).bytes())


# ------------------------------------------------------------------ slice header

def gen_slice(rng, sps, pps, nal_type=None, ref_idc=None, slice_type=None):
    h = {"sps": sps, "pps": pps}
    h["nal_type"] = nal_type if nal_type is not None else pick(rng, [1, 5])
    h["ref_idc"] = ref_idc if ref_idc is not None else rng.randrange(4)
    h["first_mb"] = ue_val(rng)
    h["slice_type"] = slice_type if slice_type is not None else rng.randrange(10)
    fam = h["slice_type"] % 5   # 0 P, 1 B, 2 I, 3 SP, 4 SI
    h["colour_plane"] = rng.randrange(3)
    nb = sps["log2_max_frame_num_minus4"] + 4
    h["frame_num"] = pick(rng, [0, 1, (1 << nb) - 1, rng.getrandbits(nb)])
    h["field_pic"] = rng.random() < 0.5
    h["bottom_field"] = rng.random() < 0.5
    h["idr_pic_id"] = ue_val(rng, 65535)
    nl = sps["log2_max_poc_lsb_minus4"] + 4
    h["poc_lsb"] = pick(rng, [0, (1 << nl) - 1, rng.getrandbits(nl)])
    h["delta_poc_bottom"] = se_val(rng)
    h["delta_poc"] = (se_val(rng), se_val(rng))
    h["redundant_pic_cnt"] = ue_val(rng, 127)
    h["direct_spatial"] = rng.random() < 0.5
    h["override"] = rng.random() < 0.5
    h["l0"] = pick(rng, [0, 1, 2, 31])
    h["l1"] = pick(rng, [0, 1, 31])

    def mods():
        if rng.random() < 0.5:
            return None
        return [(rng.randrange(3), ue_val(rng)) for _ in range(rng.randrange(0, 5))]
    h["mod_l0"], h["mod_l1"] = mods(), mods()
    nref = (h["l0"] if (h["override"] and fam in (0, 1, 3)) else pps["l0"]) + 1
    h["luma_denom"], h["chroma_denom"] = ue_val(rng, 7), ue_val(rng, 7)
    h["weights"] = [(None if rng.random() < 0.4 else (se_val(rng, -128, 127), se_val(rng, -128, 127)),
                     None if rng.random() < 0.4 else [(se_val(rng, -128, 127), se_val(rng, -128, 127)) for _ in range(2)])
                    for _ in range(nref)]
    h["no_output_prior"] = rng.random() < 0.5
    h["long_term_ref"] = rng.random() < 0.5
    h["adaptive"] = rng.random() < 0.5
    ops = []
    for _ in range(rng.randrange(0, 5)):
        op = rng.randrange(1, 7)
        ops.append((op, ue_val(rng), ue_val(rng)))
    h["mmco"] = ops
    h["cabac_init_idc"] = ue_val(rng, 2)
    h["slice_qp_delta"] = se_val(rng, -51, 51)
    h["sp_for_switch"] = rng.random() < 0.5
    lo, hi = -(26 + pps["pic_init_qs_minus26"]), 51 - (26 + pps["pic_init_qs_minus26"])
    h["slice_qs_delta"] = pick(rng, [lo, hi, 0 if lo <= 0 <= hi else lo, rng.randrange(lo, hi + 1)])
    h["disable_deblocking"] = pick(rng, [0, 1, 2, 0, 1, 2, 3, 5, 6])   # the crate accepts 0..6 (the standard 0..2): both ends
    h["alpha"], h["beta"] = se_val(rng, -6, 6), se_val(rng, -6, 6)
    return h


def chroma_array_type(sps):
    if sps["has_chroma"] and sps["chroma_format_idc"] == 3 and sps["separate_colour_plane"]:
        return 0
    return effective_chroma_format_idc(sps)


def enc_slice_header(h, rng):
    sps, pps = h["sps"], h["pps"]
    fam = h["slice_type"] % 5
    w = BitWriter()
    w.ue(h["first_mb"]).ue(h["slice_type"]).ue(pps["id"])
    if sps["has_chroma"] and sps["chroma_format_idc"] == 3 and sps["separate_colour_plane"]:
        w.u(2, h["colour_plane"])
    w.u(sps["log2_max_frame_num_minus4"] + 4, h["frame_num"])
    field = False
    if not sps["frame_mbs_only"]:
        w.b(h["field_pic"])
        field = h["field_pic"]
        if field:
            w.b(h["bottom_field"])
    if h["nal_type"] == 5:
        w.ue(h["idr_pic_id"])
    if sps["poc_type"] == 0:
        w.u(sps["log2_max_poc_lsb_minus4"] + 4, h["poc_lsb"])
        if pps["bottom_field_poc"] and not field:
            w.se(h["delta_poc_bottom"])
    elif sps["poc_type"] == 1 and not sps["delta_pic_order_always_zero"]:
        w.se(h["delta_poc"][0])
        if pps["bottom_field_poc"] and not field:
            w.se(h["delta_poc"][1])
    if pps["redundant_pic_cnt_present"]:
        w.ue(h["redundant_pic_cnt"])
    if fam == 1:
        w.b(h["direct_spatial"])
    if fam in (0, 1, 3):
        w.b(h["override"])
        if h["override"]:
            w.ue(h["l0"])
            if fam == 1:
                w.ue(h["l1"])

    def enc_mods(m):
        w.b(m is not None)
        if m is not None:
            for idc, v in m:
                w.ue(idc).ue(v)
            w.ue(3)
    if fam in (0, 3):
        enc_mods(h["mod_l0"])
    elif fam == 1:
        enc_mods(h["mod_l0"])
        enc_mods(h["mod_l1"])
    if (pps["weighted_pred"] and fam in (0, 3)) or (pps["weighted_bipred_idc"] == 1 and fam == 1):
        cat = chroma_array_type(sps)
        w.ue(h["luma_denom"])
        if cat != 0:
            w.ue(h["chroma_denom"])
        for lw, cw in h["weights"]:
            w.b(lw is not None)
            if lw is not None:
                w.se(lw[0]).se(lw[1])
            if cat != 0:
                w.b(cw is not None)
                if cw is not None:
                    for a, b in cw:
                        w.se(a).se(b)
    if h["ref_idc"] != 0:
        if h["nal_type"] == 5:
            w.b(h["no_output_prior"]).b(h["long_term_ref"])
        else:
            w.b(h["adaptive"])
            if h["adaptive"]:
                for op, a, b in h["mmco"]:
                    w.ue(op)
                    if op in (1, 3):
                        w.ue(a)
                    if op == 2:
                        w.ue(a)
                    if op in (3, 6):
                        w.ue(b)
                    if op == 4:
                        w.ue(a)
                w.ue(0)
    if pps["cabac"] and fam not in (2, 4):
        w.ue(h["cabac_init_idc"])
    w.se(h["slice_qp_delta"])
    if fam in (3, 4):
        if fam == 3:
            w.b(h["sp_for_switch"])
        w.se(h["slice_qs_delta"])
    if pps["deblocking_ctrl"]:
        w.ue(h["disable_deblocking"])
        if h["disable_deblocking"] != 1:
            w.se(h["alpha"]).se(h["beta"])
    return w


def slice_nal(h, rng, data_bits=None):
    w = enc_slice_header(h, rng)
    if data_bits is None:
        if rng.random() < 0.4:
            # slice data that looks like trailing bits at first: a 1 bit, then zeros up to / past the next byte boundaries
            # (emulation prevention may fall inside), then more data
            data_bits = [1] + [0] * rng.choice([6, 7, 8, 15, 16, 23, 24, 31, 39]) + [rng.getrandbits(1) for _ in range(rng.randrange(1, 24))] + [1]
        else:
            data_bits = [rng.getrandbits(1) for _ in range(rng.randrange(8, 40))] + [1]
    w.raw(data_bits)
    w.trailing()
    return nal_bytes(h["nal_type"], h["ref_idc"], w.bytes()), data_bits


def bitgen_unescape(payload):
    from vlib.bitgen import unescape
    return unescape(payload)[0]
