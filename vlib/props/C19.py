"""C19 - the parameter-set context behaves as a last-writer-wins map keyed by id."""
import itertools
from vlib import h264gen as g
from vlib.bitgen import hx

ID = "C19"
RULE = ("every history of up to H insertions over SPS ids {0,1,2,30,31} and PPS ids {0,1,31,32,254,255} with payloads that "
        "differ in one field per insertion, followed by lookups of every id used (+ never-inserted ones) and an iteration; "
        "random long histories with interleaved lookups/iterations over the full id ranges 0..31 / 0..255. "
        "observable: every lookup (full Debug of the stored set) and iteration order. non-trivial = some id written twice or >= 3 puts")
CORRESPONDENCE = "Model/Context.v map_put/map_get/map_iter (+ Model/Pps.v context) vs lib.rs Context"
ASSUMPTIONS = ["insertions are of parameter sets returned by the parsers (the public way to obtain them with arbitrary ids)"]


def sps_with(rng, sid, tag):
    s = g.gen_sps(rng, sps_id=sid, small=True, force={"profile_idc": 66})
    s["max_num_ref_frames"] = tag
    s["vui"] = None
    return g.sps_nal(s, rng), s


def pps_with(rng, s, pid, tag):
    p = g.gen_pps(rng, s, pps_id=pid, force={"num_slice_groups_minus1": 0, "ext": False})
    p["l0"] = tag % 32
    p["chroma_qp_index_offset"] = (tag // 32) % 12
    return g.pps_nal(p, rng)


def gen(tier, rng):
    cases = []
    H = 3 if tier == "quick" else 4
    sids = [0, 1, 2, 30, 31]
    pids = [0, 1, 31, 32, 254, 255]
    keys = [("S", i) for i in sids] + [("P", i) for i in pids]
    tag = [0]
    for h in range(1, H + 1):
        for combo in itertools.product(keys, repeat=h):
            ops = []
            known = {}
            for kind, i in combo:
                tag[0] = (tag[0] + 1) % 300
                if kind == "S":
                    nal, s = sps_with(rng, i, tag[0])
                    known[i] = s
                    ops.append("S" + hx(nal))
                else:
                    if known:
                        s = known[sorted(known)[tag[0] % len(known)]]
                    else:
                        nal0, s = sps_with(rng, 0, 299)
                        known[0] = s
                        ops.append("S" + hx(nal0))
                    ops.append("P" + hx(pps_with(rng, s, i, tag[0])))
            ops += ["gs%d" % i for i in sids + [3, 29]] + ["gp%d" % i for i in pids + [2, 33, 253]] + ["it"]
            cases.append("ctx " + ",".join(ops))
    for _ in range(300 if tier == "quick" else 6000):
        ops = []
        known = {}
        for _ in range(rng.randrange(1, 14)):
            c = rng.random()
            tag[0] = (tag[0] + 1) % 300
            if c < 0.3 or not known:
                i = rng.randrange(32)
                nal, s = sps_with(rng, i, tag[0])
                known[i] = s
                ops.append("S" + hx(nal))
            elif c < 0.6:
                s = known[rng.choice(sorted(known))]
                ops.append("P" + hx(pps_with(rng, s, rng.randrange(256), tag[0])))
            elif c < 0.75:
                ops.append("gs%d" % rng.randrange(34))
            elif c < 0.9:
                ops.append("gp%d" % rng.randrange(258))
            else:
                ops.append("it")
        ops.append("it")
        cases.append("ctx " + ",".join(ops))
    # parameter sets of every shape (chroma formats, bit depths, PPS with transform-8x8 / scaling lists / slice groups):
    # an SPS replaced by one of another shape while PPSs naming it are stored - the two stores are independent
    for _ in range(500 if tier == "quick" else 10000):
        ops, known = [], {}
        for _ in range(rng.randrange(2, 10)):
            c = rng.random()
            if c < 0.4 or not known:
                i = rng.choice([0, 0, 1, 31])
                force = {"profile_idc": rng.choice([66, 100, 244, 244]), "chroma_format_idc": rng.choice([0, 1, 2, 3, 3])}
                s = g.gen_sps(rng, sps_id=i, small=True, force=force)
                known[i] = s
                ops.append("S" + hx(g.sps_nal(s, rng)))
            elif c < 0.8:
                s = known[rng.choice(sorted(known))]
                p = g.gen_pps(rng, s, pps_id=rng.choice([0, 1, 2, 255]))
                if rng.random() < 0.6:
                    p["ext"], p["transform8x8"], p["pic_scaling_matrix"] = True, True, True
                ops.append("P" + hx(g.pps_nal(p, rng)))
            elif c < 0.9:
                ops.append("gp%d" % rng.choice([0, 1, 2, 255]))
            else:
                ops.append("it")
        ops += ["gp0", "gp1", "gp2", "gp255", "gs0", "gs1", "gs31", "it"]
        cases.append("ctx " + ",".join(ops))
    # a PPS with a large explicit slice-group map stored and looked up (implementation only; ids re-read from the bits)
    for cnt in ([36865, 139264, 139265] if tier == "quick" else [36864, 36865, 65536, 139264, 139265, 262144]):
        sx = g.gen_sps(rng, sps_id=0, small=True)
        px = g.gen_pps(rng, sx, pps_id=3, force={"num_slice_groups_minus1": rng.choice([1, 3, 7]), "map_type": 6, "npix": cnt - 1})
        rb = g.enc_pps(px, rng).bytes()
        cases.append("!ctx S%s,P%s,gp3,it raw:%s" % (hx(g.sps_nal(sx, rng)), hx(g.nal_bytes(8, 3, rb)), hx(rb)))
    # every one of the 256 PPS ids (and 32 SPS ids) in ONE context, in several orders, then some re-put, then every id looked up
    for order in range(3 if tier == "quick" else 12):
        s0 = g.gen_sps(rng, sps_id=0, small=True, force={"profile_idc": 66})
        ops = ["S" + hx(g.sps_nal(s0, rng))]
        for i in range(1, 32):
            s1 = dict(s0)
            s1["id"] = i
            ops.append("S" + hx(g.sps_nal(s1, rng)))
        ids = list(range(256))
        if order == 1:
            ids.reverse()
        elif order >= 2:
            rng.shuffle(ids)
        for i in ids:
            ops.append("P" + hx(pps_with(rng, s0, i, i)))
        for i in [ids[-1], ids[0], rng.randrange(256)]:
            ops.append("P" + hx(pps_with(rng, s0, i, (i + 7) % 300)))
        ops += ["gp%d" % i for i in range(256)] + ["gs%d" % i for i in range(32)] + ["it"]
        cases.append("ctx " + ",".join(ops))
    # a stored PPS replaced by an almost identical one (one structured edit), for every slice-group map type
    for i in range(400 if tier == "quick" else 8000):
        s = g.gen_sps(rng, sps_id=0, small=True, force={"w": 11, "h": 11})
        p = g.gen_pps(rng, s, pps_id=rng.choice([0, 3]), force={"num_slice_groups_minus1": rng.choice([1, 2, 3, 6]), "map_type": i % 7})
        ops = ["S" + hx(g.sps_nal(s, rng)), "P" + hx(g.pps_nal(p, rng))]
        q = p
        for _ in range(rng.randrange(1, 4)):
            q = edits(rng, q)
            ops.append("P" + hx(g.pps_nal(q, rng)))
            ops.append("gp%d" % p["id"])
        ops.append("it")
        cases.append("ctx " + ",".join(ops))
    return cases


def edits(rng, p):
    """a PPS differing from p by one small structured edit (a list one element longer / shorter, one number changed, one
    flag flipped): a re-put that is *almost* the stored value must still replace it"""
    import copy
    q = copy.deepcopy(p)
    k = rng.randrange(6)
    n = q["num_slice_groups_minus1"]
    if k == 0 and n >= 1 and n < 7:
        q["num_slice_groups_minus1"] = n + 1
        q["run_lengths"] = q["run_lengths"] + [q["run_lengths"][-1]]
        q["rects"] = q["rects"] + [q["rects"][-1] if q["rects"] else (0, 0)]
    elif k == 1 and n >= 2:
        q["num_slice_groups_minus1"] = n - 1
        q["run_lengths"] = q["run_lengths"][:-1]
        q["rects"] = q["rects"][:-1]
    elif k == 2:
        q["l0"] = (q["l0"] + 1) % 32
    elif k == 3:
        q["cabac"] = not q["cabac"]
    elif k == 4:
        q["chroma_qp_index_offset"] = -q["chroma_qp_index_offset"] if q["chroma_qp_index_offset"] else 1
    else:
        q["weighted_bipred_idc"] = (q["weighted_bipred_idc"] + 1) % 3
    bits = {1: 1, 2: 2, 3: 2, 4: 3, 5: 3, 6: 3, 7: 3}.get(q["num_slice_groups_minus1"], 0)
    q["group_id_bits"] = bits
    q["group_ids"] = [x & ((1 << bits) - 1) if bits else 0 for x in q["group_ids"]]
    return q


def extra_check(r):
    """the other Iterator entry points of Context::sps() / pps() agree with next()"""
    if r["case"].startswith("!ctx"):
        from vlib.props import C05
        gp = [t for t in r["dev"].split() if t.startswith("gp:")]
        if not gp or "slice_group_id" not in gp[0]:
            return ("value", "the stored PPS with a large explicit map is not returned by the lookup")
        return C05.big_map_check(dict(r, case="!pps - " + r["case"].split()[2], dev=gp[0]))
    if "alt=" in r["dev"]:
        return ("value", "an iterator entry point other than next() disagrees with next(): " + r["dev"].split("alt=")[1][:200])
    return None


def nontrivial(r):
    return r["dev"].count("put") >= 2


def classify(r):
    return ["puts=%d" % min(6, r["dev"].count("put"))]
