"""C10 - SEI reader yields exactly the encoded (type,payload) messages, then stays ended."""
from vlib.bitgen import hx, nal_src, chunkings, escape

ID = "C10"
RULE = ("every payload type 0..299 once; message lists of 255..1024 (thorough 65537) messages around the multiples of 256; message lists with types from {0,1,4,5,127,128,129,254,255,256,509,510,511,765,65535,...} and payload lengths from "
        "{0,1,2,254,255,256,509,510,511,random<=700}, payload bytes incl. zero runs that need emulation prevention, coded "
        "with 0xFF extension bytes + trailing bits; read from contiguous RBSP, from escaped NALs in random chunkings, "
        "complete and incomplete; every truncation of some; payloads of 2^k-1..2^k+4000 bytes (k to 16, thorough 20) complete and cut short "
        "around 2^k; types / sizes coded with 16843009..33686018 bytes of 0xFF; type 128 in first and later position; 1..10 extra next() "
        "calls after the end. observable: every result of next(). non-trivial = at least one message or an error after one")
CORRESPONDENCE = "Model/Sei.v sei_next vs SeiReader::next"
ASSUMPTIONS = ["types/sizes around 2^32 (16843009 bytes of 0xFF) run on the implementation only, judged by the oracle in extra_check; the model side is theorem C10_u32_overflow"]


def ff(n):
    return b"\xff" * (n // 255) + bytes([n % 255])


def enc_msgs(msgs, trailing=b"\x80"):
    out = bytearray()
    for t, p in msgs:
        out += ff(t) + ff(len(p)) + p
    return bytes(out) + trailing


def gen(tier, rng):
    types = [0, 1, 2, 4, 5, 6, 45, 54, 55, 56, 127, 128, 129, 137, 188, 254, 255, 256, 300, 509, 510, 511, 765, 1000, 65535]
    lens = [0, 0, 1, 2, 3, 16, 254, 255, 256, 509, 510, 511]
    cases = []
    n = 1500 if tier == "quick" else 40000
    for i in range(n):
        msgs = []
        for _ in range(rng.randrange(0, 5)):
            ln = rng.choice(lens) if rng.random() < 0.7 else rng.randrange(0, 700)
            body = bytes(rng.choice([0, 0, 0, 1, 2, 3, 0xff, 0x80, rng.randrange(256)]) for _ in range(ln))
            msgs.append((rng.choice(types), body))
        if i % 9 == 0 and msgs:
            msgs[rng.randrange(len(msgs))] = (128, msgs[0][1][:3])
        trailing = rng.choice([b"\x80", b"\x80", b"\x80", b"", b"\x80\x00", b"\x00", b"\x40"])
        rbsp = enc_msgs(msgs, trailing)
        extra = rng.choice([1, 2, 3, 10])
        cases.append("sei raw:%s %d" % (hx(rbsp), extra))
        nal = bytes([0x06]) + escape(rbsp)
        cases.append("sei %s %d" % (nal_src(chunkings(rng, nal, 1)[0], True), extra))
        if rng.random() < 0.3:
            k = rng.randrange(1, len(nal) + 1)
            cases.append("sei %s %d" % (nal_src(chunkings(rng, nal[:k], 1)[0], False), extra))
            cases.append("sei raw:%s %d" % (hx(rbsp[:rng.randrange(0, len(rbsp) + 1)]), extra))
        if rng.random() < 0.03 and len(nal) < 400:
            for k in range(1, len(nal) + 1):
                cases.append("sei %s 2" % nal_src([nal[:k]], False))
                cases.append("sei %s 2" % nal_src([nal[:k]], True))
    # long message lists: counts around the powers of 256 (a narrow message counter wraps there), tiny payloads
    for cnt in ([255, 256, 257, 511, 512, 513, 768, 1024] if tier == "quick" else [255, 256, 257, 511, 512, 513, 768, 1024, 4096, 65535, 65536, 65537]):
        msgs = [(rng.choice([0, 1, 5, 128, 200]), bytes([1 + (j % 250)] * rng.choice([0, 1, 2]))) for j in range(cnt)]
        rbsp = enc_msgs(msgs)
        cases.append("sei raw:%s 3" % hx(rbsp))
        if cnt <= 1024:
            nal = bytes([0x06]) + escape(rbsp)
            cases.append("sei %s 2" % nal_src(chunkings(rng, nal, 1)[0], True))
            cases.append("sei %s 2" % nal_src(chunkings(rng, nal[:len(nal) - 1], 1)[0], False))
    # every payload type 0..300 once (the type-name table of HeaderType::from_id), in groups of 10
    for base in range(0, 300, 10):
        msgs = [(t, bytes([t & 0x7f, 1])) for t in range(base, base + 10)]
        cases.append("sei raw:%s 1" % hx(enc_msgs(msgs)))
    # corrupt NALs (forbidden sequences inside)
    for _ in range(200 if tier == "quick" else 4000):
        msgs = [(rng.choice(types), bytes(rng.randrange(4) for _ in range(rng.randrange(0, 30)))) for _ in range(rng.randrange(1, 4))]
        nal = bytearray(bytes([0x06]) + escape(enc_msgs(msgs)))
        pos = rng.randrange(1, len(nal))
        nal[pos:pos] = rng.choice([b"\x00\x00\x00", b"\x00\x00\x03\x05", b"\x00\x00\x01"])
        cases.append("sei %s 2" % nal_src(chunkings(rng, bytes(nal), 1)[0], True))
    # types / sizes around 2^32: coded with 16843009 bytes of 0xFF (= 2^32 - 1) plus a last byte; built inside the harness
    # (`seibig pre n post extra`), implementation only - the model side of this is theorem C10_u32_overflow
    for pre, post in (("-", "000080"), ("-", "010080"), ("-", "fe0080"), ("05", "0180"), ("05", "fe80"), ("0500" + "05", "0280")):
        cases.append("!seibig %s 16843009 %s 1" % (pre, post))
    # ... and past it by further 0xFF bytes (a run length that is itself multiplied before the overflow check)
    for nff in (16843010, 16843011, 16843264, 33686018):
        for pre, post in (("-", "fe0080"), ("05", "0180")):
            cases.append("!seibig %s %d %s 1" % (pre, nff, post))
    # several large payloads in one NAL in non-monotonic size order (the scratch buffer is reused from message to message):
    # sizes around decimal and binary round numbers
    for t in range(0, 60):
        # every named payload type with a payload just above 4 KiB, not all 0xFF
        body = bytes(rng.choice([0xff, 0xff, rng.randrange(256)]) for _ in range(rng.choice([4097, 4200, 5000])))
        cases.append("sei raw:%s 1" % hx(enc_msgs([(t, body)])))
    for sizes in ([12000, 11000], [30000, 9, 10000], [10000, 10000], [9999, 10001, 10000], [70000, 65536, 4096, 65537],
                  [1000, 1500, 999, 1001], [100000, 50000, 99999]):
        msgs = [(rng.choice([0, 1, 5, 200]), bytes(rng.randrange(1, 255) for _ in range(n))) for n in sizes]
        cases.append("sei raw:%s 2" % hx(enc_msgs(msgs)))
        if sum(sizes) < 40000:      # the model's ByteReader is quadratic in the NAL length
            nal = bytes([0x06]) + escape(enc_msgs(msgs))
            cases.append("sei %s 2" % nal_src([nal[:len(nal) // 3], nal[len(nal) // 3:]], True))
    # payloads around 2^k bytes (k = 12..16, thorough ..20), complete and cut short at / just past the power of two
    for k in ([12, 16] if tier == "quick" else [12, 13, 15, 16, 17, 18, 20]):
        for size in ((1 << k) - 1, 1 << k, (1 << k) + 1, (1 << k) + 4000):
            body = bytes(rng.randrange(1, 255) for _ in range(size))
            full = enc_msgs([(5, body), (1, b"\x07")])
            # the same size under another payload type (filler, registered / unregistered user data, reserved, ...)
            for t in rng.sample([0, 1, 2, 3, 3, 4, 6, 45, 47, 137, 200, 255, 256, 1000], 4):
                other = bytes(rng.choice([0xff, 0xff, 0xff, rng.randrange(256)]) for _ in range(size))
                cases.append("sei raw:%s 2" % hx(enc_msgs([(t, other), (1, b"\x07")])))
            cases.append("sei raw:%s 2" % hx(full))
            head = len(ff(5)) + len(ff(size))
            for present in sorted({(1 << k) - 1, 1 << k, (1 << k) + 1, size - 1, size - 2}):
                if 0 <= present < size:
                    cases.append("sei raw:%s 2" % hx(full[:head + present]))
                    cases.append("sei raw:%s 2" % hx(full[:head + present] + b"\x80"))
    return cases


def nontrivial(r):
    a = r["dev"]
    return "M:" in a


def big_oracle(r):
    """seibig: a type or size that does not fit 32 bits is an error; 2^32-1 itself is a value"""
    p = r["case"].lstrip("!").split()
    pre = bytes.fromhex(p[1]) if p[1] != "-" else b""
    post = bytes.fromhex(p[3])
    total = 255 * int(p[2]) + post[0]
    toks = r["dev"].split()
    # messages before the big field (pre holds whole messages or a type byte)
    is_size = len(pre) in (1, 3)
    k = 1 if len(pre) == 3 else 0           # one complete message precedes
    if len(toks) <= k:
        return ("value", "no answer for the big field")
    t = toks[k]
    if total >= 2 ** 32:
        ok = t.startswith("E:") and "InvalidData" in t
    elif is_size:
        ok = t.startswith("E:")               # size 2^32-1 fits but runs past the data
    else:
        ok = t.startswith("M:") and str(total) in t
    return None if ok else ("value", "u32 boundary of a 0xFF-coded %s: total %d answered %s" % ("size" if is_size else "type", total, t[:80]))


def extra_check(r):
    """fused: after None or an error every further call reports None"""
    if r["case"].lstrip("!").startswith("seibig"):
        d = big_oracle(r)
        if d:
            return d
    toks = r["dev"].split()
    seen_end = False
    for t in toks:
        if seen_end and t != "None":
            return ("value", "next() after the end / an error did not report the end")
        if t == "None" or t.startswith("E:"):
            seen_end = True
    return None


def classify(r):
    a = r["dev"]
    return ["msgs=%d" % min(4, a.count("M:")), "err" if "E:" in a else "clean", r["case"].split()[1][:5]]
