"""C13 - SPS-derived values (size, fps, level, profile, codec string) match the standard."""
import re
from vlib import h264gen as g
from vlib.bitgen import hx
from vlib.props.C04 import fps_bits

ID = "C13"
# the property speaks about accepted inputs (values / invariants); which error a rejected input gets is not part of it
ERROR_IDENTITY_IRRELEVANT = True
RULE = ("SPS with the sizes real encoders produce (1080p/i, 720p, SD, CIF, QCIF, VGA, 4K) x no / zero / usual crop x frame/field x chroma format; sizes and crop offsets from an extreme-value table (0, 1, around 2^27, 2^28, 2^31, 2^32-2) x chroma formats "
        "0..3 (+ profiles without chroma info) x separate planes x frame/field; all 256 values of profile_idc, of the "
        "constraint-flag byte and of level_idc; timing info with num_units/time_scale in {0,1,1001,2^32-1,random}. "
        "observable: pixel_dimensions, fps (as f64 bits), level/profile and their idc round trip, RFC 6381 string, the *_in_mbs helpers. "
        "oracle: the property's formulas evaluated in unbounded Python integers on the implementation's own parsed fields. "
        "non-trivial = SPS accepted")
CORRESPONDENCE = "Model/SpsDerived.v vs SeqParameterSet::{pixel_dimensions,fps,level,profile,rfc6381,...}"
ASSUMPTIONS = ["f64 division is IEEE correctly rounded (compared with Python's float division on the exact operands)",
               "rfc6381-codec's Display renders avc1.PPCCLL in upper-case hex"]

EXT = [0, 1, 2, 7, (1 << 27) - 2, (1 << 27) - 1, 1 << 27, (1 << 28) - 2, (1 << 28) - 1, 1 << 28, (1 << 31) - 1, 1 << 31, g.UE_MAX - 1, g.UE_MAX]


def gen(tier, rng):
    cases = []
    n = 2500 if tier == "quick" else 60000
    for i in range(n):
        force = {"w": rng.choice(EXT + [rng.randrange(0, 300)] * 6), "h": rng.choice(EXT + [rng.randrange(0, 300)] * 6),
                 "frame_mbs_only": rng.random() < 0.5}
        if rng.random() < 0.75:
            force["profile_idc"] = rng.choice(g.CHROMA_PROFILES)
            force["chroma_format_idc"] = rng.randrange(4)
        s = g.gen_sps(rng, small=True, force=force)
        s["has_chroma"] = s["profile_idc"] in g.CHROMA_PROFILES
        if rng.random() < 0.75:
            s["crop"] = tuple(rng.choice(EXT + [rng.randrange(0, 40)] * 8) for _ in range(4))
        if rng.random() < 0.5:
            if s["vui"] is None:
                s["vui"] = g.gen_vui(rng, s["max_num_ref_frames"])
            s["vui"]["timing"] = (rng.choice([0, 1, 1001, 0xffffffff, rng.getrandbits(32)]), rng.choice([0, 1, 30000, 60000, 0xffffffff, rng.getrandbits(32)]), True)
        cases.append("sps raw:" + hx(g.enc_sps(s, rng).bytes()))
    # the sizes real encoders produce (1080p/i, 720p, SD, CIF, ...) x no crop / all-zero crop / the usual bottom crop x frame / field
    # coding x chroma format: a size-specific special case has nowhere to hide
    for w, h, f in g.COMMON_SIZES:
        for crop in (None, (0, 0, 0, 0), (0, 0, 0, 4), (0, 0, 0, 2)):
            for fmo in ((True, False) if f is None else (f,)):
                for prof, cf in ((66, 1), (100, 1), (122, 2), (244, 3)):
                    s = g.gen_sps(rng, small=True, force={"w": w, "h": h, "frame_mbs_only": fmo, "profile_idc": prof, "chroma_format_idc": cf})
                    s["has_chroma"] = prof in g.CHROMA_PROFILES
                    s["crop"] = crop
                    cases.append("sps raw:" + hx(g.enc_sps(s, rng).bytes()))
    # all header bytes
    base = g.gen_sps(rng, small=True, force={"profile_idc": 66})
    base["vui"] = None
    for b in range(256):
        for field in ("profile_idc", "constraint_flags", "level_idc"):
            s = dict(base)
            s[field] = b
            s["has_chroma"] = s["profile_idc"] in g.CHROMA_PROFILES
            cases.append("sps raw:" + hx(g.enc_sps(s, rng).bytes()))
        s = dict(base)
        s["level_idc"], s["constraint_flags"] = rng.choice([9, 10, 11, 12]), b
        cases.append("sps raw:" + hx(g.enc_sps(s, rng).bytes()))
    cases += header_conjunctions(rng)
    # time bases in actual use (exact x/1001, decimal approximations of them, PAL, film, 90 kHz, 27 MHz) x fixed_frame_rate_flag
    for nu, ts in g.BROADCAST_TIMING:
        for fixed in (True, False):
            for d in ((0, 0), (0, 1), (1, 0), (0, -1)):
                s = g.gen_sps(rng, small=True, force={"profile_idc": rng.choice([66, 100])})
                s["vui"] = g.gen_vui(rng, s["max_num_ref_frames"])
                s["vui"]["timing"] = (nu + d[0], ts + d[1], fixed)
                cases.append("sps raw:" + hx(g.enc_sps(s, rng).bytes()))
    return cases


def header_conjunctions(rng):
    """every profile byte x constraint flags {00,10,ef,ff} x level bytes 9..13: the level / profile an SPS reports depends on
    its own byte (and flag 3) only, whatever the other header bytes are"""
    out = []
    basec = g.gen_sps(rng, small=True, force={"profile_idc": 100})
    basec["vui"] = None
    baseb = g.gen_sps(rng, small=True, force={"profile_idc": 66})
    baseb["vui"] = None
    for prof in range(256):
        for flags in (0x00, 0x10, 0xef, 0xff):
            for lvl in (9, 10, 11, 12, 13):
                s = dict(basec if prof in g.CHROMA_PROFILES else baseb)
                s["profile_idc"], s["constraint_flags"], s["level_idc"] = prof, flags, lvl
                s["has_chroma"] = prof in g.CHROMA_PROFILES
                out.append("sps raw:" + hx(g.enc_sps(s, rng).bytes()))
    return out


def field(a, name):
    m = re.search(name + r":(-?\d+)", a)
    return int(m.group(1)) if m else None


def extra_check(r):
    a = r["dev"]
    if not a.startswith("ok:"):
        return None
    w1, h1 = field(a, "pic_width_in_mbs_minus1"), field(a, "pic_height_in_map_units_minus1")
    frames = "frame_mbs_flags:Frames" in a
    cf = re.search(r"chroma_format:(\w+)", a).group(1)
    mul = 1 if frames else 2
    cux = 2 if cf in ("YUV420", "YUV422") else 1
    cuy = (2 if cf == "YUV420" else 1) * mul
    width, height = 16 * (w1 + 1), 16 * mul * (h1 + 1)
    m = re.search(r"frame_cropping:Some\(FrameCropping\{left_offset:(\d+),right_offset:(\d+),top_offset:(\d+),bottom_offset:(\d+)\}\)", a)
    too_big = width >= 1 << 32 or height >= 1 << 32
    crop_bad = False
    if m:
        l, rr, t, b = (int(x) for x in m.groups())
        if any(x >= 1 << 32 for x in (l * cux, rr * cux, t * cuy, b * cuy)):
            too_big = True
        ew, eh = width - cux * (l + rr), height - cuy * (t + b)
        crop_bad = ew < 0 or eh < 0
    else:
        ew, eh = width, height
    dims = re.search(r" dims=(\S+)", a).group(1)
    if too_big or crop_bad:
        if not dims.startswith("E:"):
            return ("value", "pixel_dimensions must be an error (32-bit product exceeded or crop larger than picture), got " + dims)
    elif dims != "%dx%d" % (ew, eh):
        return ("value", "pixel_dimensions %s, the standard's formula gives %dx%d" % (dims, ew, eh))
    # fps
    fps = re.search(r" fps=(\S+)", a).group(1)
    mt = re.search(r"timing_info:Some\(TimingInfo\{num_units_in_tick:(\d+),time_scale:(\d+)", a)
    if mt:
        want = fps_bits(int(mt.group(2)), 2 * int(mt.group(1)))
        if want[:3] in ("7ff", "fff") and int(want[3:], 16) != 0:
            ok = fps[:3] in ("7ff", "fff") and int(fps[3:], 16) != 0
        else:
            ok = fps == want
        if not ok:
            return ("value", "fps bits %s, expected %s" % (fps, want))
    elif fps != "None":
        return ("value", "fps without timing info")
    # level / profile round trip and codec string
    p, c, l = field(a, r"profile_idc:ProfileIdc\("[:-2] + r"\("), None, field(a, "level_idc")
    p = int(re.search(r"profile_idc:ProfileIdc\((\d+)\)", a).group(1))
    lv = re.search(r" level=(\S+):(\d+)", a)
    pr = re.search(r" profile=(\S+):(\d+)", a)
    if int(lv.group(2)) != l or int(pr.group(2)) != p:
        return ("value", "level/profile does not map back to its idc")
    flags = re.search(r"flag0:(\w+),flag1:(\w+),flag2:(\w+),flag3:(\w+),flag4:(\w+),flag5:(\w+),reserved_zero_two_bits:(\d)", a).groups()
    cbyte = sum((1 << (7 - i)) for i in range(6) if flags[i] == "true") + int(flags[6])
    rfc = re.search(r" rfc=(\S+)", a).group(1)
    if rfc.lower() != "avc1.%02x%02x%02x" % (p, cbyte, l):
        return ("value", "rfc6381 string " + rfc)
    return None


def nontrivial(r):
    return r["dev"].startswith("ok:")


def classify(r):
    a = r["dev"]
    if not a.startswith("ok:"):
        return ["rejected"]
    k = ["accepted", "dims_err" if " dims=E:" in a else "dims_ok"]
    if "CroppingError" in a:
        k.append("CroppingError")
    if "FieldValueTooLarge" in a.split(" dims=")[1][:60]:
        k.append("TooLarge")
    if " fps=None" not in a:
        k.append("fps")
    return k
