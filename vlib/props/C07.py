"""C07 - bit reader decodes every u(n)/ue(v)/se(v) codeword to the standard's value."""
from vlib.bitgen import BitWriter, hx, escape, chunkings, nal_src

ID = "C07"
RULE = ("bit strings built from clause 9.1 codewords (all suffixes for every prefix length up to K, boundary and random "
        "suffixes up to 31, over-long prefixes 32..64), fixed-width fields of width 0..33 in u8/u16/u32 containers, "
        "each preceded by 0..7 offset bits, in sequences of mixed reads, truncated at every bit of the last codeword; "
        "over contiguous RBSP, chunked complete NALs (with emulation prevention) and incomplete NALs. "
        "non-trivial = the case decodes at least one codeword or is rejected after at least one successful read")
CORRESPONDENCE = "Model/BitReader.v read_ue/read_se/read_u/read_bool/skip vs rbsp::BitReader"
ASSUMPTIONS = ["bitstream-io's BitReader is modelled at documentation level (read_bit, read::<U>(n), skip, read_unary1)",
               "inputs shorter than 2^29 bytes (bitstream-io counts unary prefixes in a u32)"]


def codeword_bits(k, suffix):
    return [0] * k + [1] + [(suffix >> i) & 1 for i in range(k - 1, -1, -1)]


def mk_case(rng, items, offset, src_kind, trunc=None):
    """items: list of (op, bits). offset: number of leading junk bits read by one u8.<offset> op."""
    w = BitWriter()
    ops = []
    if offset:
        w.u(offset, rng.getrandbits(offset))
        ops.append("u8.%d" % offset)
    for op, bits in items:
        w.raw(bits)
        ops.append(op)
    total = len(w.bits)
    if trunc is not None:
        w.bits = w.bits[:trunc]
        data = w.bytes()  # zero padded to the byte: the cut codeword sees zeros then the end
    else:
        w.raw([rng.getrandbits(1) for _ in range(rng.randrange(0, 12))])
        data = w.bytes()
    if src_kind == "raw":
        src = "raw:" + hx(data)
    else:
        nal = bytes([0x65]) + escape(data)
        parts = chunkings(rng, nal, 1)[0]
        src = nal_src(parts, complete=(src_kind == "nalc"))
    return "bits %s %s" % (src, ",".join(ops))


def gen(tier, rng):
    K = 10 if tier == "quick" else 15
    cases = []
    kinds = ["raw", "raw", "nalc", "nali"]
    # 1. every codeword with prefix length <= K, packed 8 per case, ue and se alternating
    words = [(k, s) for k in range(K + 1) for s in range(1 << k)]
    rng.shuffle(words)
    for i in range(0, len(words), 8):
        grp = words[i:i + 8]
        items = [("ue" if (j + i // 8) % 2 == 0 else "se", codeword_bits(k, s)) for j, (k, s) in enumerate(grp)]
        cases.append(mk_case(rng, items, rng.randrange(8), kinds[(i // 8) % 4]))
    # 2. boundary / random suffixes for longer prefixes, every offset
    nrand = 2 if tier == "quick" else 24
    for k in range(K + 1, 32):
        sufs = {0, 1, (1 << k) - 1, (1 << k) - 2, 1 << (k - 1)} | {rng.getrandbits(k) for _ in range(nrand)}
        for s in sorted(sufs):
            for off in range(8):
                op = "ue" if (s + off) % 2 == 0 else "se"
                cases.append(mk_case(rng, [(op, codeword_bits(k, s)), ("ue", codeword_bits(2, 1))], off, kinds[(s + off) % 4]))
    # 3. too many leading zeros
    for z in (32, 33, 39, 40, 41, 63, 64, 65, 100):
        for off in (0, 3, 7):
            for op in ("ue", "se"):
                cases.append(mk_case(rng, [(op, [0] * z + [1] + [1] * 8)], off, kinds[z % 4]))
    # ... every count up to 600 (a zero counter narrowed to 8 bits wraps at 256, 512) and around 2^10..2^16
    zs = list(range(32, 600)) + [z + d for k in range(10, 17 if tier == "quick" else 19) for z in [1 << k] for d in (-1, 0, 1, 2, 7, 31, 32)]
    for z in zs:
        op = "ue" if z % 2 else "se"
        suffix = [rng.getrandbits(1) for _ in range(z % 256 % 40)] + [1] * 8
        cases.append(mk_case(rng, [(op, [0] * z + [1] + suffix)], z % 8, kinds[z % 4]))
    # 3b. runs of consecutive Exp-Golomb reads whose codewords end exactly at / around a 32-, 64- or 128-bit boundary
    # counted from the start of the run (lookahead windows carried from one read to the next), the last one long
    for W in (32, 64, 128):
        for d in (-2, -1, 0, 1, 2):
            for k3 in ([5, 8, 12, 15, 16, 17, 20, 24, 28, 31] if tier == "quick" else range(2, 32)):
                rem = W + d - (2 * k3 + 1)
                if rem < 0:
                    continue
                ks = []
                while rem > 0:
                    # odd lengths 2k+1 <= rem; leave an even or zero remainder that can still be split
                    kmax = min(31, (rem - 1) // 2)
                    k = kmax if rem % 2 == 1 and rem <= 63 else rng.randrange(0, kmax + 1)
                    if rem - (2 * k + 1) == 1 - 1 or rem - (2 * k + 1) >= 1:
                        ks.append(k)
                        rem -= 2 * k + 1
                    else:
                        ks.append(0)
                        rem -= 1
                for last_bit in (0, 1):
                    items = [(rng.choice(["ue", "se"]), codeword_bits(k, rng.getrandbits(k) if k else 0)) for k in ks]
                    suf = (rng.getrandbits(k3) & ~1) | last_bit
                    items.append((rng.choice(["ue", "se"]), codeword_bits(k3, suf)))
                    items.append(("ue", codeword_bits(2, 1)))
                    cases.append(mk_case(rng, items, rng.choice([0, 0, 3, 5]), kinds[(W + d + k3) % 4]))
    # 4. truncation at every bit of a codeword (after one good read)
    for k in list(range(0, 9)) + [15, 16, 17, 30, 31]:
        s = rng.getrandbits(k) if k else 0
        bits = codeword_bits(k, s)
        for off in (0, 5):
            for cut in range(0, len(bits) + 1):
                for kind in ("raw", "nali", "nalc"):
                    pre = codeword_bits(1, 1)
                    cases.append(mk_case(rng, [("ue", pre), ("se" if cut % 2 else "ue", bits)], off, kind, trunc=off + len(pre) + cut))
    # 5. fixed-width reads: every width 0..33 in each container, values with high/low bits set
    for cont, wmax in (("u8", 8), ("u16", 16), ("u32", 32), ("i32", 32)):
        for n in range(0, 35):
            for off in (0, 1, 7):
                vals = {0, (1 << n) - 1 if n else 0, 1 << (n - 1) if n else 0, rng.getrandbits(n) if n else 0}
                for v in sorted(vals):
                    w = [(v >> i) & 1 for i in range(n - 1, -1, -1)]
                    cases.append(mk_case(rng, [("%s.%d" % (cont, n), w), ("b", [1]), ("ue", codeword_bits(3, 5))], off, kinds[(n + off) % 4]))
    # 5b. read_to of whole primitives, aligned and unaligned, across chunk boundaries / escapes / the end
    for op, nb in (("t8", 1), ("t16", 2), ("t32", 4)):
        for off in (0, 3, 8, 16):
            for rep in range(12 if tier == "quick" else 120):
                items = []
                for j in range(rng.randrange(1, 4)):
                    v = rng.choice([0, 1, 0x100, 0x010000, rng.getrandbits(8 * nb)]) & ((1 << (8 * nb)) - 1)
                    items.append((op, [(v >> i) & 1 for i in range(8 * nb - 1, -1, -1)]))
                trunc = None
                if rep % 3 == 2:
                    trunc = off + sum(len(b) for _, b in items) - rng.randrange(1, 8 * nb)
                cases.append(mk_case(rng, items, off if off < 8 else 0, kinds[rep % 4], trunc=trunc) if off < 8 else
                             mk_case(rng, [("u8.8", [0] * 8)] * (off // 8) + items, 0, kinds[rep % 4], trunc=None))
    # 6. mixed sequences incl. skip and bool
    nmix = 300 if tier == "quick" else 6000
    for _ in range(nmix):
        items = []
        for _ in range(rng.randrange(1, 10)):
            c = rng.randrange(6)
            if c == 0:
                k = rng.randrange(0, 12)
                items.append(("ue", codeword_bits(k, rng.getrandbits(k) if k else 0)))
            elif c == 1:
                k = rng.randrange(0, 12)
                items.append(("se", codeword_bits(k, rng.getrandbits(k) if k else 0)))
            elif c == 2:
                items.append(("b", [rng.getrandbits(1)]))
            elif c == 3:
                n = rng.randrange(0, 33)
                items.append(("u32.%d" % n, [rng.getrandbits(1) for _ in range(n)]))
            elif c == 4:
                n = rng.randrange(0, 40)
                items.append(("k%d" % n, [rng.getrandbits(1) for _ in range(n)]))
            else:
                n = rng.randrange(0, 17)
                items.append(("u16.%d" % n, [rng.getrandbits(1) for _ in range(n)]))
        cases.append(mk_case(rng, items, rng.randrange(8), rng.choice(kinds)))
    # 7. whole bytes taken through the borrowed inner reader (BitReader::reader()) between Exp-Golomb reads: the reads that
    # follow start where the inner reader stands (lookahead kept by the bit reader must not survive it)
    for _ in range(400 if tier == "quick" else 8000):
        items, nbits = [], 0
        for _ in range(rng.randrange(3, 9)):
            c = rng.randrange(5)
            if c <= 1:
                k = rng.randrange(0, 8)
                bits = codeword_bits(k, rng.getrandbits(k) if k else 0)
                items.append((rng.choice(["ue", "se"]), bits))
            elif c == 2:
                pad = (8 - nbits % 8) % 8
                bits = [rng.getrandbits(1) for _ in range(pad)]
                items.append(("u8.%d" % pad, bits))
            else:
                # aligned here (or not: then R answers "unaligned" on both sides): take 1..3 bytes
                n = rng.randrange(1, 4)
                if nbits % 8 == 0:
                    bits = [rng.getrandbits(1) for _ in range(8 * n)]
                    items.append(("R%d" % n, bits))
                else:
                    bits = []
                    items.append(("R%d" % n, bits))
            nbits += len(bits)
        items.append(("ue", codeword_bits(3, 5)))
        cases.append(mk_case(rng, [("ue", codeword_bits(2, 1))] + items + [("ue", codeword_bits(1, 0))] * 2, 0, rng.choice(kinds)))
    return cases


def nontrivial(r):
    a = r["dev"]
    return " v" in (" " + a) or (" E:" in a)


def classify(r):
    a = r["dev"]
    keys = []
    if "E:ExpGolombTooLarge" in a:
        keys.append("too_large")
    if "UnexpectedEof" in a:
        keys.append("eof")
    if "WouldBlock" in a:
        keys.append("wouldblock")
    if "InvalidInput" in a:
        keys.append("invalid_width")
    if "E:" not in a:
        keys.append("all_ok")
    keys.append("src_" + r["case"].split()[1][:5])
    return keys
