"""C15 - a NAL over head+tail chunks reads as their concatenation; partial NALs block."""
from vlib.bitgen import hx, all_partitions, nal_src
from vlib.annexb_util import all_strings

ID = "C15"
RULE = ("every byte string up to length L over 3 byte values x every partition into non-empty chunks x complete/incomplete "
        "x operation scripts (read 0/1/2/5, fill_buf, consume 0/1/all, clone-and-continue) generated against a reference "
        "reader so that consume never exceeds the buffer; every reader (clones included) is finally drained three times and "
        "read once more. observable: every operation's result. non-trivial = at least two chunks or a clone")
CORRESPONDENCE = "Model/RefNal.v vs nal::RefNalReader, Model/Nal.v vs NalHeader accessors"
ASSUMPTIONS = ["precondition of RefNal::new: head and every tail chunk non-empty; BufRead::consume(amt <= buffer length)"]


def script(rng, chunks, maxlen):
    """random op script valid for these chunks (tracks the current chunk like the reader does)"""
    cur = list(chunks[0]) if chunks else []
    rest = [list(c) for c in chunks[1:]]
    ops = []
    for _ in range(rng.randrange(0, maxlen + 1)):
        c = rng.randrange(8)
        if c <= 2:
            n = rng.choice([0, 1, 2, 5, 1, 2, len(cur), len(cur) + 1, max(0, len(cur) - 1), 4096])
            ops.append("r%d" % n)
            if n and cur:
                if n < len(cur):
                    cur = cur[n:]
                else:
                    cur = rest.pop(0) if rest else []
        elif c == 3:
            ops.append("f")
        elif c <= 5:
            k = rng.choice([0, 1, len(cur)])
            k = min(k, len(cur))
            ops.append("c%d" % k)
            cur = cur[k:]
            if not cur:
                cur = rest.pop(0) if rest else []
        elif c == 6:
            ops.append("K")
        else:
            ops.append("f")
    return ",".join(ops)


def gen(tier, rng):
    L = 5 if tier == "quick" else 7
    reps = 2 if tier == "quick" else 6
    cases = []
    for s in all_strings([0x00, 0x51, 0xa3], L):
        if not s:
            continue
        for parts in all_partitions(s):
            for complete in (True, False):
                for _ in range(reps):
                    cases.append("refnal %s %s" % (nal_src(parts, complete), script(rng, parts, 8)))
    for _ in range(1000 if tier == "quick" else 20000):
        n = rng.randrange(1, 400)
        s = bytes(rng.randrange(256) for _ in range(n))
        parts, i = [], 0
        while i < n:
            k = rng.choice([1, 2, 3, 64, 127, 128, 129, 200])
            parts.append(s[i:i + k])
            i += k
        cases.append("refnal %s %s" % (nal_src(parts, rng.random() < 0.5), script(rng, parts, 12)))
    # every two-byte NAL (every header byte x every second byte), complete and incomplete, in one and in two chunks
    for a in range(256):
        for b in (range(256) if tier != "quick" else list(range(0, 256, 16)) + [rng.randrange(256) for _ in range(16)]):
            for complete in (True, False):
                parts = [bytes([a, b])] if (a + b) % 2 else [bytes([a]), bytes([b])]
                cases.append("refnal %s %s" % (nal_src(parts, complete), rng.choice(["f,c1,f,c1,f", "r1,r1,r1", "r2,f", "f,K,c1,f"])))
    for a in range(256):
        for b in range(0, 256, 16):
            # the second byte patterns x0: type-9 delimiters and friends, always incomplete, both chunkings
            cases.append("refnal %s r1,r1,r1,f" % nal_src([bytes([a, b])], False))
            cases.append("refnal %s f,c1,f,c1,f" % nal_src([bytes([a]), bytes([b])], False))
    # chunks of 4 KiB and more with reads that fit a chunk exactly / span chunks (gather and block fast paths)
    for _ in range(300 if tier == "quick" else 6000):
        sizes = [rng.choice([1, 5, 100, 4095, 4096, 4097, 5000, 8192]) for _ in range(rng.randrange(2, 5))]
        parts = [bytes(rng.randrange(256) for _ in range(k)) for k in sizes]
        cases.append("refnal %s %s" % (nal_src(parts, rng.random() < 0.5), script(rng, parts, 8)))
    return cases


def nontrivial(r):
    return "/" in r["case"].split()[1] or "K" in r["case"]


def extra_check(r):
    """oracle: each drained reader's total = a suffix of the concatenation; ends are stable and of the right kind"""
    parts = r["case"].split()
    kind, chunks = parts[1].split(":", 2)[1:]
    data = "".join(c for c in chunks.split("/"))
    for tok in r["dev"].split():
        if tok.startswith("d:"):
            body, ends, rd = tok[2:].split("!")
            body = "" if body == "-" else body
            if not data.endswith(body):
                return ("value", "a drained reader did not deliver a suffix of the concatenated chunks")
            want = "Eof" if kind == "c" else "WouldBlock"
            if ends.split(".") != [want] * 3:
                return ("value", "end of data reported as %s, expected %s three times" % (ends, want))
            if (kind == "c" and rd != "0") or (kind == "i" and rd != "WouldBlock"):
                return ("value", "read after the end gave %s" % rd)
    return None


def classify(r):
    p = r["case"].split()[1]
    return ["complete" if p.startswith("nal:c") else "incomplete", "chunks=%d" % min(5, p.count("/") + 1)]
