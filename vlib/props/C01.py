"""C01 - Annex B framing is invariant under push chunking and equals the start-code segmentation."""
from vlib.bitgen import hx, all_partitions
from vlib.annexb_util import parse_trace, units_of, all_strings, segment, big_scripts, big_check

ID = "C01"
RULE = ("exhaustive: every byte string up to length L over {00,01,02} x every partition into non-empty pushes, with "
        "and without a final reset, plus partitions with empty pushes interleaved; random grammar streams (units with "
        "zero runs, 3/4-byte start codes, garbage, trailing zeros, units up to 8 KiB) x random partitions; pattern "
        "streams whose zero runs / unit lengths are p-2..p+3 for p in {4..4096 powers of two, 192} (some up to 64 KiB) with "
        "cuts displaced -3..+3 from token boundaries; the same with runs up to 1 MiB on the implementation only, judged by the "
        "segmentation oracle (the model appends byte by byte and is quadratic in the unit length); zero padding of every length 0..299 (thorough 0..1099). "
        "observable = list of units (bytes grouped by end flags) and the open remainder; non-trivial = stream holds a start code")
CORRESPONDENCE = "Model/AnnexB.v push/reset vs annexb::AnnexBReader (units and open remainder)"
ASSUMPTIONS = ["memchr and slice borrowing are abstracted (lists, per-byte steps); exercised by the correspondence"]
EXHAUSTIVE = False


def ops_of(parts, reset=True):
    return ",".join(["p" + ("" if not p else hx(p)) for p in parts] + (["r"] if reset else []))


def grammar_stream(rng, big=False):
    out = bytearray()
    for _ in range(rng.randrange(1, 6)):
        c = rng.randrange(10)
        if c < 2:
            out += bytes(rng.choice([0, 0, 1, 2, 0xff]) for _ in range(rng.randrange(0, 6)))  # garbage / zeros
        out += b"\x00" * rng.randrange(0, 3)
        out += rng.choice([b"\x00\x00\x01", b"\x00\x00\x00\x01", b"\x00\x00\x01", b"\x00\x01", b"\x00\x00\x00\x00\x01"])
        n = rng.choice([0, 1, 2, 3, 5, 17, 127, 128, 129, 300]) if not big else rng.choice([1000, 4096, 8192])
        unit = bytearray(rng.choice([0, 0, 1, 2, 3, 0x41, 0xff]) if rng.random() < 0.3 else rng.randrange(1, 256) for _ in range(n))
        out += unit
        out += b"\x00" * rng.choice([0, 0, 1, 2, 3])
    return bytes(out)


def random_partition(rng, data):
    parts, i = [], 0
    mode = rng.randrange(5)
    while i < len(data):
        if rng.random() < 0.1:
            parts.append(b"")
        k = {0: 1, 1: rng.choice([1, 2, 3]), 2: rng.choice([127, 128, 129]), 3: rng.randrange(1, 40), 4: rng.randrange(1, len(data) + 1)}[mode]
        parts.append(data[i:i + k])
        i += k
    if rng.random() < 0.2:
        parts.append(b"")
    return parts


# run lengths around every power of two a fast path could key on (SIMD widths, block and window sizes)
BSET = sorted({max(0, p + d) for p in (0, 4, 8, 16, 32, 64, 128, 192, 256, 512, 1024, 4096) for d in (-2, -1, 0, 1, 2, 3)})


HUGE = [16386, 65534, 65536, 65538, 131072, 1 << 20]


def pattern_stream(rng, big=False, huge=False):
    """tokens: zero runs / start codes / zero-free units / units with inner zeros, lengths from BSET; returns the
    stream and the token boundaries (cut candidates)"""
    out, marks = bytearray(), []
    # the model appends byte by byte (quadratic): streams beyond 8 KiB go to the implementation only ("!" cases),
    # judged by the start-code segmentation oracle in extra_check
    lens = BSET + HUGE if huge else BSET if not big else BSET + [8190, 8192, 8194]
    for _ in range(rng.randrange(2, 6)):
        c = rng.randrange(8)
        if c < 3:
            out += b"\x00" * rng.choice(lens[:40])
            marks.append(len(out))
        if c == 3:
            out += bytes([rng.choice([2, 3, 0xff])])        # garbage byte between zeros and the 01
            marks.append(len(out))
        out += b"\x00" * rng.choice([1, 2, 2, 2, 3])
        marks.append(len(out))
        out += b"\x01"
        marks.append(len(out))
        n = rng.choice(lens)
        k = rng.randrange(3)
        if k == 0:
            unit = bytes(rng.randrange(1, 256) for _ in range(n))        # zero-free
        elif k == 1:
            unit = bytes(rng.choice([1, 1, 2, 3, 0x80]) for _ in range(n))
        else:
            unit = bytearray(rng.randrange(1, 256) for _ in range(n))
            for _ in range(rng.randrange(1, 4)):
                if n:
                    j = rng.randrange(n)
                    unit[j:j + rng.choice([1, 2])] = b"\x00" * rng.choice([1, 2])
            unit = bytes(unit[:n])
        out += unit
        marks.append(len(out))
    out += b"\x00" * rng.choice([0, 0, 1, 2, 3] + lens[:30])
    return bytes(out), marks


def boundary_partition(rng, data, marks):
    """cuts at token boundaries displaced by -3..+3 (inside start codes, just before / after the 01, at the ends of
    long runs), each kept with probability 1/2; optionally further cuts at BSET distances"""
    cuts = set()
    for m in marks:
        if rng.random() < 0.5:
            cuts.add(m + rng.choice([-3, -2, -1, 0, 0, 1, 2, 3]))
    if rng.random() < 0.3:
        i = 0
        while i < len(data):
            i += rng.choice(BSET[3:])
            cuts.add(i)
    cuts = sorted(c for c in cuts if 0 < c < len(data))
    parts, last = [], 0
    for c in cuts:
        parts.append(data[last:c])
        last = c
    parts.append(data[last:])
    return parts


def gen(tier, rng):
    L = 6 if tier == "quick" else 8
    cases = []
    for s in all_strings([0, 1, 2], L):
        for parts in all_partitions(s):
            cases.append("annexb " + ops_of(parts, True))
        # the same stream without reset, one-byte pushes and with empty pushes interleaved
        one = [bytes([b]) for b in s]
        cases.append("annexb " + ops_of(one, False))
        inter = [b""]
        for p in one:
            inter += [p, b""]
        cases.append("annexb " + ops_of(inter, True))
    # longer strings with sampled partitions
    L2 = L + 3
    n2 = 3000 if tier == "quick" else 60000
    for _ in range(n2):
        n = rng.randrange(L + 1, L2 + 1)
        s = bytes(rng.choice([0, 0, 0, 1, 1, 2]) for _ in range(n))
        cases.append("annexb " + ops_of(random_partition(rng, s), rng.random() < 0.8))
    n3 = 1500 if tier == "quick" else 30000
    for i in range(n3):
        s = grammar_stream(rng, big=(i % 50 == 0))
        cases.append("annexb " + ops_of(random_partition(rng, s), rng.random() < 0.85))
    # power-of-two run lengths with cuts around the token boundaries (fast-path thresholds)
    n4 = 3000 if tier == "quick" else 40000
    for i in range(n4):
        s, marks = pattern_stream(rng, big=(i % 40 == 0))
        parts = boundary_partition(rng, s, marks) if rng.random() < 0.8 else random_partition(rng, s)
        cases.append("annexb " + ops_of(parts, rng.random() < 0.85))
    for i in range(12 if tier == "quick" else 150):
        s, marks = pattern_stream(rng, huge=True)
        if len(s) > (1 << 21):
            continue
        cases.append("!annexb " + ops_of(boundary_partition(rng, s, marks), True))
    # streams described by sizes (units to 16 MiB, zero padding to 64 KiB): implementation only, against the segmentation
    for sc in big_scripts(rng, tier):
        cases.append("!annexbig F " + sc)
    # zero padding of every length up to 300 before a unit, in one push and cut after two zeros
    for z in range(0, 300 if tier == "quick" else 1100):
        s = b"\x00" * z + b"\x01\x65\x88" + b"\x00" * (z % 5) + b"\x00\x00\x01\x41\x9a"
        cases.append("annexb " + ops_of([s], True))
        cases.append("annexb " + ops_of([s[:2], s[2:]], True))
        g = b"\x00\x00\x01\x09" + s
        cases.append("annexb " + ops_of([g], True))
    return cases


def canon(case, ans):
    if case.lstrip("!").startswith("annexbig"):
        return ans
    ops = parse_trace(ans)
    units, rem = units_of(ops)
    return "units=%s open=%s" % (",".join(u or "-" for u in units), rem or "-")


def stream_of(case):
    ops = case.split()[1].split(",") if len(case.split()) > 1 else []
    data = bytearray()
    for o in ops:
        if o.startswith("p"):
            data += bytes.fromhex(o[1:])
    return bytes(data), (ops and ops[-1] == "r")


def extra_check(r):
    """independent oracle: after a final reset the implementation's units are the segmentation of the whole stream"""
    if r["case"].lstrip("!").startswith("annexbig"):
        d = big_check(r["case"], r["dev"])
        return ("value", d) if d else None
    data, has_reset = stream_of(r["case"].lstrip("!"))
    if not has_reset or "r" in r["case"].split()[1].split(",")[:-1]:
        return None
    units, rem = units_of(parse_trace(r["dev"]))
    want = [u.hex() for u in segment(data)]
    if units != want or rem:
        return ("value", "implementation's units differ from the start-code segmentation of the stream")
    return None


def nontrivial(r):
    if r["case"].lstrip("!").startswith("annexbig"):
        return True
    data, _ = stream_of(r["case"].lstrip("!"))
    return b"\x00\x00\x01" in data


def classify(r):
    if r["case"].lstrip("!").startswith("annexbig"):
        return ["annexbig"]
    data, rs = stream_of(r["case"].lstrip("!"))
    k = ["len<=%d" % (8 if len(data) <= 8 else 64 if len(data) <= 64 else 1024 if len(data) <= 1024 else 16384 if len(data) <= 16384 else 9999999)]
    k.append("units=%d" % min(4, len(segment(data))))
    k.append("reset" if rs else "noreset")
    return k
