"""C01 - Annex B framing is invariant under push chunking and equals the start-code segmentation."""
from vlib.bitgen import hx, all_partitions
from vlib.annexb_util import parse_trace, units_of, all_strings, segment

ID = "C01"
RULE = ("exhaustive: every byte string up to length L over {00,01,02} x every partition into non-empty pushes, with "
        "and without a final reset, plus partitions with empty pushes interleaved; random grammar streams (units with "
        "zero runs, 3/4-byte start codes, garbage, trailing zeros, units up to 8 KiB) x random partitions. "
        "observable = list of units (bytes grouped by end flags) and the open remainder; non-trivial = stream holds a start code")
CORRESPONDENCE = "Model/AnnexB.v push/reset vs annexb::AnnexBReader (units and open remainder)"
ASSUMPTIONS = ["memchr and slice borrowing are abstracted (lists, per-byte steps); exercised by the correspondence"]
EXHAUSTIVE = False


def ops_of(parts, reset=True):
    return ",".join(["p" + ("" if not p else hx(p)) for p in parts] + (["r"] if reset else []))


def grammar_stream(rng, big=False):
    out = bytearray()
    for _ in range(rng.randrange(1, 6)):
        c = rng.randrange(10)
        if c < 2:
            out += bytes(rng.choice([0, 0, 1, 2, 0xff]) for _ in range(rng.randrange(0, 6)))  # garbage / zeros
        out += b"\x00" * rng.randrange(0, 3)
        out += rng.choice([b"\x00\x00\x01", b"\x00\x00\x00\x01", b"\x00\x00\x01", b"\x00\x01", b"\x00\x00\x00\x00\x01"])
        n = rng.choice([0, 1, 2, 3, 5, 17, 127, 128, 129, 300]) if not big else rng.choice([1000, 4096, 8192])
        unit = bytearray(rng.choice([0, 0, 1, 2, 3, 0x41, 0xff]) if rng.random() < 0.3 else rng.randrange(1, 256) for _ in range(n))
        out += unit
        out += b"\x00" * rng.choice([0, 0, 1, 2, 3])
    return bytes(out)


def random_partition(rng, data):
    parts, i = [], 0
    mode = rng.randrange(5)
    while i < len(data):
        if rng.random() < 0.1:
            parts.append(b"")
        k = {0: 1, 1: rng.choice([1, 2, 3]), 2: rng.choice([127, 128, 129]), 3: rng.randrange(1, 40), 4: rng.randrange(1, len(data) + 1)}[mode]
        parts.append(data[i:i + k])
        i += k
    if rng.random() < 0.2:
        parts.append(b"")
    return parts


def gen(tier, rng):
    L = 6 if tier == "quick" else 8
    cases = []
    for s in all_strings([0, 1, 2], L):
        for parts in all_partitions(s):
            cases.append("annexb " + ops_of(parts, True))
        # the same stream without reset, one-byte pushes and with empty pushes interleaved
        one = [bytes([b]) for b in s]
        cases.append("annexb " + ops_of(one, False))
        inter = [b""]
        for p in one:
            inter += [p, b""]
        cases.append("annexb " + ops_of(inter, True))
    # longer strings with sampled partitions
    L2 = L + 3
    n2 = 3000 if tier == "quick" else 60000
    for _ in range(n2):
        n = rng.randrange(L + 1, L2 + 1)
        s = bytes(rng.choice([0, 0, 0, 1, 1, 2]) for _ in range(n))
        cases.append("annexb " + ops_of(random_partition(rng, s), rng.random() < 0.8))
    n3 = 1500 if tier == "quick" else 30000
    for i in range(n3):
        s = grammar_stream(rng, big=(i % 50 == 0))
        cases.append("annexb " + ops_of(random_partition(rng, s), rng.random() < 0.85))
    return cases


def canon(case, ans):
    ops = parse_trace(ans)
    units, rem = units_of(ops)
    return "units=%s open=%s" % (",".join(u or "-" for u in units), rem or "-")


def stream_of(case):
    ops = case.split()[1].split(",") if len(case.split()) > 1 else []
    data = bytearray()
    for o in ops:
        if o.startswith("p"):
            data += bytes.fromhex(o[1:])
    return bytes(data), (ops and ops[-1] == "r")


def extra_check(r):
    """independent oracle: after a final reset the implementation's units are the segmentation of the whole stream"""
    data, has_reset = stream_of(r["case"])
    if not has_reset or "r" in r["case"].split()[1].split(",")[:-1]:
        return None
    units, rem = units_of(parse_trace(r["dev"]))
    want = [u.hex() for u in segment(data)]
    if units != want or rem:
        return ("value", "implementation's units differ from the start-code segmentation of the stream")
    return None


def nontrivial(r):
    data, _ = stream_of(r["case"])
    return b"\x00\x00\x01" in data


def classify(r):
    data, rs = stream_of(r["case"])
    k = ["len<=%d" % (8 if len(data) <= 8 else 64 if len(data) <= 64 else 1024 if len(data) <= 1024 else 99999)]
    k.append("units=%d" % min(4, len(segment(data))))
    k.append("reset" if rs else "noreset")
    return k
