"""C16 - accepted parameter sets and slice headers satisfy documented range invariants."""
import re
from vlib import h264gen as g
from vlib.bitgen import hx

ID = "C16"
# the property speaks about accepted inputs (values / invariants); which error a rejected input gets is not part of it
ERROR_IDENTITY_IRRELEVANT = True
RULE = ("exhaustive: every RBSP of up to 2 bytes (65793) for the SPS parser (after a fixed 3-byte profile/flags/level prefix "
        "for 3 profiles) and for the PPS and slice parsers under 4 contexts; then mutation-based: generated valid sets with "
        "1..3 random bit flips. observable: parse result (vs the model) and the invariants of the property evaluated on the "
        "implementation's accepted results. non-trivial = accepted")
CORRESPONDENCE = "Model parsers vs crate parsers on short and mutated inputs; invariants = conclusions of the Coq theorems"
ASSUMPTIONS = ["contexts are built from parameter sets the parsers accepted"]


def gen(tier, rng):
    cases = []
    # SPS: all 2-byte continuations after the 3 header bytes
    for prof in ([66, 100, 244] if tier == "quick" else [66, 77, 100, 110, 244, 44, 118]):
        step = 1 if tier == "thorough" else 3
        for v in range(0, 65536, step):
            cases.append("sps raw:%02x4028%04x" % (prof, v))
        for v in range(256):
            cases.append("sps raw:%02x4028%02x" % (prof, v))
    # contexts for PPS / slice
    ctxs = []
    for i in range(4):
        s = g.gen_sps(rng, sps_id=0, small=True, force={"profile_idc": [66, 100, 244, 77][i], "frame_mbs_only": i % 2 == 0,
                                                        "poc_type": i % 3, "log2_max_frame_num_minus4": [0, 1, 0, 12][i]})
        p = g.gen_pps(rng, s, pps_id=0, force={"num_slice_groups_minus1": 0, "ext": False, "weighted_pred": i == 1})
        ctxs.append(("S" + hx(g.sps_nal(s, rng)), "P" + hx(g.pps_nal(p, rng)), s, p))
    stepp = 1 if tier == "thorough" else 5
    for cs, cp, s, p in ctxs:
        for v in range(0, 65536, stepp):
            cases.append("pps %s raw:%04x" % (cs, v))
        for v in range(256):
            cases.append("pps %s raw:%02x" % (cs, v))
        for v in range(0, 65536, stepp * 2):
            for hdr in (0x65, 0x41):
                cases.append("slice %s,%s raw:%02x%04x" % (cs, cp, hdr, v))
    # mutation-based
    n = 1500 if tier == "quick" else 40000
    for i in range(n):
        s = g.gen_sps(rng, small=rng.random() < 0.7)
        rb = bytearray(g.enc_sps(s, rng).bytes())
        for _ in range(rng.randrange(1, 4)):
            pos = rng.randrange(len(rb) * 8)
            rb[pos // 8] ^= 0x80 >> (pos % 8)
        cases.append("sps raw:" + hx(bytes(rb)))
        cs, cp, s0, p0 = ctxs[i % 4]
        pb = bytearray(g.enc_pps(g.gen_pps(rng, s0), rng).bytes())
        for _ in range(rng.randrange(0, 3)):
            pos = rng.randrange(len(pb) * 8)
            pb[pos // 8] ^= 0x80 >> (pos % 8)
        cases.append("pps %s raw:%s" % (cs, hx(bytes(pb))))
        nal, _ = g.slice_nal(g.gen_slice(rng, s0, p0), rng)
        nb = bytearray(nal)
        for _ in range(rng.randrange(0, 3)):
            pos = rng.randrange(8, len(nb) * 8)
            nb[pos // 8] ^= 0x80 >> (pos % 8)
        cases.append("slice %s,%s raw:%s" % (cs, cp, hx(bytes(nb))))
    # a context holding every one of the 256 PPS ids (stored in several orders, the last ones stored again), slices naming
    # ids across the range: the returned PPS is the entry named by the id
    for order in range(2 if tier == "quick" else 8):
        s0 = g.gen_sps(rng, sps_id=0, small=True, force={"profile_idc": 66, "frame_mbs_only": True, "poc_type": 2})
        ids = list(range(256))
        if order % 2:
            rng.shuffle(ids)
        pps = {}
        items = ["S" + hx(g.sps_nal(s0, rng))]
        for i in ids + [ids[-1], ids[0]]:
            pp = g.gen_pps(rng, s0, pps_id=i, force={"num_slice_groups_minus1": 0, "ext": False})
            pp["pic_init_qs_minus26"] = (i % 40) - 20
            pps[i] = pp
            items.append("P" + hx(g.pps_nal(pp, rng)))
        srcs = []
        for i in [ids[-1], ids[0], 255, 0, 254, 128, rng.randrange(256)]:
            hh = g.gen_slice(rng, s0, pps[i], nal_type=rng.choice([1, 5]), ref_idc=1, slice_type=rng.choice([3, 4, 8, 9, 2, 7]))
            srcs.append("raw:" + hx(g.slice_nal(hh, rng)[0]))
        cases.append("slices %s %s" % (",".join(items), " ".join(srcs)))
    # one Exp-Golomb element displaced by a multiple of 256 (a value that a narrowing cast maps back into range)
    from vlib import bitgen
    for i in range(2500 if tier == "quick" else 50000):
        force = {"profile_idc": rng.choice(g.CHROMA_PROFILES)} if i % 2 else {}
        if i % 4 == 1:
            force["chroma_format_idc"] = 3
        s = g.gen_sps(rng, small=True, force=force)
        if i % 4 == 1:
            s["scaling_matrix"] = True
        if len(s["offsets_ref_frame"]) > 7:
            s["offsets_ref_frame"] = s["offsets_ref_frame"][:2]
        cases.append("sps raw:" + hx(bitgen.aliased(rng, lambda: g.enc_sps(s, rng).bytes())))
        cs, cp, s0, p0 = ctxs[i % 4]
        pq = g.gen_pps(rng, s0)
        cases.append("pps %s raw:%s" % (cs, hx(bitgen.aliased(rng, lambda: g.enc_pps(pq, rng).bytes()))))
        hq = g.gen_slice(rng, s0, p0)
        cases.append("slice %s,%s raw:%s" % (cs, cp, hx(bitgen.aliased(rng, lambda: g.slice_nal(hq, rng)[0]))))
    # syntax-steering elements set to a value congruent to a valid one modulo 2^8 / 2^16, encoded consistently with what
    # the standard says for the value actually sent (an Invalid chroma format has 8 scaling lists and no plane flag)
    for i in range(200 if tier == "quick" else 4000):
        s = g.gen_sps(rng, small=True, force={"profile_idc": rng.choice(g.CHROMA_PROFILES)})
        s["chroma_format_idc"] = rng.choice([0, 1, 2, 3, 3, 3]) + rng.choice([256, 512, 65536, 1 << 24])
        s["scaling_matrix"] = rng.random() < 0.7
        if len(s["offsets_ref_frame"]) > 7:
            s["offsets_ref_frame"] = s["offsets_ref_frame"][:2]
        cases.append("sps raw:" + hx(g.enc_sps(s, rng).bytes()))
    return cases


def ints(a, name):
    return [int(x) for x in re.findall(name + r":(-?\d+)", a)]


def extra_check(r):
    a = r["dev"]
    if r["case"].startswith("slices "):
        return None        # judged against the model (every single parse) by the runner
    if not a.startswith("ok:"):
        return None
    cmd = r["case"].split()[0]
    bad = []
    if cmd == "sps":
        if int(re.search(r"SeqParamSetId\((\d+)\)", a).group(1)) > 31:
            bad.append("sps id")
        if ints(a, "log2_max_frame_num_minus4")[0] > 12:
            bad.append("log2_max_frame_num")
        for v in ints(a, "log2_max_pic_order_cnt_lsb_minus4"):
            if v > 12:
                bad.append("log2 poc lsb")
        if ints(a, "bit_depth_luma_minus8")[0] > 6 or ints(a, "bit_depth_chroma_minus8")[0] > 6:
            bad.append("bit depth")
        m = re.search(r"offsets_for_ref_frame:\[([^\]]*)\]", a)
        if m and m.group(1) and m.group(1).count(",") + 1 > 255:
            bad.append("poc cycle")
        for m in re.finditer(r"cpb_specs:\[(.*?)\],initial", a):
            n = m.group(1).count("CpbSpec{")
            if not 1 <= n <= 32:
                bad.append("cpb count %d" % n)
        m = re.search(r"BitstreamRestrictions\{[^}]*\}", a)
        if m:
            b = m.group(0)
            if ints(b, "max_bytes_per_pic_denom")[0] > 16 or ints(b, "max_bits_per_mb_denom")[0] > 16 or \
               ints(b, "log2_max_mv_length_horizontal")[0] > 16 or ints(b, "log2_max_mv_length_vertical")[0] > 16:
                bad.append("restriction fields")
            if ints(b, "max_num_reorder_frames")[0] > ints(b, "max_dec_frame_buffering")[0]:
                bad.append("reorder > dec buffering")
            if ints(b, "max_dec_frame_buffering")[0] < ints(a, "max_num_ref_frames")[0]:
                bad.append("dec buffering < max_num_ref_frames")
        m = re.search(r"scaling_list4x4:\[(.*?)\],scaling_list8x8:\[(.*?)\]\}\)", a)
        if m:
            def count(sx):
                return len(re.findall(r"NotPresent|UseDefault|List\(", sx))
            cf = re.search(r"chroma_format:(\w+)", a).group(1)
            want8 = 6 if cf == "YUV444" else 2
            if count(m.group(1)) != 6 or count(m.group(2)) != want8:
                bad.append("scaling list counts %d/%d" % (count(m.group(1)), count(m.group(2))))
    elif cmd == "pps":
        if int(re.search(r"PicParamSetId\((\d+)\)", a).group(1)) > 255 or int(re.search(r"SeqParamSetId\((\d+)\)", a).group(1)) > 31:
            bad.append("ids")
        if ints(a, "num_ref_idx_l0_default_active_minus1")[0] > 31 or ints(a, "num_ref_idx_l1_default_active_minus1")[0] > 31:
            bad.append("ref idx")
        for v in ints(a, "num_slice_groups_minus1"):
            if v > 7:
                bad.append("slice groups")
        if not -26 - 36 <= ints(a, "pic_init_qp_minus26")[0] <= 25 or not -26 <= ints(a, "pic_init_qs_minus26")[0] <= 25 or \
           not -12 <= ints(a, "chroma_qp_index_offset")[0] <= 12:
            bad.append("qp/qs/chroma offsets")
        for v in ints(a, "second_chroma_qp_index_offset"):
            if not -12 <= v <= 12:
                bad.append("second chroma offset")
    elif cmd == "slice":
        if ";same=11" not in a:
            bad.append("returned sets are not the context entries")
        for v in re.findall(r"slice_qs:Some\((\d+)\)", a):
            if int(v) > 51:
                bad.append("slice_qs")
        for v in ints(a, "num_ref_idx_l0_active_minus1") + ints(a, "num_ref_idx_l1_active_minus1"):
            if v > 31:
                bad.append("ref idx override")
        if ints(a, "frame_num")[0] >= 1 << 16:
            bad.append("frame_num")
    if bad:
        return ("value", "accepted result violates: " + ", ".join(bad))
    return None


def nontrivial(r):
    return r["dev"].startswith("ok:")


def classify(r):
    return [r["case"].split()[0], "accepted" if r["dev"].startswith("ok:") else "rejected"]
