"""C14 - more_rbsp_data / trailing-bits checks are exact at every bit position."""
from vlib.bitgen import hx, nal_src, escape

ID = "C14"
RULE = ("every bit string of up to B bytes x every bit position (reached by one fixed-width read) x {has_more then read 8 "
        "bits, finish_rbsp, finish_sei_payload}; longer random strings with cabac_zero_words (00 00 03 through the NAL "
        "path) appended; over contiguous RBSP, chunked complete NALs and incomplete NALs. non-trivial = position is "
        "inside the data")
CORRESPONDENCE = "Model/BitReader.v has_more_rbsp_data/finish_rbsp/finish_sei_payload vs rbsp::BitReader"
ASSUMPTIONS = ["bitstream-io's BitReader is modelled at documentation level"]


def pos_ops(pos):
    ops = []
    while pos > 0:
        k = min(pos, 32)
        ops.append("u32.%d" % k)
        pos -= k
    return ops


def gen(tier, rng):
    cases = []
    B = 2
    strings = [bytes([a]) for a in range(256)] + [b""]
    step = 1 if tier == "thorough" else 1
    for a in range(256):
        for b in ([0x00, 0x01, 0x80, 0xff, 0x40, 0x10] if tier == "quick" else range(256)):
            strings.append(bytes([a, b]))
    if tier == "thorough":
        for _ in range(20000):
            strings.append(bytes(rng.choice([0, 0x80, 0x01, 0xff, rng.randrange(256)]) for _ in range(3)))
    for s in strings:
        nbits = len(s) * 8
        for pos in range(nbits + 1):
            pre = pos_ops(pos)
            cases.append("bits raw:%s %s" % (hx(s), ",".join(pre + ["m", "m", "u8.8"])))
            cases.append("bits raw:%s %s" % (hx(s), ",".join(pre + ["f"])))
            cases.append("bits raw:%s %s" % (hx(s), ",".join(pre + ["s"])))
    # NAL path with cabac zero words and chunking, complete and incomplete
    n = 1500 if tier == "quick" else 30000
    for _ in range(n):
        ln = rng.randrange(0, 12)
        body = bytes(rng.choice([0, 0, 0x80, 1, rng.randrange(256)]) for _ in range(ln))
        tail = rng.choice([b"", b"\x80", b"\x80\x00\x00", b"\x80\x00\x00\x00\x00", b"\x00", b"\x40", b"\x80\x00\x01"])
        rbsp = body + tail
        nal = bytes([0x68]) + escape(rbsp)
        parts, i = [], 0
        while i < len(nal):
            k = rng.choice([1, 2, 3, 8])
            parts.append(nal[i:i + k])
            i += k
        pos = rng.randrange(0, len(rbsp) * 8 + 2)
        op = rng.choice([["m", "m", "u8.8"], ["f"], ["s"], ["m", "f"], ["m", "s"]])
        cases.append("bits %s %s" % (nal_src(parts, rng.random() < 0.6), ",".join(pos_ops(pos) + op)))
        if rng.random() < 0.25:
            # exactly at the end of what an INCOMPLETE NAL has delivered so far: every check must report "would block"
            # (and on a complete NAL: the end-of-data answers)
            endpos = len(rbsp) * 8
            for op2 in (["f"], ["s"], ["m"]):
                cases.append("bits %s %s" % (nal_src(parts, False), ",".join(pos_ops(endpos) + op2)))
                cases.append("bits %s %s" % (nal_src(parts, True), ",".join(pos_ops(endpos) + op2)))
    # the borrowed inner reader (BitReader::reader()) between queries: the answers depend on the position only
    for _ in range(600 if tier == "quick" else 12000):
        ln = rng.randrange(1, 10)
        body = bytes(rng.choice([0, 0x80, 0x80, 1, 0x40, rng.randrange(256)]) for _ in range(ln))
        rbsp = body + rng.choice([b"", b"\x80", b"\x80\x00", b"\x00\x00"])
        ops = []
        for _ in range(rng.randrange(2, 7)):
            ops.append(rng.choice(["m", "m", "R1", "R2", "R%d" % rng.randrange(0, 12), "u8.8", "u8.%d" % rng.randrange(0, 9), "b", "t8"]))
        ops.append(rng.choice(["m", "f", "s"]))
        if rng.random() < 0.5:
            cases.append("bits raw:%s %s" % (hx(rbsp), ",".join(ops)))
        else:
            nal = bytes([0x68]) + escape(rbsp)
            parts, i = [], 0
            while i < len(nal):
                k = rng.choice([1, 2, 3, 8])
                parts.append(nal[i:i + k])
                i += k
            cases.append("bits %s %s" % (nal_src(parts, rng.random() < 0.7), ",".join(ops)))
    # a failed Exp-Golomb read (more than 31 leading zeros) between queries: the reader goes on behind the codeword's 1 bit
    for _ in range(300 if tier == "quick" else 6000):
        pre = bytes(rng.choice([0x80, 0xff, 0x01, 0x40]) for _ in range(rng.randrange(0, 2)))
        rbsp = pre + bytes(rng.choice([4, 5, 6, 9])) + bytes([rng.choice([0x80, 0x40, 0x01, 0x81, 0xc0])]) + \
            bytes(rng.choice([0, 0, 0x80, 0x01]) for _ in range(rng.randrange(0, 4)))
        ops = [rng.choice(["m", "b", "u8.%d" % rng.randrange(1, 9)]) for _ in range(rng.randrange(1, 3))]
        ops += [rng.choice(["ue", "se"]), "m", rng.choice(["m", "ue", "b"]), rng.choice(["m", "f", "s"])]
        if rng.random() < 0.5:
            cases.append("bits raw:%s %s" % (hx(rbsp), ",".join(ops)))
        else:
            nal = bytes([0x68]) + escape(rbsp)
            cut = rng.randrange(1, len(nal))
            cases.append("bits %s %s" % (nal_src([nal[:cut], nal[cut:]], rng.random() < 0.7), ",".join(ops)))
    # long runs of trailing zero bytes (cabac_zero_words) after the stop bit, with and without a stray bit behind them:
    # run lengths around the powers of two (block-wise comparisons), contiguous and chunked
    for z in sorted({max(0, p + d) for p in (16, 32, 64, 128, 256, 512, 1024, 4096) for d in (-2, -1, 0, 1, 2)} | {100, 200, 300, 5000}):
        for stray in (b"", b"\x01", b"\x80", b"\x00\x10"):
            for body, pos in ((b"\x4d\x80", 8), (b"\x4d\xa0", 10), (b"\x80", 0), (b"\x4d", 8)):
                rbsp = body + bytes(z) + stray
                for op in (["f"], ["s"], ["m", "m"]):
                    cases.append("bits raw:%s %s" % (hx(rbsp), ",".join(pos_ops(pos) + op)))
                nal = bytes([0x68]) + escape(rbsp)
                cut = rng.randrange(1, len(nal))
                cases.append("bits %s %s" % (nal_src([nal[:cut], nal[cut:]], True), ",".join(pos_ops(pos) + [rng.choice(["f", "s", "m"])])))
    return cases


def nontrivial(r):
    return "E:ReaderErrorFor:x:UnexpectedEof" not in r["dev"].split()[:1]


def extra_check(r):
    """oracle on contiguous RBSP: the definition in the property text"""
    p = r["case"].split()
    if not p[1].startswith("raw:"):
        return None
    data = bytes.fromhex(p[1][4:]) if p[1][4:] != "-" else b""
    bits = [(byte >> (7 - i)) & 1 for byte in data for i in range(8)]
    ops = p[2].split(",")
    k = 0
    while k < len(ops) and ops[k].startswith("u32."):
        k += 1
    if ops[k:] not in (["m", "m", "u8.8"], ["m", "m"], ["f"], ["s"], ["m"]):
        return None            # histories with other operations are judged against the model only
    pos = sum(int(o.split(".")[1]) for o in ops if o.startswith("u32."))
    last = ops[-1] if ops[-1] in ("f", "s") else "m"
    toks = r["dev"].split()
    if pos > len(bits):
        return None
    rest = bits[pos:]
    npre = sum(1 for o in ops if o.startswith("u32."))
    res = toks[npre:]
    if last == "m":
        want = "T" if any(rest[1:]) else "F"
        if res[:len(ops[k:])][:2] != [want, want][:len([o for o in ops[k:] if o == "m"])]:
            return ("value", "has_more_rbsp_data should be %s (twice)" % want)
        if len(rest) >= 8 and ops[k:] == ["m", "m", "u8.8"]:
            v = 0
            for x in rest[:8]:
                v = v * 2 + x
            if res[2:3] != ["v%d" % v]:
                return ("value", "has_more_rbsp_data moved the reader")
    elif last == "f":
        ok = len(rest) >= 1 and rest[0] == 1 and not any(rest[1:])
        if (res[:1] == ["ok"]) != ok:
            return ("value", "finish_rbsp verdict wrong")
        if not ok:
            later_one = any(rest[1:]) if rest and rest[0] == 1 else any(rest[1:]) if rest else False
            want = "E:RemainingData" if (rest and any(rest[1:])) else "E:ReaderErrorFor:finish:UnexpectedEof"
            if res[:1] != [want]:
                return ("value", "finish_rbsp error split wrong, want " + want)
    else:
        ok = (len(rest) == 0) or (rest[0] == 1 and not any(rest[1:]))
        if (res[:1] == ["ok"]) != ok:
            return ("value", "finish_sei_payload verdict wrong")
    return None


def classify(r):
    a = r["dev"].split()
    last = a[-1] if a else "empty"
    if last.startswith("v"):
        last = "value"
    return ["op_" + r["case"].split()[-1].split(",")[-1], last[:30], r["case"].split()[1][:5]]
