"""C05 - PPS parsing recovers exactly the values encoded per H.264 7.3.2.2."""
from vlib import h264gen as g
from vlib.bitgen import hx, nal_src, chunkings

ID = "C05"
# the property speaks about accepted inputs (values / invariants); which error a rejected input gets is not part of it
ERROR_IDENTITY_IRRELEVANT = True
RULE = ("conforming PPS built from a boundary table (ids 0..255, all 7 slice-group map types x 2..8 groups with run lengths, "
        "rectangles, change rates and explicit ids of ceil(log2) bits, ref-idx defaults, QP/QS/chroma offsets at their bounds, "
        "with and without the extension tail, 6/8/12 picture scaling lists) x contexts holding the referenced SPS (chroma "
        "format, bit depth, separate planes, sizes up to 2^32 macroblocks vary), as contiguous RBSP and escaped chunked NALs; "
        "explicit maps of 4095..8192 ids through the model and of 32768..139264 (thorough 2^20) ids on the implementation against "
        "an independent re-read of the bits; one Exp-Golomb element displaced by a multiple of 256; malformed stream: truncations, bit flips, out-of-range elements, missing SPS, trailing garbage. "
        "observable: Debug rendering of the result / the error. non-trivial = parse got past the SPS lookup")
CORRESPONDENCE = "Model/Pps.v pps_from_bits vs PicParameterSet::from_bits"
ASSUMPTIONS = ["context holds SPS values returned by the SPS parser (history quantifier)"]


def gen(tier, rng):
    n = 2500 if tier == "quick" else 60000
    cases = []
    for i in range(n):
        small = rng.random() < 0.8
        force = {}
        r = rng.random()
        if r < 0.1:
            force = {"w": 65535, "h": 65535}
        elif r < 0.15:
            force = {"w": g.UE_MAX, "h": g.UE_MAX}
        if i % 5 == 0:
            force["profile_idc"] = rng.choice([100, 110, 122, 244, 44])
        s = g.gen_sps(rng, sps_id=rng.choice([0, 0, 3, 31]), small=small, force=force)
        ctx = "S" + hx(g.sps_nal(s, rng))
        pf = {}
        if i % 3 == 0:
            pf["num_slice_groups_minus1"] = rng.choice([1, 2, 3, 4, 5, 6, 7])
            pf["map_type"] = i // 3 % 7
        p = g.gen_pps(rng, s, force=pf)
        rb = g.enc_pps(p, rng).bytes()
        if rng.random() < 0.5:
            cases.append("pps %s raw:%s" % (ctx, hx(rb)))
        else:
            cases.append("pps %s %s" % (ctx, nal_src(chunkings(rng, g.nal_bytes(8, 3, rb), 1)[0], True)))
        m = rng.random()
        if m < 0.3:
            k = rng.randrange(0, len(rb) + 1)
            cases.append("pps %s raw:%s" % (ctx, hx(rb[:k])))
            b = bytearray(rb)
            pos = rng.randrange(len(b) * 8)
            b[pos // 8] ^= 0x80 >> (pos % 8)
            cases.append("pps %s raw:%s" % (ctx, hx(bytes(b))))
            cases.append("pps %s raw:%s" % (ctx, hx(rb + bytes([rng.choice([0, 0, 0x80, 1, 0xff])] * rng.randrange(1, 3)))))
            # zero bytes behind the trailing bits and then more data, as an escaped NAL (the reader's chunks end at the
            # emulation-prevention byte) and chunked right behind the zeros
            junk = rb + bytes(rng.randrange(1, 5)) + rng.choice([b"\x01", b"\x80", b"\x02\xb0", b"\xff", b"\x01\x41"])
            nalj = g.nal_bytes(8, 3, junk)
            cut = max(1, min(len(nalj) - 1, len(g.nal_bytes(8, 3, rb)) + rng.randrange(0, 3)))
            cases.append("pps %s %s" % (ctx, nal_src([nalj], True)))
            cases.append("pps %s %s" % (ctx, nal_src([nalj[:cut], nalj[cut:]], True)))
        if m < 0.04:
            for k in range(len(rb)):
                cases.append("pps %s raw:%s" % (ctx, hx(rb[:k])))
        if m > 0.9:
            # one element out of range / sps missing
            q = dict(p)
            w = rng.randrange(8)
            if w == 0:
                q["id"] = rng.choice([256, 257, g.UE_MAX])
            elif w == 1:
                q["sps_id"] = rng.choice([s["id"] + 1 if s["id"] < 31 else 0, 32, 255])
            elif w == 2:
                q["num_slice_groups_minus1"] = rng.choice([8, 9, 255])
            elif w == 3:
                q["l0"] = rng.choice([32, 33, 255])
            elif w == 4:
                q["pic_init_qp_minus26"] = rng.choice([26, -100, 1000, -27 - 6 * s["bit_depth_luma_minus8"]])
            elif w == 5:
                q["pic_init_qs_minus26"] = rng.choice([26, -27, g.SE_MAX])
            elif w == 6:
                q["chroma_qp_index_offset"] = rng.choice([13, -13])
            else:
                q["ext"], q["second_chroma_qp"] = True, rng.choice([13, -13, 100])
            cases.append("pps %s raw:%s" % (ctx, hx(g.enc_pps(q, rng).bytes())))
            cases.append("pps - raw:%s" % hx(rb))
    # explicit slice-group maps of real picture sizes (MaxFS of levels 5.1 / 6.2 are 36864 / 139264 map units) and around
    # powers of two.  The model's loop appends to its list (quadratic): up to 8192 ids go through the model, larger maps to the
    # implementation only, judged against the ids re-read from the bits by big_map_check
    from vlib import bitgen
    sizes = [4095, 4096, 4097, 8192] if tier == "quick" else [1023, 1024, 4095, 4096, 4097, 8191, 8192, 8193, 16384]
    bigs = [32768, 36863, 36864, 36865, 65535, 65536, 65537, 139264] + ([139265, 262145, 1 << 20] if tier != "quick" else [])
    for cnt in sizes + bigs:
        for ng in ((1, 3, 7) if cnt in bigs else (3,)):
            s = g.gen_sps(rng, sps_id=0, small=True)
            p = g.gen_pps(rng, s, pps_id=rng.choice([0, 7]), force={"num_slice_groups_minus1": ng, "map_type": 6, "npix": cnt - 1})
            cases.append(("!" if cnt in bigs else "") + "pps S%s raw:%s" % (hx(g.sps_nal(s, rng)), hx(g.enc_pps(p, rng).bytes())))
    # one Exp-Golomb element displaced by a multiple of 256 (what a narrowing cast would alias onto the valid value)
    for i in range(1200 if tier == "quick" else 25000):
        s = g.gen_sps(rng, sps_id=rng.choice([0, 3]), small=True, force={"profile_idc": 100} if i % 3 == 0 else {})
        pf = {"num_slice_groups_minus1": rng.choice([1, 2, 7]), "map_type": i // 2 % 7} if i % 2 else {}
        p = g.gen_pps(rng, s, force=pf)
        cases.append("pps S%s raw:%s" % (hx(g.sps_nal(s, rng)), hx(bitgen.aliased(rng, lambda: g.enc_pps(p, rng).bytes()))))
    for _ in range(300 if tier == "quick" else 6000):
        s = g.gen_sps(rng, sps_id=0, small=True)
        cases.append("pps S%s raw:%s" % (hx(g.sps_nal(s, rng)), hx(bytes([0x80 | rng.randrange(128)] + [rng.randrange(256) for _ in range(rng.randrange(0, 12))]))))
    return cases


def big_map_check(r):
    """implementation-only cases: the ids the crate reports are the ids in the bits (read here by an independent reader)"""
    raw = bytes.fromhex(r["case"].split("raw:")[1])
    bits = "".join("{:08b}".format(b) for b in raw)
    pos = [0]

    def ue():
        z = 0
        while bits[pos[0]] == "0":
            z += 1
            pos[0] += 1
        pos[0] += 1
        v = int(bits[pos[0]:pos[0] + z] or "0", 2)
        pos[0] += z
        return (1 << z) - 1 + v
    ue(), ue()
    pos[0] += 2
    ng, mt, m1 = ue(), ue(), ue()
    if mt != 6:
        return None
    size = {1: 1, 2: 2, 3: 2}.get(ng, 3)
    ids = [int(bits[pos[0] + i * size: pos[0] + (i + 1) * size], 2) for i in range(m1 + 1)]
    want = "slice_group_id:[%s]" % ",".join(map(str, ids))
    if want not in r["dev"]:
        return ("value", "explicit slice-group map of %d units: the reported ids are not the ids in the bits (%s)" % (m1 + 1, r["dev"][:120]))
    return None


def extra_check(r):
    if r["case"].startswith("!pps"):
        return big_map_check(r)
    return None


def nontrivial(r):
    a = r["dev"]
    return a.startswith("ok:") or not any(k in a for k in ("UnknownSeqParamSetId", "pic_parameter_set_id", "BadPicParamSetId", "seq_parameter_set_id"))


def classify(r):
    a = r["dev"]
    if a.startswith("ok:"):
        k = ["accepted"]
        for key in ("Interleaved", "Dispersed", "ForegroundAndLeftover", "Changing", "ExplicitAssignment", "extension:Some",
                    "pic_scaling_matrix:Some", "scaling_list8x8:Some", "slice_groups:None"):
            if key in a:
                k.append(key)
        return k
    return ["rejected", a.split("(")[0][:40]]
