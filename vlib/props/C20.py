"""C20 - header-byte and idc enumerations: theorems about the dumped tables; the dump is the correspondence."""
ID = "C20"
RULE = ("complete graphs of NalHeader::new/nal_ref_idc/nal_unit_type, UnitType::for_id/id, Profile/ProfileIdc, "
        "Level x ConstraintFlags (65536 pairs), ConstraintFlags accessors, SeqParamSetId/PicParamSetId::from_u32 "
        "(probe set) dumped from the real crate into coq/Gen/ImplTables.v + ImplLevel.v; every row is a case")
EXHAUSTIVE = True
ASSUMPTIONS = ["the dump loop in harness/src/syntax.rs::tables prints what the functions returned",
               "id constructors are swept on the probe set 0..300, 2^k-1, 2^k, 2^k+1 (k=8..31), u32::MAX-1, u32::MAX; "
               "all other u32 values are covered by the model `x > 31` / `x > 255` and the parser correspondence"]
CORRESPONDENCE = "table dump"


def gen(tier, rng):
    # the header accessors once more through the RefNal API (model: Model/Nal.v)
    from vlib.props import C13
    # ... and the profile / level conversions through the accessors that use them (SeqParameterSet::profile / level):
    # every profile byte x flags {00,10,ef,ff} x level bytes 9..13
    return ["refnal nal:c:%02x" % b for b in range(256)] + ["refnal nal:i:%02xaa/bb" % b for b in range(0, 256, 7)] + C13.header_conjunctions(rng)


def nontrivial(r):
    return True


def table_oracle(lines):
    """Python mirror of the predicates of Proofs/C20_proofs.v: which dumped rows break them?"""
    bad = []
    for l in lines:
        p = l.split()
        if not p:
            continue
        k = p[0]
        if k == "hdr":
            b = int(p[1])
            if p[2] == "err":
                ok = b >= 128
            else:
                ok = b < 128 and p[3] == str((b // 32) % 4) and p[4] == str(b % 32) and p[5] == str(b)
        elif k == "ut":
            i = int(p[1])
            ok = (p[2] == "ok" and i < 32 and p[3] == str(i)) or (p[2] == "err" and i >= 32)
        elif k in ("lvlx", "profx"):
            ok = False
        elif k == "uteq":
            ok = p[3] == ("1" if p[1] == p[2] else "0")
        elif k == "prof":
            ok = p[2] == p[1] and p[5] == p[1]
        elif k == "lvl":
            f, lv, back, name = int(p[1]), int(p[2]), int(p[3]), p[4]
            f3 = (f >> 4) & 1
            ok = back == lv and ((name == "L1_b") == (lv == 11 and f3 == 1)) and ((name == "L1_1") == (lv == 11 and f3 == 0))
        elif k == "cf":
            b = int(p[1])
            exp = [(b >> 7) & 1, (b >> 6) & 1, (b >> 5) & 1, (b >> 4) & 1, (b >> 3) & 1, (b >> 2) & 1, b % 4, b]
            ok = [int(x) for x in p[2:10]] == exp
        elif k in ("spsid", "ppsid"):
            x = int(p[1])
            lim = 31 if k == "spsid" else 255
            ok = (p[2] == "ok" and x <= lim and p[3] == str(x)) or (p[2] == "err" and x > lim)
        else:
            continue
        if not ok:
            bad.append(l)
    # distinctness of unit type names
    names = {}
    for l in lines:
        p = l.split()
        if p and p[0] == "ut" and p[2] == "ok":
            if p[4] in names:
                bad.append(l + "  (same type as id %s)" % names[p[4]])
            names[p[4]] = p[1]
    return bad
