"""C12 - end to end: a chunked Annex B stream parses like its NALs parsed in isolation."""
from vlib import h264gen as g
from vlib.bitgen import hx, escape
from vlib.props import C09, C10

ID = "C12"
RULE = ("NAL sequences (generated SPS, PPS referring to them, SEI message lists, slice NALs with payloads from 1 byte to 8 KiB, "
        "sometimes foreign NAL types) serialised with 3-/4-byte start codes and optional leading/trailing zero bytes, "
        "emulation prevention applied, pushed in partitions from {1,2,3,127,128,129,random,whole}, with Buffer/Ignore "
        "policies; sometimes the parameter sets come from an AVC configuration record instead (some with a PPS whose explicit slice-group map needs emulation prevention). observable per handler "
        "invocation: bytes, completeness, parse result. cross-check: every complete NAL's parse result equals the same "
        "NAL parsed alone (separate commands in the same run). non-trivial = stream has >= 2 NALs")
CORRESPONDENCE = "Model pipeline (AnnexB o Accum o RefNal o Rbsp o parsers o Context) vs AnnexBReader::accumulate"
ASSUMPTIONS = ["composition of C01, C18, C08, C15, C02, C04-C06, C10, C19 (proved separately); the borrow plumbing is covered only by execution"]


def make_stream(rng, big=False, esc=False):
    nals = []
    s = g.gen_sps(rng, sps_id=rng.choice([0, 1]), small=True)
    if esc:
        # a PPS whose NAL needs emulation prevention: explicit slice-group map (type 6) with long runs of group 0
        p = g.gen_pps(rng, s, pps_id=rng.choice([0, 3]), force={"map_type": 6, "num_slice_groups_minus1": rng.choice([1, 3, 7]),
                                                                 "npix": rng.choice([40, 100, 300])})
        p["group_ids"] = [0 if rng.random() < 0.95 else rng.randrange(0, 1 << p["group_id_bits"]) for _ in p["group_ids"]]
    else:
        p = g.gen_pps(rng, s, pps_id=rng.choice([0, 3]))
    nals.append(g.sps_nal(s, rng))
    nals.append(g.pps_nal(p, rng))
    for _ in range(rng.randrange(1, 6)):
        c = rng.random()
        if c < 0.25:
            msgs = [(rng.choice([0, 1, 4, 5, 6, 128, 255, 300]), bytes(rng.choice([0, 0, 1, 3, 0xff, rng.randrange(256)]) for _ in range(rng.choice([0, 1, 5, 300]))))
                    for _ in range(rng.randrange(1, 4))]
            nals.append(bytes([0x06]) + escape(C10.enc_msgs(msgs)))
        elif c < 0.85:
            h = g.gen_slice(rng, s, p)
            n = rng.choice([1, 5, 40, 130, 300, 2000, 8192]) if big else rng.choice([1, 5, 40, 130, 300])
            data = [rng.getrandbits(1) for _ in range(8 * n)]
            nal, _ = g.slice_nal(h, rng, data_bits=data + [1])
            nals.append(nal)
        elif c < 0.92:
            nals.append(bytes([rng.choice([0x09, 0x0c, 0x0a, 0x41 | 0x1f])]) + escape(bytes(rng.randrange(256) for _ in range(rng.randrange(0, 20)))))
        else:
            s2 = g.gen_sps(rng, sps_id=s["id"], small=True)
            nals.append(g.sps_nal(s2, rng))
    return s, p, nals


def serialise(rng, nals):
    out = bytearray(b"\x00" * rng.choice([0, 0, 1, 3]))
    for n in nals:
        out += rng.choice([b"\x00\x00\x01", b"\x00\x00\x00\x01"]) + n
        out += b"\x00" * rng.choice([0, 0, 0, 1, 2])
    return bytes(out)


def partition(rng, data):
    mode = rng.randrange(6)
    if len(data) > 1500 and mode in (0, 1):
        mode = rng.choice([2, 3, 5])
    parts, i = [], 0
    while i < len(data):
        k = {0: 1, 1: rng.choice([1, 2, 3]), 2: rng.choice([127, 128, 129]), 3: rng.randrange(1, 50), 4: len(data), 5: rng.choice([16, 32, 64])}[mode]
        parts.append(data[i:i + k])
        i += k
    return parts


def gen(tier, rng):
    cases = []
    n = 300 if tier == "quick" else 8000
    for i in range(n):
        s, p, nals = make_stream(rng, big=(i % 10 == 0), esc=(i % 10 == 5 or i % 7 == 3))
        avcc = "-"
        body = nals
        if i % 5 == 0:
            avcc = hx(C09.build(rng, [nals[0]], [nals[1]]))
            body = nals[2:]
        stream = serialise(rng, body)
        nparts = 1 if len(stream) > 20000 else (3 if tier == "quick" else 5)
        for _ in range(nparts):
            pol = "".join(rng.choice("BBBBBI") for _ in range(rng.randrange(0, 12))) if rng.random() < 0.3 else "B"
            cases.append("pipeline %s %s %s" % (avcc, ",".join(hx(x) for x in partition(rng, stream)), pol))
        # the NALs parsed alone, in the same history (context from the earlier NALs of this stream)
        ctx_items = []
        for nal in nals:
            t = nal[0] & 0x1f
            ctx = ",".join(ctx_items) or "-"
            if t == 7:
                cases.append("sps raw:%s" % hx(bytes(g.bitgen_unescape(nal[1:]))))
                ctx_items.append("S" + hx(nal))
            elif t == 8:
                cases.append("pps %s nal:c:%s" % (ctx, hx(nal)))
                ctx_items.append("P" + hx(nal))
            elif t in (1, 5):
                cases.append("slice %s raw:%s" % (ctx, hx(nal)))
            elif t == 6:
                cases.append("sei nal:c:%s 0" % hx(nal))
    # NALs to 16 MiB (thorough 64 MiB) in several pushes, zero padding to 64 KiB, empty units ahead of long ones - through
    # AnnexBReader::accumulate with an always-Buffer handler, described by sizes: implementation only, judged by big_check
    # (every complete NAL is exactly a unit of the segmentation, every incomplete view a prefix of it)
    from vlib.annexb_util import big_scripts
    for sc in big_scripts(rng, tier):
        if ",D" not in sc:        # multi-GiB runs are for the fragment-handler mode (C01, C18)
            cases.append("!annexbig A " + sc)
    # readers dropped in the middle of a NAL (no reset, no further start code) with 100 bytes .. 1 MiB buffered, each followed
    # in the same process by an ordinary stream through a new reader: nothing of the abandoned NAL shows up there
    for n in (100, 1000, 1023, 1024, 1025, 1500, 3000, 4096, 10000, 65536, 100000, 1 << 20):
        k = max(1, n // 3)
        cases.append("!annexbig A s,d5,s,d%d,|,d%d,|,d%d,a" % (k, k, n - 2 * k))
        s0, p0, nals = make_stream(rng)
        cases.append("pipeline - %s B" % ",".join(hx(x) for x in partition(rng, serialise(rng, nals))))
        cases.append("!annexbig A s,d7,|,d3,s,d9,r")
    return cases


def extra_check(r):
    if r["case"].lstrip("!").startswith("annexbig"):
        from vlib.annexb_util import big_check
        d = big_check(r["case"], r["dev"])
        return ("value", d) if d else None
    return None


def nontrivial(r):
    return r["case"].startswith("!") or r["dev"].count("N:") >= 2 or not r["case"].startswith("pipeline")


def classify(r):
    c = r["case"].split()
    if c[0].startswith("!"):
        return ["annexbig"]
    if c[0] != "pipeline":
        return ["alone_" + c[0]]
    a = r["dev"]
    return ["pipeline", "avcc" if c[1] != "-" else "annexb_only", "ignore" if "I" in c[-1] else "buffer",
            "nals=%d" % min(8, a.count(";1;"))]
