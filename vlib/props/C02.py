"""C02 - RBSP extraction removes exactly the emulation-prevention bytes, for any chunking."""
from vlib.bitgen import hx, all_partitions, nal_src, escape, unescape
from vlib.annexb_util import all_strings

ID = "C02"
RULE = ("exhaustive: every byte string up to length L over {00,01,03,04} x every partition into chunks x read styles "
        "{drain, read(1).., fill/consume(1).., mixed} x skip in {0,1,2}; the same with the hook's fill window 1..4 for "
        "short strings; window cases: chunks of 120..300 and 4000 bytes with escapes and forbidden sequences placed around "
        "offsets 125..131 and 253..259; random payloads escaped per 7.4.1, chunked, streamed and one-shot decoded. "
        "every header byte 0..255 through Nal::rbsp_bytes; NALs of 2^k-2..2^k+2 bytes (k to 17 quick / 24 thorough) one-shot and streamed, "
        "implementation only against the reference unescape. observable: delivered bytes, terminal condition, Cow variant. non-trivial = input contains 00 00")
CORRESPONDENCE = "Model/Rbsp.v ByteReader/decode_nal vs rbsp::ByteReader/decode_nal"
ASSUMPTIONS = ["BufRead::consume(amt <= bytes returned by fill_buf)", "hook h264_reader_verif: ByteReader::verif_with_max_fill (add-only)"]


def styles(rng, n):
    return ["e", ",".join(["r1"] * (n + 2)), ",".join(["f,c1"] * (n + 1)) + ",f",
            ",".join(rng.choice(["r1", "r2", "r5", "f,c0", "f,c1", "f", "r0"]) for _ in range(n + 2)) + ",e"]


def gen(tier, rng):
    L = 6 if tier == "quick" else 8
    cases = []
    for s in all_strings([0, 1, 3, 4], L):
        if not s:
            cases.append("decode_nal -")
            continue
        cases.append("decode_nal " + hx(s))
        parts_all = list(all_partitions(s))
        if len(s) > 4:
            parts_all = [parts_all[0], parts_all[-1]] + rng.sample(parts_all, min(len(parts_all), 3 if tier == "quick" else 12))
        for parts in parts_all:
            st = styles(rng, len(s))
            for skip in (0, 1, 2):
                cases.append("rbsp %s %d 0 %s" % (nal_src(parts, True), skip, st[rng.randrange(4)]))
            cases.append("rbsp %s 1 0 %s" % (nal_src(parts, False), st[rng.randrange(4)]))
        if len(s) <= (5 if tier == "quick" else 7):
            for mf in (1, 2, 3, 4):
                cases.append("rbsp raw:%s %d %d %s" % (hx(s), rng.choice([0, 1]), mf, styles(rng, len(s))[rng.randrange(4)]))
    # window cases
    pats = [b"\x00\x00\x03\x01", b"\x00\x00\x03", b"\x00\x00\x00", b"\x00\x00\x03\x04", b"\x00\x00\x01", b"\x00\x00\x03\x00\x00\x03\x00", b"\x00", b"\x00\x00"]
    for total in (120, 127, 128, 129, 130, 146, 256, 257, 258, 300, 4000):
        for pat in pats:
            for off in list(range(122, 134)) + list(range(250, 262)):
                if off + len(pat) > total:
                    continue
                for fill in (0x11, 0x00 if False else 0x22):
                    body = bytearray([fill]) * total
                    body[off:off + len(pat)] = pat
                    nal = bytes([0x65]) + bytes(body)
                    cases.append("rbsp %s 1 0 e" % nal_src([nal], True))
                    cases.append("decode_nal " + hx(nal))
                    if off % 3 == 0:
                        cases.append("rbsp %s 1 0 e" % nal_src([nal[:100], nal[100:]], True))
                        cases.append("rbsp raw:%s 1 0 %s" % (hx(nal), "r7," * 60 + "e"))
    # random payloads, escaped, chunked
    n = 1500 if tier == "quick" else 30000
    for _ in range(n):
        ln = rng.choice([0, 1, 2, 3, 5, 17, 130, 260, 700])
        payload = bytes(rng.choice([0, 0, 0, 1, 2, 3, 4, 0xff]) for _ in range(ln))
        nal = bytes([0x67]) + escape(payload)
        if rng.random() < 0.15 and len(nal) > 3:  # corrupt one byte
            nal = bytearray(nal)
            nal[rng.randrange(1, len(nal))] = rng.choice([0, 3, 4])
            nal = bytes(nal)
        parts, i = [], 0
        while i < len(nal):
            k = rng.choice([1, 2, 3, 127, 128, 129, 200, 1000])
            parts.append(nal[i:i + k])
            i += k
        cases.append("rbsp %s 1 0 %s" % (nal_src(parts, rng.random() < 0.8), rng.choice(["e", "r1,r2,r3,e", "f,c1,f,e", "r128,r128,e"])))
        cases.append("decode_nal " + hx(nal))
    # every header byte (the payload starts after exactly one byte whatever the NAL type): through Nal::rbsp_bytes and one-shot
    for h in range(256):
        payload = bytes(rng.choice([0, 0, 0, 1, 2, 3, 0x80, 0xff]) for _ in range(rng.choice([3, 6, 9, 40])))
        nal = bytes([h]) + escape(payload)
        cut = rng.randrange(1, len(nal))
        cases.append("rbsp %s 1 0 e" % nal_src([nal[:cut], nal[cut:]], True))
        cases.append("rbsp %s 1 0 %s" % (nal_src([nal], True), rng.choice(["r1,r2,r3,e", "f,c1,f,e", "f,c3,e"])))
        cases.append("decode_nal " + hx(nal))
    # sizes around 2^k (16-bit / 20-bit / 24-bit counters): one-shot decoding borrows exactly when nothing is removed; the
    # streaming reader delivers the same bytes.  Implementation only (the model's printer is quadratic), judged by the
    # reference unescape in extra_check
    for k in ([14, 16, 17] if tier == "quick" else [14, 15, 16, 17, 18, 20, 22, 24]):
        for d in (-2, -1, 0, 1, 2):
            n = (1 << k) + d
            body = bytearray(rng.randrange(1, 256) for _ in range(n))
            for variant in range(4):
                b = bytearray(body)
                if variant == 1:
                    b[n - 4:n] = b"\x00\x00\x03\x01"           # the only escape at the very end
                if variant == 2:
                    b[5:9] = b"\x00\x00\x03\x00"
                if variant == 3:
                    b[n - 3:n] = b"\x00\x00\x00"               # forbidden at the very end
                nal = bytes([0x65]) + bytes(b)
                cases.append("!decode_nal " + hx(nal))
                if d == 0 and k <= 20:
                    cases.append("!rbsp %s 1 0 e" % nal_src([nal[:n // 2], nal[n // 2:]], True))
    return cases


def nontrivial(r):
    return "0000" in r["case"]


def extra_check(r):
    """oracle for the one-shot decoder and full drains: compare with the reference unescape"""
    p = r["case"].lstrip("!").split()
    if p[0] == "decode_nal":
        nal = bytes.fromhex(p[1]) if p[1] != "-" else b""
        want, ok = unescape(nal[1:])
        a = r["dev"]
        if ok:
            exp = ("B:" if want == nal[1:] and len(nal) >= 1 else "O:") + hx(want)
            if a != exp:
                return ("value", "decode_nal: expected %s" % exp[:80])
        elif not a.startswith("E:InvalidData"):
            return ("value", "decode_nal accepted a forbidden sequence")
    elif p[0] == "rbsp" and p[4] == "e" and p[1].startswith("nal:c") and p[3] == "0":
        nal = bytes.fromhex(p[1].split(":", 2)[2].replace("/", "").replace("-", ""))
        skip = int(p[2])
        want, ok = unescape(nal[skip:])
        a = r["dev"]
        if ok and a != "e:" + hx(want):
            return ("value", "stream drain differs from reference unescape")
        if not ok:
            body = a[2:].split("!")[0]
            body = "" if body == "-" else body
            if "!InvalidData" not in a or not hx(want).startswith(body) and body:
                return ("value", "forbidden sequence not reported, or bytes past it delivered")
    if p[0] == "rbsp" and (p[1].startswith("nal:c") or p[1].startswith("raw:")):
        # any history on a complete input: what was handed over, and every window fill_buf showed, lies on the reference
        # unescape of the input (on its clean prefix when the input is invalid) - the statement of C02_stream_history
        raw = bytes.fromhex(p[1].split(":", 2)[2].replace("/", "").replace("-", "")) if p[1].startswith("nal:") else \
            (bytes.fromhex(p[1][4:]) if p[1][4:] != "-" else b"")
        skip = int(p[2])
        want, ok = unescape(raw[skip:])
        ref = hx(want) if want else ""
        delivered, window = "", ""
        for t in r["dev"].split():
            if t.startswith("f:"):
                window = "" if t[2:] == "-" else t[2:]
                if not ref[len(delivered):].startswith(window):
                    return ("value", "fill_buf showed bytes that are not the next bytes of the unescaped payload")
            elif t.startswith("c") and t[1:].isdigit():
                k = 2 * int(t[1:])
                delivered += window[:k]
                window = window[k:]
            elif t.startswith("r:") or t.startswith("e:"):
                body = t[2:].split("!")[0]
                delivered += "" if body == "-" else body
                window = ""
            elif t == "E:InvalidData" and ok:
                return ("value", "InvalidData reported on a payload without forbidden sequences")
            elif t == "E:WouldBlock":
                return ("value", "WouldBlock reported on a complete input")
        if not ref.startswith(delivered):
            return ("value", "the bytes handed over are not a prefix of the unescaped payload")
    return None


def _history(ans):
    """property-level reading of an `rbsp` answer: (delivered bytes hex, set of error kinds, drained to the end?)"""
    delivered, window, errs, drained = "", "", [], False
    for t in ans.split():
        if t.startswith("f:"):
            window = "" if t[2:] == "-" else t[2:]
        elif t.startswith("c") and t[1:].isdigit():
            k = 2 * int(t[1:])
            delivered += window[:k]
            window = window[k:]
        elif t.startswith("r:"):
            delivered += "" if t[2:] == "-" else t[2:]
            window = ""
        elif t.startswith("e:"):
            body, _, err = t[2:].partition("!")
            delivered += "" if body == "-" else body
            drained = True
            if err:
                errs.append(err)
        elif t.startswith("E:"):
            errs.append(t[2:])
    return delivered, sorted(set(errs)), drained


def agree(case, a, m):
    """C02 speaks about the bytes delivered and how the stream ends, not about how many bytes one fill_buf call shows
    (the size of the internal examination window): two `rbsp` histories agree when the delivered byte strings are
    prefix-comparable (equal when both drained to the end) and the same kinds of error occurred."""
    if not case.startswith("rbsp "):
        return a == m
    da, ea, fa = _history(a)
    dm, em, fm = _history(m)
    if fa and fm:
        if ea != em:
            return False
        if "InvalidData" in ea:
            # how much of the clean prefix is handed over before the error is reported depends on the examination window;
            # the property only demands that nothing past the offending position is delivered (checked by extra_check)
            return da.startswith(dm) or dm.startswith(da)
        return da == dm
    # a history that stops before the end: one side may simply have got further with the same calls
    if not (set(ea) <= set(em) or set(em) <= set(ea)):
        return False
    return da.startswith(dm) or dm.startswith(da)


def classify(r):
    a = r["dev"]
    return [r["case"].lstrip("!").split()[0], "invalid" if "InvalidData" in a else "wouldblock" if "WouldBlock" in a else "clean"]
