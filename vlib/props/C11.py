"""C11 - SEI payload parsers (buffering period, pic timing, T.35) recover encoded values."""
from vlib import h264gen as g
from vlib.bitgen import hx, BitWriter

ID = "C11"
RULE = ("buffering_period / pic_timing payloads encoded per D.1.1 / D.1.2 against SPS whose VUI shape is one of {no VUI, VUI "
        "without HRD, NAL HRD only, VCL HRD only, both} x 1..32 CPBs x delay lengths 1..32 x time_offset_length 0..31 x "
        "pic_struct_present on/off; pic_struct 0..15 with every clock-timestamp option and signed time offsets at their "
        "extremes; plus truncated / over-long payloads; T.35: all 256 first bytes x payload lengths 0..5. "
        "observable: Debug rendering of the parsed value / the error. non-trivial = the SPS has a VUI, or a T.35 payload of >= 2 bytes")
CORRESPONDENCE = "Model/Sei.v buffering_period_read / pic_timing_read, Model/SeiTables.v t35_read vs the crate"
ASSUMPTIONS = ["payload parsers are called with the matching payload_type (they assert it)"]


def shapes(rng):
    for nal in (False, True):
        for vcl in (False, True):
            for cnt in (0, 1, 31, rng.randrange(32)):
                yield {"nal": nal, "vcl": vcl, "cnt": cnt, "cnt2": rng.choice([cnt, 0, 1, 2, 31]), "ps": rng.random() < 0.7}


def enc_bp(rng, s):
    w = BitWriter()
    w.ue(s["id"])
    v = s["vui"]
    if v is not None:
        for k in ("nal_hrd", "vcl_hrd"):
            h = v[k]
            if h is not None:
                ln = h["icrdl"] + 1
                for _ in range(h["cpb_cnt_minus1"] + 1):
                    w.u(ln, rng.choice([0, (1 << ln) - 1, rng.getrandbits(ln)]))
                    w.u(ln, rng.choice([0, (1 << ln) - 1, rng.getrandbits(ln)]))
    if len(w.bits) % 8:
        w.trailing()
    return w.bytes()


def enc_pt(rng, s, force=None):
    force = force or {}
    w = BitWriter()
    v = s["vui"]
    if v is not None:
        h = v["nal_hrd"] or v["vcl_hrd"]
        if h is not None:
            a, b = h["crdl"] + 1, h["dodl"] + 1
            w.u(a, rng.choice([0, (1 << a) - 1, rng.getrandbits(a)]))
            w.u(b, rng.choice([0, (1 << b) - 1, rng.getrandbits(b)]))
        if v["pic_struct_present"]:
            ps = force.get('ps', rng.randrange(16))
            w.u(4, ps)
            nts = {0: 1, 1: 1, 2: 1, 3: 2, 4: 2, 5: 3, 6: 3, 7: 2, 8: 3}.get(ps, 0)
            tol = (v["nal_hrd"] or v["vcl_hrd"] or {"tol": 24})["tol"]
            for _ in range(nts):
                f = force.get('flag', rng.random() < 0.7)
                w.b(f)
                if f:
                    w.u(2, force.get('ct', rng.randrange(4))).b(rng.random() < 0.5).u(5, force.get('cnt', rng.choice([0, 1, 6, 7, 31, rng.randrange(32)])))
                    full = force.get('full', rng.random() < 0.4)
                    w.b(full).b(rng.random() < 0.5).b(rng.random() < 0.5).u(8, rng.randrange(256))
                    if full:
                        w.u(6, rng.randrange(64)).u(6, rng.randrange(64)).u(5, rng.randrange(32))
                    else:
                        sf = force.get('all_flags', False) or rng.random() < 0.7
                        w.b(sf)
                        if sf:
                            w.u(6, rng.randrange(64))
                            mf = force.get('all_flags', False) or rng.random() < 0.7
                            w.b(mf)
                            if mf:
                                w.u(6, rng.randrange(64))
                                hf = force.get('all_flags', False) or rng.random() < 0.6
                                w.b(hf)
                                if hf:
                                    w.u(5, rng.randrange(32))
                    if tol > 0:
                        w.u(tol, rng.choice([0, 1, (1 << tol) - 1, 1 << (tol - 1), (1 << (tol - 1)) - 1, rng.getrandbits(tol)]))
    if len(w.bits) % 8:
        w.trailing()
    return w.bytes()


def gen(tier, rng):
    cases = []
    reps = 8 if tier == "quick" else 200
    for rep in range(reps):
        for sh in list(shapes(rng)) + [None]:
            s = g.gen_sps(rng, sps_id=rng.choice([0, 5, 31]), small=True, vui_shape=sh)
            if sh is None:
                s["vui"] = None
            ctx = "S" + hx(g.sps_nal(s, rng))
            for _ in range(2):
                p = enc_bp(rng, s)
                cases.append("bp %s %s" % (ctx, hx(p)))
                if rng.random() < 0.3:
                    cases.append("bp %s %s" % (ctx, hx(p[:rng.randrange(0, len(p) + 1)])))
                    cases.append("bp %s %s" % (ctx, hx(p + bytes([rng.choice([0, 0x80, 0xff])]))))
                    cases.append("bp - %s" % hx(p))
                    from vlib import bitgen
                    cases.append("bp %s %s" % (ctx, hx(bitgen.aliased(rng, lambda: enc_bp(rng, s)))))
                q = enc_pt(rng, s)
                cases.append("pt %s %d %s" % (ctx, s["id"], hx(q)))
                if rng.random() < 0.3:
                    cases.append("pt %s %d %s" % (ctx, s["id"], hx(q[:rng.randrange(0, len(q) + 1)])))
                    cases.append("pt %s %d %s" % (ctx, s["id"], hx(q + bytes([rng.choice([0, 0x80, 0xff])]))))
    # every pic_struct 0..15, ct_type 0..3 and counting_type 0..31 at least once (the enum tables), with and without HRD
    for sh in ({"nal": False, "vcl": False, "cnt": 0, "cnt2": 0, "ps": True}, {"nal": True, "vcl": False, "cnt": 1, "cnt2": 0, "ps": True}):
        s = g.gen_sps(rng, sps_id=3, small=True, vui_shape=sh)
        if s["vui"] is None or not s["vui"]["pic_struct_present"]:
            continue
        ctx = "S" + hx(g.sps_nal(s, rng))
        for ps in range(16):
            cases.append("pt %s %d %s" % (ctx, s["id"], hx(enc_pt(rng, s, {"ps": ps, "flag": True}))))
        for cnt in range(32):
            cases.append("pt %s %d %s" % (ctx, s["id"], hx(enc_pt(rng, s, {"ps": rng.choice([0, 3, 5]), "flag": True, "cnt": cnt, "ct": cnt % 4}))))
    # the longest payloads the syntax allows: delay widths 32/32 (and every other width pair at the top), three clock
    # timestamps each with all optional parts - through full_timestamp_flag and through the three separate flags - and
    # time_offset_length 24..31; also the shortest ones
    for tol in (0, 1, 24, 29, 30, 31):
        for a, b in ((31, 31), (31, 23), (23, 31), (0, 0), (15, 31)):
            s = g.gen_sps(rng, sps_id=2, small=True, vui_shape={"nal": True, "vcl": rng.random() < 0.5, "cnt": 0, "cnt2": 0, "ps": True})
            for k in ("nal_hrd", "vcl_hrd"):
                if s["vui"][k] is not None:
                    s["vui"][k]["crdl"], s["vui"][k]["dodl"], s["vui"][k]["tol"] = a, b, tol
            ctx = "S" + hx(g.sps_nal(s, rng))
            for ps in (5, 6, 8, 3, 0):
                for full in (True, False):
                    cases.append("pt %s %d %s" % (ctx, s["id"], hx(enc_pt(rng, s, {"ps": ps, "flag": True, "full": full, "all_flags": True}))))
    # time codes as broadcasters write them: SPS time bases in actual use x counting types 0..6 x frame numbers 0..3 / top x
    # seconds 0 / 59 x minutes 0, 1, 9, 10, 59 (drop-frame rules live at exactly these) - the values are data, not syntax
    for nu, ts in g.BROADCAST_TIMING[:14]:
        s = g.gen_sps(rng, sps_id=1, small=True, vui_shape={"nal": rng.random() < 0.5, "vcl": False, "cnt": 0, "cnt2": 0, "ps": True})
        s["vui"]["timing"] = (nu, ts, True)
        ctx = "S" + hx(g.sps_nal(s, rng))
        v = s["vui"]
        h = v["nal_hrd"] or v["vcl_hrd"]
        for ct in range(7):
            for nf in (0, 1, 2, 3, 29):
                for sec, mi in ((0, 1), (0, 10), (0, 7), (59, 9), (0, 0), (1, 1)):
                    w = BitWriter()
                    if h is not None:
                        w.u(h["crdl"] + 1, 3).u(h["dodl"] + 1, 5)
                    w.u(4, 0)                      # pic_struct 0: one clock timestamp
                    full = (ct + nf + mi) % 2 == 0
                    w.b(1).u(2, 0).b(0).u(5, ct).b(full).b(0).b(0).u(8, nf)
                    if full:
                        w.u(6, sec).u(6, mi).u(5, 3)
                    else:
                        w.b(1).u(6, sec).b(1).u(6, mi).b(1).u(5, 3)
                    tol = (h or {"tol": 24})["tol"]
                    if tol > 0:
                        w.u(tol, 0)
                    if len(w.bits) % 8:
                        w.trailing()
                    cases.append("pt %s %d %s" % (ctx, s["id"], hx(w.bytes())))
    # small / round values in wide fields (byte patterns 00 00 0x inside the payload)
    for _ in range(200 if tier == "quick" else 4000):
        s = g.gen_sps(rng, sps_id=1, small=True, vui_shape={"nal": True, "vcl": rng.random() < 0.3, "cnt": rng.choice([0, 1, 3]), "cnt2": 0, "ps": rng.random() < 0.7})
        for k in ("nal_hrd", "vcl_hrd"):
            if s["vui"][k] is not None:
                for f in ("icrdl", "crdl", "dodl"):
                    s["vui"][k][f] = rng.choice([23, 31, 31, 15])
        ctx = "S" + hx(g.sps_nal(s, rng))
        small = lambda ln: rng.choice([0, 1, 2, 3, 6, 1 << rng.randrange(ln), 3 << rng.randrange(max(1, ln - 1)), 0x030000 & ((1 << ln) - 1)])
        w = BitWriter()
        w.ue(s["id"])
        for k in ("nal_hrd", "vcl_hrd"):
            h = s["vui"][k]
            if h is not None:
                ln = h["icrdl"] + 1
                for _ in range(h["cpb_cnt_minus1"] + 1):
                    w.u(ln, small(ln) & ((1 << ln) - 1))
                    w.u(ln, small(ln) & ((1 << ln) - 1))
        if len(w.bits) % 8:
            w.trailing()
        cases.append("bp %s %s" % (ctx, hx(w.bytes())))
        h = s["vui"]["nal_hrd"]
        w = BitWriter()
        a, b = h["crdl"] + 1, h["dodl"] + 1
        w.u(a, small(a) & ((1 << a) - 1)).u(b, small(b) & ((1 << b) - 1))
        if s["vui"]["pic_struct_present"]:
            w.u(4, rng.choice([0, 1, 2])).b(0)
        if len(w.bits) % 8:
            w.trailing()
        cases.append("pt %s %d %s" % (ctx, s["id"], hx(w.bytes())))
    cases.append("bp - 40")
    cases.append("bp - 0000000000")
    for b in range(256):
        for ln in (0, 1, 2, 5):
            cases.append("t35 %s" % hx(bytes([b]) + bytes(rng.randrange(256) for _ in range(ln))))
    cases.append("t35 -")
    return cases


def nontrivial(r):
    c = r["case"]
    if c.startswith("t35"):
        return len(c.split()[1]) >= 4
    return "vui_parameters" not in r["dev"] and r["dev"].startswith("ok:") or "E:" in r["dev"]


def classify(r):
    a = r["dev"]
    k = [r["case"].split()[0]]
    for key in ("nal_hrd_bp:Some", "vcl_hrd_bp:Some", "delays:Some", "pic_struct:Some", "ClockTimestamp{", "time_offset:Some(-", "SMH(", "E:"):
        if key in a:
            k.append(key)
    return k
