"""C03 - no input can panic, overflow, hang or over-allocate any parsing entry point."""
import random
from vlib import h264gen as g
from vlib.bitgen import hx, nal_src, chunkings, escape
from vlib.props import C01, C02, C04, C05, C06, C07, C09, C10, C11, C12, C13, C18

ID = "C03"
RULE = ("every entry point (Annex B push/reset, ByteReader ops, decode_nal, bit reader ops, SPS, PPS, slice header, SEI reader, "
        "buffering_period / pic_timing / T.35, AVCC with accessors, iterators and create_context, SPS helpers, the end-to-end "
        "pipeline) on: raw random bytes; a sample of every other property's generated cases; bit-flipped valid streams; the "
        "extreme-value table (ue = 2^32-2, se = +-(2^31-1), counts at bound+1, zero-length items, empty inputs, 2^32-macroblock SPS x "
        "slice-group PPS); inputs doubling from 1 KiB to 256 KiB (1 MiB thorough). checked per case on the real crate in a build "
        "with overflow checks and debug assertions AND in a release build: no panic, identical answers, largest single "
        "heap request <= 300 x input + 1 MiB, time <= 20 us/byte + 200 ms for inputs >= 4 KiB (a hang or quadratic blow-up exceeds it or the run's deadline); and agreement with the model (whose PANIC/FUEL outcomes are excluded by theorem)")
CORRESPONDENCE = "all model entry points vs the crate, dev and release builds"
ASSUMPTIONS = ["documented preconditions hold: BufRead::consume(amt <= buffer), RefNal::new with non-empty chunks, SEI payload parsers called with the matching payload_type",
               "wall-clock and allocator behaviour are observed, not proved; code inside std, memchr, bitstream-io, rfc6381-codec, hex-slice, log is trusted"]


def rb(rng, n):
    mode = rng.randrange(4)
    if mode == 0:
        return bytes(rng.randrange(256) for _ in range(n))
    if mode == 1:
        return bytes(rng.choice([0, 0, 0, 1, 3, 0xff, 0x80]) for _ in range(n))
    if mode == 2:
        return bytes([rng.choice([0x00, 0xff])] * n)
    return bytes(rng.choice([0x00, 0x01, 0x80, 0x40, 0xa0]) for _ in range(n))


def gen(tier, rng):
    cases = []
    sub = random.Random(rng.getrandbits(32))
    # 1. a sample of the other properties' cases
    for mod, k in ((C01, 400), (C18, 300), (C02, 600), (C07, 400), (C04, 800), (C05, 600), (C06, 800), (C09, 500), (C10, 400), (C11, 300), (C13, 500), (C12, 60)):
        cs = mod.gen("quick", sub)
        sub.shuffle(cs)
        cases += cs[:k if tier == "quick" else k * 6]
    # 2. raw bytes into every entry point
    n = 400 if tier == "quick" else 6000
    s0 = g.gen_sps(rng, sps_id=0, small=True)
    p0 = g.gen_pps(rng, s0, pps_id=0)
    ctx = "S%s,P%s" % (hx(g.sps_nal(s0, rng)), hx(g.pps_nal(p0, rng)))
    huge = g.gen_sps(rng, sps_id=1, small=True, force={"w": 65535, "h": 65535})
    huge2 = g.gen_sps(rng, sps_id=2, small=True, force={"w": g.UE_MAX, "h": g.UE_MAX})
    ctxh = "S%s,S%s" % (hx(g.sps_nal(huge, rng)), hx(g.sps_nal(huge2, rng)))
    for _ in range(n):
        b = rb(rng, rng.choice([0, 1, 2, 3, 8, 20, 60, 200]))
        h = hx(b)
        cases += ["sps raw:" + h, "pps %s raw:%s" % (ctx, h), "pps %s raw:%s" % (ctxh, h),
                  "slice %s raw:%s" % (ctx, hx(bytes([rng.choice([0x65, 0x41, 0x01, 0x25, 0x74, 0x75])]) + b)),
                  "sei raw:%s 2" % h, "bp %s %s" % (ctx, h), "pt %s 0 %s" % (ctx, h), "t35 " + h, "avcc " + hx(bytes([1]) + b),
                  "decode_nal " + h, "annexb p%s,r" % (h if b else ""),
                  "bits raw:%s %s" % (h, ",".join(rng.choice(["ue", "se", "b", "u32.32", "u8.8", "k7", "m", "t32"]) for _ in range(8)) + ",f"),
                  "pipeline - %s %s" % (hx(b"\x00\x00\x01" + b), "B")]
        if b:
            cases.append("sps " + nal_src(chunkings(rng, bytes([0x67]) + b, 1)[0], rng.random() < 0.5))
            cases.append("rbsp %s 1 0 r3,f,c1,e" % nal_src(chunkings(rng, b, 1)[0], rng.random() < 0.5))
    # 2b. contexts in which one Exp-Golomb element of the SPS (whichever: sizes, reference-frame counts, offsets, VUI and
    # HRD fields) is huge - where the SPS parser accepts that - with conforming PPS / slice / SEI payloads parsed against
    # them: nothing may be sized by a number merely because an accepted parameter set carries it
    from vlib import bitgen
    from vlib.props import C11 as _C11
    for i in range(300 if tier == "quick" else 6000):
        s1 = g.gen_sps(rng, sps_id=0, small=True, vui_shape={"nal": True, "vcl": False, "cnt": 0, "cnt2": 0, "ps": True} if i % 3 == 0 else None)
        if len(s1["offsets_ref_frame"]) > 3:
            s1["offsets_ref_frame"] = s1["offsets_ref_frame"][:2]
        p1 = g.gen_pps(rng, s1, pps_id=0)
        big = bitgen.aliased(rng, lambda: g.sps_nal(s1, rng), adds=[3000000, 1 << 28, (1 << 31) - 7, (1 << 32) - 300])
        cx = "S%s,P%s" % (hx(big), hx(g.pps_nal(p1, rng)))
        for nt, ri in ((1, 1), (1, 0), (5, 3), (1, 2)):
            hh = g.gen_slice(rng, s1, p1, nal_type=nt, ref_idc=ri)
            cases.append("slice %s raw:%s" % (cx, hx(g.slice_nal(hh, rng)[0])))
        cases.append("pps S%s raw:%s" % (hx(big), hx(g.enc_pps(p1, rng).bytes())))
        if s1["vui"] is not None:
            cases.append("bp S%s %s" % (hx(big), hx(_C11.enc_bp(rng, s1))))
            cases.append("pt S%s 0 %s" % (hx(big), hx(_C11.enc_pt(rng, s1))))
    # 3. extreme values
    for pid in (1, 2):
        sid = pid
        for mt in range(7):
            for ng in (1, 7):
                spsx = huge if pid == 1 else huge2
                p = g.gen_pps(rng, spsx, pps_id=0, force={"num_slice_groups_minus1": ng, "map_type": mt})
                p["run_lengths"] = [rng.choice([0, g.UE_MAX, 0xfffffffe]) for _ in range(ng + 1)]
                p["change_rate_minus1"] = rng.choice([0, g.UE_MAX])
                cases.append("pps %s raw:%s" % (ctxh, hx(g.enc_pps(p, rng).bytes())))
    for st in (3, 4, 8, 9):
        for d in (g.SE_MAX, -g.SE_MAX, g.SE_MAX - 51, 1 << 30):
            h = g.gen_slice(rng, s0, p0, nal_type=1, ref_idc=0, slice_type=st)
            h["slice_qs_delta"] = d
            nal, _ = g.slice_nal(h, rng)
            cases.append("slice %s raw:%s" % (ctx, hx(nal)))
    cases += ["decode_nal -", "avcc -", "t35 -", "sei raw:- 3", "bp - -", "sps raw:-", "avcc 0142001effe0010000", "avcc 0142001effe10000016701000168",
              "pps %s raw:-" % ctx, "annexb p,r,r,p", "accum - B"]
    # explicit slice-group ids with a huge declared count and few bits of data
    # (against the small SPS and against the huge ones: a count must not be trusted because the SPS allows it)
    from vlib.bitgen import BitWriter
    for cx, sid in ((ctx, 0), (ctxh, 1), (ctxh, 2)):
        for cnt in (0, 1, 1000, 1 << 24, (1 << 24) - 1, (1 << 26) + 1, g.UE_MAX):
            for ngm1 in (1, 3, 7):
                w = BitWriter()
                w.ue(0).ue(sid).b(0).b(0).ue(ngm1).ue(6).ue(cnt)
                w.raw([1, 0] * 20)
                cases.append("pps %s raw:%s" % (cx, hx(w.bytes())))
    # ... and a count that agrees exactly (and off by one) with PicSizeInMapUnits of a large referenced SPS
    for wv, hv in ((2999, 1999), (5999, 999), (65535, 0), (0, 65535), (4095, 4095), (46340, 46340)):
        sx = g.gen_sps(rng, sps_id=0, small=True, force={"w": wv, "h": hv, "frame_mbs_only": True})
        cxx = "S" + hx(g.sps_nal(sx, rng))
        size = (wv + 1) * (hv + 1)
        for cnt in (size - 1, size, size - 2):
            for ngm1 in (1, 7):
                w = BitWriter()
                w.ue(0).ue(0).b(0).b(0).ue(ngm1).ue(6).ue(cnt)
                w.raw([1, 0] * 12)
                cases.append("pps %s raw:%s" % (cxx, hx(w.bytes())))
    # slice-group ids backed by data, doubling: time must stay linear in the input
    for e in range(8, (16 if tier == "quick" else 18)):
        nbytes = 1 << e
        for ngm1, bits in ((1, 1), (3, 2), (7, 3)):
            cnt = nbytes * 8 // bits
            w = BitWriter()
            w.ue(0).ue(0).b(0).b(0).ue(ngm1).ue(6).ue(cnt - 1)
            w.raw([0] * (cnt * bits))
            w.ue(0).ue(0).b(0).u(2, 0).se(0).se(0).se(0).b(0).b(0).b(0)
            w.trailing()
            cases.append(("!" if e > 11 else "") + "pps %s raw:%s" % (ctx, hx(w.bytes())))
    # 4. size doubling: time and allocation must stay linear
    top = 18 if tier == "quick" else 20
    for e in range(10, top + 1):
        n = 1 << e
        z = bytes(n)
        body = bytes((i * 7 + 1) % 251 + 1 for i in range(n))
        cases.append(("!" if e > 12 else "") + "decode_nal " + hx(b"\x65" + escape(z[: n // 2])))
        cases.append(("!" if e > 12 else "") + "annexb p" + hx(b"\x00\x00\x01" + body))
        cases.append(("!" if e > 12 else "") + "sei raw:%s 1" % hx(b"\xff" * (n // 2) + b"\x00" + b"\xff" * (n // 2 - 2) + b"\x00\x80"))
        cases.append(("!" if e > 12 else "") + "sps raw:" + hx(b"\x64\x00\x0a" + z))
        cases.append(("!" if e > 12 else "") + "bits raw:%s ue" % hx(z))
        cases.append(("!" if e > 12 else "") + "bits raw:%s m,f" % hx(b"\x80" + z))
        cases.append(("!" if e > 12 else "") + "rbsp raw:%s 1 0 e" % hx(b"\x65" + body))
        cases.append(("!" if e > 12 else "") + "pipeline - %s B" % hx(b"\x00\x00\x01\x65" + body))
    return cases


def panic_expected(case, r):
    return False


# C03 is about aborts and resources: a value-level disagreement on a sampled case belongs to the property that owns the case
VALUE_DIFF_NO_INPUT = True


def agree(case, a, m):
    """sampled cases are compared the way their own property compares them"""
    return C02.agree(case, a, m) if case.startswith("rbsp ") else a == m


def input_size(case):
    """bytes of input the case hands to the crate (hex text / 2; `seibig pre n post` builds n more bytes in the harness)"""
    p = case.lstrip("!").split()
    n = max(1, len(case) // 2)
    if p and p[0] == "seibig":
        n += int(p[2])
    if p and p[0] in ("annexbig", "accumbig"):
        # sizes on the command line, bytes made inside the harness: d<n> / z<n> tokens, or size lists "a/b:end"
        import re
        n += sum(int(x) for x in re.findall(r"(?:^|[,/dzD])(\d+)", p[2] if p[0] == "annexbig" else p[1]))
    return n


def extra_check(r):
    n = input_size(r["case"])
    if r.get("alloc_max", 0) > 300 * n + (1 << 20):
        return ("value", "largest single heap request %d bytes for an input of ~%d bytes" % (r["alloc_max"], n))
    # wall-clock is noisy on a loaded machine: only inputs >= 4 KiB are held to a (generous) linear budget
    if n >= 4096 and r.get("us", 0) > 20 * n + 200000:
        return ("value", "took %d us for an input of ~%d bytes" % (r["us"], n))
    if "RUNAWAY" in r["dev"]:
        return ("value", "SEI reader did not terminate")
    return None


def nontrivial(r):
    return True


def classify(r):
    return [r["case"].split()[0], "bytes<=%d" % (1 << max(4, (len(r["case"]) // 2).bit_length()))]
