"""C08 - NAL accumulator shows each NAL from byte 0, completes it once, honours Ignore."""
import itertools
from vlib.bitgen import hx

ID = "C08"
RULE = ("every history of up to H fragment deliveries over the shapes {no slice, one slice, two slices} x end flag x "
        "every Buffer/Ignore policy of the handler; random longer histories with 1..40-byte slices. observable per handler "
        "invocation: all bytes readable from the NAL, its complete flag, how its reader ends (EOF / WouldBlock), header. "
        "NALs of 2^k-1..2^k+1 bytes (k up to 24 quick / 27 thorough) in 2..4 fragments, implementation only, against the history oracle; "
        "each NAL also through Read::read, read_exact (chunk-sized and fixed pieces) and read_to_end. "
        "non-trivial = at least one invocation happened")
CORRESPONDENCE = "Model/Accum.v nal_fragment vs push::NalAccumulator"
ASSUMPTIONS = ["precondition of NalFragmentHandler::nal_fragment: every slice non-empty (C18 shows the Annex B reader meets it)"]


def frag(slices, end):
    return "/".join(hx(s) for s in slices) + ";" + ("1" if end else "0")


def gen(tier, rng):
    H = 4 if tier == "quick" else 6
    cases = []
    shapes = [0, 1, 2]
    ctr = [0]

    def mk(n):
        ctr[0] = (ctr[0] + 1) % 120
        return bytes([0x41 + ctr[0] % 60 + i for i in range(n)])

    for h in range(0, H + 1):
        for combo in itertools.product(shapes, [0, 1], repeat=h):
            frs = []
            for i in range(h):
                sh, e = combo[2 * i], combo[2 * i + 1]
                sl = [mk(1)] if sh == 1 else [mk(1), mk(2)] if sh == 2 else []
                frs.append(frag(sl, e))
            ninv = h
            for pol in itertools.product("BI", repeat=ninv):
                cases.append("accum %s %s %d" % (",".join(frs) if frs else "-", "".join(pol) or "B", 1 + len(cases) % 4))
    n = 2000 if tier == "quick" else 40000
    for _ in range(n):
        frs = []
        for _ in range(rng.randrange(1, 14)):
            k = rng.choice([0, 1, 1, 2, 3])
            sl = [bytes(rng.randrange(256) for _ in range(rng.choice([1, 1, 2, 5, 40]))) for _ in range(k)]
            frs.append(frag(sl, rng.random() < 0.35))
        pol = "".join(rng.choice("BBBI") for _ in range(rng.randrange(0, 14)))
        cases.append("accum %s %s %d" % (",".join(frs), pol or "B", rng.choice([1, 2, 3, 5, 32, 40, 41])))
    # content that looks like framing of its own: a slice that begins with the big-endian length (1..4 bytes) of what follows
    # it, start-code-like bytes, a header byte with the forbidden bit - in one delivery and split
    for _ in range(300 if tier == "quick" else 6000):
        body = bytes(rng.choice([0x65, 0x41, 0x67, 0x00, 0x80, rng.randrange(256)]) for _ in range(rng.randrange(2, 40)))
        w = rng.choice([1, 2, 3, 4, 4, 4])
        n = len(body) + rng.choice([0, 0, 0, 1, -1])
        pre = max(0, n).to_bytes(4, "big")[4 - w:]
        whole = rng.choice([pre + body, b"\x00\x00\x01" + body, b"\x00\x00\x00\x01" + body, pre + body + pre])
        k = rng.randrange(4)
        if k == 0:
            frs = [frag([whole], True)]
        elif k == 1:
            frs = [frag([whole], False), frag([], True)]
        elif k == 2:
            c = rng.randrange(1, len(whole))
            frs = [frag([whole[:c], whole[c:]], True)]
        else:
            c = rng.randrange(1, len(whole))
            frs = [frag([whole[:c]], False), frag([whole[c:]], True)]
        frs.append(frag([bytes([0x68, 0xce])], True))
        cases.append("accum %s %s %d" % (",".join(frs), rng.choice(["B", "BB", "BI", "IB"]), rng.choice([1, 3, 40])))
    # NALs around every power of two up to 16 MiB (quick) / 128 MiB (thorough), delivered in 2..4 fragments, some with an
    # Ignore: synthetic bytes made inside the harness, implementation only, judged by the history oracle below
    tops = [12, 16, 20, 24] if tier == "quick" else [12, 16, 17, 20, 22, 23, 24, 25, 26, 27]
    for k in tops:
        for d in (-1, 0, 1):
            total = (1 << k) + d
            for shape in range(4 if k <= 24 else 1):
                cuts = sorted(rng.sample(range(1, total), rng.choice([1, 2, 3])))
                if shape == 1:
                    cuts = [1]                              # the header byte alone, then the rest
                if shape == 2:
                    cuts = [total - 1]
                sizes = [b - a for a, b in zip([0] + cuts, cuts + [total])]
                frs = []
                for i, n in enumerate(sizes):
                    sl = "%d" % n if n < 4 or rng.random() < 0.5 else "%d/%d" % (n // 2, n - n // 2)
                    frs.append("%s:%d" % (sl, 1 if i == len(sizes) - 1 and shape == 0 else 0))
                if shape != 0:
                    frs.append(rng.choice(["3:1", ":1", "1:0,:1"]))   # the 2^k+d bytes are all buffered before the end arrives
                frs.append("5:1")                            # a small NAL afterwards
                pol = "B" * 8 if shape != 3 else "".join(rng.choice("BBI") for _ in range(8))
                cases.append("!accumbig %s %s" % (",".join(frs), pol))
    cases += long_histories(rng, tier)
    return cases


def long_histories(rng, tier):
    """tail mode (every view reported by its length and last 64 bytes): (1) ONE NAL growing through ~80 fragments of varied
    sizes to 40 MB (quick) / 150 MB (thorough), always buffered - every size threshold below that is crossed by a non-final
    delivery with more to come; (2) 130 (thorough 300) NALs of 1 MiB each ignored at its first fragment and ended by a later
    delivery, then a small NAL in two fragments that must be shown twice - more than 10^8 bytes pass the accumulator"""
    out = []
    total = 40_000_000 if tier == "quick" else 150_000_000
    frs, left = ["1:0"], total - 1
    while left > 0:
        n = min(left, rng.choice([1, 1000, 65536, 200_000, 1_000_000, 1_000_000, 3_000_000, 17_400_000 if left > 30_000_000 else 500_000]))
        frs.append(("%d:0" % n) if rng.random() < 0.7 else "%d/%d:0" % (n // 2, n - n // 2) if n > 1 else "1:0")
        left -= n
    frs += ["1000:0", ":1", "5:0", "3:1"]
    out.append("!accumbig %s T%s" % (",".join(frs), "B" * 400))
    nn = 130 if tier == "quick" else 300
    frs = []
    for _ in range(nn):
        frs += ["%d:0" % (1 << 20), "7:0", ":1"]
    frs += ["5:0", "5:1"]
    out.append("!accumbig %s T%s" % (",".join(frs), "I" * nn + "BB"))
    return out


def nontrivial(r):
    return bool(r["dev"].strip())


def synth(a, b):
    pat = bytes(((j * 7 + 3) % 255 + 1) for j in range(251))
    k0 = a // 251
    return (pat * ((b - k0 * 251) // 251 + 2))[a - k0 * 251: b - k0 * 251]


def big_check(r):
    import zlib
    parts = r["case"].lstrip("!").split()
    pol = list(parts[2]) if len(parts) > 2 else []
    tail_mode = bool(pol) and pol[0] == "T"
    if tail_mode:
        pol = pol[1:]
    want, cur, ignored, k, pos = [], bytearray(), False, 0, 0
    for f in parts[1].split(","):
        sizes, e = f.split(":")
        n = sum(int(x) for x in sizes.split("/") if x)
        cur += synth(pos, pos + n)
        pos += n
        if not ignored and cur and tail_mode:
            want.append("T%d:%08x;%d;%s" % (len(cur), zlib.crc32(bytes(cur[-64:])), e == "1", "Eof" if e == "1" else "WouldBlock"))
        if not ignored and cur and not tail_mode:
            hdr = "%d.%d" % ((cur[0] >> 5) & 3, cur[0] & 31) if not cur[0] & 0x80 else "err"
            want.append("L%d:%08x;%d;%s;%s;rd=same" % (len(cur), zlib.crc32(bytes(cur)), e == "1", "Eof" if e == "1" else "WouldBlock", hdr))
        if not ignored and cur:
            d = pol[k] if k < len(pol) else "B"
            k += 1
            if d == "I":
                ignored = True
        if e == "1":
            cur, ignored = bytearray(), False
    got = r["dev"].split()
    want = [w.replace(";True;", ";1;").replace(";False;", ";0;") for w in want]
    if got != want:
        return ("value", "handler invocations differ from the property's own reading of the history: want %s got %s" % (want[:6], got[:6]))
    return None


def extra_check(r):
    """independent oracle: replay the history against the property text itself"""
    if r["case"].lstrip("!").startswith("accumbig"):
        return big_check(r)
    parts = r["case"].split()
    frs = [] if parts[1] == "-" else parts[1].split(",")
    pol = list(parts[2]) if len(parts) > 2 else []
    if "rd=" in r["dev"] and any(not t.endswith("rd=same") for t in r["dev"].split()):
        return ("value", "Read::read shows other bytes than fill_buf/consume for the same NAL")
    want = []
    cur = b""
    ignored = False
    k = 0
    for f in frs:
        bufs, e = f.rsplit(";", 1)
        data = b"".join(bytes.fromhex(x) for x in bufs.split("/") if x and x != "-")
        cur += data
        if not ignored and cur:
            want.append((cur.hex(), e == "1"))
            d = pol[k] if k < len(pol) else "B"
            k += 1
            if d == "I":
                ignored = True
        if e == "1":
            cur = b""
            ignored = False
    got = []
    for tok in r["dev"].split():
        f = tok.split(";")
        got.append((f[0], f[1] == "1"))
    if got != want:
        return ("value", "handler invocations differ from the property's own reading of the history: want %s" % (want[:6],))
    return None


def classify(r):
    if r["case"].startswith("!"):
        return ["big"]
    n = len(r["dev"].split())
    return ["invocations=%d" % min(n, 6), "ignore" if "I" in r["case"].split()[-1] else "buffer_only"]
