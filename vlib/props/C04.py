"""C04 - SPS parsing recovers exactly the values encoded per H.264 7.3.2.1 / Annex E."""
from vlib import h264gen as g
from vlib.bitgen import hx, nal_src, chunkings, BitWriter

ID = "C04"
# the property speaks about accepted inputs (values / invariants); which error a rejected input gets is not part of it
ERROR_IDENTITY_IRRELEVANT = True
RULE = ("conforming SPS built field by field from a boundary table (every profile class incl. all 13 chroma-info profiles, "
        "chroma formats 0..3, bit depths, 8/12 scaling lists with wrap-around, early termination and use-default, POC types "
        "0/1/2 with 0..255 offsets, frame/field/MBAFF, cropping, every VUI/HRD sub-structure on and off, 1..32 CPBs, ue/se up "
        "to the 32-bit limit) encoded by a Python bit writer, given as contiguous RBSP and as escaped, chunked NALs; then a "
        "malformed stream: every truncation of some, single bit flips, out-of-range elements, wrong trailing bits. "
        "observable: full Debug rendering of the result or the error, plus the derived values. non-trivial = parse got past seq_parameter_set_id")
CORRESPONDENCE = "Model/Sps.v sps_from_bits vs SeqParameterSet::from_bits"
ASSUMPTIONS = ["bit reader per C07/C14; NAL path per C02/C15"]


def variants(rng, s, tier):
    out = []
    rb = g.enc_sps(s, rng).bytes()
    out.append("sps raw:" + hx(rb))
    nal = g.nal_bytes(7, rng.randrange(4), rb)
    out.append("sps " + nal_src(chunkings(rng, nal, 1)[0], True))
    return out, rb


def gen(tier, rng):
    n = 2500 if tier == "quick" else 60000
    cases = []
    for i in range(n):
        force = {}
        if i % 13 == 0:
            force["profile_idc"] = g.CHROMA_PROFILES[(i // 13) % 13]
        s = g.gen_sps(rng, force=force)
        v, rb = variants(rng, s, tier)
        cases += v
        r = rng.random()
        if r < 0.35:
            # malformed: truncation at a random byte / flip a bit / trailing garbage
            k = rng.randrange(0, len(rb) + 1)
            cases.append("sps raw:" + hx(rb[:k]))
            b = bytearray(rb)
            if b:
                pos = rng.randrange(len(b) * 8)
                b[pos // 8] ^= 0x80 >> (pos % 8)
                cases.append("sps raw:" + hx(bytes(b)))
            cases.append("sps raw:" + hx(rb + bytes([rng.choice([0, 0, 0x80, 1, 0xff])] * rng.randrange(1, 4))))
            # zero bytes behind the trailing bits and then more data, as an escaped NAL and chunked right behind the zeros
            junk = rb + bytes(rng.randrange(1, 5)) + rng.choice([b"\x01", b"\x80", b"\x02\xb0", b"\xff", b"\x01\x41"])
            nalj = g.nal_bytes(7, 3, junk)
            cut = max(1, min(len(nalj) - 1, len(g.nal_bytes(7, 3, rb)) + rng.randrange(0, 3)))
            cases.append("sps " + nal_src([nalj], True))
            cases.append("sps " + nal_src([nalj[:cut], nalj[cut:]], True))
        if r < 0.05:
            for k in range(len(rb) + 1):
                cases.append("sps raw:" + hx(rb[:k]))
            nalb = g.nal_bytes(7, 3, rb)
            for k in range(1, len(nalb)):
                cases.append("sps " + nal_src([nalb[:k]], False))
    # out-of-range elements one at a time
    for _ in range(300 if tier == "quick" else 5000):
        s = g.gen_sps(rng)
        which = rng.randrange(9)
        if which == 0:
            s["id"] = rng.choice([32, 33, 255, g.UE_MAX])
        elif which == 1:
            s["has_chroma"], s["profile_idc"] = True, 100
            s["bit_depth_luma_minus8"] = rng.choice([7, 8, 255])
        elif which == 2:
            s["log2_max_frame_num_minus4"] = rng.choice([13, 14, g.UE_MAX])
        elif which == 3:
            s["poc_type"] = rng.choice([3, 4, 255])
        elif which == 4:
            s["poc_type"], s["log2_max_poc_lsb_minus4"] = 0, rng.choice([13, 100])
        elif which == 5:
            s["has_chroma"], s["profile_idc"] = True, 100
            s["chroma_format_idc"] = rng.choice([4, 5, 7, 255])
        elif which == 6 and s["vui"] is not None and s["vui"]["restr"] is not None:
            s["vui"]["restr"][rng.choice(["a", "b", "c", "d"])] = rng.choice([17, 18, 1000])
        elif which == 7 and s["vui"] is not None and s["vui"]["nal_hrd"] is not None:
            s["vui"]["nal_hrd"]["cpb_cnt_minus1"] = 32
        elif which == 8:
            # one more POC cycle entry than the 255 allowed (found missing by tools/boundary_sweep.py)
            s["poc_type"] = 1
            s["offsets_ref_frame"] = [rng.randrange(-3, 4) for _ in range(rng.choice([256, 256, 257, 300]))]
        cases.append("sps raw:" + hx(g.enc_sps(s, rng).bytes()))
    # one Exp-Golomb element displaced by a multiple of 256 (what a narrowing cast would alias onto the valid value)
    from vlib import bitgen
    for _ in range(1500 if tier == "quick" else 30000):
        s = g.gen_sps(rng, force={"profile_idc": rng.choice(g.CHROMA_PROFILES)} if rng.random() < 0.5 else {})
        if len(s["offsets_ref_frame"]) > 7:
            s["offsets_ref_frame"] = s["offsets_ref_frame"][:2]
        cases.append("sps raw:" + hx(bitgen.aliased(rng, lambda: g.enc_sps(s, rng).bytes())))
    # syntax-steering elements set to a value congruent to a valid one modulo 2^8 / 2^16, encoded consistently with what
    # the standard says for the value actually sent (an Invalid chroma format has 8 scaling lists and no plane flag)
    for i in range(200 if tier == "quick" else 4000):
        s = g.gen_sps(rng, small=True, force={"profile_idc": rng.choice(g.CHROMA_PROFILES)})
        s["chroma_format_idc"] = rng.choice([0, 1, 2, 3, 3, 3]) + rng.choice([256, 512, 65536, 1 << 24])
        s["scaling_matrix"] = rng.random() < 0.7
        if len(s["offsets_ref_frame"]) > 7:
            s["offsets_ref_frame"] = s["offsets_ref_frame"][:2]
        cases.append("sps raw:" + hx(g.enc_sps(s, rng).bytes()))
    # random bytes
    for _ in range(500 if tier == "quick" else 10000):
        cases.append("sps raw:" + hx(bytes(rng.randrange(256) for _ in range(rng.randrange(0, 40)))))
    return cases


def fps_bits(a, b):
    """correctly rounded IEEE quotient of two exactly representable integers, as the f64 bit pattern"""
    import struct
    if b == 0:
        v = float("nan") if a == 0 else float("inf")
    else:
        v = float(a) / float(b)
    return "%016x" % struct.unpack(">Q", struct.pack(">d", v))[0]


def canon(case, ans):
    # the model prints fps as an exact rational a/b; the implementation prints the f64 bits
    out = []
    for tok in ans.split(" "):
        if tok.startswith("fps=") and "/" in tok:
            a, b = tok[4:].split("/")
            bits = fps_bits(int(a), int(b))
            out.append("fps=" + ("7ff8000000000000" if bits[:3] in ("7ff", "fff") and int(bits[3:], 16) != 0 else bits))
        elif tok.startswith("fps=") and tok != "fps=None":
            bits = tok[4:]
            out.append("fps=" + ("7ff8000000000000" if bits[:3] in ("7ff", "fff") and int(bits[3:], 16) != 0 else bits))
        else:
            out.append(tok)
    return " ".join(out)


def nontrivial(r):
    a = r["dev"]
    return a.startswith("ok:") or ("seq_parameter_set_id" not in a and "profile_idc" not in a and "constraint_flags" not in a and "level_idc" not in a)


def classify(r):
    a = r["dev"]
    if a.startswith("ok:"):
        k = ["accepted"]
        for key in ("scaling_matrix:Some", "TypeOne", "TypeTwo", "Fields{", "frame_cropping:Some", "vui_parameters:Some",
                    "nal_hrd_parameters:Some", "vcl_hrd_parameters:Some", "bitstream_restrictions:Some", "Extended(", "UseDefault", "dims=E:"):
            if key in a:
                k.append(key)
        return k
    return ["rejected", a.split("(")[0][:40]]
