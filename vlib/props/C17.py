"""C17 - parsing a partially buffered NAL never contradicts parsing the complete NAL."""
from vlib import h264gen as g
from vlib.bitgen import hx, nal_src, chunkings, escape
from vlib.props import C10

ID = "C17"
RULE = ("NALs free of forbidden byte sequences (generated SPS, PPS, SEI lists, slice NALs, and bit-flipped variants re-escaped) "
        "parsed complete and contiguous, and then every proper prefix (all prefix lengths for short NALs, sampled for long ones) "
        "presented as an incomplete NAL in a random chunking; each command is executed twice by the harness (purity) with a "
        "dirty scratch buffer for SEI. cross-check on the implementation's answers: a prefix either fails with WouldBlock or "
        "agrees with the complete NAL (same value / both errors); SPS and PPS never succeed on a proper prefix; SEI yields a "
        "prefix of the message sequence then a WouldBlock failure; streams pushed in 1-5 byte pieces through the accumulator with handlers "
        "that buffer a few deliveries of a NAL and then ignore it (model = implementation on every view and parse). non-trivial = prefix of length >= 2")
CORRESPONDENCE = "model parsers over incomplete sources (tail = WouldBlock) vs crate parsers over incomplete RefNal"
ASSUMPTIONS = ["hidden state across calls cannot exist in the model; repetition / scratch reuse is observed on the real code only"]


def reescape(nal):
    from vlib.bitgen import unescape
    body, ok = unescape(nal[1:])
    return nal[:1] + escape(body)


def gen(tier, rng):
    cases = []
    n = 250 if tier == "quick" else 8000
    for i in range(n):
        s = g.gen_sps(rng, sps_id=0, small=True)
        p = g.gen_pps(rng, s, pps_id=0)
        spsn, ppsn = g.sps_nal(s, rng), g.pps_nal(p, rng)
        ctx_s = "S" + hx(spsn)
        ctx_sp = ctx_s + ",P" + hx(ppsn)
        kind = i % 4
        if kind == 0:
            cmd, ctx, nal = "sps", None, spsn
        elif kind == 1:
            cmd, ctx, nal = "pps", ctx_s, ppsn
        elif kind == 2:
            h = g.gen_slice(rng, s, p)
            nal, _ = g.slice_nal(h, rng)
            cmd, ctx = "slice", ctx_sp
        else:
            msgs = [(rng.choice([0, 1, 4, 5, 128, 255, 300]), bytes(rng.choice([0, 0, 1, 3, 0xff, rng.randrange(256)]) for _ in range(rng.choice([0, 0, 1, 5, 40]))))
                    for _ in range(rng.randrange(1, 5))]
            nal = bytes([0x06]) + escape(C10.enc_msgs(msgs))
            cmd, ctx = "sei", None
        if rng.random() < 0.3:   # mutate, keeping the NAL free of forbidden sequences
            b = bytearray(nal)
            pos = rng.randrange(8, len(b) * 8)
            b[pos // 8] ^= 0x80 >> (pos % 8)
            nal = reescape(bytes(b))

        def line(src):
            if cmd == "sps":
                return "sps %s" % src
            if cmd == "sei":
                return "sei %s 1" % src
            return "%s %s %s" % (cmd, ctx, src)
        cases.append(line(nal_src([nal], True)))
        ks = range(1, len(nal)) if len(nal) <= 60 else sorted(set(rng.randrange(1, len(nal)) for _ in range(40)))
        for k in ks:
            cases.append(line(nal_src(chunkings(rng, nal[:k], 1)[0], False)))
    # partial views as the handler really gets them: streams pushed in 1-3 byte pieces through AnnexBReader::accumulate with a
    # handler that buffers a NAL for a few deliveries and then loses interest (the incremental slice-header pattern) - the
    # next NAL must again be shown from its own first byte and parse as it does alone (pipeline command, model = impl)
    from vlib.props import C12
    for i in range(60 if tier == "quick" else 1500):
        _s, _p, nals = C12.make_stream(rng)
        stream = C12.serialise(rng, nals)
        parts, j = [], 0
        while j < len(stream):
            k = rng.choice([1, 1, 2, 3, 5])
            parts.append(stream[j:j + k])
            j += k
        pol = "".join(rng.choice(["B", "BB", "BBB", "BBBB"]) + rng.choice(["I", "I", "B"]) for _ in range(rng.randrange(2, 12)))
        cases.append("pipeline - %s %s" % (",".join(hx(x) for x in parts), pol))
    # partial views of NALs up to 16 MiB as they arrive through AnnexBReader::accumulate: every incomplete view is a prefix of
    # the complete NAL (implementation only, judged by big_check)
    from vlib.annexb_util import big_scripts
    for sc in big_scripts(rng, tier):
        if "|" in sc and ",D" not in sc:
            cases.append("!annexbig A " + sc)
    # one NAL growing through ~80 deliveries to 40 MB (thorough 150 MB): every partial view is a prefix (C08.long_histories)
    from vlib.props import C08
    cases.append(C08.long_histories(rng, tier)[0])
    return cases


def extra_check(r):
    if r["case"].lstrip("!").startswith("annexbig"):
        from vlib.annexb_util import big_check
        d = big_check(r["case"], r["dev"])
        return ("value", d) if d else None
    if r["case"].lstrip("!").startswith("accumbig"):
        from vlib.props import C08
        return C08.big_check(r)
    return None


def key_of(case):
    if case.startswith("!") or case.startswith("pipeline "):
        return "big", "", "c", ""
    p = case.split()
    cmd = p[0]
    src = p[1] if cmd in ("sps", "sei") else p[2]
    ctx = "" if cmd in ("sps", "sei") else p[1]
    kind, body = src.split(":", 2)[1:]
    return cmd, ctx, kind, body.replace("/", "")


def cross_check(results):
    whole = {}
    for r in results:
        cmd, ctx, kind, body = key_of(r["case"])
        if kind == "c":
            whole.setdefault((cmd, ctx), []).append((body, r))
    out = []
    for r in results:
        cmd, ctx, kind, body = key_of(r["case"])
        if kind != "i":
            continue
        full = [w for b, w in whole.get((cmd, ctx), []) if b.startswith(body) and b != body]
        if not full:
            continue
        f = full[0]["dev"]
        a = r["dev"]
        if "pure=0" in a or "pure=0" in f:
            out.append((r, ("value", "repeating the parse changed its outcome")))
            continue
        if cmd == "sei":
            fm = [t for t in f.split() if t.startswith("M:")]
            am = [t for t in a.split() if t.startswith("M:")]
            rest = [t for t in a.split() if not t.startswith("M:")]
            if am != fm[:len(am)]:
                out.append((r, ("value", "SEI messages of a prefix are not a prefix of the complete sequence")))
            elif not rest or "WouldBlock" not in rest[0]:
                if not (rest and rest[0].startswith("E:") and any(t.startswith("E:") for t in f.split())):
                    out.append((r, ("value", "SEI reader on a partial NAL ended without a WouldBlock failure: %s" % rest[:1])))
            continue
        if "WouldBlock" in a and a.startswith("E:"):
            continue
        if cmd in ("sps", "pps") and a.startswith("ok:"):
            out.append((r, ("value", "%s parsing succeeded on a proper prefix" % cmd)))
        elif a.startswith("ok:"):
            if not f.startswith("ok:") or a.split(" ")[0] != f.split(" ")[0]:
                out.append((r, ("value", "prefix accepted with a value that differs from the complete NAL's outcome")))
        elif a.startswith("E:") and f.startswith("ok:"):
            out.append((r, ("value", "prefix fails (not for lack of data) where the complete NAL succeeds: " + a[:80])))
    return out


def nontrivial(r):
    return len(key_of(r["case"])[3]) >= 4


def classify(r):
    cmd, ctx, kind, body = key_of(r["case"])
    a = r["dev"]
    return [cmd, "complete" if kind == "c" else "prefix", "wouldblock" if "WouldBlock" in a else "ok" if a.startswith("ok") or "M:" in a else "error"]
