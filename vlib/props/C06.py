"""C06 - slice header parsing follows H.264 7.3.3 and stops exactly at slice data."""
import itertools
from vlib import h264gen as g
from vlib.bitgen import hx, nal_src, chunkings

ID = "C06"
# the property speaks about accepted inputs (values / invariants); which error a rejected input gets is not part of it
ERROR_IDENTITY_IRRELEVANT = True
RULE = ("conforming slice headers for every slice type 0..9 x NAL type {1,5} x nal_ref_idc 0..3 under contexts whose SPS/PPS "
        "flags select every conditional branch (separate colour planes, frame/field/MBAFF, POC type 0/1/2 with/without "
        "always-zero deltas, bottom-field POC flag, redundant count, weighted pred / bipred idc 0..3, CABAC, deblocking "
        "control, chroma format incl. monochrome), boundary values per element, followed by generated slice data; as "
        "escaped chunked NALs; malformed: truncations, bit flips, undefined PPS/SPS ids, out-of-range elements. "
        "a quarter of the contexts reached through longer put histories (SPS replaced after the PPS arrived, other ids around, PPS "
        "stored twice); one Exp-Golomb element displaced by a multiple of 256. observable: Debug of the header, ids of the returned sets and that they are the context's entries, and the next "
        "16 bits read from the same reader (must be the slice data). non-trivial = parse got past the PPS lookup")
CORRESPONDENCE = "Model/Slice.v slice_header_read vs SliceHeader::from_bits"
ASSUMPTIONS = ["B slices with explicit weighted prediction are reported UnsupportedSyntax by the library (excepted by the property)",
               "slice_group_change_cycle (PPS map types 3-5) is not parsed by the library (excepted by the property)"]


def mk_ctx(rng, i):
    """SPS/PPS pair whose flags are driven by the bits of i, so that all combinations occur"""
    b = lambda k: bool((i >> k) & 1)
    force = {"profile_idc": 244 if b(0) else rng.choice([66, 77, 100, 110]),
             "frame_mbs_only": b(1), "poc_type": (i >> 2) % 3, "delta_pic_order_always_zero": b(4)}
    if b(0):
        force["chroma_format_idc"] = rng.choice([0, 1, 2, 3, 3])
        force["separate_colour_plane"] = b(5)
    s = g.gen_sps(rng, sps_id=rng.choice([0, 1, 31]), small=True, force=force)
    pf = {"bottom_field_poc": b(6), "redundant_pic_cnt_present": b(7), "weighted_pred": b(8),
          "weighted_bipred_idc": (i >> 9) % 4, "cabac": b(11), "deblocking_ctrl": b(12),
          "num_slice_groups_minus1": 0 if (i % 7) else 1, "map_type": rng.choice([0, 1, 2, 6])}
    p = g.gen_pps(rng, s, pps_id=rng.choice([0, 1, 255]), force=pf)
    return s, p, "S%s,P%s" % (hx(g.sps_nal(s, rng)), hx(g.pps_nal(p, rng)))


def ctx_history(rng, s, p):
    """the same final (SPS, PPS) reached through a longer history of puts: the SPS replaced after the PPS arrived (by an
    identical one, or first stored with other level / size and then replaced by the real one), sets with other ids around,
    the PPS stored twice"""
    import copy
    S, P = "S" + hx(g.sps_nal(s, rng)), "P" + hx(g.pps_nal(p, rng))
    s2 = copy.deepcopy(s)
    s2["level_idc"] = (s["level_idc"] + 1) % 256
    if rng.random() < 0.5:
        s2["w"] = s["w"] + 1
    S2 = "S" + hx(g.sps_nal(s2, rng))
    so = g.gen_sps(rng, sps_id=(s["id"] + 1) % 32, small=True)
    po = g.gen_pps(rng, so, pps_id=(p["id"] + 1) % 256)
    So, Po = "S" + hx(g.sps_nal(so, rng)), "P" + hx(g.pps_nal(po, rng))
    k = rng.randrange(7)
    seq = [[S2, P, S], [S, P, S], [S, P, S2, S], [So, S, Po, P, So], [S, P, P], [S2, P, S, P], [S, So, Po, P, S2, S, Po]][k]
    return ",".join(seq)


def gen(tier, rng):
    cases = []
    n = 3000 if tier == "quick" else 80000
    for i in range(n):
        s, p, ctx = mk_ctx(rng, rng.getrandbits(13) if i >= 8192 else i)
        if i % 4 == 3:
            ctx = ctx_history(rng, s, p)
        h = g.gen_slice(rng, s, p, nal_type=[1, 5][i % 2], ref_idc=(i // 2) % 4, slice_type=(i // 8) % 10)
        nal, data = g.slice_nal(h, rng)
        if rng.random() < 0.5:
            cases.append("slice %s raw:%s" % (ctx, hx(nal)))
        else:
            cases.append("slice %s %s" % (ctx, nal_src(chunkings(rng, nal, 1)[0], True)))
        m = rng.random()
        if m < 0.25:
            k = rng.randrange(1, len(nal) + 1)
            cases.append("slice %s %s" % (ctx, nal_src([nal[:k]], rng.random() < 0.5)))
            b = bytearray(nal)
            pos = rng.randrange(8, len(b) * 8)
            b[pos // 8] ^= 0x80 >> (pos % 8)
            cases.append("slice %s raw:%s" % (ctx, hx(bytes(b))))
        if m > 0.93:
            w = rng.randrange(6)
            hh = dict(h)
            pp = dict(p)
            if w == 0:
                hh["slice_type"] = rng.choice([10, 11, 255])
            elif w == 1:
                pp["id"] = rng.choice([p["id"] ^ 1, 256, 1000])
                hh["pps"] = pp
            elif w == 2:
                hh["slice_qp_delta"] = rng.choice([52, 100, g.SE_MAX])
            elif w == 3:
                hh["slice_type"], hh["slice_qs_delta"] = rng.choice([3, 4, 8, 9]), rng.choice([g.SE_MAX, -g.SE_MAX, 52, -53])
            elif w == 4:
                hh["disable_deblocking"] = rng.choice([7, 8])
            else:
                hh["alpha"] = rng.choice([7, -7])
            nal2, _ = g.slice_nal(hh, rng)
            cases.append("slice %s raw:%s" % (ctx, hx(nal2)))
            cases.append("slice - raw:%s" % hx(nal))
            cases.append("slice S%s raw:%s" % (hx(g.sps_nal(s, rng)), hx(nal)))
        if m < 0.02:
            for k in range(1, len(nal)):
                cases.append("slice %s %s" % (ctx, nal_src([nal[:k]], False)))
    # one Exp-Golomb element displaced by a multiple of 256 (what a narrowing cast would alias onto the valid value)
    from vlib import bitgen
    for i in range(1500 if tier == "quick" else 30000):
        s, p, ctx = mk_ctx(rng, rng.getrandbits(13))
        h = g.gen_slice(rng, s, p, nal_type=[1, 5][i % 2], ref_idc=(i // 2) % 4, slice_type=(i // 8) % 10)
        nal2 = bitgen.aliased(rng, lambda: g.slice_nal(h, rng)[0])
        cases.append("slice %s raw:%s" % (ctx, hx(nal2)))
    # several headers parsed one after the other against ONE context holding two SPS / PPS pairs of different shapes
    # (IDR and non-IDR slices, alternating parameter sets): a parse leaves nothing behind in the context
    for i in range(400 if tier == "quick" else 8000):
        sa, pa, _ = mk_ctx(rng, rng.getrandbits(13))
        sb, pb, _ = mk_ctx(rng, rng.getrandbits(13))
        sa["id"], sb["id"] = 0, 1
        pa["sps_id"], pb["sps_id"] = 0, 1
        pa["id"], pb["id"] = 0, 1
        ctx = "S%s,S%s,P%s,P%s" % (hx(g.sps_nal(sa, rng)), hx(g.sps_nal(sb, rng)), hx(g.pps_nal(pa, rng)), hx(g.pps_nal(pb, rng)))
        srcs = []
        for k in range(rng.randrange(2, 5)):
            s_, p_ = (sa, pa) if rng.random() < 0.5 else (sb, pb)
            h = g.gen_slice(rng, s_, p_, nal_type=rng.choice([1, 5, 5]) if k == 0 else rng.choice([1, 1, 5]), ref_idc=rng.randrange(4))
            srcs.append("raw:" + hx(g.slice_nal(h, rng)[0]))
        cases.append("slices %s %s" % (ctx, " ".join(srcs)))
    # other NAL types reaching the parser (2..4, 19, 20, 21) and header without trailing data
    for i in range(200 if tier == "quick" else 4000):
        s, p, ctx = mk_ctx(rng, rng.getrandbits(13))
        h = g.gen_slice(rng, s, p, nal_type=rng.choice([2, 3, 4, 19, 20, 21, 1, 5]), ref_idc=rng.randrange(4))
        w = g.enc_slice_header(h, rng)
        tail = rng.choice([[], [1], [1, 0, 0], [0, 0, 0, 1], [0]])
        w.raw(tail)
        nal = g.nal_bytes(h["nal_type"], h["ref_idc"], w.bytes())
        cases.append("slice %s raw:%s" % (ctx, hx(nal)))
    return cases


def nontrivial(r):
    a = r["dev"]
    return a.startswith("ok:") or not any(k in a for k in ("UndefinedPicParamSetId", "first_mb_in_slice", "InvalidSliceType", "E:hdr"))


def extra_check(r):
    a = r["dev"]
    if r["case"].startswith("slices "):
        if any(part.strip().startswith("ok:") and ";same=11" not in part for part in a.split(";;")):
            return ("value", "returned SPS/PPS are not the context entries named by the ids")
        return None
    if a.startswith("ok:") and ";same=11" not in a:
        return ("value", "returned SPS/PPS are not the context entries named by the ids")
    return None


def classify(r):
    a = r["dev"]
    if a.startswith("ok:"):
        k = ["accepted"]
        for key in ("family:P,", "family:B,", "family:I,", "family:SP,", "family:SI,", "colour_plane:Some", "Field(", "idr_pic_id:Some",
                    "FieldsAbsolute", "FieldsDelta", "redundant_pic_cnt:Some", "num_ref_idx_active:Some", "pred_weight_table:Some",
                    "Adaptive(", "Idr{", "cabac_init_idc:Some", "slice_qs:Some", "Subtract(", "chroma_log2_weight_denom:None"):
            if key in a:
                k.append(key)
        return k
    return ["rejected", a.split("(")[0][:40]]
