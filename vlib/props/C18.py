"""C18 - fragment handlers are only ever given non-empty slices and meaningful calls."""
from vlib.bitgen import hx, all_partitions
from vlib.annexb_util import parse_trace, units_of, all_strings
from vlib.props import C01

ID = "C18"
RULE = ("every byte string up to length L over {00,01,02} x every partition x a reset inserted at every cut (and "
        "doubled), then the same operations replayed on a fresh reader ('n' op) to compare post-reset behaviour; random "
        "longer sequences of pushes/resets. observable = shape verdicts of the call trace (non-empty slices, empty call "
        "only with end, calls made by each reset, ends per reset-delimited section, post-reset trace == fresh trace)")
CORRESPONDENCE = "Model/AnnexB.v vs annexb::AnnexBReader (call shape)"
ASSUMPTIONS = C01.ASSUMPTIONS


def gen(tier, rng):
    L = 5 if tier == "quick" else 7
    cases = []
    for s in all_strings([0, 1, 2], L):
        for parts in all_partitions(s):
            ops = ["p" + hx(p) for p in parts]
            for cut in range(len(ops) + 1):
                pre, post = ops[:cut], ops[cut:]
                # X, r, Y, r, then a new reader and Y, r again: after reset == fresh
                cases.append("annexb " + ",".join(pre + ["r"] + post + ["r", "n"] + post + ["r"]))
            if len(ops) <= 3:
                for cut in range(len(ops) + 1):
                    cases.append("annexb " + ",".join(ops[:cut] + ["r", "r"] + ops[cut:] + ["r", "r"]))
    n = 3000 if tier == "quick" else 60000
    for _ in range(n):
        ops = []
        for _ in range(rng.randrange(1, 12)):
            c = rng.random()
            if c < 0.2:
                ops.append("r")
            elif c < 0.27:
                ops.append("p")
            else:
                ops.append("p" + hx(bytes(rng.choice([0, 0, 0, 1, 1, 2, 0xff]) for _ in range(rng.randrange(1, 6)))))
        tail = [o for o in ops[-4:]]
        cases.append("annexb " + ",".join(ops + ["r"] + tail + ["r", "n"] + tail + ["r"]))
    for i in range(300 if tier == "quick" else 5000):
        s = C01.grammar_stream(rng)
        parts = C01.random_partition(rng, s)
        ops = []
        for p in parts:
            ops.append("p" + (hx(p) if p else ""))
            if rng.random() < 0.15:
                ops.append("r")
        cases.append("annexb " + ",".join(ops + ["r"]))
    # long units / long zero padding / empty units ahead of long units (fast paths keyed on sizes), through the model
    for i in range(300 if tier == "quick" else 6000):
        s, marks = C01.pattern_stream(rng, big=(i % 10 == 0))
        parts = C01.boundary_partition(rng, s, marks) if rng.random() < 0.7 else [s]
        ops = []
        for p in parts:
            ops.append("p" + (hx(p) if p else ""))
            if rng.random() < 0.1:
                ops.append("r")
        cases.append("annexb " + ",".join(ops + ["r"]))
    for n in (4090, 4096, 4100, 8192):
        body = bytes((j * 7 + 1) % 255 + 1 for j in range(n))
        for head in (b"\x00\x00\x01\x00\x00\x01", b"\x00\x00\x01\x00\x00\x00\x01", b"\x00\x00\x01\x09\x00\x00\x01\x00\x00\x01"):
            cases.append("annexb p%s,r" % hx(head + body + b"\x00\x00\x01\x41"))
            cases.append("annexb p%s,p%s,r" % (hx(head[:4]), hx(head[4:] + body)))
    # sizes to 16 MiB (quick) carried across resets, described by sizes: implementation only, judged by big_check
    from vlib.annexb_util import big_scripts
    for sc in big_scripts(rng, tier):
        cases.append("!annexbig F " + sc)
    return cases


def shape(case, ans):
    """verdict flags computed from one side's trace alone"""
    opnames = case.split()[1].split(",") if len(case.split()) > 1 else []
    ops = parse_trace(ans)
    empty_slice = any(s == "-" for calls in ops for sl, e in calls for s in sl)
    empty_call_no_end = any((not sl) and (not e) for calls in ops for sl, e in calls)
    reset_calls = []
    ends_per_section, cur_ends = [], 0
    bad_reset = False
    for name, calls in zip(opnames, ops):
        cur_ends += sum(1 for sl, e in calls if e)
        if name == "r":
            reset_calls.append(len(calls))
            if len(calls) > 1 or (calls and not calls[0][1]):
                bad_reset = True
            ends_per_section.append(cur_ends)
            cur_ends = 0
        elif name == "n":
            ends_per_section.append(cur_ends)
            cur_ends = 0
    fresh = "na"
    if "n" in opnames:
        k = opnames.index("n")
        post = opnames[k + 1:]
        # the same ops occur right before 'n' (after an 'r'): compare the two trace suffixes
        a = ops[k + 1:k + 1 + len(post)]
        b = ops[k - len(post):k]
        if opnames[k - len(post):k] == post and k - len(post) >= 1 and opnames[k - len(post) - 1] == "r":
            ua, ub = units_of(a), units_of(b)
            fresh = "1" if ua == ub else "0"
    return "empty_slice=%d empty_call_without_end=%d bad_reset=%d reset_calls=%s ends=%s fresh=%s" % (
        empty_slice, empty_call_no_end, bad_reset, reset_calls, ends_per_section, fresh)


def canon(case, ans):
    if case.lstrip("!").startswith("annexbig"):
        return ans
    return shape(case, ans)


def extra_check(r):
    if r["case"].lstrip("!").startswith("annexbig"):
        from vlib.annexb_util import big_check
        d = big_check(r["case"], r["dev"])
        return ("value", d) if d else None
    s = shape(r["case"], r["dev"])
    if "empty_slice=1" in s or "empty_call_without_end=1" in s or "bad_reset=1" in s or "fresh=0" in s:
        return ("value", "call shape rule broken by the implementation: " + s)
    return None


def nontrivial(r):
    return ";" in r["dev"] or "U" in r["dev"]


def classify(r):
    if r["case"].startswith("!"):
        return ["annexbig"]
    ops = r["case"].split()[1].split(",")
    return ["rawtrace_equal" if r["dev"] == r["model"] else "rawtrace_differs", "resets=%d" % min(4, ops.count("r")), "fresh" if "n" in ops else "nofresh"]
