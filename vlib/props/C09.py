"""C09 - a validated AVC configuration record yields exactly its parameter sets, never panics."""
from vlib import h264gen as g
from vlib.bitgen import hx

ID = "C09"
RULE = ("AVCDecoderConfigurationRecords built from 0..31 SPS and 0..40 (sometimes 255) PPS NALs (generated parameter sets, arbitrary "
        "bytes with SPS/PPS or foreign headers, lengths 0, 1, 2 and up to 65535), random reserved bits, versions 0..255 "
        "sometimes, trailing extension bytes; entries repeated verbatim later in their list (A..B..A); every prefix of some records; byte mutations of valid records. "
        "observable: construction verdict, fixed-field accessors, both iterators' items, created context (full Debug) or "
        "the error - and no panic anywhere; every profile byte x {00,10,ef,ff,random} compatibility x levels {9..12,random}; "
        "NALs of 65533..65535 bytes followed by further entries; nth/skip/count/last/size_hint agree with next().  non-trivial = construction succeeded with at least one parameter set")
CORRESPONDENCE = "Model/Avcc.v try_from / accessors / iterators / create_context vs avcc.rs"
ASSUMPTIONS = ["SPS/PPS parsing per C04/C05; context per C19"]


def build(rng, spss, ppss, version=1, trailing=b""):
    out = bytearray([version, rng.randrange(256), rng.randrange(256), rng.randrange(256),
                     (rng.randrange(64) << 2) | rng.randrange(4), (rng.randrange(8) << 5) | len(spss)])
    for s in spss:
        out += len(s).to_bytes(2, "big") + s
    out.append(len(ppss))
    for p in ppss:
        out += len(p).to_bytes(2, "big") + p
    return bytes(out) + trailing


def rand_nal(rng, kind):
    r = rng.random()
    if r < 0.5:
        s = g.gen_sps(rng, sps_id=rng.choice([0, 1, 2]), small=True)
        if kind == "sps":
            return g.sps_nal(s, rng), s
        return g.pps_nal(g.gen_pps(rng, s, pps_id=rng.choice([0, 1, 5])), rng), s
    hdr = {"sps": 0x67, "pps": 0x68}[kind]
    if r < 0.6:
        hdr = rng.choice([0x67, 0x68, 0x65, 0x80 | hdr, 0x07, 0x08, 0x00])
    ln = rng.choice([0, 0, 1, 2, 5, 30])
    if ln == 0:
        return b"", None
    return bytes([hdr]) + bytes(rng.randrange(256) for _ in range(ln - 1)), None


def gen(tier, rng):
    cases = []
    n = 1200 if tier == "quick" else 30000
    for i in range(n):
        nsps = rng.choice([0, 1, 1, 1, 2, 3, 31])
        npps = rng.choice([0, 1, 1, 2, 5, 40]) if i % 50 else 255
        spss, ppss = [], []
        last_sps = None
        for _ in range(nsps):
            b, s = rand_nal(rng, "sps")
            spss.append(b)
            last_sps = s or last_sps
        for _ in range(npps):
            if last_sps is not None and rng.random() < 0.7:
                ppss.append(g.pps_nal(g.gen_pps(rng, last_sps, pps_id=rng.choice([0, 1, 2, 200])), rng))
            else:
                ppss.append(rand_nal(rng, "pps")[0] if npps < 100 else bytes([0x68, 0x80]))
        if i % 97 == 0:
            spss = [bytes([0x67]) + bytes(65534)] if nsps else spss
        if i % 97 in (1, 2, 3) and nsps:
            # a NAL whose length field is at the top of its range, followed by further entries (stepping over it)
            big = bytes([0x67 if i % 2 else 0x68]) + bytes(rng.randrange(256) for _ in range(rng.choice([65532, 65533, 65534])))
            if i % 2:
                spss = [big] + spss[:2]
            else:
                ppss = [big] + ppss[:3]
        if i % 6 == 5:
            # entries repeated verbatim later in their list (muxers do repeat parameter sets): A..B..A with B carrying A's id is
            # the history in which "skip what was already seen" and "last entry wins" differ
            for lst, cap in ((spss, 31), (ppss, 255)):
                for _ in range(rng.choice([1, 1, 2])):
                    if lst and len(lst) < cap:
                        lst.insert(rng.randrange(len(lst) + 1) if rng.random() < 0.3 else len(lst), lst[rng.randrange(len(lst))])
        rec = build(rng, spss, ppss, version=1 if rng.random() < 0.95 else rng.randrange(256),
                    trailing=bytes(rng.randrange(256) for _ in range(rng.choice([0, 0, 1, 4]))))
        cases.append("avcc " + hx(rec))
        r = rng.random()
        if r < 0.25 and len(rec) < 3000:
            k = rng.randrange(0, len(rec))
            cases.append("avcc " + hx(rec[:k]))
            m = bytearray(rec)
            for _ in range(rng.randrange(1, 4)):
                m[rng.randrange(len(m))] = rng.randrange(256)
            cases.append("avcc " + hx(bytes(m)))
        if r < 0.03 and len(rec) < 300:
            for k in range(len(rec)):
                cases.append("avcc " + hx(rec[:k]))
    for _ in range(400 if tier == "quick" else 8000):
        ln = rng.randrange(0, 24)
        b = bytearray(rng.randrange(256) for _ in range(ln))
        if ln:
            b[0] = 1
        if ln > 5:
            b[5] = (b[5] & 0xe0) | rng.choice([0, 1, 2])
        cases.append("avcc " + hx(bytes(b)))
    # sibling records next to each other (cases run in order within a process): the same PPS NAL bytes with an SPS of another
    # shape under the same id - picture size (slice-group bounds), 4:4:4 (number of 8x8 lists), bit depth (QP range) -
    # and the same record twice: create_context is a function of the record alone
    import copy
    for i in range(150 if tier == "quick" else 3000):
        sa = g.gen_sps(rng, sps_id=0, small=True, force={"profile_idc": 244, "chroma_format_idc": rng.choice([1, 3]), "w": 19, "h": 19})
        sb = copy.deepcopy(sa)
        k = i % 3
        if k == 0:
            sb["w"], sb["h"] = 1, 1
        elif k == 1:
            sb["chroma_format_idc"] = 1 if sa["chroma_format_idc"] == 3 else 3
        else:
            sb["bit_depth_luma_minus8"] = 6 if sa["bit_depth_luma_minus8"] == 0 else 0
        p = g.gen_pps(rng, sa, pps_id=rng.choice([0, 1]), force={"num_slice_groups_minus1": 1, "map_type": rng.choice([0, 2, 3, 6])} if k == 0 else {})
        if k == 0:
            p["run_lengths"] = [100, 100]
        if k == 1:
            p["ext"], p["transform8x8"], p["pic_scaling_matrix"] = True, True, True
        if k == 2:
            p["pic_init_qp_minus26"] = -26 - 6 * max(sa["bit_depth_luma_minus8"], sb["bit_depth_luma_minus8"])
        pn = g.pps_nal(p, rng)
        ra = build(rng, [g.sps_nal(sa, rng)], [pn])
        rb = build(rng, [g.sps_nal(sb, rng)], [pn])
        cases += ["avcc " + hx(ra), "avcc " + hx(rb), "avcc " + hx(ra), "avcc " + hx(ra)]
    # a PPS with an explicit slice-group map of a real picture size (level 5.1 / 6.2 MaxFS and just above) inside a record:
    # implementation only, the ids in the created context are the ids in the bits (C05.big_map_check)
    for cnt in ([36864, 36865, 139264, 139265] if tier == "quick" else [32768, 36864, 36865, 65536, 139264, 139265, 200000, 262144]):
        sx = g.gen_sps(rng, sps_id=0, small=True)
        px = g.gen_pps(rng, sx, pps_id=0, force={"num_slice_groups_minus1": rng.choice([1, 3, 7]), "map_type": 6, "npix": cnt - 1})
        rb = g.enc_pps(px, rng).bytes()
        pn = g.nal_bytes(8, 3, rb)
        if len(pn) <= 65535:
            cases.append("!avcc %s %s" % (hx(build(rng, [g.sps_nal(sx, rng)], [pn])), "raw:" + hx(rb)))
    # fixed header bytes: every profile x selected compatibility flags x the level bytes whose meaning depends on the flags
    for prof in range(256):
        for compat in (0x00, 0x10, 0xef, 0xff, rng.randrange(256)):
            for lvl in (9, 10, 11, 12, rng.randrange(256)):
                cases.append("avcc " + hx(bytes([1, prof, compat, lvl, 0xfc | rng.randrange(4), 0xe0, 0])))
    # the D2 witnesses
    cases.append("avcc 0142001effe0010000")
    cases.append("avcc 0142001effe10000016701000168")
    # valid parameter sets repeated verbatim around a different set with the same id: the context is the one obtained by parsing
    # every entry in order (last entry with an id wins), whatever bytes were seen before
    for i in range(40 if tier == "quick" else 600):
        sid, pid = rng.choice([0, 1, 31]), rng.choice([0, 3, 255])
        sa = g.gen_sps(rng, sps_id=sid, small=True)
        sb = g.gen_sps(rng, sps_id=sid, small=True, force={"profile_idc": sa["profile_idc"], "chroma_format_idc": sa["chroma_format_idc"]})
        na, nb = g.sps_nal(sa, rng), g.sps_nal(sb, rng)
        pa, pb = g.pps_nal(g.gen_pps(rng, sa, pps_id=pid), rng), g.pps_nal(g.gen_pps(rng, sa, pps_id=pid), rng)
        shape = rng.choice([(0, 1, 0), (0, 1, 1, 0), (0, 0, 1), (1, 0, 0), (0, 1, 0, 1, 0), (0, 1)])
        spss = [(na, nb)[k] for k in (shape if i % 2 == 0 else (0,))]
        ppss = [(pa, pb)[k] for k in (shape if i % 3 != 1 else (0, 1, 0))]
        cases.append("avcc " + hx(build(rng, spss, ppss)))
    return cases


def extra_check(r):
    """the other Iterator entry points (nth, skip, count, last, size_hint) agree with next()"""
    if r["case"].startswith("!avcc"):
        from vlib.props import C05
        rr = dict(r, case="!pps - " + r["case"].split()[2])
        if "ctx=ok:" not in r["dev"]:
            return ("value", "a well-formed record with a large explicit slice-group map was not turned into a context: " + r["dev"][-200:])
        return C05.big_map_check(rr)
    if "alt=" in r["dev"]:
        return ("value", "an iterator entry point other than next() disagrees with next() or panics: " + r["dev"].split("alt=")[1][:200])
    return None


def nontrivial(r):
    a = r["dev"]
    return a.startswith("ok") and ("sps=[]" not in a or "pps=[]" not in a)


def classify(r):
    a = r["dev"]
    if a.startswith("E:"):
        return ["refused", a.split("{")[0].split("(")[0]]
    k = ["accepted"]
    if "ctx=ok" in a:
        k.append("ctx_ok")
    for key in ("E:EmptyNal", "E:IncorrectNalType", "E:NalHeader", "ctx=E:Sps", "ctx=E:Pps", "ctx=E:ParamSet"):
        if key in a:
            k.append(key)
    return k
