#!/usr/bin/env python3
# developer helper: rebuild the harness and regenerate coq/Gen/*.v from the current /repo
import check
check.build_harness(); print(check.regen_tables()[1])
