(* modelrun: the extracted Coq model behind the harness's line protocol.
   Glue only: parse the command, convert to the extracted datatypes, print the answer string. *)
open Model

let rec pos_of_int i = if i = 1 then XH else if i land 1 = 0 then XO (pos_of_int (i lsr 1)) else XI (pos_of_int (i lsr 1))
let n_of_int i = if i = 0 then N0 else Npos (pos_of_int i)
let rec nat_of_int i = if i <= 0 then O else S (nat_of_int (i - 1))
let n_of_string s = n_of_int (int_of_string s)

let unhex s =
  if s = "-" || s = "" then []
  else begin
    let len = String.length s / 2 in
    List.init len (fun i -> n_of_int (int_of_string ("0x" ^ String.sub s (2 * i) 2)))
  end

let split c s = if s = "" then [] else String.split_on_char c s
let nonempty l = List.filter (fun s -> s <> "") l

let parse_src s =
  let pre p = String.length s >= String.length p && String.sub s 0 (String.length p) = p in
  if pre "raw:" then SrcRaw (unhex (String.sub s 4 (String.length s - 4)))
  else if pre "nal:" then begin
    let rest = String.sub s 4 (String.length s - 4) in
    let i = String.index rest ':' in
    let c = String.sub rest 0 i = "c" in
    let chunks = String.split_on_char '/' (String.sub rest (i + 1) (String.length rest - i - 1)) in
    SrcNal (c, List.map unhex chunks)
  end else failwith ("bad src " ^ s)

let starts s p = String.length s >= String.length p && String.sub s 0 (String.length p) = p
let after s p = String.sub s (String.length p) (String.length s - String.length p)

let parse_bitop op =
  if op = "ue" then OpUe else if op = "se" then OpSe else if op = "b" then OpB
  else if op = "m" then OpMore else if op = "f" then OpFin else if op = "s" then OpFinSei
  else if op = "t8" then OpTo (n_of_int 1) else if op = "t16" then OpTo (n_of_int 2) else if op = "t32" then OpTo (n_of_int 4)
  else if starts op "u8." then OpU (n_of_int 8, n_of_string (after op "u8."))
  else if starts op "u16." then OpU (n_of_int 16, n_of_string (after op "u16."))
  else if starts op "u32." then OpU (n_of_int 32, n_of_string (after op "u32."))
  else if starts op "i32." then OpI32 (n_of_string (after op "i32."))
  else if starts op "k" then OpSkip (n_of_string (after op "k"))
  else if starts op "R" then OpReader (n_of_string (after op "R"))
  else failwith ("bad bit op " ^ op)

let parse_byteop op =
  if op = "f" then BoFill else if op = "e" then BoEnd else if op = "K" then BoClone
  else if starts op "r" then BoRead (nat_of_int (int_of_string (after op "r")))
  else if starts op "c" then BoConsume (nat_of_int (int_of_string (after op "c")))
  else failwith ("bad byte op " ^ op)

let parse_ctx s =
  List.map (fun it ->
    let h = unhex (String.sub it 1 (String.length it - 1)) in
    if it.[0] = 'S' then CtxSps h else CtxPps h)
    (List.filter (fun x -> x <> "-") (nonempty (split ',' s)))

let arg args i = if i < List.length args then List.nth args i else ""

let dispatch cmd args =
  match cmd with
  | "bits" -> cmd_bits (parse_src (arg args 0)) (List.map parse_bitop (nonempty (split ',' (arg args 1))))
  | "rbsp" ->
      cmd_rbsp (parse_src (arg args 0)) (n_of_string (arg args 1)) (n_of_string (arg args 2))
        (List.map parse_byteop (nonempty (split ',' (arg args 3))))
  | "refnal" -> cmd_refnal (parse_src (arg args 0)) (List.map parse_byteop (nonempty (split ',' (arg args 1))))
  | "annexb" ->
      cmd_annexb (List.map (fun op -> if op = "r" then AReset else if op = "n" then ANew else APush (unhex (after op "p"))) (nonempty (split ',' (arg args 0))))
  | "accum" ->
      let frs = List.map (fun f ->
        let i = String.index f ';' in
        let bufs = nonempty (split '/' (String.sub f 0 i)) in
        (List.map unhex bufs, String.sub f (i + 1) (String.length f - i - 1) = "1"))
        (List.filter (fun s -> s <> "-") (nonempty (split ',' (arg args 0)))) in
      let pol = List.map (fun c -> if c = 'I' then Ignore else Buffer) (List.of_seq (String.to_seq (arg args 1))) in
      cmd_accum frs pol
  | "sps" -> cmd_sps (parse_src (arg args 0))
  | "pps" -> cmd_pps (parse_ctx (arg args 0)) (parse_src (arg args 1))
  | "slice" -> cmd_slice (parse_ctx (arg args 0)) (parse_src (arg args 1))
  | "sei" -> cmd_sei (parse_src (arg args 0)) (nat_of_int (if arg args 1 = "" then 2 else int_of_string (arg args 1)))
  | "bp" -> cmd_bp (parse_ctx (arg args 0)) (unhex (arg args 1))
  | "pt" -> cmd_pt (parse_ctx (arg args 0)) (n_of_string (arg args 1)) (unhex (arg args 2))
  | "t35" -> cmd_t35 (unhex (arg args 0))
  | "avcc" -> cmd_avcc (unhex (arg args 0))
  | "ctx" ->
      cmd_ctx (List.map (fun op ->
        if starts op "gs" then CoGetSps (n_of_string (after op "gs"))
        else if starts op "gp" then CoGetPps (n_of_string (after op "gp"))
        else if op = "it" then CoIter
        else if starts op "S" then CoSps (unhex (after op "S"))
        else CoPps (unhex (after op "P"))) (nonempty (split ',' (arg args 0))))
  | "pipeline" ->
      let av = if arg args 0 = "-" then None else Some (unhex (arg args 0)) in
      let ops = List.map (fun p -> if p = "r" then AReset else APush (unhex p)) (nonempty (split ',' (arg args 1))) in
      let pol = List.map (fun c -> if c = 'I' then Ignore else Buffer) (List.of_seq (String.to_seq (arg args 2))) in
      cmd_pipeline av ops pol
  | "decode_nal" -> cmd_decode_nal (unhex (arg args 0))
  | _ -> Modelrun2.dispatch cmd args

let () =
  try
    while true do
      let line = input_line stdin in
      match nonempty (String.split_on_char ' ' line) with
      | id :: cmd :: args ->
          let ans = try dispatch cmd args with Stack_overflow -> "MODEL-STACK-OVERFLOW" | e -> "MODEL-EXN:" ^ Printexc.to_string e in
          print_string id; print_char ' '; print_string ans; print_newline ()
      | _ -> ()
    done
  with End_of_file -> ()
