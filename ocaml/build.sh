#!/bin/sh
# Extract the model from the compiled Coq development and build modelrun.
set -e
cd "$(dirname "$0")"
mkdir -p gen
( cd gen && coqc -Q ../../coq H264 ../../coq/Extract/Extract.v >/dev/null && rm -f ../../coq/Extract/Extract.vo ../../coq/Extract/Extract.vos ../../coq/Extract/Extract.vok ../../coq/Extract/Extract.glob )
ocamlfind ocamlopt -w -a -I gen gen/model.mli gen/model.ml modelrun2.ml modelrun.ml -o modelrun
