(* further commands are added here as the model grows *)
let dispatch cmd _args = failwith ("unknown command " ^ cmd)
