#!/bin/sh
# usage: coqgoal.sh <file.v> <line>  -- print the goal just before <line>
f=$1; n=$2
tmp=/tmp/goal_$$.v
head -n $((n-1)) "$f" > $tmp
echo "Show. Abort All." >> $tmp
cd /verif/coq && timeout 300 coqc -q -Q . H264 -w -notation-overridden,-deprecated-hint-without-locality,-deprecated $tmp 2>&1 | tail -${3:-40}
rm -f $tmp /tmp/goal_$$.vo /tmp/goal_$$.glob /tmp/.goal_$$.aux
