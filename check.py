#!/usr/bin/env python3
"""check.py - orchestration of the per-property checks (DESIGN.md section 4).

  python3 check.py --setup
  python3 check.py C07 [--tier quick|thorough] [--replay replays/C07-xxxx.json]

A check = proof step (Coq theorems of coq/Props/<ID>.v re-checked, tables regenerated from the
real crate) + correspondence step (real crate vs extracted Coq model on generated cases).
Exit 0: property held on everything explored.  Exit 1 + "VIOLATION property=<id> replay=<path>".
"""
import sys, os, json, time, subprocess, hashlib, re, random, fcntl, shutil, importlib
from concurrent.futures import ThreadPoolExecutor

ROOT = os.path.dirname(os.path.abspath(__file__))
sys.path.insert(0, ROOT)
COQ = os.path.join(ROOT, "coq")
HARNESS = os.path.join(ROOT, "harness")
OCAML = os.path.join(ROOT, "ocaml")
WORK = os.path.join(ROOT, "work")
# the registered commands always use /repo; H264V_REPO lets tools/par_recheck.py run a copy of /verif against a scratch copy of
# the repository (seeded changes are evaluated there, several at a time, without touching /repo)
REPO = os.environ.get("H264V_REPO", "/repo")
GUARD = "h264_reader_verif"
ENV = dict(os.environ, CARGO_NET_OFFLINE="true", RUSTFLAGS="--cfg " + GUARD, RUST_BACKTRACE="0")
H_DEV = os.path.join(HARNESS, "target", "debug", "h264v")
H_REL = os.path.join(HARNESS, "target", "release", "h264v")
MODELRUN = os.path.join(OCAML, "modelrun")
NPROC = os.cpu_count() or 4

TRUSTED_BASE = [
    "Coq 8.16.1 kernel (coqc); vm_compute used, native_compute not used; coqchk re-check in the thorough tier",
    "no axioms: every Print Assumptions must report 'Closed under the global context'",
    "extraction: ExtrOcamlBasic + ExtrOcamlNativeString (their Extract Inductive/Constant directives only; none of our own), OCaml 4.13.1; on every run a sample of the cases is re-evaluated by vm_compute inside Coq on the extracted definitions and must equal the extracted binary's answers (vlib/coqeval.py, evidence field extraction_crosscheck)",
    "correspondence glue: harness/ (h264v line protocol, printers, counting allocator, table dump), ocaml/modelrun.ml (command parser), check.py + vlib/ (generators, canonicalisation, diff)",
    "modelled not verified: bitstream-io 2.6.0 bit queue (documentation-level model; inputs < 2^29 bytes), memchr, std::io default methods, Vec growth, f64 division, rfc6381-codec Display, hex-slice, log",
    "specifications coq/Spec/*: hand transcriptions of H.264 clauses 7.3.2.1-7.3.3, 7.4.1, 9.1, Annex B, D.1, E.1 and ISO/IEC 14496-15 5.2.4.1",
]


def log(*a):
    print(*a, file=sys.stderr, flush=True)


def sh(cmd, cwd=None, timeout=1800, env=None, inp=None):
    p = subprocess.run(cmd, cwd=cwd, timeout=timeout, env=env or ENV, input=inp,
                       stdout=subprocess.PIPE, stderr=subprocess.STDOUT, text=True, shell=isinstance(cmd, str))
    return p.returncode, p.stdout


class Lock:
    def __enter__(self):
        os.makedirs(WORK, exist_ok=True)
        self.f = open(os.path.join(WORK, ".lock"), "w")
        fcntl.flock(self.f, fcntl.LOCK_EX)
        return self

    def __exit__(self, *a):
        fcntl.flock(self.f, fcntl.LOCK_UN)
        self.f.close()


class BuildError(Exception):
    pass


def build_harness():
    if REPO != "/repo":
        ct = os.path.join(HARNESS, "Cargo.toml")
        txt = open(ct).read()
        if '"/repo"' in txt:
            open(ct, "w").write(txt.replace('"/repo"', '"%s"' % REPO))
    if not os.path.exists(os.path.join(HARNESS, "Cargo.lock")):
        shutil.copy(os.path.join(REPO, "Cargo.lock"), os.path.join(HARNESS, "Cargo.lock"))
    for prof in ([], ["--release"]):
        rc, out = sh(["cargo", "build", "--offline", "-q"] + prof, cwd=HARNESS, timeout=1200)
        if rc != 0:
            raise BuildError("cargo build failed:\n" + out[-3000:])


def regen_tables():
    from vlib import tables
    rc, out = sh([H_DEV, "tables"], timeout=120)
    if rc != 0:
        raise BuildError("h264v tables failed:\n" + out[-2000:])
    os.makedirs(os.path.join(COQ, "Gen"), exist_ok=True)
    changed, counts = tables.generate(out.splitlines(), COQ)
    return out.splitlines(), counts


def coq_makefile():
    mk = os.path.join(COQ, "Makefile")
    cp = os.path.join(COQ, "_CoqProject")
    if not os.path.exists(mk) or os.path.getmtime(mk) < os.path.getmtime(cp):
        rc, out = sh(["coq_makefile", "-f", "_CoqProject", "-o", "Makefile"], cwd=COQ)
        if rc != 0:
            raise BuildError("coq_makefile failed:\n" + out)


def coq_make(targets, timeout=3000):
    coq_makefile()
    rc, out = sh(["make", "-j%d" % NPROC] + targets, cwd=COQ, timeout=timeout)
    return rc, out


def model_sources_mtime():
    m = 0
    for d in ("Base", "Model", "Spec", "Extract"):
        p = os.path.join(COQ, d)
        if os.path.isdir(p):
            for f in os.listdir(p):
                if f.endswith(".v"):
                    m = max(m, os.path.getmtime(os.path.join(p, f)))
    for f in os.listdir(OCAML):
        if f.endswith(".ml") or f.endswith(".sh"):
            m = max(m, os.path.getmtime(os.path.join(OCAML, f)))
    return m


def build_model():
    """Model .vo files, extraction, modelrun."""
    rc, out = coq_make(["Model/Driver.vo"])
    if rc != 0:
        raise BuildError("coq model build failed:\n" + out[-3000:])
    if not os.path.exists(MODELRUN) or os.path.getmtime(MODELRUN) < model_sources_mtime():
        rc, out = sh(["sh", "build.sh"], cwd=OCAML, timeout=900)
        if rc != 0:
            raise BuildError("modelrun build failed:\n" + out[-3000:])


AUDIT_RE = re.compile(r"\b(Admitted|admit|Axiom|Axioms|Parameter|Parameters|Conjecture|Hypothesis|Hypotheses|Variable|Variables|bypass_check)\b|Unset\s+Guard|Unset\s+Positivity|Unset\s+Universe|type-in-type|impredicative-set")


def strip_comments(txt):
    out, depth, i = [], 0, 0
    while i < len(txt):
        if txt.startswith("(*", i):
            depth += 1
            i += 2
        elif txt.startswith("*)", i) and depth > 0:
            depth -= 1
            i += 2
        else:
            if depth == 0:
                out.append(txt[i])
            elif txt[i] == "\n":
                out.append("\n")
            i += 1
    return "".join(out)


def audit():
    """No Admitted/admit/Axiom/... anywhere in the development (comments and strings aside)."""
    bad = []
    for dp, dn, fn in os.walk(COQ):
        for f in fn:
            if f.endswith(".v"):
                p = os.path.join(dp, f)
                txt = strip_comments(open(p).read())
                txt = re.sub(r'"[^"]*"', '""', txt)
                for n, line in enumerate(txt.splitlines(), 1):
                    if AUDIT_RE.search(line):
                        bad.append("%s:%d: %s" % (os.path.relpath(p, ROOT), n, line.strip()))
    return bad


def proof_step(pid, thorough=False):
    """Re-check Props/<pid>.v and everything it depends on; returns a dict."""
    res = {"obligations": 0, "discharged": 0, "assumptions_closed": 0, "errors": [], "theorems": []}
    vfile = os.path.join(COQ, "Props", pid + ".v")
    if not os.path.exists(vfile):
        res["errors"].append("no Props/%s.v" % pid)
        return res
    src = strip_comments(open(vfile).read())
    thms = re.findall(r"^\s*(?:Theorem|Corollary)\s+(\w+)", src, re.M)
    res["theorems"] = thms
    res["obligations"] = len(thms)
    rc, out = coq_make(["Props/%s.vo" % pid])
    if rc != 0:
        res["errors"].append("make Props/%s.vo failed:\n%s" % (pid, out[-2500:]))
        m = re.search(r'File "\./([^"]+)", line (\d+)', out)
        if m:
            res["failed_at"] = "%s:%s" % (m.group(1), m.group(2))
        return res
    # compile the property file once more by itself to capture Print Assumptions
    rc, out = sh(["coqc", "-q", "-Q", ".", "H264", "-w", "-notation-overridden,-deprecated-hint-without-locality,-deprecated",
                  "Props/%s.v" % pid], cwd=COQ, timeout=1800)
    if rc != 0:
        res["errors"].append("coqc Props/%s.v failed:\n%s" % (pid, out[-2500:]))
        return res
    closed = out.count("Closed under the global context")
    res["assumptions_closed"] = closed
    if "Axioms:" in out:
        res["errors"].append("Print Assumptions reports axioms:\n" + out[-1500:])
    if closed < len(thms):
        res["errors"].append("only %d of %d theorems have a closed Print Assumptions" % (closed, len(thms)))
    bad = audit()
    if bad:
        res["errors"].append("audit: " + "; ".join(bad[:10]))
    if not res["errors"]:
        res["discharged"] = len(thms)
    if thorough and not res["errors"]:
        rc, out = sh(["coqchk", "-silent", "-o", "-Q", ".", "H264", "H264.Props." + pid], cwd=COQ, timeout=3000)
        res["coqchk"] = "ok" if rc == 0 else out[-1500:]
        if rc != 0:
            res["errors"].append("coqchk failed: " + out[-1500:])
        elif "Axioms: <none>" not in out.replace("\n", " ") and re.search(r"Axioms:\s*\S", out) and "<none>" not in out:
            res["errors"].append("coqchk lists axioms: " + out[-800:])
    return res


# ---------------------------------------------------------------------------------------------
# running cases

def strip_meta(ans):
    """'<answer> [panic=1] alloc=a/b us=n' -> (answer, panic, alloc_max, alloc_total, us)"""
    m = re.search(r"(?: (panic=1))? alloc=(\d+)/(\d+) us=(\d+)$", ans)
    if not m:
        return ans, False, 0, 0, 0
    return ans[:m.start()], bool(m.group(1)), int(m.group(2)), int(m.group(3)), int(m.group(4))


def _big_stack():
    # the extracted model recurses over lists (a 1 MiB payload is a million-element list): give it the stack the hard limit allows
    try:
        import resource
        soft, hard = resource.getrlimit(resource.RLIMIT_STACK)
        resource.setrlimit(resource.RLIMIT_STACK, (hard, hard))
    except Exception:
        pass


def run_binary(binary, lines, timeout):
    try:
        p = subprocess.run([binary], input="\n".join(lines) + "\n", stdout=subprocess.PIPE, stderr=subprocess.PIPE,
                           text=True, timeout=timeout, env=ENV, preexec_fn=_big_stack)
        rc, so, se = p.returncode, p.stdout, p.stderr
    except subprocess.TimeoutExpired as e:
        # a hang: keep the answers printed so far; the unanswered cases show up as "<no answer>"
        so = e.stdout.decode() if isinstance(e.stdout, bytes) else (e.stdout or "")
        rc, se = -9, "deadline of %ds exceeded" % timeout
        so = so[:so.rfind("\n") + 1]
    res = {}
    for l in so.splitlines():
        i = l.find(" ")
        if i < 0:
            res[l] = ""
        else:
            res[l[:i]] = l[i + 1:]
    return rc, res, se


def run_cases(cases, timeout=900, want_release=True):
    """cases: list of 'cmd args' strings.  Returns list of dicts {case, dev, rel, model, panic, ...}."""
    # a case starting with "!" is run on the implementation only (runtime facets: size doubling)
    lines = ["%d %s" % (i, c.lstrip("!")) for i, c in enumerate(cases)]
    # model side: a `slices CTX A B ..` case (several headers parsed against ONE Context object in the crate) is, for the
    # pure model, the list of its single parses `slice CTX A`, `slice CTX B`, .. - answered separately and joined by ";;"
    mlines = []
    for i, c in enumerate(cases):
        if c.startswith("!"):
            continue
        if c.startswith("slices "):
            p = c.split()
            for k, src in enumerate(p[2:]):
                mlines.append("%d.%d slice %s %s" % (i, k, p[1], src))
        else:
            mlines.append("%d %s" % (i, c))
    nsh = max(1, min(NPROC, len(lines) // 200 + 1))
    # consecutive cases stay together in blocks of 16 (generators place related cases next to each other: state that leaks
    # from one call into the next - a static, a thread_local cache, a pooled buffer - then meets the input it is wrong for)
    shards = [[] for _ in range(nsh)]
    for j, l in enumerate(lines):
        shards[(j // 16) % nsh].append(l)
    mshards = [[] for _ in range(nsh)]
    for j, l in enumerate(mlines):
        mshards[(j // 16) % nsh].append(l)
    jobs = []
    with ThreadPoolExecutor(max_workers=NPROC) as ex:
        for s, ms in zip(shards, mshards):
            jobs.append(("dev", ex.submit(run_binary, H_DEV, s, timeout)))
            if want_release:
                # the release build answers the same cases in the opposite order: an answer that depends on what was
                # parsed before shows up as a debug/release disagreement
                jobs.append(("rel", ex.submit(run_binary, H_REL, list(reversed(s)), timeout)))
            if ms:
                jobs.append(("model", ex.submit(run_binary, MODELRUN, ms, timeout)))
        outs = {"dev": {}, "rel": {}, "model": {}}
        crashes = []
        for kind, j in jobs:
            rc, res, err = j.result()
            outs[kind].update(res)
            if rc != 0:
                crashes.append((kind, rc, err[-500:]))
    results = []
    for i, c in enumerate(cases):
        k = str(i)
        r = {"case": c}
        for kind in ("dev", "rel"):
            if kind == "rel" and not want_release:
                continue
            if k in outs[kind]:
                a, pn, amax, atot, us = strip_meta(outs[kind][k])
                r[kind] = a
                r[kind + "_panic"] = pn
                if kind == "dev":
                    r["alloc_max"], r["alloc_total"], r["us"] = amax, atot, us
            else:
                r[kind] = "<no answer: process died>"
                r[kind + "_panic"] = True
        if c.startswith("slices ") and not c.startswith("!"):
            n = len(c.split()) - 2
            r["model"] = " ;; ".join(outs["model"].get("%s.%d" % (k, j), "<no answer: modelrun died>") for j in range(n))
        else:
            r["model"] = None if c.startswith("!") else outs["model"].get(k, "<no answer: modelrun died>")
        results.append(r)
    return results, crashes


def leaves(s):
    return re.findall(r"-?\d+|[A-Za-z_]\w*", s)


# ---------------------------------------------------------------------------------------------

def write_json(path, obj):
    os.makedirs(os.path.dirname(path), exist_ok=True)
    tmp = path + ".tmp%d" % os.getpid()
    with open(tmp, "w") as f:
        json.dump(obj, f, indent=1)
    os.replace(tmp, path)


def load_known():
    p = os.path.join(ROOT, "known_findings.json")
    if os.path.exists(p):
        return json.load(open(p)).get("findings", [])
    return []


def corpus_cases(pid):
    d = os.path.join(ROOT, "corpus", pid)
    out = []
    if os.path.isdir(d):
        for f in sorted(os.listdir(d)):
            if f.endswith(".case"):
                for l in open(os.path.join(d, f)):
                    l = l.strip()
                    if l and not l.startswith("#"):
                        out.append(l)
    return out


def setup():
    with Lock():
        build_harness()
        regen_tables()
        coq_makefile()
        rc, out = coq_make([], timeout=3400)
        if rc != 0:
            print(out[-4000:])
            return 1
        build_model()
    print("setup ok")
    return 0


def main():
    args = sys.argv[1:]
    if not args:
        print(__doc__)
        return 2
    if args[0] == "--setup":
        return setup()
    pid = args[0]
    tier = os.environ.get("VERIF_TIER", "quick")
    replay = None
    i = 1
    while i < len(args):
        if args[i] == "--tier":
            tier = args[i + 1]
            i += 2
        elif args[i] == "--replay":
            replay = args[i + 1]
            i += 2
        else:
            i += 1
    seed = int(os.environ.get("VERIF_SEED", "1"))
    from vlib import runner
    return runner.run_property(sys.modules[__name__], pid, tier, seed, replay)


if __name__ == "__main__":
    sys.exit(main())
