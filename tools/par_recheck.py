#!/usr/bin/env python3
"""Re-run the quick check of every stored seeded change (seeded/*/patch.diff) against SCRATCH copies of /repo and /verif, several
workers at a time, without touching /repo.  usage: par_recheck.py [workers=3] [name-prefix ...]
Each worker: git worktree of /repo HEAD + git worktree of /verif HEAD under /tmp/pr_<k>/, `check.py --setup` there with
H264V_REPO pointing at its repo copy, then for each of its seeds: apply, check, undo.  Results go to seeded/<name>/meta.json
(caught_by, checks, rechecked_at).  The worktrees are removed at the end."""
import sys, os, subprocess, json, glob, time
from concurrent.futures import ThreadPoolExecutor

W = int(sys.argv[1]) if len(sys.argv) > 1 and sys.argv[1].isdigit() else 3
prefixes = [a for a in sys.argv[1:] if not a.isdigit()]
seeds = sorted(os.path.basename(d) for d in glob.glob("/verif/seeded/*") if os.path.exists(d + "/patch.diff"))
if prefixes:
    seeds = [s for s in seeds if any(s.startswith(p) for p in prefixes)]
head = subprocess.run("git -C /verif rev-parse --short HEAD", shell=True, capture_output=True, text=True).stdout.strip()


def sh(cmd, cwd=None, env=None, timeout=3600):
    p = subprocess.run(cmd, cwd=cwd, shell=True, env=env, stdout=subprocess.PIPE, stderr=subprocess.STDOUT, text=True, timeout=timeout)
    return p.returncode, p.stdout


def worker(k):
    base = "/tmp/pr_%d" % k
    sh("git -C /repo worktree remove --force %s/repo; git -C /verif worktree remove --force %s/verif; rm -rf %s; mkdir -p %s" % (base, base, base, base))
    rc, out = sh("git -C /repo worktree add --detach %s/repo HEAD && git -C /verif worktree add --detach %s/verif HEAD" % (base, base))
    assert rc == 0, out
    env = dict(os.environ, H264V_REPO=base + "/repo", CARGO_NET_OFFLINE="true")
    rc, out = sh("python3 check.py --setup", cwd=base + "/verif", env=env)
    if rc != 0:
        return [("SETUP-FAILED", out[-2000:])]
    res = []
    for name in seeds[k::W]:
        prop = name.split("-")[0]
        d = "/verif/seeded/" + name
        rc, out = sh("git -C %s/repo apply %s/patch.diff" % (base, d))
        if rc != 0:
            res.append((name, "APPLY-FAILED " + out[-300:]))
            continue
        try:
            rc, out = sh("python3 check.py %s --tier quick" % prop, cwd=base + "/verif", env=env, timeout=3000)
        except subprocess.TimeoutExpired:
            rc, out = -9, "TIMEOUT"
        finally:
            sh("git -C %s/repo checkout -- ." % base)
        viol = [l for l in out.splitlines() if l.startswith("VIOLATION") or l.startswith("DISAGREEMENT")]
        real = any(l.startswith("VIOLATION") and "-proof.json" not in l for l in viol) or any(l.startswith("DISAGREEMENT") for l in viol)
        caught = [prop] if rc == 1 and real else []
        meta = json.load(open(d + "/meta.json"))
        if meta.get("checks") and not meta.get("caught_by") and caught:
            meta["missed_at_first"] = True
        fz = int(os.environ.get("PAR_FUZZ", "0"))
        if fz and not caught:
            # not seen by the quick tier: would the thorough tier's coverage-guided search see it?
            sh("git -C %s/repo apply %s/patch.diff" % (base, d))
            try:
                rcf, outf = sh("python3 tools/fuzz_diff.py %s %d" % (prop, fz), cwd=base + "/verif", env=env, timeout=fz + 2400)
            except subprocess.TimeoutExpired:
                rcf, outf = -9, "TIMEOUT"
            finally:
                sh("git -C %s/repo checkout -- ." % base)
            meta["fuzz"] = {"seconds": fz, "caught": rcf == 1, "tail": outf[-400:]}
        meta["checks"] = {prop: {"exit": rc, "lines": viol[:6]}}
        meta["caught_by"] = caught
        meta["rechecked_at"] = {"verif_commit": head, "time": time.strftime("%Y-%m-%d %H:%M")}
        json.dump(meta, open(d + "/meta.json", "w"), indent=1)
        res.append((name, "caught" if caught else "MISSED exit=%s fuzz=%s %s" % (rc, meta.get("fuzz", {}).get("caught"), out[-200:].replace("\n", " | "))))
        print(name, res[-1][1][:160], flush=True)
    sh("git -C /repo worktree remove --force %s/repo; git -C /verif worktree remove --force %s/verif; rm -rf %s" % (base, base, base))
    return res


with ThreadPoolExecutor(max_workers=W) as ex:
    allres = [r for rs in ex.map(worker, range(W)) for r in rs]
sh("git -C /repo worktree prune; git -C /verif worktree prune")
missed = [r for r in allres if not r[1].startswith("caught")]
print("rechecked %d seeds, %d not caught" % (len(allres), len(missed)))
for m in missed:
    print("  ", m[0], m[1][:300])
