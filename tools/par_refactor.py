#!/usr/bin/env python3
"""Re-run the quick checks anchored in the touched files against every stored behaviour-preserving refactoring
(refactors/*/patch.diff) on SCRATCH copies of /repo and /verif, several workers at a time (false-alarm assessment after the
checks were strengthened).  usage: par_refactor.py [workers=3].  Updates refactors/<name>/result.json."""
import sys, os, subprocess, json, glob, re, time
from concurrent.futures import ThreadPoolExecutor
sys.argv_saved = list(sys.argv)
W = int(sys.argv[1]) if len(sys.argv) > 1 and sys.argv[1].isdigit() else 3
names = sorted(os.path.basename(d) for d in glob.glob("/verif/refactors/*") if os.path.exists(d + "/patch.diff"))
sys.argv = [sys.argv[0], "0", "0"]
src = open("/verif/tools/mutate.py").read().replace("\nmain()\n", "\n")
ns = {"__name__": "m"}
exec(compile(src, "mutate.py", "exec"), ns)
FILEMAP = ns["FILEMAP"]
head = subprocess.run("git -C /verif rev-parse --short HEAD", shell=True, capture_output=True, text=True).stdout.strip()


def sh(cmd, cwd=None, env=None, timeout=3600):
    p = subprocess.run(cmd, cwd=cwd, shell=True, env=env, stdout=subprocess.PIPE, stderr=subprocess.STDOUT, text=True, timeout=timeout)
    return p.returncode, p.stdout


def worker(k):
    base = "/tmp/prf_%d" % k
    sh("git -C /repo worktree remove --force %s/repo; git -C /verif worktree remove --force %s/verif; rm -rf %s; mkdir -p %s" % (base, base, base, base))
    rc, out = sh("git -C /repo worktree add --detach %s/repo HEAD && git -C /verif worktree add --detach %s/verif HEAD" % (base, base))
    assert rc == 0, out
    env = dict(os.environ, H264V_REPO=base + "/repo", CARGO_NET_OFFLINE="true")
    rc, out = sh("python3 check.py --setup", cwd=base + "/verif", env=env)
    if rc != 0:
        return [("SETUP-FAILED", out[-2000:])]
    res = []
    for name in names[k::W]:
        d = "/verif/refactors/" + name
        files = re.findall(r"^\+\+\+ b/(\S+)", open(d + "/patch.diff").read(), re.M)
        props = []
        for f in files:
            for p in FILEMAP.get(f, []):
                if p not in props:
                    props.append(p)
        rc, out = sh("git -C %s/repo apply %s/patch.diff" % (base, d))
        if rc != 0:
            res.append((name, "APPLY-FAILED"))
            continue
        r = {"files": files, "checks": {}, "rechecked_at": {"verif_commit": head, "time": time.strftime("%Y-%m-%d %H:%M")}}
        try:
            for p in props:
                rc, o = sh("python3 check.py %s --tier quick 2>&1 | grep -E '^(OK|VIOLATION|DISAGREEMENT|BUILD|XCHECK)' | head -6" % p, cwd=base + "/verif", env=env, timeout=3000)
                r["checks"][p] = o.strip().splitlines()
        finally:
            sh("git -C %s/repo checkout -- ." % base)
        alarms = [l for ls in r["checks"].values() for l in ls if l.startswith("VIOLATION")]
        r["silent"] = not alarms
        r["claimed_failing_input"] = [l for l in alarms if "no-failing-input-found" not in l]
        old = json.load(open(d + "/result.json")) if os.path.exists(d + "/result.json") else {}
        r["crate_tests"] = old.get("crate_tests")
        json.dump(r, open(d + "/result.json", "w"), indent=1)
        res.append((name, "silent" if r["silent"] else "ALARMS %s" % alarms))
        print(name, props, res[-1][1][:300], flush=True)
    sh("git -C /repo worktree remove --force %s/repo; git -C /verif worktree remove --force %s/verif; rm -rf %s" % (base, base, base))
    return res


with ThreadPoolExecutor(max_workers=W) as ex:
    allres = [r for rs in ex.map(worker, range(W)) for r in rs]
sh("git -C /repo worktree prune; git -C /verif worktree prune")
loud = [r for r in allres if r[1] != "silent"]
print("re-evaluated %d refactorings, %d not silent" % (len(allres), len(loud)))
for m in loud:
    print("  ", m[0], m[1][:400])
