#!/usr/bin/env python3
"""Confirm freshly written seeded changes in their authors' scratch worktrees and store them under /verif/seeded/.
usage: seed_store.py <worktree-prefix e.g. /tmp/wt6_> <m8> [workers=5]
Per property Cxx with <prefix>Cxx/MUTATION/<mk>/: the patch applies to a clean tree; demo.rs passes without it and fails with it;
the crate's own tests pass with it.  Nothing here touches /repo.  Evaluation against the checks: tools/par_recheck.py <names>."""
import sys, os, subprocess, json, shutil, glob
from concurrent.futures import ThreadPoolExecutor
prefix, mk = sys.argv[1], sys.argv[2]
W = int(sys.argv[3]) if len(sys.argv) > 3 else 5


def one(wt):
    prop = wt[len(prefix):]
    src = os.path.join(wt, "MUTATION", mk)
    if not os.path.exists(src + "/patch.diff"):
        return prop, "no mutation"
    env = dict(os.environ, CARGO_TARGET_DIR=os.path.join(wt, "target"), CARGO_NET_OFFLINE="true")

    def sh(cmd, timeout=1800):
        p = subprocess.run(cmd, cwd=wt, shell=True, env=env, stdout=subprocess.PIPE, stderr=subprocess.STDOUT, text=True, timeout=timeout)
        return p.returncode, p.stdout
    meta = {"property": prop, "mutation": mk, "source": "independent sub-agent given only the property text and a scratch worktree"}
    readme = open(src + "/README.md").read() if os.path.exists(src + "/README.md") else ""
    meta["needs_to_manifest"] = readme[:1500]
    sh("git checkout -- . && rm -rf tests")
    rc, out = sh("git apply --check MUTATION/%s/patch.diff" % mk)
    if rc != 0:
        return prop, "patch does not apply: " + out[-200:]
    os.makedirs(os.path.join(wt, "tests"), exist_ok=True)
    shutil.copy(src + "/demo.rs", os.path.join(wt, "tests", "demo.rs"))
    rc0, out0 = sh("cargo test --offline --test demo 2>&1 | tail -15")
    meta["demo_without_patch"] = "pass" if "test result: ok" in out0 and "FAILED" not in out0 else "FAIL"
    sh("git apply MUTATION/%s/patch.diff" % mk)
    rc1, out1 = sh("cargo test --offline --test demo 2>&1 | tail -15")
    meta["demo_with_patch"] = "fails" if ("FAILED" in out1 or "failed" in out1) else "PASSES?"
    os.remove(os.path.join(wt, "tests", "demo.rs"))
    rc2, out2 = sh("timeout -k 5 600 cargo test --offline 2>&1 | grep -E '^test result|FAILED' ")
    meta["existing_tests_with_patch"] = out2.strip().splitlines()
    sh("git checkout -- . && rm -rf tests")
    ok = meta["demo_without_patch"] == "pass" and meta["demo_with_patch"] == "fails" and meta["existing_tests_with_patch"] and \
        all("ok." in l for l in meta["existing_tests_with_patch"])
    meta["confirmed"] = bool(ok)
    meta["caught_by"] = []
    dst = "/verif/seeded/%s-%s" % (prop, mk)
    os.makedirs(dst, exist_ok=True)
    for f in ("patch.diff", "demo.rs", "README.md"):
        if os.path.exists(os.path.join(src, f)):
            shutil.copy(os.path.join(src, f), os.path.join(dst, f))
    json.dump(meta, open(dst + "/meta.json", "w"), indent=1)
    return prop, "confirmed" if ok else "NOT CONFIRMED %s/%s/%s" % (meta["demo_without_patch"], meta["demo_with_patch"], meta["existing_tests_with_patch"][:1])


wts = sorted(glob.glob(prefix + "C[0-9][0-9]"))
with ThreadPoolExecutor(max_workers=W) as ex:
    for prop, res in ex.map(one, wts):
        print(prop, res, flush=True)
