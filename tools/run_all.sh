#!/bin/sh
# run every claimed check (quick tier) on the current tree and summarise
cd /verif
for p in $(python3 -c "import json; print(' '.join(c['property_id'] for c in json.load(open('MANIFEST.json'))['checks']))"); do
  timeout 1500 python3 check.py $p --tier quick 2>&1 | grep -E "^(OK|VIOLATION|KNOWN)" | head -3
done
