#!/usr/bin/env python3
"""Operator-mutation self-assessment of the checks (not a registered check).
Samples single-token mutations of /repo/src, keeps those that compile and pass the crate's own tests,
runs the quick checks of the properties anchored in the mutated file, and records survivors.
usage: mutate.py <n> <seed> [file-substring]      (sequential; /repo must be clean; it is restored after each mutant)"""
import sys, os, re, random, subprocess, json, time

N = int(sys.argv[1]); SEED = int(sys.argv[2]); ONLY = sys.argv[3] if len(sys.argv) > 3 else ""
REPO = "/repo"
FILEMAP = {
    "src/annexb.rs": ["C01", "C18", "C12"],
    "src/rbsp.rs": ["C02", "C07", "C14", "C03", "C17", "C04"],
    "src/nal/mod.rs": ["C15", "C20", "C08", "C12"],
    "src/push/mod.rs": ["C08", "C12"],
    "src/nal/sps.rs": ["C04", "C13", "C16", "C20", "C03", "C11"],
    "src/nal/pps.rs": ["C05", "C16", "C20", "C03"],
    "src/nal/slice/mod.rs": ["C06", "C16", "C03"],
    "src/nal/sei/mod.rs": ["C10", "C17", "C03"],
    "src/nal/sei/buffering_period.rs": ["C11", "C03"],
    "src/nal/sei/pic_timing.rs": ["C11", "C03"],
    "src/nal/sei/user_data_registered_itu_t_t35.rs": ["C11", "C20"],
    "src/avcc.rs": ["C09", "C12"],
    "src/lib.rs": ["C19"],
}
OPS = [(r"<=", "<"), (r">=", ">"), (r"(?<![<>=!-])<(?![<=])", "<="), (r"(?<![<>=!-])>(?![>=])", ">="), (r"==", "!="), (r"!=", "=="),
       (r"&&", "||"), (r"\|\|", "&&"), (r" \+ ", " - "), (r" - ", " + "), (r"\btrue\b", "false"), (r"\bfalse\b", "true"),
       (r"\b([0-9]+)\b", None), (r"<<", ">>"), (r">>", "<<"), (r"\bsaturating_sub\b", "wrapping_sub"), (r"\bchecked_add\b", "checked_sub")]


def sh(cmd, cwd=REPO, timeout=1800, env=None):
    p = subprocess.run(cmd, cwd=cwd, shell=True, stdout=subprocess.PIPE, stderr=subprocess.STDOUT, text=True, timeout=timeout,
                       env=env or dict(os.environ, CARGO_NET_OFFLINE="true"))
    return p.returncode, p.stdout


def sites(path):
    """(line_no, start, end, replacement) candidates outside comments, test modules, Debug impls and strings"""
    out = []
    lines = open(os.path.join(REPO, path)).read().split("\n")
    in_test = False
    for i, l in enumerate(lines):
        s = l.strip()
        if s.startswith("#[cfg(test)]"):
            in_test = True
        if in_test or s.startswith("//") or s.startswith("///") or s.startswith("#[") or "debug_" in l or "fmt::" in l or "panic!" in l \
           or "assert" in l or s.startswith("use ") or ("=>" in l and '"' in l) or re.match(r"\s*(pub\s+)?(const\s+)?fn\s", l) \
           or "::<" in l or s.startswith("impl") or s.startswith("pub struct") or s.startswith("pub enum") or s.startswith("where"):
            continue
        code = l.split("//")[0]
        if '"' in code:
            code = code[:code.index('"')]
        for pat, rep in OPS:
            for m in re.finditer(pat, code):
                if rep is None:
                    v = int(m.group(1))
                    if v > 70000:
                        continue
                    r = str(v + 1)
                else:
                    r = rep
                # skip generics / arrows / lifetimes
                ctx = code[max(0, m.start() - 2):m.end() + 2]
                if "->" in ctx or "=>" in ctx or "'" in ctx or "::<" in ctx or "<'" in ctx:
                    continue
                if pat.startswith("(?<![<>=!-])") and re.search(r"(Vec|Option|Result|impl|fn |Box|Cow|Read|BufRead|Iterator|Into|From)\s*<", code):
                    continue
                out.append((i, m.start(), m.end(), r))
    return lines, out


def main():
    rng = random.Random(SEED)
    rc, out = sh("git status --porcelain")
    assert out.strip() == "", "repo dirty"
    allsites = []
    for f in FILEMAP:
        if ONLY and ONLY not in f:
            continue
        lines, ss = sites(f)
        rng.shuffle(ss)
        allsites += [(f, s) for s in ss[:40]]        # at most 40 sites per file, so the big tables do not dominate
    rng.shuffle(allsites)
    log = open("/verif/work/mutation_log_%d.jsonl" % SEED, "a")
    done = 0
    for f, (ln, a, b, r) in allsites:
        if done >= N:
            break
        lines = open(os.path.join(REPO, f)).read().split("\n")
        orig = lines[ln]
        lines[ln] = orig[:a] + r + orig[b:]
        rec = {"file": f, "line": ln + 1, "from": orig.strip(), "to": lines[ln].strip()}
        try:
            open(os.path.join(REPO, f), "w").write("\n".join(lines))
            rc, out = sh("timeout -k 5 180 cargo test --offline 2>&1 | grep -E '^test result|error(\\[|:)|FAILED' | head -5", timeout=900)
            if "error" in out or "test result" not in out:
                rec["status"] = "does-not-compile"
            elif "FAILED" in out or "failed; " in out and not re.search(r" 0 failed", out):
                rec["status"] = "killed-by-crate-tests"
            else:
                done += 1
                killed = []
                for p in FILEMAP[f]:
                    rc, o = sh("python3 check.py %s --tier quick 2>&1 | grep -E '^(OK|VIOLATION|BUILD)' | head -3" % p,
                               cwd="/verif", timeout=1500)
                    if "VIOLATION" in o or "BUILD" in o:
                        killed.append(p)
                        break
                rec["status"] = "killed" if killed else "SURVIVED"
                rec["by"] = killed
        except Exception as e:
            rec["status"] = "tool-error: %s" % e
        finally:
            sh("git checkout -- .")
            sh("git -C /verif checkout -- evidence coq/Gen", cwd="/verif")
        log.write(json.dumps(rec) + "\n"); log.flush()
        print(rec["status"], f, ln + 1, "|", rec["from"][:70], "=>", rec["to"][:70], rec.get("by", ""), flush=True)


main()
