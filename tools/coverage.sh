#!/bin/sh
# Line/region coverage of /repo/src under the correspondence inputs of every property (quick tier).
# Not a registered check: it needs the nightly toolchain's llvm-tools and builds in a scratch directory
# outside /repo and /verif, which it removes afterwards.  Prints the per-file report and the uncovered lines.
set -e
S=${1:-/tmp/covh_$$}
LL=$(dirname "$(find /root/.rustup/toolchains/nightly-x86_64-unknown-linux-gnu -name llvm-cov | head -1)")
rm -rf "$S"; mkdir -p "$S"
cp -r /verif/harness/Cargo.toml /verif/harness/Cargo.lock /verif/harness/src /verif/harness/.cargo "$S"/
(cd "$S" && CARGO_NET_OFFLINE=true CARGO_TARGET_DIR="$S/target" RUSTFLAGS="--cfg h264_reader_verif -C instrument-coverage" cargo +nightly build --offline 2>&1 | tail -1)
(cd /verif && python3 tools/dump_cases.py quick "$S/allcases.txt" 2>&1 | tail -1)
cd "$S"; split -n l/8 allcases.txt part_
for f in part_*; do LLVM_PROFILE_FILE="$S/$f.profraw" ./target/debug/h264v < "$f" > /dev/null 2>&1 & done; wait
LLVM_PROFILE_FILE="$S/tables.profraw" ./target/debug/h264v tables > /dev/null 2>&1
"$LL/llvm-profdata" merge -sparse *.profraw -o all.profdata
"$LL/llvm-cov" report ./target/debug/h264v -instr-profile=all.profdata --ignore-filename-regex='(registry|rustc|harness|covh)' | awk '{print $1,$2,$3,$4,$8,$9,$10}'
"$LL/llvm-cov" show ./target/debug/h264v -instr-profile=all.profdata --ignore-filename-regex='(registry|rustc|harness|covh)' > cov.txt 2>/dev/null
python3 - "$S/cov.txt" <<'PYEOF'
import re, sys
cur = None
for l in open(sys.argv[1]):
    if l.startswith('/repo'):
        cur = l.strip().rstrip(':'); continue
    m = re.match(r'\s*(\d+)\|\s*0\|(.*)', l)
    if m and cur and m.group(2).strip() not in ('}', '{', ''):
        print("UNCOVERED %s:%s: %s" % (cur.replace('/repo/src/', ''), m.group(1), m.group(2).rstrip()[:100]))
PYEOF
cd /; rm -rf "$S"
