#!/usr/bin/env python3
"""Re-run our checks against a stored seeded mutation (after strengthening a check).
usage: seed_recheck.py <prop>-<m> [tier] [extra props ...]   e.g. seed_recheck.py C01-m5"""
import sys, os, subprocess, json
name = sys.argv[1]
tier = sys.argv[2] if len(sys.argv) > 2 and sys.argv[2] in ("quick", "thorough") else "quick"
extra = [a for a in sys.argv[2:] if a not in ("quick", "thorough")]
prop = name.split("-")[0]
d = "/verif/seeded/" + name
def sh(cmd, cwd="/verif", timeout=3000):
    p = subprocess.run(cmd, cwd=cwd, shell=True, stdout=subprocess.PIPE, stderr=subprocess.STDOUT, text=True, timeout=timeout)
    return p.returncode, p.stdout
rc, out = sh("git -C /repo status --porcelain")
assert out.strip() == "", "repo dirty: " + out
meta = json.load(open(d + "/meta.json"))
results = {}
try:
    rc, out = sh("git -C /repo apply %s/patch.diff" % d)
    assert rc == 0, out
    for p in [prop] + extra:
        rc, out = sh("python3 check.py %s --tier %s" % (p, tier))
        viol = [l for l in out.splitlines() if l.startswith("VIOLATION") or l.startswith("DISAGREEMENT")]
        results[p] = {"exit": rc, "lines": viol[:6]}
finally:
    sh("git -C /repo checkout -- .")
    sh("git -C /verif checkout -- evidence coq/Gen")
def real_violation(r):
    return any(l.startswith("VIOLATION") and "-proof.json" not in l for l in r["lines"]) or any(l.startswith("DISAGREEMENT") for l in r["lines"])
caught = [p for p, r in results.items() if r["exit"] == 1 and real_violation(r)]
if not meta.get("caught_by") and caught:
    meta["missed_at_first"] = True
    meta["first_checks"] = meta.get("checks")
meta["checks"] = results
meta["caught_by"] = caught
meta["rechecked_tier"] = tier
json.dump(meta, open(d + "/meta.json", "w"), indent=1)
print(name, "caught by:", caught)
for p, r in results.items():
    for l in r["lines"][:3]:
        print("   ", p, l[:220])
