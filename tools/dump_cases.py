#!/usr/bin/env python3
"""Write every case of every property's quick (or given) tier to a file, one '<n> <cmd> <args>' per line
(the harness line protocol).  Used for coverage measurement of the correspondence inputs."""
import sys, os, random, importlib
sys.path.insert(0, "/verif")
import check as ck
tier = sys.argv[1] if len(sys.argv) > 1 else "quick"
out = open(sys.argv[2] if len(sys.argv) > 2 else "/tmp/allcases.txt", "w")
n = 0
for i in range(1, 21):
    pid = "C%02d" % i
    mod = importlib.import_module("vlib.props." + pid)
    rng = random.Random(1 * 1000003 + i)
    cases = ck.corpus_cases(pid) + mod.gen(tier, rng)
    for c in cases:
        out.write("%d %s\n" % (n, c.lstrip("!")))
        n += 1
    print(pid, len(cases), file=sys.stderr)
print(n, "cases", file=sys.stderr)
