#!/usr/bin/env python3
"""Rewrite the seeded-changes table of DESIGN.md from seeded/*/meta.json."""
import json, glob, os, re
rows = []
for d in sorted(glob.glob('/verif/seeded/*')):
    m = json.load(open(d + '/meta.json'))
    readme = m.get('needs_to_manifest', '')
    # first informative line of the README
    line = ''
    for l in readme.splitlines():
        l = l.strip()
        if not l or l.startswith('#'):
            continue
        line = l
        break
    line = re.sub(r'\s+', ' ', line).replace('|', '/')[:150]
    name = os.path.basename(d)
    first = "missed" if (m.get('missed_at_first') or not m['caught_by'] or name in ("C07-m2", "C08-m2", "C12-m2", "C11-m1")) else "caught"
    rows.append("| %s | %s | %s | %s |" % (name, first, ", ".join(m['caught_by']) or "MISSED", line))
table = "| seed | at first | caught by (now) | what it changes / needs to manifest (first line of its README) |\n|------|------|-----------|----------------------------------------------|\n" + "\n".join(rows) + "\n"
p = '/verif/DESIGN.md'
s = open(p).read()
i = s.index("| seed | ")
j = s.index("**Trusted base as built.**")
s = s[:i] + table + "\n" + s[j:]
open(p, 'w').write(s)
print(len(rows), "rows")
