#!/usr/bin/env python3
"""Boundary sweep (self-assessment, not a registered check): for every comparison of a parsed value against a literal in
/repo/src (range checks), apply `>`->`>=`, `<`->`<=` and literal K -> K+1 one at a time; a mutant that passes the
crate's tests must be reported by the quick checks of the properties anchored in that file.  Survivors mean a generator
does not exercise that boundary.  usage: boundary_sweep.py [file-substring]"""
import sys, os, re, subprocess, json
sys.argv = [sys.argv[0], "0", "0"] + sys.argv[1:]
src = open("/verif/tools/mutate.py").read().replace("\nmain()\n", "\n")
ns = {"__name__": "m"}
exec(compile(src, "mutate.py", "exec"), ns)
FILEMAP, sh, REPO = ns["FILEMAP"], ns["sh"], ns["REPO"]
ONLY = sys.argv[3] if len(sys.argv) > 3 else ""
PAT = re.compile(r"(if|filter|while)\b.*?([<>]=?)\s*-?\(?\s*-?[0-9]+|-?[0-9]+\s*([<>]=?)\s*\w")
sites = []
for f in FILEMAP:
    if ONLY and ONLY not in f:
        continue
    lines = open(os.path.join(REPO, f)).read().split("\n")
    in_test = False
    for i, l in enumerate(lines):
        if l.strip().startswith("#[cfg(test)]"):
            in_test = True
        if in_test or l.strip().startswith("//") or "assert" in l or not PAT.search(l.split("//")[0]):
            continue
        code = l.split("//")[0]
        for m in re.finditer(r"(?<![<>=!-])([<>])(?![<>=])", code):
            sites.append((f, i, m.start(), m.end(), m.group(1) + "="))
        for m in re.finditer(r"(?<![\w.])([0-9]+)\b", code):
            sites.append((f, i, m.start(), m.end(), str(int(m.group(1)) + 1)))
print(len(sites), "boundary mutants", flush=True)
log = open("/verif/work/boundary_log.jsonl", "a")
rc, out = sh("git status --porcelain")
assert out.strip() == "", "repo dirty"
for f, ln, a, b, r in sites:
    lines = open(os.path.join(REPO, f)).read().split("\n")
    orig = lines[ln]
    lines[ln] = orig[:a] + r + orig[b:]
    rec = {"file": f, "line": ln + 1, "from": orig.strip(), "to": lines[ln].strip()}
    try:
        open(os.path.join(REPO, f), "w").write("\n".join(lines))
        rc, out = sh("timeout -k 5 180 cargo test --offline 2>&1 | grep -E '^test result|error(\\[|:)|FAILED' | head -5", timeout=900)
        if "error" in out or "test result" not in out or "FAILED" in out:
            rec["status"] = "not-a-candidate (does not compile / fails the crate's tests)"
        else:
            killed = []
            for p in FILEMAP[f]:
                rc, o = sh("python3 check.py %s --tier quick 2>&1 | grep -E '^(OK|VIOLATION|BUILD)' | head -3" % p, cwd="/verif", timeout=1500)
                if "VIOLATION" in o or "BUILD" in o:
                    killed.append(p)
                    break
            rec["status"] = "killed" if killed else "SURVIVED"
            rec["by"] = killed
    except Exception as e:
        rec["status"] = "tool-error: %s" % e
    finally:
        sh("git checkout -- .")
        sh("git -C /verif checkout -- evidence coq/Gen", cwd="/verif")
    log.write(json.dumps(rec) + "\n"); log.flush()
    print(rec["status"][:14], f, ln + 1, "|", rec["from"][:60], "=>", rec["to"][:60], rec.get("by", ""), flush=True)
