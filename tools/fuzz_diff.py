#!/usr/bin/env python3
"""Coverage-guided search for implementation/model disagreements (support for the correspondence, not a verdict).
usage: fuzz_diff.py <prop|all> [seconds=120] [--keep]
 1. seed corpus: the property's own quick-tier cases (short ones, the commands the fuzz target understands);
 2. `cargo +nightly fuzz run diff` (harness/fuzz) for the given time with a fixed seed: the target answers each case with the
    crate (in process) and the extracted model (child process) and appends disagreeing cases to work/fuzz_<prop>.findings;
 3. the findings are judged by the ordinary runner (check.py <prop> --cases file): canonicalisation, agreement, oracles.
Exit 0 = nothing the runner calls a violation; exit 1 = a VIOLATION line was printed by the runner."""
import sys, os, random, importlib, subprocess, shutil, hashlib
ROOT = os.path.dirname(os.path.dirname(os.path.abspath(__file__)))
sys.path.insert(0, ROOT)
import check as ck

SUPPORTED = ("sps", "pps", "slice", "sei", "bp", "pt", "t35", "avcc", "decode_nal", "bits", "rbsp", "refnal", "annexb")


def corpus_for(pid, limit=4000):
    mod = importlib.import_module("vlib.props." + pid)
    rng = random.Random(1000003 + int(pid[1:]))
    cases = [c for c in ck.corpus_cases(pid) + mod.gen("quick", rng) if not c.startswith("!") and c.split()[0] in SUPPORTED and len(c) < 1500]
    rng.shuffle(cases)
    return cases[:limit]


def main():
    prop = sys.argv[1]
    secs = int(sys.argv[2]) if len(sys.argv) > 2 and sys.argv[2].isdigit() else 120
    props = ["C%02d" % i for i in range(1, 21)] if prop == "all" else [prop]
    rc_all = 0
    with ck.Lock():
        ck.build_harness()
        ck.build_model()
    env = dict(ck.ENV, CARGO_NET_OFFLINE="true", H264V_MODELRUN=ck.MODELRUN)
    rc, out = ck.sh(["cargo", "+nightly", "fuzz", "build", "diff"], cwd=ck.HARNESS, timeout=1800, env=env)
    if rc != 0:
        print("fuzz build failed (nightly toolchain / cargo-fuzz unavailable?):", out[-500:])
        return 0
    for pid in props:
        work = os.path.join(ROOT, "work", "fuzz_" + pid)
        shutil.rmtree(work, ignore_errors=True)
        os.makedirs(work + "/corpus")
        cs = corpus_for(pid)
        if not cs:
            print("%s: no case of a command the fuzz target understands" % pid)
            continue
        for c in cs:
            open(os.path.join(work, "corpus", hashlib.sha1(c.encode()).hexdigest()[:16]), "w").write(c)
        findings = os.path.join(work, "findings.txt")
        env2 = dict(env, H264V_FUZZ_OUT=findings)
        cmd = ["cargo", "+nightly", "fuzz", "run", "diff", work + "/corpus", "--", "-max_total_time=%d" % secs, "-seed=%d" % (7 + int(pid[1:])),
               "-max_len=4000", "-len_control=0", "-rss_limit_mb=4000", "-timeout=20", "-print_final_stats=1"]
        p = subprocess.run(cmd, cwd=ck.HARNESS, env=env2, stdout=subprocess.PIPE, stderr=subprocess.STDOUT, text=True)
        stats = [l for l in p.stdout.splitlines() if l.startswith("stat::") or "cov:" in l][-4:]
        n = len(open(findings).read().splitlines()) if os.path.exists(findings) else 0
        print("%s: fuzzed %ds from %d seeds; %s; raw disagreements: %d" % (pid, secs, len(cs), " ".join(s.strip() for s in stats[-3:])[:200], n))
        if p.returncode != 0:
            print("  fuzzer exit %d: %s" % (p.returncode, p.stdout[-600:]))
        if n:
            rp = os.path.join(work, "replay.json")
            import json
            json.dump({"cases": open(findings).read().splitlines()}, open(rp, "w"))
            q = subprocess.run([sys.executable, os.path.join(ROOT, "check.py"), pid, "--replay", rp], cwd=ROOT, stdout=subprocess.PIPE, stderr=subprocess.STDOUT, text=True)
            print(q.stdout[-3000:])
            if "VIOLATION" in q.stdout or "DISAGREEMENT" in q.stdout:
                rc_all = 1
        if "--keep" not in sys.argv:
            shutil.rmtree(work + "/corpus", ignore_errors=True)
    return rc_all


if __name__ == "__main__":
    sys.exit(main())
