#!/usr/bin/env python3
"""usage: fuzz_diff.py <prop|all> [seconds=120] [--keep]   - run the coverage-guided implementation/model search of
vlib/fuzzdiff.py for one property (or all) outside a check and let the ordinary runner judge what it found."""
import sys, os, json, subprocess, importlib
ROOT = os.path.dirname(os.path.dirname(os.path.abspath(__file__)))
sys.path.insert(0, ROOT)
import check as ck
from vlib import fuzzdiff

prop = sys.argv[1]
secs = int(sys.argv[2]) if len(sys.argv) > 2 and sys.argv[2].isdigit() else 120
rc_all = 0
with ck.Lock():
    ck.build_harness()
    ck.build_model()
for pid in (["C%02d" % i for i in range(1, 21)] if prop == "all" else [prop]):
    mod = importlib.import_module("vlib.props." + pid)
    found, info = fuzzdiff.findings(ck, pid, mod, secs, keep="--keep" in sys.argv)
    print(pid, info)
    if found:
        rp = os.path.join(ROOT, "work", "fuzz_" + pid, "replay.json")
        json.dump({"cases": found}, open(rp, "w"))
        q = subprocess.run([sys.executable, os.path.join(ROOT, "check.py"), pid, "--replay", rp], cwd=ROOT, stdout=subprocess.PIPE, stderr=subprocess.STDOUT, text=True)
        print(q.stdout[-3000:])
        if "VIOLATION" in q.stdout or "DISAGREEMENT" in q.stdout:
            rc_all = 1
sys.exit(rc_all)
