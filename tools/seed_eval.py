#!/usr/bin/env python3
"""Confirm a seeded mutation and run our checks against it.
usage: seed_eval.py <prop> <worktree> <m1|m2> [extra props to run ...]
Steps: (1) in the scratch worktree: existing tests pass with the patch, demo fails with it, demo passes without;
(2) apply to /repo, run check.py <prop> (quick), undo; (3) store under /verif/seeded/<prop>-<m>/ with meta.json."""
import sys, os, subprocess, json, shutil, re
prop, wt, m = sys.argv[1:4]
extra = sys.argv[4:]
src = os.path.join(wt, "MUTATION", m)
env = dict(os.environ, CARGO_TARGET_DIR=os.path.join(wt, "target"), CARGO_NET_OFFLINE="true")
def sh(cmd, cwd=wt, timeout=1800, env=env):
    p = subprocess.run(cmd, cwd=cwd, shell=True, env=env, stdout=subprocess.PIPE, stderr=subprocess.STDOUT, text=True, timeout=timeout)
    return p.returncode, p.stdout
meta = {"property": prop, "mutation": m, "source": "independent sub-agent given only the property text and a scratch worktree"}
readme = open(os.path.join(src, "README.md")).read() if os.path.exists(os.path.join(src, "README.md")) else ""
meta["needs_to_manifest"] = readme[:1500]
sh("git checkout -- . && rm -rf tests")
rc, out = sh("git apply --check MUTATION/%s/patch.diff" % m)
assert rc == 0, out
os.makedirs(os.path.join(wt, "tests"), exist_ok=True)
shutil.copy(os.path.join(src, "demo.rs"), os.path.join(wt, "tests", "demo.rs"))
rc0, out0 = sh("cargo test --offline --test demo 2>&1 | tail -15")
meta["demo_without_patch"] = "pass" if "test result: ok" in out0 and "FAILED" not in out0 else "FAIL"
sh("git apply MUTATION/%s/patch.diff" % m)
rc1, out1 = sh("cargo test --offline --test demo 2>&1 | tail -15")
meta["demo_with_patch"] = "fails" if ("FAILED" in out1 or "failed" in out1) else "PASSES?"
os.remove(os.path.join(wt, "tests", "demo.rs"))
rc2, out2 = sh("cargo test --offline 2>&1 | grep -E '^test result|FAILED' ")
meta["existing_tests_with_patch"] = out2.strip().splitlines()
sh("git checkout -- . && rm -rf tests")
# run our checks against /repo with the patch applied
results = {}
rc, out = sh("git -C /repo status --porcelain")
assert out.strip() == "", "repo dirty: " + out
try:
    rc, out = sh("git -C /repo apply %s/patch.diff" % src)
    assert rc == 0, out
    for p in [prop] + extra:
        rc, out = sh("python3 check.py %s --tier quick" % p, cwd="/verif", timeout=3000, env=dict(os.environ))
        viol = [l for l in out.splitlines() if l.startswith("VIOLATION") or l.startswith("DISAGREEMENT")]
        results[p] = {"exit": rc, "lines": viol[:6]}
finally:
    sh("git -C /repo checkout -- .")
    # the runs above rewrote evidence/ and the regenerated tables from the mutated crate: restore the committed (clean) ones
    sh("git -C /verif checkout -- evidence coq/Gen")
meta["checks"] = results
def real_violation(r):
    return any(l.startswith("VIOLATION") and "-proof.json" not in l for l in r["lines"]) or any(l.startswith("DISAGREEMENT") for l in r["lines"])
meta["caught_by"] = [p for p, r in results.items() if r["exit"] == 1 and real_violation(r)]
dst = "/verif/seeded/%s-%s" % (prop, m)
os.makedirs(dst, exist_ok=True)
for f in ("patch.diff", "demo.rs", "README.md"):
    if os.path.exists(os.path.join(src, f)):
        shutil.copy(os.path.join(src, f), os.path.join(dst, f))
meta["what_i_ran"] = "tools/seed_eval.py %s %s %s %s" % (prop, wt, m, " ".join(extra))
json.dump(meta, open(os.path.join(dst, "meta.json"), "w"), indent=1)
print(prop, m, "demo without:", meta["demo_without_patch"], "| with:", meta["demo_with_patch"], "| tests:", meta["existing_tests_with_patch"][:1], "| caught by:", meta["caught_by"])
for p, r in results.items():
    for l in r["lines"][:3]:
        print("   ", p, l[:200])
