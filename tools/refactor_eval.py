#!/usr/bin/env python3
"""Run the checks against a behaviour-preserving refactoring (false-alarm assessment).
usage: refactor_eval.py <worktree> <rk> <name>   -> /verif/refactors/<name>/{patch.diff,README.md,result.json}
Applies the patch to /repo, runs the quick checks of the properties anchored in the touched files, restores /repo,
evidence/ and coq/Gen.  A VIOLATION line WITHOUT `no-failing-input-found` on a harmless rewrite is a false alarm."""
import sys, os, subprocess, json, shutil, re
wt, rk, name = sys.argv[1:4]
sys.argv = [sys.argv[0], "0", "0"]
src = open("/verif/tools/mutate.py").read().replace("\nmain()\n", "\n")
ns = {"__name__": "m"}
exec(compile(src, "mutate.py", "exec"), ns)
FILEMAP, sh = ns["FILEMAP"], ns["sh"]
d = os.path.join(wt, "REFACTOR", rk)
patch = os.path.join(d, "patch.diff")
files = re.findall(r"^\+\+\+ b/(\S+)", open(patch).read(), re.M)
props = []
for f in files:
    for p in FILEMAP.get(f, []):
        if p not in props:
            props.append(p)
rc, out = sh("git status --porcelain")
assert out.strip() == "", "repo dirty"
res = {"files": files, "checks": {}}
try:
    rc, out = sh("git apply %s" % patch)
    assert rc == 0, out
    rc, out = sh("timeout -k 5 300 cargo test --offline 2>&1 | grep -E '^test result' | head -3", timeout=900)
    res["crate_tests"] = out.strip().splitlines()
    for p in props:
        rc, o = sh("python3 check.py %s --tier quick 2>&1 | grep -E '^(OK|VIOLATION|DISAGREEMENT|BUILD|XCHECK)' | head -6" % p, cwd="/verif", timeout=1500)
        res["checks"][p] = o.strip().splitlines()
finally:
    sh("git checkout -- .")
    sh("git -C /verif checkout -- evidence coq/Gen", cwd="/verif")
dst = "/verif/refactors/%s" % name
os.makedirs(dst, exist_ok=True)
shutil.copy(patch, dst)
if os.path.exists(os.path.join(d, "README.md")):
    shutil.copy(os.path.join(d, "README.md"), dst)
alarms = [l for ls in res["checks"].values() for l in ls if l.startswith("VIOLATION")]
res["silent"] = not alarms
res["claimed_failing_input"] = [l for l in alarms if "no-failing-input-found" not in l]
json.dump(res, open(os.path.join(dst, "result.json"), "w"), indent=1)
print(name, files, "tests:", res.get("crate_tests", [])[:1], "| silent" if res["silent"] else "| ALARMS: %s" % alarms)
