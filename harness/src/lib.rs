// h264v: line-protocol driver around the real h264-reader crate.
// One command per stdin line: "<id> <cmd> <args...>"; one answer line "<id> <answer> [panic=1] alloc=<max single request>/<total>".
// It contains no checking logic: it runs the crate and prints what it observed.
pub mod alloc;
pub mod pipeline;
pub mod syntax;
pub mod util;

use h264_reader::annexb::AnnexBReader;
use h264_reader::nal::{Nal, RefNal};
use h264_reader::push::{NalAccumulator, NalFragmentHandler, NalInterest};
use h264_reader::rbsp::{self, BitRead, BitReaderError, ByteReader};
use std::io::{BufRead, Read};
use std::num::NonZeroUsize;
use util::*;

fn biterr(e: &BitReaderError) -> String {
    match e {
        BitReaderError::ReaderErrorFor(n, e) => format!("E:ReaderErrorFor:{}:{}", n, iokind(e)),
        BitReaderError::ExpGolombTooLarge(n) => format!("E:ExpGolombTooLarge:{}", n),
        BitReaderError::RemainingData => "E:RemainingData".to_string(),
        BitReaderError::Unaligned => "E:Unaligned".to_string(),
    }
}

fn run_bitops<R: BufRead + Clone>(mut r: rbsp::BitReader<R>, ops: &str, out: &mut Vec<String>) {
    for op in ops.split(',').filter(|s| !s.is_empty()) {
        macro_rules! num {
            ($e:expr) => {
                match $e {
                    Ok(v) => out.push(format!("v{}", v)),
                    Err(e) => {
                        out.push(biterr(&e));
                        return;
                    }
                }
            };
        }
        if op == "ue" || op == "se" {
            // a codeword with more than 31 leading zeros is an error that leaves the reader behind the codeword's
            // first 1 bit; the history goes on from there (every other error ends it)
            let res = if op == "ue" { r.read_ue("x").map(|v| v as i64) } else { r.read_se("x").map(|v| v as i64) };
            match res {
                Ok(v) => out.push(format!("v{}", v)),
                Err(e) => {
                    let too_large = matches!(e, BitReaderError::ExpGolombTooLarge(_));
                    out.push(biterr(&e));
                    if !too_large {
                        return;
                    }
                }
            }
        } else if op == "b" {
            match r.read_bool("x") {
                Ok(v) => out.push(if v { "T".into() } else { "F".into() }),
                Err(e) => {
                    out.push(biterr(&e));
                    return;
                }
            }
        } else if op == "m" {
            match r.has_more_rbsp_data("x") {
                Ok(v) => out.push(if v { "T".into() } else { "F".into() }),
                Err(e) => {
                    out.push(biterr(&e));
                    return;
                }
            }
        } else if op == "f" {
            match r.finish_rbsp() {
                Ok(()) => out.push("ok".into()),
                Err(e) => out.push(biterr(&e)),
            }
            return;
        } else if op == "s" {
            match r.finish_sei_payload() {
                Ok(()) => out.push("ok".into()),
                Err(e) => out.push(biterr(&e)),
            }
            return;
        } else if let Some(n) = op.strip_prefix('k') {
            let n: u32 = n.parse().unwrap();
            match r.skip(n, "x") {
                Ok(()) => out.push("ok".into()),
                Err(e) => {
                    out.push(biterr(&e));
                    return;
                }
            }
        } else if let Some(n) = op.strip_prefix('R') {
            // BitReader::reader(): when byte-aligned, take up to n whole bytes through the borrowed inner reader
            let n: usize = n.parse().unwrap();
            match r.reader() {
                None => out.push("R:unaligned".into()),
                Some(inner) => {
                    let mut left = n;
                    while left > 0 {
                        match inner.fill_buf() {
                            Ok(b) if b.is_empty() => break,
                            Ok(b) => {
                                let k = std::cmp::min(b.len(), left);
                                inner.consume(k);
                                left -= k;
                            }
                            Err(_) => break,
                        }
                    }
                    out.push(format!("R:{}", n - left));
                    if left > 0 {
                        // the inner reader ended or failed before n bytes: what the stack does after that is not part of
                        // the protocol (the model abstracts the byte source by what it delivers before its first error)
                        return;
                    }
                }
            }
        } else if op == "t8" {
            num!(r.read_to::<u8>("x"));
        } else if op == "t16" {
            num!(r.read_to::<u16>("x"));
        } else if op == "t32" {
            num!(r.read_to::<u32>("x"));
        } else if let Some(rest) = op.strip_prefix("u8.") {
            num!(r.read::<u8>(rest.parse().unwrap(), "x"));
        } else if let Some(rest) = op.strip_prefix("u16.") {
            num!(r.read::<u16>(rest.parse().unwrap(), "x"));
        } else if let Some(rest) = op.strip_prefix("u32.") {
            num!(r.read::<u32>(rest.parse().unwrap(), "x"));
        } else if let Some(rest) = op.strip_prefix("i32.") {
            num!(r.read::<i32>(rest.parse().unwrap(), "x"));
        } else {
            panic!("bad bit op {}", op);
        }
    }
}

fn cmd_bits(args: &[&str], out: &mut Vec<String>) {
    let src = Src::parse(args[0]);
    let ops = args.get(1).copied().unwrap_or("");
    match &src {
        Src::Raw(b) => run_bitops(rbsp::BitReader::new(&b[..]), ops, out),
        Src::Nal { .. } => src.with_nal(|nal| run_bitops(nal.rbsp_bits(), ops, out)),
    }
}

struct Trace(Vec<String>);
impl NalFragmentHandler for Trace {
    fn nal_fragment(&mut self, bufs: &[&[u8]], end: bool) {
        let parts: Vec<String> = bufs.iter().map(|b| hex(b)).collect();
        self.0.push(format!("{};{}", parts.join("/"), end as u8));
    }
}

fn cmd_annexb(args: &[&str], out: &mut Vec<String>) {
    let mut r = AnnexBReader::for_fragment_handler(Trace(Vec::new()));
    for op in args.get(0).copied().unwrap_or("").split(',').filter(|s| !s.is_empty()) {
        if op == "r" {
            r.reset();
        } else if op == "n" {
            // a freshly constructed reader continues the same trace
            let t = std::mem::take(&mut r.fragment_handler_mut().0);
            r = AnnexBReader::for_fragment_handler(Trace(t));
        } else if let Some(h) = op.strip_prefix('p') {
            r.push(&unhex(h));
        } else {
            panic!("bad annexb op {}", op);
        }
        r.fragment_handler_mut().0.push("|".into());
    }
    out.append(&mut r.into_fragment_handler().0);
}

fn run_rbsp_ops<R: BufRead>(mut r: ByteReader<R>, ops: &str, out: &mut Vec<String>) {
    // bytes returned by the last fill_buf and not consumed since: consume stays within its precondition
    let mut avail = 0usize;
    for op in ops.split(',').filter(|s| !s.is_empty()) {
        if op == "f" {
            match r.fill_buf() {
                Ok(b) => {
                    avail = b.len();
                    out.push(format!("f:{}", hex(b)))
                }
                Err(e) => {
                    avail = 0;
                    out.push(format!("E:{}", iokind(&e)))
                }
            }
        } else if op == "e" {
            // read_to_end by hand so that the partial data is visible on error
            let mut acc = Vec::new();
            let err = loop {
                match r.fill_buf() {
                    Ok(b) if b.is_empty() => break None,
                    Ok(b) => {
                        acc.extend_from_slice(b);
                        let n = b.len();
                        r.consume(n);
                    }
                    Err(e) => break Some(iokind(&e)),
                }
            };
            avail = 0;
            match err {
                None => out.push(format!("e:{}", hex(&acc))),
                Some(k) => out.push(format!("e:{}!{}", hex(&acc), k)),
            }
        } else if let Some(n) = op.strip_prefix('r') {
            let n: usize = n.parse().unwrap();
            let mut buf = vec![0u8; n];
            avail = 0;
            match r.read(&mut buf) {
                Ok(k) => out.push(format!("r:{}", hex(&buf[..k]))),
                Err(e) => out.push(format!("E:{}", iokind(&e))),
            }
        } else if let Some(n) = op.strip_prefix('c') {
            let n: usize = std::cmp::min(n.parse().unwrap(), avail);
            avail -= n;
            r.consume(n);
            out.push(format!("c{}", n));
        } else {
            panic!("bad rbsp op {}", op);
        }
    }
}

fn mk_byte_reader<R: BufRead>(inner: R, skip: usize, max_fill: usize) -> ByteReader<R> {
    #[cfg(h264_reader_verif)]
    {
        if max_fill != 0 {
            return ByteReader::verif_with_max_fill(inner, skip, max_fill);
        }
    }
    #[cfg(not(h264_reader_verif))]
    {
        if max_fill != 0 {
            panic!("max_fill needs the h264_reader_verif hook");
        }
    }
    match NonZeroUsize::new(skip) {
        None => ByteReader::without_skip(inner),
        Some(n) if n.get() == 1 => ByteReader::skipping_h264_header(inner),
        Some(n) => ByteReader::skipping_bytes(inner, n),
    }
}

fn cmd_rbsp(args: &[&str], out: &mut Vec<String>) {
    let src = Src::parse(args[0]);
    let skip: usize = args[1].parse().unwrap();
    let max_fill: usize = args[2].parse().unwrap();
    let ops = args.get(3).copied().unwrap_or("");
    match &src {
        Src::Raw(b) => run_rbsp_ops(mk_byte_reader(&b[..], skip, max_fill), ops, out),
        // header skipped and default window: through the accessor users call, Nal::rbsp_bytes()
        Src::Nal { .. } if skip == 1 && max_fill == 0 => {
            src.with_nal(|nal| run_rbsp_ops(nal.rbsp_bytes(), ops, out));
            // the whole payload once without and once with a transient Interrupted before every refill of the underlying
            // reader, retried: the same bytes and the same end
            let plain = src.with_nal(|nal| drain_retrying(nal.rbsp_bytes()));
            let flaky = src.with_nal(|nal| drain_retrying(ByteReader::skipping_h264_header(Flaky::new(nal.reader()))));
            if plain != flaky {
                out.push(format!("flaky=DIFF({}!{})", hex(&flaky.0), flaky.1));
            }
        }
        Src::Nal { .. } => src.with_nal(|nal| run_rbsp_ops(mk_byte_reader(nal.reader(), skip, max_fill), ops, out)),
    }
}

/// The other std::io::Read entry points of a NAL reader must deliver what fill_buf/consume delivered (`want`, ending
/// with `end`): read_exact in pieces of exactly the buffered chunk, read_exact in pieces of `piece` bytes, read_to_end.
/// after a reader reported its end (`end` = "Eof" or an error kind) every further call reports the same end, through read
/// and through fill_buf, on the reader itself and on a clone taken now
fn end_is_stable<R: BufRead + Clone>(c: &mut R, end: &str) -> Option<String> {
    let mut k = c.clone();
    for who in 0..2 {
        let r: &mut R = if who == 0 { &mut *c } else { &mut k };
        for round in 0..2 {
            let mut one = [0u8; 1];
            let a = match r.read(&mut one) {
                Ok(0) => "Eof".to_string(),
                Ok(_) => format!("byte{:02x}", one[0]),
                Err(e) => iokind(&e),
            };
            let b = match r.fill_buf() {
                Ok(x) if x.is_empty() => "Eof".to_string(),
                Ok(x) => format!("bytes{}", x.len()),
                Err(e) => iokind(&e),
            };
            r.consume(0);
            if a != end || b != end {
                return Some(format!("after-end{}{}:{}/{}", who, round, a, b));
            }
        }
    }
    None
}

fn alt_paths<R: BufRead + Clone>(r: &R, want: &[u8], end: &str, piece: usize) -> String {
    let mut bad: Vec<String> = Vec::new();
    // read_exact of exactly what fill_buf shows
    {
        let mut c = r.clone();
        let mut got = Vec::new();
        let e = loop {
            let n = match c.fill_buf() {
                Ok(b) if b.is_empty() => break "Eof".to_string(),
                Ok(b) => b.len(),
                Err(e) => break iokind(&e),
            };
            let mut buf = vec![0u8; n];
            match c.read_exact(&mut buf) {
                Ok(()) => got.extend_from_slice(&buf),
                Err(e) => break format!("x:{}", iokind(&e)),
            }
        };
        if got != want || e != end {
            bad.push(format!("xchunk:{}!{}", hex(&got), e));
        } else if let Some(x) = end_is_stable(&mut c, end) {
            bad.push(format!("xchunk:{}", x));
        }
    }
    // read_exact in pieces of `piece` bytes while that many remain, then the rest
    {
        let mut c = r.clone();
        let mut got = Vec::new();
        let mut err = None;
        while got.len() < want.len() {
            let n = std::cmp::min(std::cmp::max(piece, 1), want.len() - got.len());
            let mut buf = vec![0u8; n];
            match c.read_exact(&mut buf) {
                Ok(()) => got.extend_from_slice(&buf),
                Err(e) => {
                    err = Some(iokind(&e));
                    break;
                }
            }
        }
        let mut one = [0u8; 1];
        let e = match err {
            Some(e) => format!("x:{}", e),
            None => match c.read(&mut one) {
                Ok(0) => "Eof".to_string(),
                Ok(_) => "more".to_string(),
                Err(e) => iokind(&e),
            },
        };
        if got != want || e != end {
            bad.push(format!("xpiece:{}!{}", hex(&got), e));
        } else if let Some(x) = end_is_stable(&mut c, end) {
            bad.push(format!("xpiece:{}", x));
        }
    }
    // read_to_end
    {
        let mut c = r.clone();
        let mut got = Vec::new();
        let e = match c.read_to_end(&mut got) {
            Ok(_) => "Eof".to_string(),
            Err(e) => iokind(&e),
        };
        if got != want || e != end {
            bad.push(format!("toend:{}!{}", hex(&got), e));
        } else if let Some(x) = end_is_stable(&mut c, end) {
            bad.push(format!("toend:{}", x));
        }
        // read_to_end once more appends nothing
        let mut again = Vec::new();
        let e2 = match c.read_to_end(&mut again) {
            Ok(_) => "Eof".to_string(),
            Err(e) => iokind(&e),
        };
        if !again.is_empty() || e2 != end {
            bad.push(format!("toend2:{}!{}", hex(&again), e2));
        }
    }
    if bad.is_empty() {
        "alt=same".to_string()
    } else {
        format!("alt=DIFF({})", bad.join(";"))
    }
}

fn cmd_decode_nal(args: &[&str], out: &mut Vec<String>) {
    let b = unhex(args.get(0).copied().unwrap_or("-"));
    match rbsp::decode_nal(&b) {
        Ok(std::borrow::Cow::Borrowed(x)) => out.push(format!("B:{}", hex(x))),
        Ok(std::borrow::Cow::Owned(x)) => out.push(format!("O:{}", hex(&x))),
        Err(e) => out.push(format!("E:{}", iokind(&e))),
    }
}

fn cmd_refnal(args: &[&str], out: &mut Vec<String>) {
    let src = Src::parse(args[0]);
    let ops = args.get(1).copied().unwrap_or("");
    src.with_nal(|nal| {
        match nal.header() {
            Ok(h) => out.push(format!("h:{}:{}:{}", h.nal_ref_idc(), h.nal_unit_type().id(), nal.is_complete() as u8)),
            Err(_) => out.push(format!("h:err:{}", nal.is_complete() as u8)),
        }
        let mut stack = vec![nal.reader()];
        for op in ops.split(',').filter(|s| !s.is_empty()) {
            let r = stack.last_mut().unwrap();
            if op == "f" {
                match r.fill_buf() {
                    Ok(b) => out.push(format!("f:{}", hex(b))),
                    Err(e) => out.push(format!("E:{}", iokind(&e))),
                }
            } else if op == "K" {
                let c = r.clone();
                stack.push(c);
                out.push("K".into());
            } else if let Some(n) = op.strip_prefix('r') {
                let n: usize = n.parse().unwrap();
                let mut buf = vec![0u8; n];
                match r.read(&mut buf) {
                    Ok(k) => out.push(format!("r:{}", hex(&buf[..k]))),
                    Err(e) => out.push(format!("E:{}", iokind(&e))),
                }
            } else if let Some(n) = op.strip_prefix('c') {
                r.consume(n.parse().unwrap());
                out.push("c".into());
            } else {
                panic!("bad refnal op {}", op);
            }
        }
        // drain every reader (clones first) so that independence of clones is observable
        while let Some(mut r) = stack.pop() {
            let before = r.clone();
            let mut acc = Vec::new();
            let mut ends = Vec::new();
            // ask for the end three times: it must be stable
            for _ in 0..3 {
                let e = loop {
                    match r.fill_buf() {
                        Ok(b) if b.is_empty() => break "Eof".to_string(),
                        Ok(b) => {
                            acc.extend_from_slice(b);
                            let n = b.len();
                            r.consume(n);
                        }
                        Err(e) => break iokind(&e),
                    }
                };
                ends.push(e);
            }
            let mut one = [0u8; 1];
            let rd = match r.read(&mut one) {
                Ok(k) => format!("{}", k),
                Err(e) => iokind(&e),
            };
            out.push(format!("d:{}!{}!{}", hex(&acc), ends.join("."), rd));
            let alt = alt_paths(&before, &acc, &ends[0], 1 + acc.len() % 5);
            if alt != "alt=same" {
                out.push(alt);
            }
        }
    });
}

fn cmd_accum(args: &[&str], out: &mut Vec<String>) {
    let frags = args.get(0).copied().unwrap_or("");
    let policy: Vec<u8> = args.get(1).copied().unwrap_or("").bytes().collect();
    let read_size: usize = args.get(2).map(|s| s.parse().unwrap()).unwrap_or(3);
    let mut calls: Vec<String> = Vec::new();
    let mut k = 0usize;
    {
        let mut acc = NalAccumulator::new(|nal: RefNal<'_>| {
            let mut r = nal.reader();
            let mut bytes = Vec::new();
            let end = loop {
                match r.fill_buf() {
                    Ok(b) if b.is_empty() => break "Eof".to_string(),
                    Ok(b) => {
                        bytes.extend_from_slice(b);
                        let n = b.len();
                        r.consume(n);
                    }
                    Err(e) => break iokind(&e),
                }
            };
            let hdr = match nal.header() {
                Ok(h) => format!("{}.{}", h.nal_ref_idc(), h.nal_unit_type().id()),
                Err(_) => "err".to_string(),
            };
            // the same NAL once more through Read::read with a scratch buffer of read_size bytes
            let mut r2 = nal.reader();
            let mut bytes2 = Vec::new();
            let mut scratch = vec![0u8; read_size];
            let end2 = loop {
                match r2.read(&mut scratch) {
                    Ok(0) => break "Eof".to_string(),
                    Ok(k) => bytes2.extend_from_slice(&scratch[..k]),
                    Err(e) => break iokind(&e),
                }
            };
            let alt = alt_paths(&nal.reader(), &bytes, &end, read_size);
            let rd = if bytes2 != bytes || end2 != end {
                format!("rd={}!{}", hex(&bytes2), end2)
            } else if alt != "alt=same" {
                format!("rd={}", alt)
            } else {
                "rd=same".to_string()
            };
            calls.push(format!("{};{};{};{};{}", hex(&bytes), nal.is_complete() as u8, end, hdr, rd));
            let d = policy.get(k).copied().unwrap_or(b'B');
            k += 1;
            if d == b'I' {
                NalInterest::Ignore
            } else {
                NalInterest::Buffer
            }
        });
        for f in frags.split(',').filter(|s| !s.is_empty() && *s != "-") {
            let (bufs, end) = f.split_once(';').unwrap();
            let bufs: Vec<Vec<u8>> = bufs.split('/').filter(|s| !s.is_empty()).map(unhex).collect();
            let refs: Vec<&[u8]> = bufs.iter().map(|b| &b[..]).collect();
            acc.nal_fragment(&refs, end == "1");
        }
    }
    out.append(&mut calls);
}

fn crc_table() -> &'static [u32; 256] {
    static T: std::sync::OnceLock<[u32; 256]> = std::sync::OnceLock::new();
    T.get_or_init(|| {
        let mut table = [0u32; 256];
        for i in 0..256u32 {
            let mut c = i;
            for _ in 0..8 {
                c = if c & 1 != 0 { 0xEDB8_8320 ^ (c >> 1) } else { c >> 1 };
            }
            table[i as usize] = c;
        }
        table
    })
}

/// running crc32: start with 0xFFFF_FFFF, finish with `^ 0xFFFF_FFFF`
pub fn crc32_update(mut c: u32, data: &[u8]) -> u32 {
    let table = crc_table();
    for &b in data {
        c = table[((c ^ u32::from(b)) & 0xff) as usize] ^ (c >> 8);
    }
    c
}

pub fn crc32(data: &[u8]) -> u32 {
    crc32_update(0xFFFF_FFFF, data) ^ 0xFFFF_FFFF
}

/// byte i of the synthetic stream used by the *big commands (period 251, never 0: no start codes / escapes)
pub fn synth(i: usize) -> u8 {
    (((i % 251) * 7 + 3) % 255 + 1) as u8
}

/// accumbig <size:end,size/size:end,...> <policy> : fragments of synthetic bytes (sizes only on the command line); each
/// handler invocation is reported as L<len>:<crc32>;complete;end;hdr;rd
fn cmd_accumbig(args: &[&str], out: &mut Vec<String>) {
    let pol_arg = args.get(1).copied().unwrap_or("");
    // policy "T..." = tail mode: every invocation is reported by its length and the crc of its last <= 64 bytes only
    // (walks the chunks without copying), so that one NAL can grow through hundreds of fragments to 100 MB and more
    let tail_mode = pol_arg.starts_with('T');
    let policy: Vec<u8> = pol_arg.trim_start_matches('T').bytes().collect();
    let mut calls: Vec<String> = Vec::new();
    let mut k = 0usize;
    {
        let mut acc = NalAccumulator::new(|nal: RefNal<'_>| {
            if tail_mode {
                let mut r = nal.reader();
                let mut len = 0usize;
                let mut tail: Vec<u8> = Vec::new();
                let end = loop {
                    match r.fill_buf() {
                        Ok(b) if b.is_empty() => break "Eof".to_string(),
                        Ok(b) => {
                            let n = b.len();
                            len += n;
                            if n >= 64 {
                                tail = b[n - 64..].to_vec();
                            } else {
                                tail.extend_from_slice(b);
                                if tail.len() > 64 {
                                    tail.drain(..tail.len() - 64);
                                }
                            }
                            r.consume(n);
                        }
                        Err(e) => break iokind(&e),
                    }
                };
                calls.push(format!("T{}:{:08x};{};{}", len, crc32(&tail), nal.is_complete() as u8, end));
                let d = policy.get(k).copied().unwrap_or(b'B');
                k += 1;
                return if d == b'I' { NalInterest::Ignore } else { NalInterest::Buffer };
            }
            let mut r = nal.reader();
            let mut bytes = Vec::new();
            let end = loop {
                match r.fill_buf() {
                    Ok(b) if b.is_empty() => break "Eof".to_string(),
                    Ok(b) => {
                        bytes.extend_from_slice(b);
                        let n = b.len();
                        r.consume(n);
                    }
                    Err(e) => break iokind(&e),
                }
            };
            let hdr = match nal.header() {
                Ok(h) => format!("{}.{}", h.nal_ref_idc(), h.nal_unit_type().id()),
                Err(_) => "err".to_string(),
            };
            let alt = alt_paths(&nal.reader(), &bytes, &end, 65536);
            calls.push(format!("L{}:{:08x};{};{};{};rd={}", bytes.len(), crc32(&bytes), nal.is_complete() as u8, end, hdr, if alt == "alt=same" { "same" } else { "DIFF" }));
            let d = policy.get(k).copied().unwrap_or(b'B');
            k += 1;
            if d == b'I' {
                NalInterest::Ignore
            } else {
                NalInterest::Buffer
            }
        });
        let mut pos = 0usize;
        for f in args[0].split(',').filter(|s| !s.is_empty()) {
            let (sizes, end) = f.split_once(':').unwrap();
            let bufs: Vec<Vec<u8>> = sizes
                .split('/')
                .filter(|s| !s.is_empty())
                .map(|n| {
                    let n: usize = n.parse().unwrap();
                    let v: Vec<u8> = (pos..pos + n).map(synth).collect();
                    pos += n;
                    v
                })
                .collect();
            let refs: Vec<&[u8]> = bufs.iter().map(|b| &b[..]).collect();
            acc.nal_fragment(&refs, end == "1");
        }
    }
    out.append(&mut calls);
}

/// Fragment handler for the big synthetic streams: per unit the total length and crc32 of its bytes; records a call
/// that hands over an empty slice, or a second end for the same unit.
struct BigTrace {
    out: Vec<String>,
    len: u64,
    crc: u32,
    open: bool,
}
impl NalFragmentHandler for BigTrace {
    fn nal_fragment(&mut self, bufs: &[&[u8]], end: bool) {
        if bufs.iter().any(|b| b.is_empty()) {
            self.out.push("EMPTYSLICE".into());
        }
        if bufs.is_empty() && !end {
            self.out.push("EMPTYCALL".into());
        }
        for b in bufs {
            self.len += b.len() as u64;
            self.crc = crc32_update(self.crc, b);
        }
        self.open = true;
        if end {
            self.out.push(format!("U{}:{:08x}", self.len, self.crc ^ 0xFFFF_FFFF));
            self.len = 0;
            self.crc = 0xFFFF_FFFF;
            self.open = false;
        }
    }
}

/// annexbig <F|A> <script> : a stream described by sizes. script tokens, comma separated: z<n> n zero bytes; s = 00 00 01;
/// o = 01; d<n> n synthetic non-zero bytes; x<hex> literal bytes; | push what was gathered; r push it and reset.
/// F: fragment-handler trace (units as U<len>:<crc>, open remainder as O<len>:<crc>);  A: AnnexBReader::accumulate with an
/// always-Buffer handler, every invocation as L<len>:<crc>;<complete>.
fn cmd_annexbig(args: &[&str], out: &mut Vec<String>) {
    let mode = args[0];
    let script = args.get(1).copied().unwrap_or("");
    let mut pos = 0usize;
    let mut pending: Vec<u8> = Vec::new();
    enum Act {
        Push(Vec<u8>),
        Reset,
        /// D<n>: n bytes of 0xAB pushed in pieces of 32 MiB (streams of several GiB without holding them)
        Bulk(u64),
    }
    let mut acts: Vec<Act> = Vec::new();
    for t in script.split(',').filter(|s| !s.is_empty()) {
        if t == "|" {
            acts.push(Act::Push(std::mem::take(&mut pending)));
        } else if t == "r" {
            if !pending.is_empty() {
                acts.push(Act::Push(std::mem::take(&mut pending)));
            }
            acts.push(Act::Reset);
        } else if t == "a" {
            // abandon: push what is pending and drop the reader without a reset
            if !pending.is_empty() {
                acts.push(Act::Push(std::mem::take(&mut pending)));
            }
        } else if t == "s" {
            pending.extend_from_slice(&[0, 0, 1]);
        } else if t == "o" {
            pending.push(1);
        } else if let Some(n) = t.strip_prefix('z') {
            let n: usize = n.parse().unwrap();
            pending.extend(std::iter::repeat(0u8).take(n));
        } else if let Some(n) = t.strip_prefix('d') {
            let n: usize = n.parse().unwrap();
            pending.extend((pos..pos + n).map(synth));
            pos += n;
        } else if let Some(h) = t.strip_prefix('x') {
            pending.extend(unhex(h));
        } else if let Some(n) = t.strip_prefix('D') {
            if !pending.is_empty() {
                acts.push(Act::Push(std::mem::take(&mut pending)));
            }
            acts.push(Act::Bulk(n.parse().unwrap()));
        } else {
            panic!("bad annexbig token {}", t);
        }
    }
    if !pending.is_empty() {
        acts.push(Act::Push(pending));
    }
    if mode == "F" {
        let mut r = AnnexBReader::for_fragment_handler(BigTrace { out: Vec::new(), len: 0, crc: 0xFFFF_FFFF, open: false });
        // the 32 MiB block is the harness's own allocation: only made when the script has a D token (its size is then part of
        // the input size the allocation bound of C03 is computed from)
        let block = if acts.iter().any(|a| matches!(a, Act::Bulk(_))) { vec![0xABu8; 32 << 20] } else { Vec::new() };
        for a in &acts {
            match a {
                Act::Push(b) => r.push(b),
                Act::Reset => r.reset(),
                Act::Bulk(n) => {
                    let mut left = *n;
                    while left > 0 {
                        let k = std::cmp::min(left, block.len() as u64) as usize;
                        r.push(&block[..k]);
                        left -= k as u64;
                    }
                }
            }
        }
        let mut h = r.into_fragment_handler();
        if h.open {
            h.out.push(format!("O{}:{:08x}", h.len, h.crc ^ 0xFFFF_FFFF));
        }
        out.append(&mut h.out);
    } else {
        let mut calls: Vec<String> = Vec::new();
        {
            let mut r = AnnexBReader::accumulate(|nal: RefNal<'_>| {
                let mut rd = nal.reader();
                let mut bytes = Vec::new();
                loop {
                    match rd.fill_buf() {
                        Ok(b) if b.is_empty() => break,
                        Ok(b) => {
                            bytes.extend_from_slice(b);
                            let n = b.len();
                            rd.consume(n);
                        }
                        Err(_) => break,
                    }
                }
                calls.push(format!("L{}:{:08x};{}", bytes.len(), crc32(&bytes), nal.is_complete() as u8));
                NalInterest::Buffer
            });
            for a in &acts {
                match a {
                    Act::Push(b) => r.push(b),
                    Act::Reset => r.reset(),
                    Act::Bulk(_) => panic!("D tokens are for the fragment-handler mode"),
                }
            }
        }
        out.append(&mut calls);
    }
}

pub fn dispatch(cmd: &str, args: &[&str], out: &mut Vec<String>) {
    match cmd {
        "bits" => cmd_bits(args, out),
        "annexb" => cmd_annexb(args, out),
        "rbsp" => cmd_rbsp(args, out),
        "decode_nal" => cmd_decode_nal(args, out),
        "refnal" => cmd_refnal(args, out),
        "accum" => cmd_accum(args, out),
        "accumbig" => cmd_accumbig(args, out),
        "annexbig" => cmd_annexbig(args, out),
        _ => syntax::dispatch(cmd, args, out),
    }
}

pub fn run_main() {
    std::panic::set_hook(Box::new(|_| {}));
    let argv: Vec<String> = std::env::args().collect();
    if argv.len() > 1 && argv[1] == "tables" {
        syntax::tables();
        return;
    }
    let stdin = std::io::stdin();
    let stdout = std::io::stdout();
    let mut w = std::io::BufWriter::new(stdout.lock());
    use std::io::Write;
    for line in stdin.lock().lines() {
        let line = line.unwrap();
        let toks: Vec<&str> = line.split_whitespace().collect();
        if toks.len() < 2 {
            continue;
        }
        let (id, cmd, args) = (toks[0], toks[1], &toks[2..]);
        let mut out: Vec<String> = Vec::new();
        alloc::reset();
        let t0 = std::time::Instant::now();
        let res = std::panic::catch_unwind(std::panic::AssertUnwindSafe(|| dispatch(cmd, args, &mut out)));
        let us = t0.elapsed().as_micros();
        let (mx, total) = alloc::read();
        // purity: the same command once more must give the same answer
        if res.is_ok() && matches!(cmd, "sps" | "pps" | "slice" | "sei" | "bp" | "pt" | "t35" | "avcc" | "pipeline") {
            let mut out2: Vec<String> = Vec::new();
            let res2 = std::panic::catch_unwind(std::panic::AssertUnwindSafe(|| dispatch(cmd, args, &mut out2)));
            if res2.is_err() || out2 != out {
                out.push("pure=0".into());
            }
        }
        let p = if res.is_err() { " panic=1" } else { "" };
        writeln!(w, "{} {}{} alloc={}/{} us={}", id, out.join(" "), p, mx, total, us).unwrap();
    }
}
