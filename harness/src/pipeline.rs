// End-to-end: AnnexBReader::accumulate -> handler parsing each complete NAL against a running context.
use crate::syntax::{ppserr, spserr};
use crate::util::*;
use h264_reader::annexb::AnnexBReader;
use h264_reader::avcc::AvcDecoderConfigurationRecord;
use h264_reader::nal::pps::PicParameterSet;
use h264_reader::nal::sei::SeiReader;
use h264_reader::nal::slice::SliceHeader;
use h264_reader::nal::sps::SeqParameterSet;
use h264_reader::nal::{Nal, RefNal, UnitType};
use h264_reader::push::NalInterest;
use h264_reader::Context;
use std::convert::TryFrom;
use std::io::BufRead;

fn variant(s: &str) -> String {
    s.split(|c| c == '(' || c == '{').next().unwrap_or("").trim().to_string()
}

pub fn parse_in_ctx(ctx: &mut Context, nal: &RefNal<'_>) -> String {
    let hdr = match nal.header() {
        Ok(h) => h,
        Err(_) => return "hdrerr".into(),
    };
    match hdr.nal_unit_type() {
        UnitType::SeqParameterSet => match SeqParameterSet::from_bits(nal.rbsp_bits()) {
            Ok(s) => {
                let r = format!("sps:ok:{}", canon(&s));
                ctx.put_seq_param_set(s);
                r
            }
            Err(e) => format!("sps:E:{}", spserr(&e)),
        },
        UnitType::PicParameterSet => match PicParameterSet::from_bits(ctx, nal.rbsp_bits()) {
            Ok(p) => {
                let r = format!("pps:ok:{}", canon(&p));
                ctx.put_pic_param_set(p);
                r
            }
            Err(e) => format!("pps:E:{}", ppserr(&e)),
        },
        UnitType::SEI => {
            let mut scratch = Vec::new();
            let mut rd = SeiReader::from_rbsp_bytes(nal.rbsp_bytes(), &mut scratch);
            let mut v = Vec::new();
            loop {
                match rd.next() {
                    Ok(Some(m)) => v.push(format!("M:{}:{}", canon(&m.payload_type), hex(m.payload))),
                    Ok(None) => {
                        v.push("None".into());
                        break;
                    }
                    Err(e) => {
                        v.push(format!("E:{}", variant(&format!("{:?}", e))));
                        break;
                    }
                }
            }
            format!("sei:{}", v.join(","))
        }
        UnitType::SliceLayerWithoutPartitioningNonIdr | UnitType::SliceLayerWithoutPartitioningIdr => {
            let mut r = nal.rbsp_bits();
            match SliceHeader::from_bits(ctx, &mut r, hdr) {
                Ok((h, s, p)) => format!("slice:ok:{};{};{}", canon(&h), s.seq_parameter_set_id.id(), p.pic_parameter_set_id.id()),
                Err(e) => format!("slice:E:{}", variant(&format!("{:?}", e))),
            }
        }
        t => format!("other:{}", t.id()),
    }
}

pub fn cmd_pipeline(args: &[&str], out: &mut Vec<String>) {
    let avcc = args[0];
    let pushes = args.get(1).copied().unwrap_or("");
    let policy: Vec<u8> = args.get(2).copied().unwrap_or("").bytes().collect();
    let mut ctx = Context::new();
    if avcc != "-" {
        let data = unhex(avcc);
        match AvcDecoderConfigurationRecord::try_from(&data[..]).map(|r| r.create_context()) {
            Ok(Ok(c)) => ctx = c,
            _ => out.push("avccfail".into()),
        }
    }
    let mut calls: Vec<String> = Vec::new();
    let mut k = 0usize;
    {
        let mut rd = AnnexBReader::accumulate(|nal: RefNal<'_>| {
            let mut r = nal.reader();
            let mut bytes = Vec::new();
            loop {
                match r.fill_buf() {
                    Ok(b) if b.is_empty() => break,
                    Ok(b) => {
                        bytes.extend_from_slice(b);
                        let n = b.len();
                        r.consume(n);
                    }
                    Err(_) => break,
                }
            }
            // the same NAL through Read::read with a 16-byte scratch: must give the same bytes
            {
                use std::io::Read;
                let mut r2 = nal.reader();
                let mut b2 = Vec::new();
                let mut scratch = [0u8; 16];
                loop {
                    match r2.read(&mut scratch) {
                        Ok(0) => break,
                        Ok(k) => b2.extend_from_slice(&scratch[..k]),
                        Err(_) => break,
                    }
                }
                if b2 != bytes {
                    calls.push(format!("READ-DIFFERS:{}", hex(&b2)));
                }
            }
            let parsed = if nal.is_complete() { parse_in_ctx(&mut ctx, &nal) } else { "-".to_string() };
            // incomplete invocations are summarised (length + last bytes): the full bytes of every NAL are printed once, when complete
            let shown = if nal.is_complete() { hex(&bytes) } else { format!("#{}.{}", bytes.len(), hex(&bytes[bytes.len().saturating_sub(4)..])) };
            calls.push(format!("N:{};{};{}", shown, nal.is_complete() as u8, parsed));
            let d = policy.get(k).copied().unwrap_or(b'B');
            k += 1;
            if d == b'I' {
                NalInterest::Ignore
            } else {
                NalInterest::Buffer
            }
        });
        for p in pushes.split(',').filter(|s| !s.is_empty()) {
            if p == "r" {
                rd.reset();
            } else {
                rd.push(&unhex(p));
            }
        }
        rd.reset();
    }
    out.append(&mut calls);
}
