// h264v: line-protocol driver around the real h264-reader crate (see lib.rs).
fn main() {
    h264v::run_main()
}
