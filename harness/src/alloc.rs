// Counting allocator: largest single request and total bytes requested since reset().
use std::alloc::{GlobalAlloc, Layout, System};
use std::sync::atomic::{AtomicUsize, Ordering};

static MAX: AtomicUsize = AtomicUsize::new(0);
static TOTAL: AtomicUsize = AtomicUsize::new(0);

pub struct Counting;
unsafe impl GlobalAlloc for Counting {
    unsafe fn alloc(&self, l: Layout) -> *mut u8 {
        note(l.size());
        System.alloc(l)
    }
    unsafe fn dealloc(&self, p: *mut u8, l: Layout) {
        System.dealloc(p, l)
    }
    unsafe fn realloc(&self, p: *mut u8, l: Layout, new: usize) -> *mut u8 {
        note(new);
        System.realloc(p, l, new)
    }
    unsafe fn alloc_zeroed(&self, l: Layout) -> *mut u8 {
        note(l.size());
        System.alloc_zeroed(l)
    }
}
fn note(n: usize) {
    TOTAL.fetch_add(n, Ordering::Relaxed);
    MAX.fetch_max(n, Ordering::Relaxed);
}
pub fn reset() {
    MAX.store(0, Ordering::Relaxed);
    TOTAL.store(0, Ordering::Relaxed);
}
pub fn read() -> (usize, usize) {
    (MAX.load(Ordering::Relaxed), TOTAL.load(Ordering::Relaxed))
}
#[global_allocator]
static A: Counting = Counting;
