// Syntax-level commands: tables dump, SPS/PPS/slice/SEI/AVCC/context.
use crate::util::*;
use h264_reader::avcc::AvcDecoderConfigurationRecord;
use h264_reader::nal::pps::{PicParamSetId, PicParameterSet, PpsError};
use h264_reader::nal::sei::buffering_period::{BufferingPeriod, BufferingPeriodError};
use h264_reader::nal::sei::pic_timing::{PicTiming, PicTimingError};
use h264_reader::nal::sei::user_data_registered_itu_t_t35::ItuTT35;
use h264_reader::nal::sei::{HeaderType, SeiMessage, SeiReader};
use h264_reader::nal::slice::{SliceHeader, SliceHeaderError};
use h264_reader::nal::sps::{
    ConstraintFlags, Level, PicOrderCntError, Profile, ProfileIdc, ScalingMatrixError, SeqParamSetId,
    SeqParameterSet, SpsError,
};
use h264_reader::nal::{Nal, NalHeader, RefNal, UnitType};
use h264_reader::rbsp::{BitRead, BitReader, BitReaderError};
use h264_reader::Context;
use std::convert::TryFrom;
use std::io::BufRead;

fn biterr(e: &BitReaderError) -> String {
    match e {
        BitReaderError::ReaderErrorFor(n, e) => format!("ReaderErrorFor({},{})", n.replace(' ', ""), iokind(e)),
        BitReaderError::ExpGolombTooLarge(n) => format!("ExpGolombTooLarge({})", n.replace(' ', "")),
        BitReaderError::RemainingData => "RemainingData".to_string(),
        BitReaderError::Unaligned => "Unaligned".to_string(),
    }
}
fn smerr(e: &ScalingMatrixError) -> String {
    match e {
        ScalingMatrixError::ReaderError(b) => format!("ReaderError({})", biterr(b)),
        other => canon(other),
    }
}
pub fn spserr(e: &SpsError) -> String {
    match e {
        SpsError::RbspReaderError(b) => format!("RbspReaderError({})", biterr(b)),
        SpsError::PicOrderCnt(PicOrderCntError::ReaderError(b)) => format!("PicOrderCnt(ReaderError({}))", biterr(b)),
        SpsError::ScalingMatrix(s) => format!("ScalingMatrix({})", smerr(s)),
        other => canon(other),
    }
}
pub fn ppserr(e: &PpsError) -> String {
    match e {
        PpsError::RbspReaderError(b) => format!("RbspReaderError({})", biterr(b)),
        PpsError::ScalingMatrix(s) => format!("ScalingMatrix({})", smerr(s)),
        other => canon(other),
    }
}
fn sliceerr(e: &SliceHeaderError) -> String {
    match e {
        SliceHeaderError::RbspError(b) => format!("RbspError({})", biterr(b)),
        other => canon(other),
    }
}

fn guard<T>(f: impl FnOnce() -> T) -> Option<T> {
    std::panic::catch_unwind(std::panic::AssertUnwindSafe(f)).ok()
}
fn gs(f: impl FnOnce() -> String) -> String {
    guard(f).unwrap_or_else(|| "PANIC".to_string())
}

fn parse_sps(src: &Src) -> Result<SeqParameterSet, SpsError> {
    match src {
        Src::Raw(b) => SeqParameterSet::from_bits(BitReader::new(&b[..])),
        Src::Nal { .. } => src.with_nal(|nal| SeqParameterSet::from_bits(nal.rbsp_bits())),
    }
}
fn parse_pps(ctx: &Context, src: &Src) -> Result<PicParameterSet, PpsError> {
    match src {
        Src::Raw(b) => PicParameterSet::from_bits(ctx, BitReader::new(&b[..])),
        Src::Nal { .. } => src.with_nal(|nal| PicParameterSet::from_bits(ctx, nal.rbsp_bits())),
    }
}

/// "S<hex>" / "P<hex>" whole NALs (header byte included), comma separated; "-" is the empty context.
fn build_ctx(def: &str) -> Context {
    let mut ctx = Context::new();
    for item in def.split(',').filter(|s| !s.is_empty() && *s != "-") {
        let (k, h) = item.split_at(1);
        let bytes = unhex(h);
        if bytes.is_empty() {
            continue;
        }
        let nal = RefNal::new(&bytes, &[], true);
        match k {
            "S" => {
                if let Ok(s) = SeqParameterSet::from_bits(nal.rbsp_bits()) {
                    ctx.put_seq_param_set(s)
                }
            }
            "P" => {
                if let Ok(p) = PicParameterSet::from_bits(&ctx, nal.rbsp_bits()) {
                    ctx.put_pic_param_set(p)
                }
            }
            _ => panic!("bad ctx item {}", item),
        }
    }
    ctx
}

fn derived(s: &SeqParameterSet, out: &mut Vec<String>) {
    out.push(format!(
        "dims={}",
        gs(|| match s.pixel_dimensions() {
            Ok((w, h)) => format!("{}x{}", w, h),
            Err(e) => format!("E:{}", spserr(&e)),
        })
    ));
    out.push(format!(
        "fps={}",
        gs(|| match s.fps() {
            Some(f) => format!("{:016x}", f.to_bits()),
            None => "None".to_string(),
        })
    ));
    out.push(format!("level={}:{}", gs(|| canon(&s.level())), gs(|| s.level().level_idc().to_string())));
    out.push(format!("profile={}:{}", gs(|| canon(&s.profile())), gs(|| s.profile().profile_idc().to_string())));
    out.push(format!("rfc={}", gs(|| s.rfc6381().to_string())));
    out.push(format!("l2mfn={}", gs(|| s.log2_max_frame_num().to_string())));
    out.push(format!("wmbs={}", gs(|| s.pic_width_in_mbs().to_string())));
    out.push(format!("hmu={}", gs(|| s.pic_height_in_map_units().to_string())));
    out.push(format!("psmu={}", gs(|| s.pic_size_in_map_units().to_string())));
    // AspectRatioInfo::get(): the sample aspect ratio of Table E-1
    out.push(format!(
        "sar={}",
        gs(|| match s.vui_parameters.as_ref().and_then(|v| v.aspect_ratio_info.as_ref()) {
            None => "-".to_string(),
            Some(a) => match a.get() {
                Some((w, h)) => format!("{}:{}", w, h),
                None => "None".to_string(),
            },
        })
    ));
}

/// the NAL's RBSP bits once more over a reader that is interrupted before every refill (bitstream-io retries Interrupted)
fn flaky_bits<'a>(nal: &'a RefNal<'a>) -> BitReader<h264_reader::rbsp::ByteReader<Flaky<h264_reader::nal::RefNalReader<'a>>>> {
    BitReader::new(h264_reader::rbsp::ByteReader::skipping_h264_header(Flaky::new(nal.reader())))
}

fn cmd_sps(args: &[&str], out: &mut Vec<String>) {
    let src = Src::parse(args[0]);
    let first = match parse_sps(&src) {
        Ok(s) => {
            out.push(format!("ok:{}", canon(&s)));
            derived(&s, out);
            format!("ok:{}", canon(&s))
        }
        Err(e) => {
            out.push(format!("E:{}", spserr(&e)));
            format!("E:{}", spserr(&e))
        }
    };
    if let Src::Nal { .. } = src {
        let again = src.with_nal(|nal| match SeqParameterSet::from_bits(flaky_bits(&nal)) {
            Ok(s) => format!("ok:{}", canon(&s)),
            Err(e) => format!("E:{}", spserr(&e)),
        });
        if again != first {
            out.push(format!("flaky=DIFF({})", again));
        }
    }
}

fn cmd_pps(args: &[&str], out: &mut Vec<String>) {
    let ctx = build_ctx(args[0]);
    let src = Src::parse(args[1]);
    let first = match parse_pps(&ctx, &src) {
        Ok(p) => format!("ok:{}", canon(&p)),
        Err(e) => format!("E:{}", ppserr(&e)),
    };
    out.push(first.clone());
    if let Src::Nal { .. } = src {
        let again = src.with_nal(|nal| match PicParameterSet::from_bits(&ctx, flaky_bits(&nal)) {
            Ok(p) => format!("ok:{}", canon(&p)),
            Err(e) => format!("E:{}", ppserr(&e)),
        });
        if again != first {
            out.push(format!("flaky=DIFF({})", again));
        }
    }
}

fn cmd_slice(args: &[&str], out: &mut Vec<String>) {
    let ctx = build_ctx(args[0]);
    slice_in_ctx(&ctx, args[1], out);
}

/// several slice headers parsed one after the other against ONE Context object (a parse must not leave anything behind
/// in the context that changes a later parse); answers separated by ";;"
fn cmd_slices(args: &[&str], out: &mut Vec<String>) {
    let ctx = build_ctx(args[0]);
    for (k, src) in args[1..].iter().enumerate() {
        if k > 0 {
            out.push(";;".into());
        }
        slice_in_ctx(&ctx, src, out);
    }
}

fn slice_in_ctx(ctx: &Context, src: &str, out: &mut Vec<String>) {
    let src = Src::parse(src);
    src.with_nal(|nal| {
        let hdr = match nal.header() {
            Ok(h) => h,
            Err(_) => {
                out.push("E:hdr".into());
                return;
            }
        };
        let mut r = nal.rbsp_bits();
        match SliceHeader::from_bits(ctx, &mut r, hdr) {
            Ok((h, sps, pps)) => {
                out.push(format!("ok:{}", canon(&h)));
                let same_s = ctx.sps_by_id(sps.seq_parameter_set_id).map(|x| std::ptr::eq(x, sps)).unwrap_or(false);
                let same_p = ctx.pps_by_id(pps.pic_parameter_set_id).map(|x| std::ptr::eq(x, pps)).unwrap_or(false);
                out.push(format!(
                    "sps={};pps={};same={}{}",
                    sps.seq_parameter_set_id.id(),
                    pps.pic_parameter_set_id.id(),
                    same_s as u8,
                    same_p as u8
                ));
                // where the reader stands: the next (up to) 16 bits, one by one
                let mut next = String::new();
                for _ in 0..16 {
                    match r.read_bool("n") {
                        Ok(true) => next.push('1'),
                        Ok(false) => next.push('0'),
                        Err(e) => {
                            next.push_str(&format!("!{}", biterr(&e)));
                            break;
                        }
                    }
                }
                out.push(format!("next={}", next));
            }
            Err(e) => out.push(format!("E:{}", sliceerr(&e))),
        }
    });
}

fn run_sei<R: BufRead + Clone>(r: R, extra: usize, out: &mut Vec<String>) {
    // a used scratch buffer: the reader must not depend on its previous contents
    let mut scratch = vec![0xEEu8; 37];
    let mut rd = SeiReader::from_rbsp_bytes(r, &mut scratch);
    let mut after_end = 0usize;
    let mut guard_n = 0usize;
    loop {
        guard_n += 1;
        if guard_n > 1_000_000 {
            out.push("RUNAWAY".into());
            break;
        }
        let ended = match rd.next() {
            Ok(Some(m)) => {
                out.push(format!("M:{}:{}", canon(&m.payload_type), hex(m.payload)));
                false
            }
            Ok(None) => {
                out.push("None".into());
                true
            }
            Err(e) => {
                out.push(format!("E:{}", biterr(&e)));
                true
            }
        };
        if ended || after_end > 0 {
            after_end += 1;
            if after_end > extra {
                break;
            }
        }
    }
}

fn cmd_sei(args: &[&str], out: &mut Vec<String>) {
    let src = Src::parse(args[0]);
    let extra: usize = args.get(1).map(|s| s.parse().unwrap()).unwrap_or(2);
    match &src {
        Src::Raw(b) => run_sei(&b[..], extra, out),
        Src::Nal { .. } => src.with_nal(|nal| run_sei(nal.rbsp_bytes(), extra, out)),
    }
}

/// seibig <pre-hex> <n> <post-hex> <extra>: SEI RBSP = pre ++ 0xFF x n ++ post, built here so that the 2^32
/// overflow of a type / size coded with > 16 million 0xFF bytes can be exercised without a 33 MB input line.
fn cmd_seibig(args: &[&str], out: &mut Vec<String>) {
    let mut b = unhex(args[0]);
    let n: usize = args[1].parse().unwrap();
    b.extend(std::iter::repeat(0xffu8).take(n));
    b.extend(unhex(args[2]));
    let extra: usize = args.get(3).map(|s| s.parse().unwrap()).unwrap_or(2);
    run_sei(&b[..], extra, out);
}

fn cmd_bp(args: &[&str], out: &mut Vec<String>) {
    let ctx = build_ctx(args[0]);
    let payload = unhex(args.get(1).copied().unwrap_or("-"));
    let msg = SeiMessage { payload_type: HeaderType::BufferingPeriod, payload: &payload };
    match BufferingPeriod::read(&ctx, &msg) {
        Ok(v) => out.push(format!("ok:{}", canon(&v))),
        Err(BufferingPeriodError::ReaderError(b)) => out.push(format!("E:ReaderError({})", biterr(&b))),
        Err(e) => out.push(format!("E:{}", canon(&e))),
    }
}

fn cmd_pt(args: &[&str], out: &mut Vec<String>) {
    let ctx = build_ctx(args[0]);
    let id: u32 = args[1].parse().unwrap();
    let payload = unhex(args.get(2).copied().unwrap_or("-"));
    let sps = match SeqParamSetId::from_u32(id).ok().and_then(|i| ctx.sps_by_id(i)) {
        Some(s) => s,
        None => {
            out.push("nosps".into());
            return;
        }
    };
    let msg = SeiMessage { payload_type: HeaderType::PicTiming, payload: &payload };
    match PicTiming::read(sps, &msg) {
        Ok(v) => {
            out.push(format!("ok:{}", canon(&v)));
            // the SecMinHour accessors
            if let Some(ps) = v.pic_struct.as_ref() {
                let acc: Vec<String> = ps
                    .clock_timestamps
                    .iter()
                    .flatten()
                    .map(|c| format!("{}/{}/{}", c.smh.seconds(), c.smh.minutes(), c.smh.hours()))
                    .collect();
                out.push(format!("smh=[{}]", acc.join(",")));
            }
        }
        Err(PicTimingError::RbspError(b)) => out.push(format!("E:RbspError({})", biterr(&b))),
        Err(e) => out.push(format!("E:{}", canon(&e))),
    }
}

fn cmd_t35(args: &[&str], out: &mut Vec<String>) {
    let payload = unhex(args.get(0).copied().unwrap_or("-"));
    let msg = SeiMessage { payload_type: HeaderType::UserDataRegisteredItuTT35, payload: &payload };
    match ItuTT35::read(&msg) {
        Ok((c, rest)) => out.push(format!("ok:{}:{}", canon(&c), hex(rest))),
        Err(e) => out.push(format!("E:{}", canon(&e))),
    }
}

fn show_ctx(ctx: &Context) -> String {
    let s: Vec<String> = ctx.sps().map(|s| canon(s)).collect();
    let p: Vec<String> = ctx.pps().map(|p| canon(p)).collect();
    format!("sps[{}]pps[{}]", s.join(";"), p.join(";"))
}

fn cmd_avcc(args: &[&str], out: &mut Vec<String>) {
    let data = unhex(args.get(0).copied().unwrap_or("-"));
    let rec = match AvcDecoderConfigurationRecord::try_from(&data[..]) {
        Ok(r) => r,
        Err(e) => {
            out.push(format!("E:{}", canon(&e)));
            return;
        }
    };
    out.push("ok".into());
    out.push(format!("ver={}", gs(|| rec.configuration_version().to_string())));
    out.push(format!("nsps={}", gs(|| rec.num_of_sequence_parameter_sets().to_string())));
    out.push(format!("prof={}", gs(|| u8::from(rec.avc_profile_indication()).to_string())));
    out.push(format!("compat={}", gs(|| u8::from(rec.profile_compatibility()).to_string())));
    out.push(format!("level={}", gs(|| canon(&rec.avc_level_indication()))));
    out.push(format!("lsm1={}", gs(|| rec.length_size_minus_one().to_string())));
    let it = |v: Vec<Result<&[u8], h264_reader::avcc::ParamSetError>>| -> String {
        v.iter()
            .map(|r| match r {
                Ok(b) => hex(b),
                Err(e) => format!("E:{}", canon(e)),
            })
            .collect::<Vec<_>>()
            .join(",")
    };
    out.push(format!("sps=[{}]", gs(|| it(rec.sequence_parameter_sets().collect()))));
    out.push(format!("pps=[{}]", gs(|| it(rec.picture_parameter_sets().collect()))));
    // the other Iterator entry points must agree with next(): nth(k) for every k, count(), last(), skip(k).next()
    let alt = gs(|| {
        let mut bad: Vec<String> = Vec::new();
        for which in 0..2 {
            let mk = || -> Box<dyn Iterator<Item = Result<&[u8], h264_reader::avcc::ParamSetError>> + '_> {
                if which == 0 {
                    Box::new(rec.sequence_parameter_sets())
                } else {
                    Box::new(rec.picture_parameter_sets())
                }
            };
            let show = |r: Option<Result<&[u8], h264_reader::avcc::ParamSetError>>| match r {
                None => "None".to_string(),
                Some(Ok(b)) => hex(b),
                Some(Err(e)) => format!("E:{}", canon(&e)),
            };
            // reference: repeated next(), stopping after the first error (the iterator does not advance past one)
            let mut reference: Vec<String> = Vec::new();
            let mut i = mk();
            for _ in 0..40 {
                let x = i.next();
                let stop = !matches!(x, Some(Ok(_)));
                reference.push(show(x));
                if stop {
                    break;
                }
            }
            let clean = reference.last().map(|s| s == "None").unwrap_or(false);
            for k in 0..reference.len() {
                let a = show(mk().nth(k));
                let b = show(mk().skip(k).next());
                // nth(k) over an error at j < k is that error again or anything later: only judge k up to the first error
                if a != reference[k] || b != reference[k] {
                    bad.push(format!("{}nth{}:{}|{}|{}", which, k, a, b, reference[k]));
                }
            }
            if clean {
                let n = reference.len() - 1;
                if mk().count() != n {
                    bad.push(format!("{}count", which));
                }
                let l = show(mk().last());
                let want = if n == 0 { "None".to_string() } else { reference[n - 1].clone() };
                if l != want {
                    bad.push(format!("{}last", which));
                }
                let (lo, hi) = mk().size_hint();
                if lo > n || hi.map(|h| h < n).unwrap_or(false) {
                    bad.push(format!("{}size_hint", which));
                }
            }
        }
        if bad.is_empty() {
            "same".to_string()
        } else {
            format!("DIFF({})", bad.join(";"))
        }
    });
    if alt != "same" {
        out.push(format!("alt={}", alt));
    }
    out.push(format!(
        "ctx={}",
        gs(|| match rec.create_context() {
            Ok(c) => format!("ok:{}", show_ctx(&c)),
            Err(h264_reader::avcc::AvccError::Sps(e)) => format!("E:Sps({})", spserr(&e)),
            Err(h264_reader::avcc::AvccError::Pps(e)) => format!("E:Pps({})", ppserr(&e)),
            Err(e) => format!("E:{}", canon(&e)),
        })
    ));
}

fn cmd_ctx(args: &[&str], out: &mut Vec<String>) {
    let mut ctx = Context::new();
    for op in args.get(0).copied().unwrap_or("").split(',').filter(|s| !s.is_empty()) {
        if let Some(h) = op.strip_prefix('S') {
            let bytes = unhex(h);
            let nal = RefNal::new(&bytes, &[], true);
            match SeqParameterSet::from_bits(nal.rbsp_bits()) {
                Ok(s) => {
                    ctx.put_seq_param_set(s);
                    out.push("put".into())
                }
                Err(e) => out.push(format!("E:{}", spserr(&e))),
            }
        } else if let Some(h) = op.strip_prefix('P') {
            let bytes = unhex(h);
            let nal = RefNal::new(&bytes, &[], true);
            match PicParameterSet::from_bits(&ctx, nal.rbsp_bits()) {
                Ok(p) => {
                    ctx.put_pic_param_set(p);
                    out.push("put".into())
                }
                Err(e) => out.push(format!("E:{}", ppserr(&e))),
            }
        } else if let Some(i) = op.strip_prefix("gs") {
            let i: u32 = i.parse().unwrap();
            match SeqParamSetId::from_u32(i) {
                Ok(id) => out.push(format!("gs:{}", canon(&ctx.sps_by_id(id)))),
                Err(_) => out.push("gs:badid".into()),
            }
        } else if let Some(i) = op.strip_prefix("gp") {
            let i: u32 = i.parse().unwrap();
            match PicParamSetId::from_u32(i) {
                Ok(id) => out.push(format!("gp:{}", canon(&ctx.pps_by_id(id)))),
                Err(_) => out.push("gp:badid".into()),
            }
        } else if op == "it" {
            out.push(show_ctx(&ctx));
            let alt = gs(|| {
                let mut bad = iter_alt(&|| ctx.sps(), &|s| canon(s));
                bad.extend(iter_alt(&|| ctx.pps(), &|p| canon(p)).into_iter().map(|x| format!("pps.{}", x)));
                if bad.is_empty() {
                    "same".to_string()
                } else {
                    format!("DIFF({})", bad.join(";"))
                }
            });
            if alt != "same" {
                out.push(format!("alt={}", alt));
            }
        } else {
            panic!("bad ctx op {}", op);
        }
    }
}

pub fn dispatch(cmd: &str, args: &[&str], out: &mut Vec<String>) {
    match cmd {
        "sps" => cmd_sps(args, out),
        "pps" => cmd_pps(args, out),
        "slice" => cmd_slice(args, out),
        "sei" => cmd_sei(args, out),
        "bp" => cmd_bp(args, out),
        "pt" => cmd_pt(args, out),
        "slices" => cmd_slices(args, out),
        "seibig" => cmd_seibig(args, out),
        "t35" => cmd_t35(args, out),
        "avcc" => cmd_avcc(args, out),
        "ctx" => cmd_ctx(args, out),
        "pipeline" => crate::pipeline::cmd_pipeline(args, out),
        _ => panic!("unknown command {}", cmd),
    }
}

/// Complete input/output graphs of the finite-domain functions (DESIGN 2.4).
pub fn tables() {
    let mut first_sweep: std::collections::HashMap<(u8, u8), String> = std::collections::HashMap::new();
    for b in 0..=255u8 {
        match NalHeader::new(b) {
            Ok(h) => println!("hdr {} ok {} {} {}", b, h.nal_ref_idc(), gs(|| h.nal_unit_type().id().to_string()), u8::from(h)),
            Err(_) => println!("hdr {} err", b),
        }
    }
    for b in 0..=255u8 {
        match guard(|| UnitType::for_id(b)) {
            Some(Ok(t)) => println!("ut {} ok {} {}", b, t.id(), canon(&t)),
            Some(Err(_)) => println!("ut {} err", b),
            None => println!("ut {} panic", b),
        }
    }
    // UnitType equality (PartialEq) over all pairs of ids 0..31: "distinct types"
    for a in 0..32u8 {
        for b in 0..32u8 {
            let r = guard(|| match (UnitType::for_id(a), UnitType::for_id(b)) {
                (Ok(x), Ok(y)) => ((x == y) as u8).to_string(),
                _ => "err".to_string(),
            });
            println!("uteq {} {} {}", a, b, r.unwrap_or_else(|| "panic".to_string()));
        }
    }
    for b in 0..=255u8 {
        let p = Profile::from_profile_idc(ProfileIdc::from(b));
        println!("prof {} {} {} {} {}", b, p.profile_idc(), canon(&p), ProfileIdc::from(b).has_chroma_info() as u8, u8::from(ProfileIdc::from(b)));
    }
    for f in 0..=255u8 {
        let c = ConstraintFlags::from(f);
        println!(
            "cf {} {} {} {} {} {} {} {} {}",
            f,
            c.flag0() as u8,
            c.flag1() as u8,
            c.flag2() as u8,
            c.flag3() as u8,
            c.flag4() as u8,
            c.flag5() as u8,
            c.reserved_zero_two_bits(),
            u8::from(c)
        );
        for l in 0..=255u8 {
            let lv = Level::from_constraint_flags_and_level_idc(c, l);
            println!("lvl {} {} {} {}", f, l, lv.level_idc(), canon(&lv));
            first_sweep.insert((f, l), canon(&lv));
        }
    }
    // the same conversions once more in another order (level byte outermost, flags in Gray-code order, each followed by
    // the pair that differs in flag 3 only): a pure function gives the answers of the first sweep; a row is printed for
    // every answer that differs from the first sweep's
    for l in 0..=255u8 {
        for k in 0..=255u16 {
            let f = (k ^ (k >> 1)) as u8;
            for ff in [f, f ^ 0x10, f] {
                let lv = Level::from_constraint_flags_and_level_idc(ConstraintFlags::from(ff), l);
                let first = first_sweep.get(&(ff, l)).cloned().unwrap_or_default();
                if canon(&lv) != first {
                    println!("lvlx {} {} {} {}", ff, l, canon(&lv), first);
                }
            }
        }
    }
    // ... and every pair followed by each of its neighbours at Hamming distance 1 and 2 in the 16-bit (flags, level) word
    // (a memo keyed by too few bits answers the neighbour with the previous value)
    let mut masks: Vec<u16> = Vec::new();
    for i in 0..16 {
        masks.push(1 << i);
        for j in (i + 1)..16 {
            masks.push((1 << i) | (1 << j));
        }
    }
    for w in 0..=0xffffu16 {
        let (f, l) = ((w >> 8) as u8, (w & 0xff) as u8);
        if !(l == 9 || l == 11 || l >= 128 || l % 16 == 0 || f & 0x0f != 0 || w % 7 == 0) {
            continue; // a seventh of the plain pairs, and all pairs with level 9, 11, >= 128, x0 or reserved flag bits
        }
        for m in &masks {
            let w2 = w ^ m;
            let (f2, l2) = ((w2 >> 8) as u8, (w2 & 0xff) as u8);
            let _ = Level::from_constraint_flags_and_level_idc(ConstraintFlags::from(f), l);
            let lv = Level::from_constraint_flags_and_level_idc(ConstraintFlags::from(f2), l2);
            let first = first_sweep.get(&(f2, l2)).cloned().unwrap_or_default();
            if canon(&lv) != first {
                println!("lvlx {} {} {} {}", f2, l2, canon(&lv), first);
            }
        }
    }
    for b in 0..=255u8 {
        let p1 = canon(&Profile::from_profile_idc(ProfileIdc::from(b)));
        let _ = Profile::from_profile_idc(ProfileIdc::from(b ^ 1));
        let p2 = canon(&Profile::from_profile_idc(ProfileIdc::from(b)));
        if p1 != p2 {
            println!("profx {} {} {}", b, p1, p2);
        }
    }
    let mut probes: Vec<u32> = (0..=300).collect();
    for k in 8..32 {
        probes.push((1u32 << k) - 1);
        probes.push(1u32 << k);
        probes.push((1u32 << k) + 1);
    }
    probes.push(u32::MAX - 1);
    probes.push(u32::MAX);
    for x in probes {
        match SeqParamSetId::from_u32(x) {
            Ok(i) => println!("spsid {} ok {}", x, i.id()),
            Err(_) => println!("spsid {} err", x),
        }
        match PicParamSetId::from_u32(x) {
            Ok(i) => println!("ppsid {} ok {}", x, i.id()),
            Err(_) => println!("ppsid {} err", x),
        }
    }
    for b in 0..=255u8 {
        let payload = [b, 0xa1, 0xa2, 0xa3];
        let msg = SeiMessage { payload_type: HeaderType::UserDataRegisteredItuTT35, payload: &payload };
        match ItuTT35::read(&msg) {
            Ok((c, rest)) => println!("t35 {} ok {} {}", b, canon(&c), 4 - rest.len()),
            Err(_) => println!("t35 {} err", b),
        }
    }
    // SEI payload type names as the reader reports them (HeaderType::from_id is private)
    for t in 0..=300u32 {
        let mut bytes = Vec::new();
        let mut v = t;
        while v >= 255 {
            bytes.push(0xff);
            v -= 255;
        }
        bytes.push(v as u8);
        bytes.push(0); // zero-length payload
        bytes.push(0x80);
        let mut scratch = Vec::new();
        let mut rd = SeiReader::from_rbsp_bytes(&bytes[..], &mut scratch);
        match rd.next() {
            Ok(Some(m)) => println!("seitype {} {}", t, canon(&m.payload_type)),
            _ => println!("seitype {} none", t),
        }
    }
}
