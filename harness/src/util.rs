use h264_reader::nal::RefNal;

pub fn hex(b: &[u8]) -> String {
    if b.is_empty() {
        return "-".to_string();
    }
    let mut s = String::with_capacity(b.len() * 2);
    for x in b {
        s.push_str(&format!("{:02x}", x));
    }
    s
}

pub fn unhex(s: &str) -> Vec<u8> {
    if s == "-" || s.is_empty() {
        return Vec::new();
    }
    assert!(s.len() % 2 == 0, "odd hex {}", s);
    (0..s.len() / 2)
        .map(|i| u8::from_str_radix(&s[2 * i..2 * i + 2], 16).unwrap())
        .collect()
}

pub fn iokind(e: &std::io::Error) -> String {
    format!("{:?}", e.kind())
}

/// A source of NAL or RBSP bytes: "raw:<hex>" or "nal:<c|i>:<hex>/<hex>/..." (head first).
pub enum Src {
    Raw(Vec<u8>),
    Nal { complete: bool, chunks: Vec<Vec<u8>> },
}
impl Src {
    pub fn parse(s: &str) -> Src {
        if let Some(h) = s.strip_prefix("raw:") {
            Src::Raw(unhex(h))
        } else if let Some(rest) = s.strip_prefix("nal:") {
            let (c, chunks) = rest.split_once(':').unwrap();
            Src::Nal {
                complete: c == "c",
                chunks: chunks.split('/').map(unhex).collect(),
            }
        } else {
            panic!("bad src {}", s)
        }
    }
    pub fn with_nal<T>(&self, f: impl FnOnce(RefNal<'_>) -> T) -> T {
        match self {
            Src::Nal { complete, chunks } => {
                let tail: Vec<&[u8]> = chunks[1..].iter().map(|c| &c[..]).collect();
                f(RefNal::new(&chunks[0], &tail, *complete))
            }
            Src::Raw(b) => f(RefNal::new(&b[..], &[], true)),
        }
    }
    pub fn total_len(&self) -> usize {
        match self {
            Src::Raw(b) => b.len(),
            Src::Nal { chunks, .. } => chunks.iter().map(|c| c.len()).sum(),
        }
    }
}

/// Strips all whitespace from a `{:?}` rendering: the canonical form compared with the model.
pub fn canon<T: std::fmt::Debug>(v: &T) -> String {
    format!("{:?}", v).chars().filter(|c| !c.is_whitespace()).collect()
}


/// The other entry points of an iterator must agree with repeated next(): nth(k), skip(k).next(), step_by(2), count(),
/// last(), size_hint(), fold.  `mk` makes a fresh iterator, `show` renders an item.  Returns the disagreements.
pub fn iter_alt<T, I: Iterator<Item = T>>(mk: &dyn Fn() -> I, show: &dyn Fn(T) -> String) -> Vec<String> {
    let mut bad = Vec::new();
    let mut reference: Vec<String> = Vec::new();
    let mut it = mk();
    for _ in 0..2000 {
        match it.next() {
            Some(x) => reference.push(show(x)),
            None => break,
        }
    }
    // fused at the end
    if it.next().is_some() {
        bad.push("next-after-None".to_string());
    }
    let n = reference.len();
    for k in 0..=n + 1 {
        let a = mk().nth(k).map(|x| show(x));
        let b = mk().skip(k).next().map(|x| show(x));
        let want = reference.get(k).cloned();
        if a != want {
            bad.push(format!("nth{}", k));
        }
        if b != want {
            bad.push(format!("skip{}", k));
        }
        // nth after some next()s
        if k >= 1 {
            let mut i2 = mk();
            i2.next();
            let c = i2.nth(k - 1).map(|x| show(x));
            if c != want {
                bad.push(format!("next+nth{}", k));
            }
        }
    }
    let stepped: Vec<String> = mk().step_by(2).map(|x| show(x)).collect();
    let want: Vec<String> = reference.iter().step_by(2).cloned().collect();
    if stepped != want {
        bad.push("step_by2".to_string());
    }
    if mk().count() != n {
        bad.push("count".to_string());
    }
    if mk().last().map(|x| show(x)) != reference.last().cloned() {
        bad.push("last".to_string());
    }
    let (lo, hi) = mk().size_hint();
    if lo > n || hi.map(|h| h < n).unwrap_or(false) {
        bad.push("size_hint".to_string());
    }
    let folded = mk().fold(0usize, |a, _| a + 1);
    if folded != n {
        bad.push("fold".to_string());
    }
    bad
}


/// A BufRead that reports one transient `Interrupted` error at every new position (once at the start and once after every
/// consume that made progress) - the way a signal may interrupt a read: a reader stacked on it and retried by its caller
/// must deliver exactly what it delivers without.
#[derive(Clone)]
pub struct Flaky<R> {
    inner: R,
    armed: bool,
}
impl<R> Flaky<R> {
    pub fn new(inner: R) -> Self {
        Flaky { inner, armed: true }
    }
}
impl<R: std::io::BufRead> std::io::Read for Flaky<R> {
    fn read(&mut self, buf: &mut [u8]) -> std::io::Result<usize> {
        let n = {
            let b = std::io::BufRead::fill_buf(self)?;
            let n = std::cmp::min(b.len(), buf.len());
            buf[..n].copy_from_slice(&b[..n]);
            n
        };
        std::io::BufRead::consume(self, n);
        Ok(n)
    }
}
impl<R: std::io::BufRead> std::io::BufRead for Flaky<R> {
    fn fill_buf(&mut self) -> std::io::Result<&[u8]> {
        if self.armed {
            self.armed = false;
            return Err(std::io::Error::new(std::io::ErrorKind::Interrupted, "transient"));
        }
        self.inner.fill_buf()
    }
    fn consume(&mut self, amt: usize) {
        if amt > 0 {
            self.armed = true;
        }
        self.inner.consume(amt)
    }
}

/// drain a reader to its end, retrying Interrupted: (bytes, how it ended)
pub fn drain_retrying<R: std::io::BufRead>(mut r: R) -> (Vec<u8>, String) {
    let mut acc = Vec::new();
    let mut guard = 0usize;
    loop {
        guard += 1;
        if guard > 50_000_000 {
            return (acc, "RUNAWAY".into());
        }
        match r.fill_buf() {
            Ok(b) if b.is_empty() => return (acc, "Eof".into()),
            Ok(b) => {
                acc.extend_from_slice(b);
                let n = b.len();
                r.consume(n);
            }
            Err(e) if e.kind() == std::io::ErrorKind::Interrupted => continue,
            Err(e) => return (acc, iokind(&e)),
        }
    }
}
