use h264_reader::nal::RefNal;

pub fn hex(b: &[u8]) -> String {
    if b.is_empty() {
        return "-".to_string();
    }
    let mut s = String::with_capacity(b.len() * 2);
    for x in b {
        s.push_str(&format!("{:02x}", x));
    }
    s
}

pub fn unhex(s: &str) -> Vec<u8> {
    if s == "-" || s.is_empty() {
        return Vec::new();
    }
    assert!(s.len() % 2 == 0, "odd hex {}", s);
    (0..s.len() / 2)
        .map(|i| u8::from_str_radix(&s[2 * i..2 * i + 2], 16).unwrap())
        .collect()
}

pub fn iokind(e: &std::io::Error) -> String {
    format!("{:?}", e.kind())
}

/// A source of NAL or RBSP bytes: "raw:<hex>" or "nal:<c|i>:<hex>/<hex>/..." (head first).
pub enum Src {
    Raw(Vec<u8>),
    Nal { complete: bool, chunks: Vec<Vec<u8>> },
}
impl Src {
    pub fn parse(s: &str) -> Src {
        if let Some(h) = s.strip_prefix("raw:") {
            Src::Raw(unhex(h))
        } else if let Some(rest) = s.strip_prefix("nal:") {
            let (c, chunks) = rest.split_once(':').unwrap();
            Src::Nal {
                complete: c == "c",
                chunks: chunks.split('/').map(unhex).collect(),
            }
        } else {
            panic!("bad src {}", s)
        }
    }
    pub fn with_nal<T>(&self, f: impl FnOnce(RefNal<'_>) -> T) -> T {
        match self {
            Src::Nal { complete, chunks } => {
                let tail: Vec<&[u8]> = chunks[1..].iter().map(|c| &c[..]).collect();
                f(RefNal::new(&chunks[0], &tail, *complete))
            }
            Src::Raw(b) => f(RefNal::new(&b[..], &[], true)),
        }
    }
    pub fn total_len(&self) -> usize {
        match self {
            Src::Raw(b) => b.len(),
            Src::Nal { chunks, .. } => chunks.iter().map(|c| c.len()).sum(),
        }
    }
}

/// Strips all whitespace from a `{:?}` rendering: the canonical form compared with the model.
pub fn canon<T: std::fmt::Debug>(v: &T) -> String {
    format!("{:?}", v).chars().filter(|c| !c.is_whitespace()).collect()
}
