// Coverage-guided search for inputs on which the real crate and the extracted Coq model answer differently.
// The fuzz input is one case line of the harness protocol ("sps raw:<hex>", "bits nal:c:<hex>/<hex> ue,m,f", ...);
// it is normalised to a well-formed case (anything else is skipped), answered by the crate (in process, through the
// harness library) and by `modelrun` (a child process kept alive), and the two answers are compared token by token.
// A difference is NOT a verdict: the case is appended to $H264V_FUZZ_OUT and judged afterwards by the ordinary
// runner (vlib/runner.py: canonicalisation, property-level agreement, oracles).  This only widens the set of inputs.
#![no_main]
use libfuzzer_sys::fuzz_target;
use std::io::{BufRead, BufReader, Write};
use std::process::{Child, ChildStdin, ChildStdout, Command, Stdio};
use std::sync::Mutex;

struct Model {
    _child: Child,
    inp: ChildStdin,
    out: BufReader<ChildStdout>,
}
static MODEL: Mutex<Option<Model>> = Mutex::new(None);
static SEEN: Mutex<Option<std::collections::HashSet<String>>> = Mutex::new(None);

fn spawn() -> Model {
    let path = std::env::var("H264V_MODELRUN").unwrap_or_else(|_| "/verif/ocaml/modelrun".to_string());
    let mut child = Command::new(path).stdin(Stdio::piped()).stdout(Stdio::piped()).stderr(Stdio::null()).spawn().expect("modelrun");
    let inp = child.stdin.take().unwrap();
    let out = BufReader::new(child.stdout.take().unwrap());
    Model { _child: child, inp, out }
}

fn ask(case: &str) -> Option<String> {
    let mut g = MODEL.lock().unwrap();
    if g.is_none() {
        *g = Some(spawn());
    }
    let m = g.as_mut().unwrap();
    let ok = writeln!(m.inp, "0 {}", case).is_ok() && m.inp.flush().is_ok();
    let mut line = String::new();
    if !ok || m.out.read_line(&mut line).unwrap_or(0) == 0 {
        *g = None; // the model refused the line (malformed): start a new one next time
        return None;
    }
    Some(line.trim_end().strip_prefix("0 ").unwrap_or(line.trim_end()).trim().to_string())
}

fn is_hex(s: &str) -> bool {
    !s.is_empty() && s.len() % 2 == 0 && s.bytes().all(|b| b.is_ascii_hexdigit() && !b.is_ascii_uppercase())
}
fn hexarg(s: &str) -> Option<String> {
    if s == "-" {
        return Some("-".into());
    }
    let t: String = s.chars().filter(|c| c.is_ascii_hexdigit()).map(|c| c.to_ascii_lowercase()).collect();
    let t = if t.len() % 2 == 1 { t[..t.len() - 1].to_string() } else { t };
    if t.is_empty() {
        Some("-".into())
    } else {
        Some(t)
    }
}
fn src(s: &str, nal_only: bool) -> Option<String> {
    if let Some(h) = s.strip_prefix("raw:") {
        if nal_only {
            return None;
        }
        return Some(format!("raw:{}", hexarg(h)?));
    }
    let rest = s.strip_prefix("nal:")?;
    let (c, chunks) = rest.split_once(':')?;
    if c != "c" && c != "i" {
        return None;
    }
    let cs: Vec<String> = chunks.split('/').filter_map(hexarg).filter(|x| x != "-").collect();
    if cs.is_empty() || cs.len() > 12 {
        return None;
    }
    Some(format!("nal:{}:{}", c, cs.join("/")))
}
fn ctx(s: &str) -> Option<String> {
    if s == "-" {
        return Some("-".into());
    }
    let mut items = Vec::new();
    for it in s.split(',') {
        if it.len() < 3 {
            continue;
        }
        let (k, h) = it.split_at(1);
        if k != "S" && k != "P" {
            return None;
        }
        let h = hexarg(h)?;
        if h == "-" {
            continue;
        }
        items.push(format!("{}{}", k, h));
    }
    if items.is_empty() {
        Some("-".into())
    } else if items.len() > 8 {
        None
    } else {
        Some(items.join(","))
    }
}
fn num(s: &str, max: u32) -> Option<u32> {
    if s.is_empty() || s.len() > 4 || !s.bytes().all(|b| b.is_ascii_digit()) {
        return None;
    }
    let v: u32 = s.parse().ok()?;
    if v > max {
        None
    } else {
        Some(v)
    }
}
fn bitops(s: &str) -> Option<String> {
    let mut ops = Vec::new();
    for o in s.split(',') {
        let ok = matches!(o, "ue" | "se" | "b" | "m" | "f" | "s" | "t8" | "t16" | "t32")
            || o.strip_prefix('k').and_then(|n| num(n, 70)).is_some()
            || o.strip_prefix('R').and_then(|n| num(n, 70)).is_some()
            || o.strip_prefix("u8.").and_then(|n| num(n, 8)).is_some()
            || o.strip_prefix("u16.").and_then(|n| num(n, 16)).is_some()
            || o.strip_prefix("u32.").and_then(|n| num(n, 32)).is_some()
            || o.strip_prefix("i32.").and_then(|n| num(n, 32)).is_some();
        if ok {
            ops.push(o.to_string());
        }
    }
    if ops.is_empty() || ops.len() > 24 {
        None
    } else {
        Some(ops.join(","))
    }
}
fn readops(s: &str, allow_clone: bool) -> Option<String> {
    // reads, drains and fill_buf only: consume has a precondition the fuzzer cannot keep
    let mut ops = Vec::new();
    for o in s.split(',') {
        let ok = o == "f" || (allow_clone && o == "K") || (!allow_clone && o == "e") || o.strip_prefix('r').and_then(|n| num(n, 600)).is_some();
        if ok {
            ops.push(o.to_string());
        }
    }
    if ops.is_empty() || ops.len() > 24 {
        None
    } else {
        Some(ops.join(","))
    }
}

fn normalise(line: &str) -> Option<String> {
    let t: Vec<&str> = line.split_whitespace().collect();
    if t.is_empty() {
        return None;
    }
    let a = |i: usize| t.get(i).copied().unwrap_or("");
    Some(match t[0] {
        "sps" => format!("sps {}", src(a(1), false)?),
        "pps" => format!("pps {} {}", ctx(a(1))?, src(a(2), false)?),
        "slice" => format!("slice {} {}", ctx(a(1))?, src(a(2), false)?),
        "sei" => format!("sei {} {}", src(a(1), false)?, num(a(2), 5).unwrap_or(2)),
        "bp" => format!("bp {} {}", ctx(a(1))?, hexarg(a(2))?),
        "pt" => format!("pt {} {} {}", ctx(a(1))?, num(a(2), 31)?, hexarg(a(3))?),
        "t35" => format!("t35 {}", hexarg(a(1))?),
        "avcc" => format!("avcc {}", hexarg(a(1))?),
        "decode_nal" => format!("decode_nal {}", hexarg(a(1))?),
        "bits" => format!("bits {} {}", src(a(1), false)?, bitops(a(2))?),
        "rbsp" => format!("rbsp {} {} 0 {}", src(a(1), false)?, num(a(2), 2)?, readops(a(4), false)?),
        "refnal" => format!("refnal {} {}", src(a(1), true)?, readops(a(2), true)?),
        "annexb" => {
            let mut ops = Vec::new();
            for o in a(1).split(',') {
                if o == "r" || o == "n" || o == "p" {
                    ops.push(o.to_string());
                } else if let Some(h) = o.strip_prefix('p') {
                    let h = hexarg(h)?;
                    ops.push(if h == "-" { "p".to_string() } else { format!("p{}", h) });
                }
            }
            if ops.is_empty() || ops.len() > 16 {
                return None;
            }
            format!("annexb {}", ops.join(","))
        }
        _ => return None,
    })
}

/// units delivered by an Annex B call trace ("a/b;0 c;1 | ;1 |"): what C01 compares
fn units(ans: &str) -> String {
    let mut out = Vec::new();
    let mut cur = String::new();
    for tok in ans.split_whitespace() {
        if tok == "|" {
            continue;
        }
        if let Some((bufs, e)) = tok.rsplit_once(';') {
            for s in bufs.split('/') {
                if s != "-" {
                    cur.push_str(s);
                }
            }
            if e == "1" {
                out.push(std::mem::take(&mut cur));
            }
        } else {
            out.push(format!("?{}", tok));
        }
    }
    format!("{} open={}", out.join(","), cur)
}

fn canon(cmd: &str, ans: &str) -> String {
    if cmd == "annexb" {
        return units(ans);
    }
    ans.split_whitespace().filter(|t| !t.starts_with("fps=") && *t != "pure=0").collect::<Vec<_>>().join(" ")
}

fuzz_target!(|data: &[u8]| {
    static INIT: std::sync::Once = std::sync::Once::new();
    INIT.call_once(|| {
        // libfuzzer-sys aborts on panic; here a panic of the crate is an answer ("PANIC"), compared like any other
        std::panic::set_hook(Box::new(|_| {}));
    });
    if data.len() > 6000 || !data.is_ascii() {
        return;
    }
    let line = match std::str::from_utf8(data) {
        Ok(l) => l,
        Err(_) => return,
    };
    let case = match normalise(line) {
        Some(c) => c,
        None => return,
    };
    let toks: Vec<&str> = case.split_whitespace().collect();
    let mut out: Vec<String> = Vec::new();
    let res = std::panic::catch_unwind(std::panic::AssertUnwindSafe(|| h264v::dispatch(toks[0], &toks[1..], &mut out)));
    let imp = if res.is_err() { "PANIC".to_string() } else { out.join(" ") };
    let model = match ask(&case) {
        Some(m) => m,
        None => return,
    };
    if canon(toks[0], &imp) != canon(toks[0], &model) {
        let mut seen = SEEN.lock().unwrap();
        let set = seen.get_or_insert_with(Default::default);
        // one finding per (command, pair of answer shapes)
        let shape = |s: &str| s.chars().filter(|c| c.is_ascii_alphabetic() || *c == ':').take(60).collect::<String>();
        let key = format!("{}|{}|{}", toks[0], shape(&imp), shape(&model));
        if set.len() < 200 && set.insert(key) {
            if let Ok(p) = std::env::var("H264V_FUZZ_OUT") {
                if let Ok(mut f) = std::fs::OpenOptions::new().create(true).append(true).open(p) {
                    let _ = writeln!(f, "{}", case);
                }
            }
        }
    }
});
