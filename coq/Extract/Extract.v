(* Extraction of the executable model for the correspondence check.
   Only the standard ExtrOcamlBasic and ExtrOcamlNativeString directives are used; N, Z, nat,
   positive and list stay the extracted inductive types. *)
From Coq Require Import Extraction ExtrOcamlBasic ExtrOcamlNativeString.
From H264 Require Import Model.Driver.
Extraction Language OCaml.
Extraction "model.ml" cmd_bits cmd_rbsp cmd_decode_nal cmd_refnal cmd_annexb cmd_accum cmd_sps cmd_pps cmd_slice cmd_sei cmd_bp cmd_pt cmd_t35 cmd_avcc cmd_ctx cmd_pipeline.
