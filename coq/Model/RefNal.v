(* Model of nal::RefNalReader (src/nal/mod.rs:300-356) and of `&[u8]` as a BufRead. *)
From H264 Require Import Base.Prelude.

Record rdr := mk_rdr { cur : list byte; rest : list (list byte); complete : bool }.

(* RefNal::reader(); a plain slice is the case rest = [], complete = true *)
Definition rdr_of_nal (head : list byte) (tl : list (list byte)) (c : bool) : rdr := mk_rdr head tl c.
Definition rdr_of_slice (b : list byte) : rdr := mk_rdr b [] true.

Definition next_chunk (r : rdr) : rdr :=
  match rest r with
  | first :: tl => mk_rdr first tl (complete r)
  | [] => mk_rdr [] [] (complete r)
  end.

Definition at_block (r : rdr) : bool :=
  match cur r with [] => negb (complete r) | _ => false end.

(* BufRead::fill_buf *)
Definition rdr_fill_buf (r : rdr) : out iokind (list byte) :=
  if at_block r then ERR WouldBlock else OK (cur r).

(* BufRead::consume: `&self.cur[amt..]` panics when amt exceeds the chunk *)
Definition rdr_consume (r : rdr) (amt : nat) : out iokind rdr :=
  if Nat.ltb (length (cur r)) amt then PANIC "range start index out of range for slice"
  else let r' := mk_rdr (skipn amt (cur r)) (rest r) (complete r) in
       OK (match cur r' with [] => next_chunk r' | _ => r' end).

(* Read::read with a buffer of n bytes *)
Definition rdr_read (r : rdr) (n : nat) : out iokind (list byte * rdr) :=
  match n with
  | O => OK ([], r)
  | _ =>
    if at_block r then ERR WouldBlock
    else if Nat.ltb n (length (cur r)) then
      OK (firstn n (cur r), mk_rdr (skipn n (cur r)) (rest r) (complete r))
    else OK (cur r, next_chunk r)
  end.

Definition rdr_remaining (r : rdr) : list byte := cur r ++ concat (rest r).
