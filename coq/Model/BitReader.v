(* Model of rbsp::BitReader / rbsp::BitRead over an abstract bit source.
   One definition per Rust method (src/rbsp.rs:337-437); bitstream-io is modelled at the
   level of its documentation (read_bit, read::<U>(n), skip, read_unary1). *)
From H264 Require Import Base.Prelude Base.Bits.

(* What the underlying reader reports when the data run out. *)
Inductive tailk := TEof | TWouldBlock | TInvalid.
Definition kind_of_tail (t : tailk) : iokind :=
  match t with TEof => UnexpectedEof | TWouldBlock => WouldBlock | TInvalid => InvalidData end.

Record src := mk_src { bits : list bool; tail : tailk }.
Definition set_bits (s : src) (b : list bool) : src := mk_src b (tail s).

Inductive biterr :=
| ReaderErrorFor (name : string) (k : iokind)
| ExpGolombTooLarge (name : string)
| RemainingData
| Unaligned.

Definition P (A : Type) := src -> out biterr (A * src).

Definition ret {A} (a : A) : P A := fun s => OK (a, s).
Definition bind {A B} (p : P A) (k : A -> P B) : P B :=
  fun s => match p s with
           | OK (a, s') => k a s'
           | ERR e => ERR e
           | PANIC w => PANIC w
           | FUEL => FUEL
           end.
Definition fail {A} (e : biterr) : P A := fun _ => ERR e.
Definition lift {A} (x : out biterr A) : P A :=
  fun s => match x with OK a => OK (a, s) | ERR e => ERR e | PANIC w => PANIC w | FUEL => FUEL end.

Declare Scope parser_scope.
Delimit Scope parser_scope with parser.
Notation "x <- p ;; k" := (bind p (fun x => k)) (at level 61, p at next level, right associativity) : parser_scope.
Notation "p ;;; k" := (bind p (fun _ => k)) (at level 61, right associativity) : parser_scope.
Open Scope parser_scope.

Definition eof_err (nm : string) (s : src) : biterr := ReaderErrorFor nm (kind_of_tail (tail s)).

(* read_bool *)
Definition read_bool (nm : string) : P bool :=
  fun s => match bits s with
           | b :: r => OK (b, set_bits s r)
           | [] => ERR (eof_err nm s)
           end.

(* read::<U>(n): width is U::BITS_SIZE.  Errors: InvalidInput when n > width. *)
Definition read_u (width : N) (n : N) (nm : string) : P N :=
  fun s => if width <? n then ERR (ReaderErrorFor nm InvalidInput)
           else match take_bits (N.to_nat n) (bits s) with
                | Some (x, r) => OK (from_bits x, set_bits s r)
                | None => ERR (eof_err nm s)
                end.

Definition skip (n : N) (nm : string) : P unit :=
  fun s => match take_bits (N.to_nat n) (bits s) with
           | Some (_, r) => OK (tt, set_bits s r)
           | None => ERR (eof_err nm s)
           end.

(* read_unary1: number of 0 bits before the next 1 bit (which is consumed). *)
Fixpoint unary1 (bs : list bool) (acc : N) : option (N * list bool) :=
  match bs with
  | [] => None
  | true :: r => Some (acc, r)
  | false :: r => unary1 r (acc + 1)
  end.
Definition read_unary1 (nm : string) : P N :=
  fun s => match unary1 (bits s) 0 with
           | Some (n, r) => OK (n, set_bits s r)
           | None => ERR (eof_err nm s)
           end.

(* rbsp.rs:338 read_ue *)
Definition read_ue (nm : string) : P N :=
  count <- read_unary1 nm ;;
  if 31 <? count then fail (ExpGolombTooLarge nm)
  else if 0 <? count then
    val <- read_u 32 count nm ;;
    lift (obind (shl32 1 count) (fun a => obind (sub32 a 1) (fun b => add32 b val)))
  else ret 0.

(* rbsp.rs:434 golomb_to_signed, in i32 arithmetic *)
Definition golomb_to_signed (val : N) : out biterr Z :=
  let lsb := Z.of_N (val mod 2) in
  obind (subi32 (lsb * 2) 1) (fun sign =>
  obind (addi32 (Z.of_N (val / 2)) lsb) (fun m => muli32 m sign)).

Definition read_se (nm : string) : P Z :=
  v <- read_ue nm ;; lift (golomb_to_signed v).

(* rbsp.rs:385 has_more_rbsp_data: works on a clone, so the source is unchanged. *)
Definition has_more_rbsp_data (nm : string) : P bool :=
  fun s =>
    let r := match bits s with
             | [] => None
             | _ :: rest => unary1 rest 0
             end in
    match r with
    | Some _ => OK (true, s)
    | None => match tail s with
              | TEof => OK (false, s)
              | t => ERR (ReaderErrorFor nm (kind_of_tail t))
              end
    end.

(* rbsp.rs:399 finish_rbsp (consumes the reader) *)
Definition finish_rbsp (s : src) : out biterr unit :=
  let fin := "finish"%string in
  match bits s with
  | [] => ERR (eof_err fin s)
  | false :: r =>
      match unary1 r 0 with
      | None => ERR (eof_err fin s)
      | Some _ => ERR RemainingData
      end
  | true :: r =>
      match unary1 r 0 with
      | Some _ => ERR RemainingData
      | None => match tail s with
                | TEof => OK tt
                | t => ERR (ReaderErrorFor fin (kind_of_tail t))
                end
      end
  end.

(* rbsp.rs:420 finish_sei_payload *)
Definition finish_sei_payload (s : src) : out biterr unit :=
  let fin := "finish"%string in
  match bits s with
  | [] => match tail s with
          | TEof => OK tt
          | t => ERR (ReaderErrorFor fin (kind_of_tail t))
          end
  | false :: _ => ERR RemainingData
  | true :: r =>
      match unary1 r 0 with
      | Some _ => ERR RemainingData
      | None => match tail s with
                | TEof => OK tt
                | t => ERR (ReaderErrorFor fin (kind_of_tail t))
                end
      end
  end.

(* counted loops *)
Fixpoint p_rep {A} (n : nat) (p : P A) : P (list A) :=
  match n with
  | O => ret []
  | S n' => x <- p ;; xs <- p_rep n' p ;; ret (x :: xs)
  end.
