(* Model of the derived-value helpers of SeqParameterSet (src/nal/sps.rs:1096-1214) and of the
   Profile / Level enumerations. *)
From H264 Require Import Base.Prelude Model.Sps.
Local Open Scope string_scope.

Definition profile_name (idc : N) : string :=
  match idc with
  | 66%N => "Baseline" | 77%N => "Main" | 100%N => "High" | 122%N => "High422" | 110%N => "High10"
  | 244%N => "High444" | 88%N => "Extended" | 83%N => "ScalableBase" | 86%N => "ScalableHigh"
  | 118%N => "MultiviewHigh" | 128%N => "StereoHigh" | 135%N => "MFCDepthHigh"
  | 138%N => "MultiviewDepthHigh" | 139%N => "EnhancedMultiviewDepthHigh"
  | _ => ""   (* Unknown(idc): rendered by the printer *)
  end.

Definition level_name (flags idc : N) : string :=
  match idc with
  | 10%N => "L1" | 11%N => if N.testbit flags 4 then "L1_b" else "L1_1"
  | 12%N => "L1_2" | 13%N => "L1_3" | 20%N => "L2" | 21%N => "L2_1" | 22%N => "L2_2"
  | 30%N => "L3" | 31%N => "L3_1" | 32%N => "L3_2" | 40%N => "L4" | 41%N => "L4_1" | 42%N => "L4_2"
  | 50%N => "L5" | 51%N => "L5_1" | 52%N => "L5_2" | 60%N => "L6" | 61%N => "L6_1" | 62%N => "L6_2"
  | _ => ""
  end.

Local Open Scope N_scope.

Definition log2_max_frame_num (s : sps) : out spserr N :=
  (* u8 addition: log2_max_frame_num_minus4 + 4 *)
  if log2_max_frame_num_minus4 s + 4 <? 256 then OK (log2_max_frame_num_minus4 s + 4)
  else PANIC "attempt to add with overflow".

Definition pic_width_in_mbs (s : sps) : out spserr N := add32 (pic_width_in_mbs_minus1 s) 1.
Definition pic_height_in_map_units (s : sps) : out spserr N := add32 (pic_height_in_map_units_minus1 s) 1.
(* saturating_mul *)
Definition pic_size_in_map_units (s : sps) : out spserr N :=
  obind (pic_width_in_mbs s) (fun w => obind (pic_height_in_map_units s) (fun h =>
    OK (N.min (w * h) 4294967295))).

Definition opt_or_err {A} (o : option A) (e : spserr) : out spserr A :=
  match o with Some a => OK a | None => ERR e end.

Definition pixel_dimensions (s : sps) : out spserr (N * N) :=
  let w1 := pic_width_in_mbs_minus1 s in
  let h1 := pic_height_in_map_units_minus1 s in
  obind (opt_or_err (match checked_add32 w1 1 with Some w => checked_mul32 w 16 | None => None end)
                    (FieldValueTooLarge "pic_width_in_mbs_minus1" w1)) (fun width =>
  let mul := match frame_mbs_flags_ s with Fields _ => 2 | Frames => 1 end in
  let cf := chroma_format_ (chroma_info_ s) in
  let vsub := if chroma_format_eqb cf YUV420 then 1 else 0 in
  let hsub := if chroma_format_eqb cf YUV420 || chroma_format_eqb cf YUV422 then 1 else 0 in
  let step_x := 2 ^ hsub in
  let step_y := mul * 2 ^ vsub in
  obind (add32 h1 1) (fun hp1 =>
  obind (opt_or_err (checked_mul32 hp1 (mul * 16)) (FieldValueTooLarge "pic_height_in_map_units_minus1" h1)) (fun height =>
  match frame_cropping_ s with
  | None => OK (width, height)
  | Some crop =>
    obind (opt_or_err (checked_mul32 (left_offset crop) step_x) (FieldValueTooLarge "left_offset" (left_offset crop))) (fun lo =>
    obind (opt_or_err (checked_mul32 (right_offset crop) step_x) (FieldValueTooLarge "right_offset" (right_offset crop))) (fun ro =>
    obind (opt_or_err (checked_mul32 (top_offset crop) step_y) (FieldValueTooLarge "top_offset" (top_offset crop))) (fun to =>
    obind (opt_or_err (checked_mul32 (bottom_offset crop) step_y) (FieldValueTooLarge "bottom_offset" (bottom_offset crop))) (fun bo =>
    let w' := match checked_sub32 width lo with Some x => checked_sub32 x ro | None => None end in
    let h' := match checked_sub32 height to with Some x => checked_sub32 x bo | None => None end in
    match w', h' with
    | Some a, Some b => OK (a, b)
    | _, _ => ERR (CroppingError crop)
    end))))
  end))).

(* fps as the exact rational time_scale / (2 * num_units_in_tick) *)
Definition fps (s : sps) : option (N * N) :=
  match vui_parameters_ s with
  | Some v => match timing_info_ v with
              | Some t => Some (time_scale t, 2 * num_units_in_tick t)
              | None => None
              end
  | None => None
  end.

(* AspectRatioInfo::get: sample aspect ratio of Table E-1; None for unspecified / reserved / a zero extended term *)
Definition aspect_get (a : aspect_ratio_info) : option (N * N) :=
  match a with
  | ArUnspecified => None
  | ArRatio idc =>
      match idc with
      | 1 => Some (1, 1) | 2 => Some (12, 11) | 3 => Some (10, 11) | 4 => Some (16, 11) | 5 => Some (40, 33)
      | 6 => Some (24, 11) | 7 => Some (20, 11) | 8 => Some (32, 11) | 9 => Some (80, 33) | 10 => Some (18, 11)
      | 11 => Some (15, 11) | 12 => Some (64, 33) | 13 => Some (160, 99) | 14 => Some (4, 3) | 15 => Some (3, 2)
      | 16 => Some (2, 1) | _ => None
      end
  | ArReserved _ => None
  | ArExtended w h => if (w =? 0) || (h =? 0) then None else Some (w, h)
  end.
