(* Model of nal::sps (src/nal/sps.rs): SeqParameterSet::from_bits and every helper it calls,
   same order of reads, same checks, same error values. *)
From H264 Require Import Base.Prelude Base.Bits Model.BitReader Model.Parser.
Local Open Scope pe_scope.

Inductive chroma_format := Monochrome | YUV420 | YUV422 | YUV444 | CfInvalid (n : N).
Definition chroma_format_of_idc (n : N) : chroma_format :=
  match n with 0 => Monochrome | 1 => YUV420 | 2 => YUV422 | 3 => YUV444 | _ => CfInvalid n end.
Definition chroma_format_eqb (a b : chroma_format) : bool :=
  match a, b with
  | Monochrome, Monochrome | YUV420, YUV420 | YUV422, YUV422 | YUV444, YUV444 => true
  | CfInvalid x, CfInvalid y => x =? y
  | _, _ => false
  end.

(* ProfileIdc::has_chroma_info *)
Definition has_chroma_info (p : N) : bool :=
  match p with
  | 100 | 110 | 122 | 244 | 44 | 83 | 86 | 118 | 128 | 138 | 139 | 134 | 135 => true
  | _ => false
  end.

Inductive scaling_list := SlNotPresent | SlUseDefault | SlList (l : list N).

Inductive smerr := SmReader (e : biterr) | SmDeltaScaleOutOfRange (d : Z).
Inductive pocerr :=
| PocInvalidType (n : N) | PocReader (e : biterr) | PocLog2OutOfRange (n : N) | PocNumRefFramesOutOfRange (n : N).

Record frame_cropping := mk_crop { left_offset : N; right_offset : N; top_offset : N; bottom_offset : N }.

Inductive spserr :=
| BitDepthOutOfRange (n : N)
| RbspReaderError (e : biterr)
| PicOrderCntErr (e : pocerr)
| ScalingMatrixErr (e : smerr)
| Log2MaxFrameNumMinus4OutOfRange (n : N)
| BadSeqParamSetId (n : N)
| FieldValueTooLarge (name : string) (value : N)
| FieldValueTooSmall (name : string) (value : N)
| CroppingError (c : frame_cropping)
| CpbCountOutOfRange (n : N).

(* fill_scaling_list: returns (use_default_scaling_matrix_flag, values) *)
Fixpoint fill_scaling_list (n : nat) (j0 : bool) (last next : N) (ud : bool) (acc : list N)
  : PE smerr (bool * list N) :=
  match n with
  | O => retE (ud, acc)
  | S n' =>
    if next =? 0 then
      (* no read: new_value = NonZeroU8::new(0).unwrap_or(last_scale) *)
      fill_scaling_list n' false last 0 ud (acc ++ [last])
    else
      delta <- liftE SmReader (read_se "delta_scale") ;;
      if ((delta <? -128) || (127 <? delta))%Z then failE (SmDeltaScaleOutOfRange delta)
      else
        let next' := Z.to_N ((Z.of_N last + delta + 256) mod 256) in
        let ud' := j0 && (next' =? 0) in
        let v := if next' =? 0 then last else next' in
        fill_scaling_list n' false v next' ud' (acc ++ [v])
  end.

Definition read_scaling_list (size : nat) (present : bool) : PE smerr scaling_list :=
  if negb present then retE SlNotPresent
  else r <- fill_scaling_list size true 8 8 false [] ;;
       retE (if fst r then SlUseDefault else SlList (snd r)).

Record seq_scaling_matrix := mk_ssm { scaling_list4x4 : list scaling_list; scaling_list8x8 : list scaling_list }.

(* the loop `for i in 0..count` with i < 6 -> 4x4 else 8x8 *)
Fixpoint read_scaling_lists (n : nat) (i : nat) (l4 l8 : list scaling_list) : PE smerr seq_scaling_matrix :=
  match n with
  | O => retE (mk_ssm l4 l8)
  | S n' =>
    flag <- liftE SmReader (read_bool "seq_scaling_list_present_flag") ;;
    if Nat.ltb i 6 then sl <- read_scaling_list 16 flag ;; read_scaling_lists n' (S i) (l4 ++ [sl]) l8
    else sl <- read_scaling_list 64 flag ;; read_scaling_lists n' (S i) l4 (l8 ++ [sl])
  end.

Definition seq_scaling_matrix_read (chroma_format_idc : N) : PE smerr seq_scaling_matrix :=
  read_scaling_lists (if chroma_format_idc =? 3 then 12 else 8) 0 [] [].

Record chroma_info := mk_chroma_info {
  chroma_format_ : chroma_format;
  separate_colour_plane_flag : bool;
  bit_depth_luma_minus8 : N;
  bit_depth_chroma_minus8 : N;
  qpprime_y_zero_transform_bypass_flag : bool;
  scaling_matrix : option seq_scaling_matrix }.
Definition chroma_info_default := mk_chroma_info YUV420 false 0 0 false None.

Definition read_bit_depth_minus8 : PE spserr N :=
  v <- liftE RbspReaderError (read_ue "read_bit_depth_minus8") ;;
  if 6 <? v then failE (BitDepthOutOfRange v) else retE v.

Definition read_scaling_matrix (chroma_format_idc : N) : PE spserr (option seq_scaling_matrix) :=
  f <- liftE RbspReaderError (read_bool "scaling_matrix_present_flag") ;;
  if f then m <- mapE ScalingMatrixErr (seq_scaling_matrix_read chroma_format_idc) ;; retE (Some m)
  else retE None.

Definition chroma_info_read (profile_idc : N) : PE spserr chroma_info :=
  if has_chroma_info profile_idc then
    idc <- liftE RbspReaderError (read_ue "chroma_format_idc") ;;
    sep <- (if idc =? 3 then liftE RbspReaderError (read_bool "separate_colour_plane_flag") else retE false) ;;
    bl <- read_bit_depth_minus8 ;;
    bc <- read_bit_depth_minus8 ;;
    qp <- liftE RbspReaderError (read_bool "qpprime_y_zero_transform_bypass_flag") ;;
    sm <- read_scaling_matrix idc ;;
    retE (mk_chroma_info (chroma_format_of_idc idc) sep bl bc qp sm)
  else retE chroma_info_default.

Inductive pic_order_cnt :=
| PocTypeZero (log2_max_pic_order_cnt_lsb_minus4 : N)
| PocTypeOne (delta_pic_order_always_zero_flag : bool) (offset_for_non_ref_pic offset_for_top_to_bottom_field : Z)
             (offsets_for_ref_frame : list Z)
| PocTypeTwo.

Definition pic_order_cnt_read : PE pocerr pic_order_cnt :=
  t <- liftE PocReader (read_ue "pic_order_cnt_type") ;;
  match t with
  | 0 => v <- liftE PocReader (read_ue "log2_max_pic_order_cnt_lsb_minus4") ;;
         if 12 <? v then failE (PocLog2OutOfRange v) else retE (PocTypeZero v)
  | 1 => az <- liftE PocReader (read_bool "delta_pic_order_always_zero_flag") ;;
         nr <- liftE PocReader (read_se "offset_for_non_ref_pic") ;;
         tb <- liftE PocReader (read_se "offset_for_top_to_bottom_field") ;;
         n <- liftE PocReader (read_ue "num_ref_frames_in_pic_order_cnt_cycle") ;;
         if 255 <? n then failE (PocNumRefFramesOutOfRange n)
         else offs <- repE (N.to_nat n) (liftE PocReader (read_se "offset_for_ref_frame")) ;;
              retE (PocTypeOne az nr tb offs)
  | 2 => retE PocTypeTwo
  | _ => failE (PocInvalidType t)
  end.

Inductive frame_mbs_flags := Frames | Fields (mb_adaptive_frame_field_flag : bool).
Definition frame_mbs_flags_read : PE spserr frame_mbs_flags :=
  f <- liftE RbspReaderError (read_bool "frame_mbs_only_flag") ;;
  if f then retE Frames
  else m <- liftE RbspReaderError (read_bool "mb_adaptive_frame_field_flag") ;; retE (Fields m).

Definition frame_cropping_read : PE spserr (option frame_cropping) :=
  f <- liftE RbspReaderError (read_bool "frame_cropping_flag") ;;
  if f then
    l <- liftE RbspReaderError (read_ue "left_offset") ;;
    r <- liftE RbspReaderError (read_ue "right_offset") ;;
    t <- liftE RbspReaderError (read_ue "top_offset") ;;
    b <- liftE RbspReaderError (read_ue "bottom_offset") ;;
    retE (Some (mk_crop l r t b))
  else retE None.

Inductive aspect_ratio_info :=
| ArUnspecified | ArRatio (idc : N) (* 1..16: the named ratios of Table E-1 *) | ArReserved (n : N) | ArExtended (w h : N).
Definition aspect_ratio_info_read : PE spserr (option aspect_ratio_info) :=
  f <- liftE RbspReaderError (read_bool "aspect_ratio_info_present_flag") ;;
  if f then
    idc <- liftE RbspReaderError (read_u 8 8 "aspect_ratio_idc") ;;
    if idc =? 0 then retE (Some ArUnspecified)
    else if idc <=? 16 then retE (Some (ArRatio idc))
    else if idc =? 255 then
      w <- liftE RbspReaderError (read_u 16 16 "sar_width") ;;
      h <- liftE RbspReaderError (read_u 16 16 "sar_height") ;;
      retE (Some (ArExtended w h))
    else retE (Some (ArReserved idc))
  else retE None.

Inductive overscan_appropriate := OvUnspecified | OvAppropriate | OvInappropriate.
Definition overscan_appropriate_read : PE spserr overscan_appropriate :=
  f <- liftE RbspReaderError (read_bool "overscan_info_present_flag") ;;
  if f then a <- liftE RbspReaderError (read_bool "overscan_appropriate_flag") ;;
            retE (if a then OvAppropriate else OvInappropriate)
  else retE OvUnspecified.

Record colour_description := mk_cd { colour_primaries : N; transfer_characteristics : N; matrix_coefficients : N }.
Record video_signal_type := mk_vst { video_format : N; video_full_range_flag : bool; colour_description_ : option colour_description }.
Definition video_signal_type_read : PE spserr (option video_signal_type) :=
  f <- liftE RbspReaderError (read_bool "video_signal_type_present_flag") ;;
  if f then
    vf <- liftE RbspReaderError (read_u 8 3 "video_format") ;;
    fr <- liftE RbspReaderError (read_bool "video_full_range_flag") ;;
    cf <- liftE RbspReaderError (read_bool "colour_description_present_flag") ;;
    cd <- (if cf then
             a <- liftE RbspReaderError (read_u 8 8 "colour_primaries") ;;
             b <- liftE RbspReaderError (read_u 8 8 "transfer_characteristics") ;;
             c <- liftE RbspReaderError (read_u 8 8 "matrix_coefficients") ;;
             retE (Some (mk_cd a b c))
           else retE None) ;;
    retE (Some (mk_vst vf fr cd))
  else retE None.

Record chroma_loc_info := mk_cli { chroma_sample_loc_type_top_field : N; chroma_sample_loc_type_bottom_field : N }.
Definition chroma_loc_info_read : PE spserr (option chroma_loc_info) :=
  f <- liftE RbspReaderError (read_bool "chroma_loc_info_present_flag") ;;
  if f then
    a <- liftE RbspReaderError (read_ue "chroma_sample_loc_type_top_field") ;;
    b <- liftE RbspReaderError (read_ue "chroma_sample_loc_type_bottom_field") ;;
    retE (Some (mk_cli a b))
  else retE None.

Record timing_info := mk_ti { num_units_in_tick : N; time_scale : N; fixed_frame_rate_flag : bool }.
Definition timing_info_read : PE spserr (option timing_info) :=
  f <- liftE RbspReaderError (read_bool "timing_info_present_flag") ;;
  if f then
    a <- liftE RbspReaderError (read_u 32 32 "num_units_in_tick") ;;
    b <- liftE RbspReaderError (read_u 32 32 "time_scale") ;;
    c <- liftE RbspReaderError (read_bool "fixed_frame_rate_flag") ;;
    retE (Some (mk_ti a b c))
  else retE None.

Record cpb_spec := mk_cpb { bit_rate_value_minus1 : N; cpb_size_value_minus1 : N; cbr_flag : bool }.
Definition cpb_spec_read : PE spserr cpb_spec :=
  a <- liftE RbspReaderError (read_ue "bit_rate_value_minus1") ;;
  b <- liftE RbspReaderError (read_ue "cpb_size_value_minus1") ;;
  c <- liftE RbspReaderError (read_bool "cbr_flag") ;;
  retE (mk_cpb a b c).

Record hrd_parameters := mk_hrd {
  bit_rate_scale : N; cpb_size_scale : N; cpb_specs : list cpb_spec;
  initial_cpb_removal_delay_length_minus1 : N; cpb_removal_delay_length_minus1 : N;
  dpb_output_delay_length_minus1 : N; time_offset_length : N }.

(* HrdParameters::read: returns (present flag, parameters) *)
Definition hrd_parameters_read : PE spserr (option hrd_parameters) :=
  f <- liftE RbspReaderError (read_bool "hrd_parameters_present_flag") ;;
  if f then
    cnt <- liftE RbspReaderError (read_ue "cpb_cnt_minus1") ;;
    if 31 <? cnt then failE (CpbCountOutOfRange cnt)
    else
      brs <- liftE RbspReaderError (read_u 8 4 "bit_rate_scale") ;;
      css <- liftE RbspReaderError (read_u 8 4 "cpb_size_scale") ;;
      specs <- repE (N.to_nat (cnt + 1)) cpb_spec_read ;;
      a <- liftE RbspReaderError (read_u 8 5 "initial_cpb_removal_delay_length_minus1") ;;
      b <- liftE RbspReaderError (read_u 8 5 "cpb_removal_delay_length_minus1") ;;
      c <- liftE RbspReaderError (read_u 8 5 "dpb_output_delay_length_minus1") ;;
      d <- liftE RbspReaderError (read_u 8 5 "time_offset_length") ;;
      retE (Some (mk_hrd brs css specs a b c d))
  else retE None.

Record bitstream_restrictions := mk_br {
  motion_vectors_over_pic_boundaries_flag : bool;
  max_bytes_per_pic_denom : N; max_bits_per_mb_denom : N;
  log2_max_mv_length_horizontal : N; log2_max_mv_length_vertical : N;
  max_num_reorder_frames : N; max_dec_frame_buffering : N }.

Definition bitstream_restrictions_read (max_num_ref_frames : N) : PE spserr (option bitstream_restrictions) :=
  f <- liftE RbspReaderError (read_bool "bitstream_restriction_flag") ;;
  if f then
    mv <- liftE RbspReaderError (read_bool "motion_vectors_over_pic_boundaries_flag") ;;
    a <- liftE RbspReaderError (read_ue "max_bytes_per_pic_denom") ;;
    if 16 <? a then failE (FieldValueTooLarge "max_bytes_per_pic_denom" a) else
    b <- liftE RbspReaderError (read_ue "max_bits_per_mb_denom") ;;
    if 16 <? b then failE (FieldValueTooLarge "max_bits_per_mb_denom" b) else
    c <- liftE RbspReaderError (read_ue "log2_max_mv_length_horizontal") ;;
    if 16 <? c then failE (FieldValueTooLarge "log2_max_mv_length_horizontal" c) else
    d <- liftE RbspReaderError (read_ue "log2_max_mv_length_vertical") ;;
    if 16 <? d then failE (FieldValueTooLarge "log2_max_mv_length_vertical" d) else
    e <- liftE RbspReaderError (read_ue "max_num_reorder_frames") ;;
    g <- liftE RbspReaderError (read_ue "max_dec_frame_buffering") ;;
    if g <? e then failE (FieldValueTooLarge "max_num_reorder_frames" e) else
    if g <? max_num_ref_frames then failE (FieldValueTooSmall "max_dec_frame_buffering" g) else
    retE (Some (mk_br mv a b c d e g))
  else retE None.

Record vui_parameters := mk_vui {
  aspect_ratio_info_ : option aspect_ratio_info;
  overscan_appropriate_ : overscan_appropriate;
  video_signal_type_ : option video_signal_type;
  chroma_loc_info_ : option chroma_loc_info;
  timing_info_ : option timing_info;
  nal_hrd_parameters : option hrd_parameters;
  vcl_hrd_parameters : option hrd_parameters;
  low_delay_hrd_flag : option bool;
  pic_struct_present_flag : bool;
  bitstream_restrictions_ : option bitstream_restrictions }.

Definition is_some {A} (o : option A) : bool := match o with Some _ => true | None => false end.

Definition vui_parameters_read (max_num_ref_frames : N) : PE spserr (option vui_parameters) :=
  f <- liftE RbspReaderError (read_bool "vui_parameters_present_flag") ;;
  if f then
    ar <- aspect_ratio_info_read ;;
    ov <- overscan_appropriate_read ;;
    vs <- video_signal_type_read ;;
    cl <- chroma_loc_info_read ;;
    ti <- timing_info_read ;;
    nal <- hrd_parameters_read ;;
    vcl <- hrd_parameters_read ;;
    ld <- (if is_some nal || is_some vcl
           then x <- liftE RbspReaderError (read_bool "low_delay_hrd_flag") ;; retE (Some x)
           else retE None) ;;
    ps <- liftE RbspReaderError (read_bool "pic_struct_present_flag") ;;
    br <- bitstream_restrictions_read max_num_ref_frames ;;
    retE (Some (mk_vui ar ov vs cl ti nal vcl ld ps br))
  else retE None.

Record sps := mk_sps {
  profile_idc : N;
  constraint_flags : N;
  level_idc : N;
  seq_parameter_set_id : N;
  chroma_info_ : chroma_info;
  log2_max_frame_num_minus4 : N;
  pic_order_cnt_ : pic_order_cnt;
  max_num_ref_frames : N;
  gaps_in_frame_num_value_allowed_flag : bool;
  pic_width_in_mbs_minus1 : N;
  pic_height_in_map_units_minus1 : N;
  frame_mbs_flags_ : frame_mbs_flags;
  direct_8x8_inference_flag : bool;
  frame_cropping_ : option frame_cropping;
  vui_parameters_ : option vui_parameters }.

(* SeqParamSetId::from_u32 *)
Definition seq_param_set_id_from_u32 (id : N) : option N := if 31 <? id then None else Some id.

(* SeqParameterSet::from_bits, without the final finish_rbsp (which consumes the reader) *)
Definition sps_body : PE spserr sps :=
  p <- liftE RbspReaderError (read_u 8 8 "profile_idc") ;;
  c <- liftE RbspReaderError (read_u 8 8 "constraint_flags") ;;
  l <- liftE RbspReaderError (read_u 8 8 "level_idc") ;;
  idv <- liftE RbspReaderError (read_ue "seq_parameter_set_id") ;;
  match seq_param_set_id_from_u32 idv with
  | None => failE (BadSeqParamSetId idv)
  | Some id =>
    ci <- chroma_info_read p ;;
    l2 <- liftE RbspReaderError (read_ue "log2_max_frame_num_minus4") ;;
    if 12 <? l2 then failE (Log2MaxFrameNumMinus4OutOfRange l2) else
    poc <- mapE PicOrderCntErr pic_order_cnt_read ;;
    mr <- liftE RbspReaderError (read_ue "max_num_ref_frames") ;;
    gaps <- liftE RbspReaderError (read_bool "gaps_in_frame_num_value_allowed_flag") ;;
    w <- liftE RbspReaderError (read_ue "pic_width_in_mbs_minus1") ;;
    h <- liftE RbspReaderError (read_ue "pic_height_in_map_units_minus1") ;;
    fm <- frame_mbs_flags_read ;;
    d8 <- liftE RbspReaderError (read_bool "direct_8x8_inference_flag") ;;
    crop <- frame_cropping_read ;;
    vui <- vui_parameters_read mr ;;
    retE (mk_sps p c l id ci l2 poc mr gaps w h fm d8 crop vui)
  end.

Definition sps_from_bits (s : src) : out spserr sps :=
  match sps_body s with
  | OK (v, s') => match finish_rbsp s' with
                  | OK _ => OK v
                  | ERR e => ERR (RbspReaderError e)
                  | PANIC w => PANIC w
                  | FUEL => FUEL
                  end
  | ERR e => ERR e
  | PANIC w => PANIC w
  | FUEL => FUEL
  end.
