(* Model of the SEI payload type names (nal::sei::HeaderType::from_id) and of the ITU-T T.35 country
   code table (nal::sei::user_data_registered_itu_t_t35).  Transcribed once; Proofs/Tables.v proves
   on every run that they equal the tables dumped from the real crate. *)
From H264 Require Import Base.Prelude Model.Show.
Local Open Scope string_scope.

(* T.35 Annex A: codes 0x00..0xC4 are assigned (in the order of the Recommendation's list);
   0xC5..0xFE are not; 0xFF announces an extension byte *)
Definition t35_names : list string :=
  ["Japan";
   "Albania";
   "Algeria";
   "AmericanSamoa";
   "GermanyFederalRepublicOf(4)";
   "Anguilla";
   "AntiguaandBarbuda";
   "Argentina";
   "AscensionseeSHelena";
   "Australia";
   "Austria";
   "Bahamas";
   "Bahrain";
   "Bangladesh";
   "Barbados";
   "Belgium";
   "Belize";
   "BeninRepublicOf";
   "Bermudas";
   "BhutanKingdomOf";
   "Bolivia";
   "Botswana";
   "Brazil";
   "BritishAntarcticTerritory";
   "BritishIndianOceanTerritory";
   "BritishVirginIslands";
   "BruneiDarussalam";
   "Bulgaria";
   "MyanmarUnionOf";
   "Burundi";
   "Byelorussia";
   "Cameroon";
   "Canada";
   "CapeVerde";
   "CaymanIslands";
   "CentralAfricanRepublic";
   "Chad";
   "Chile";
   "China";
   "Colombia";
   "Comoros";
   "Congo";
   "CookIslands";
   "CostaRica";
   "Cuba";
   "Cyprus";
   "CzechandSlovakFederalRepublic";
   "Cambodia";
   "DemocraticPeoplesRepublicOfKorea";
   "Denmark";
   "Djibouti";
   "DominicanRepublic";
   "Dominica";
   "Ecuador";
   "Egypt";
   "ElSalvador";
   "EquatorialGuinea";
   "Ethiopia";
   "FalklandIslands";
   "Fiji";
   "Finland";
   "France";
   "FrenchPolynesia";
   "FrenchSouthernAndAntarcticLands";
   "Gabon";
   "Gambia";
   "GermanyFederalRepublicOf(66)";
   "Angola";
   "Ghana";
   "Gibraltar";
   "Greece";
   "Grenada";
   "Guam";
   "Guatemala";
   "Guernsey";
   "Guinea";
   "GuineaBissau";
   "Guayana";
   "Haiti";
   "Honduras";
   "Hongkong";
   "HungaryRepublicOf";
   "Iceland";
   "India";
   "Indonesia";
   "IranIslamicRepublicOf";
   "Iraq";
   "Ireland";
   "Israel";
   "Italy";
   "CotedIvoire";
   "Jamaica";
   "Afghanistan";
   "Jersey";
   "Jordan";
   "Kenya";
   "Kiribati";
   "KoreaRepublicOf";
   "Kuwait";
   "LaoPeoplesDemocraticRepublic";
   "Lebanon";
   "Lesotho";
   "Liberia";
   "Libya";
   "Liechtenstein";
   "Luxembourg";
   "Macau";
   "Madagascar";
   "Malaysia";
   "Malawi";
   "Maldives";
   "Mali";
   "Malta";
   "Mauritania";
   "Mauritius";
   "Mexico";
   "Monaco";
   "Mongolia";
   "Montserrat";
   "Morocco";
   "Mozambique";
   "Nauru";
   "Nepal";
   "Netherlands";
   "NetherlandsAntilles";
   "NewCaledonia";
   "NewZealand";
   "Nicaragua";
   "Niger";
   "Nigeria";
   "Norway";
   "Oman";
   "Pakistan";
   "Panama";
   "PapuaNewGuinea";
   "Paraguay";
   "Peru";
   "Philippines";
   "PolandRepublicOf";
   "Portugal";
   "PuertoRico";
   "Qatar";
   "Romania";
   "Rwanda";
   "SaintKittsAndNevis";
   "SaintCroix";
   "SaintHelenaAndAscension";
   "SaintLucia";
   "SanMarino";
   "SaintThomas";
   "SaoTomeAndPrincipe";
   "SaintVincentAndTheGrenadines";
   "SaudiArabia";
   "Senegal";
   "Seychelles";
   "SierraLeone";
   "Singapore";
   "SolomonIslands";
   "Somalia";
   "SouthAfrica";
   "Spain";
   "SriLanka";
   "Sudan";
   "Suriname";
   "Swaziland";
   "Sweden";
   "Switzerland";
   "Syria";
   "Tanzania";
   "Thailand";
   "Togo";
   "Tonga";
   "TrinidadAndTobago";
   "Tunisia";
   "Turkey";
   "TurksAndCaicosIslands";
   "Tuvalu";
   "Uganda";
   "Ukraine";
   "UnitedArabEmirates";
   "UnitedKingdom";
   "UnitedStates";
   "BurkinaFaso";
   "Uruguay";
   "USSR";
   "Vanuatu";
   "VaticanCityState";
   "Venezuela";
   "VietNam";
   "WallisAndFutuna";
   "WesternSamoa";
   "YemenRepublicOf(191)";
   "YemenRepublicOf(192)";
   "Yugoslavia";
   "Zaire";
   "Zambia";
   "Zimbabwe"].

Definition t35_country_name (b : N) : string :=
  if (b <=? 196)%N then nth (N.to_nat b) t35_names "" else "Unknown(" ++ show_N b ++ ")".

Inductive t35_result := T35Ok (name : string) (rest : list N) | T35NotEnough (expected actual : N).

(* ItuTT35::read *)
Definition t35_read (payload : list N) : t35_result :=
  match payload with
  | [] => T35NotEnough 1 0
  | b :: r =>
    if (b =? 255)%N then
      match r with
      | [] => T35NotEnough 2 1
      | e :: r' => T35Ok ("Extended(" ++ show_N e ++ ")") r'
      end
    else T35Ok (t35_country_name b) r
  end.

Definition sei_type_name (id : N) : string :=
  match id with
  | 0%N => "BufferingPeriod"
  | 1%N => "PicTiming"
  | 2%N => "PanScanRect"
  | 3%N => "FillerPayload"
  | 4%N => "UserDataRegisteredItuTT35"
  | 5%N => "UserDataUnregistered"
  | 6%N => "RecoveryPoint"
  | 7%N => "DecRefPicMarkingRepetition"
  | 8%N => "SparePic"
  | 9%N => "SceneInfo"
  | 10%N => "SubSeqInfo"
  | 11%N => "SubSeqLayerCharacteristics"
  | 12%N => "SubSeqCharacteristics"
  | 13%N => "FullFrameFreeze"
  | 14%N => "FullFrameFreezeRelease"
  | 15%N => "FullFrameSnapshot"
  | 16%N => "ProgressiveRefinementSegmentStart"
  | 17%N => "ProgressiveRefinementSegmentEnd"
  | 18%N => "MotionConstrainedSliceGroupSet"
  | 19%N => "FilmGrainCharacteristics"
  | 20%N => "DeblockingFilterDisplayPreference"
  | 21%N => "StereoVideoInfo"
  | 22%N => "PostFilterHint"
  | 23%N => "ToneMappingInfo"
  | 24%N => "ScalabilityInfo"
  | 25%N => "SubPicScalableLayer"
  | 26%N => "NonRequiredLayerRep"
  | 27%N => "PriorityLayerInfo"
  | 28%N => "LayersNotPresent"
  | 29%N => "LayerDependencyChange"
  | 30%N => "ScalableNesting"
  | 31%N => "BaseLayerTemporalHrd"
  | 32%N => "QualityLayerIntegrityCheck"
  | 33%N => "RedundantPicProperty"
  | 34%N => "Tl0DepRepIndex"
  | 35%N => "TlSwitchingPoint"
  | 36%N => "ParallelDecodingInfo"
  | 37%N => "MvcScalableNesting"
  | 38%N => "ViewScalabilityInfo"
  | 39%N => "MultiviewSceneInfo"
  | 40%N => "MultiviewAcquisitionInfo"
  | 41%N => "NonRequiredViewComponent"
  | 42%N => "ViewDependencyChange"
  | 43%N => "OperationPointsNotPresent"
  | 44%N => "BaseViewTemporalHrd"
  | 45%N => "FramePackingArrangement"
  | 46%N => "MultiviewViewPosition"
  | 47%N => "DisplayOrientation"
  | 48%N => "MvcdScalableNesting"
  | 49%N => "MvcdViewScalabilityInfo"
  | 50%N => "DepthRepresentationInfo"
  | 51%N => "ThreeDimensionalReferenceDisplaysInfo"
  | 52%N => "DepthTiming"
  | 53%N => "DepthSamplingInfo"
  | 54%N => "ConstrainedDepthParameterSetIdentifier"
  | 56%N => "GreenMetadata"
  | 137%N => "MasteringDisplayColourVolume"
  | 142%N => "ColourRemappingInfo"
  | 147%N => "AlternativeTransferCharacteristics"
  | 188%N => "AlternativeDepthInfo"
  | _ => "ReservedSeiMessage(" ++ show_N id ++ ")"
  end.
