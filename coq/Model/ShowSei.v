From H264 Require Import Base.Prelude Model.Show Model.BitReader Model.Sps Model.ShowSps Model.Sei Model.SeiTables.
Local Open Scope string_scope.

Definition show_sei_result (x : out biterr (option sei_msg)) : string :=
  match x with
  | OK (Some (mk_msg t p)) => "M:" ++ sei_type_name t ++ ":" ++ hex p
  | OK None => "None"
  | ERR e => "E:" ++ show_biterr_dbg e
  | PANIC _ => "PANIC"
  | FUEL => "FUEL"
  end.

Definition show_icr (p : N * N) : string :=
  show_struct "InitialCpbRemoval" [("initial_cpb_removal_delay", show_N (fst p)); ("initial_cpb_removal_delay_offset", show_N (snd p))].
Definition show_bp (b : buffering_period) : string :=
  show_struct "BufferingPeriod" [("nal_hrd_bp", show_option (show_list show_icr) (nal_hrd_bp b));
                                 ("vcl_hrd_bp", show_option (show_list show_icr) (vcl_hrd_bp b))].
Definition show_bperr (e : bperr) : string :=
  match e with
  | BpReaderError b => "ReaderError(" ++ show_biterr_dbg b ++ ")"
  | BpUndefinedSeqParamSetId id => "UndefinedSeqParamSetId(SeqParamSetId(" ++ show_N id ++ "))"
  | BpInvalidSeqParamSetId n => "InvalidSeqParamSetId(IdTooLarge(" ++ show_N n ++ "))"
  end.

Definition pic_struct_name (id : N) : string :=
  match id with
  | 0%N => "Frame" | 1%N => "TopField" | 2%N => "BottomField" | 3%N => "TopFieldBottomField" | 4%N => "BottomFieldTopField"
  | 5%N => "TopFieldBottomFieldTopFieldRepeated" | 6%N => "BottomFieldTopFieldBottomFieldRepeated"
  | 7%N => "FrameDoubling" | 8%N => "FrameTripling" | _ => "Reserved(" ++ show_N id ++ ")"
  end.
Definition ct_type_name (n : N) : string :=
  match n with 0%N => "Progressive" | 1%N => "Interlaced" | 2%N => "Unknown" | _ => "Reserved" end.
Definition counting_type_name (n : N) : string :=
  match n with
  | 0%N => "NoDroppingNoOffset" | 1%N => "NoDropping" | 2%N => "DroppingIndividualZero" | 3%N => "DroppingIndividualMax"
  | 4%N => "DroppingTwoLowest" | 5%N => "DroppingIndividual" | 6%N => "Dropping" | _ => "Reserved(" ++ show_N n ++ ")"
  end.
Definition show_smh (s : sec_min_hour) : string :=
  match s with
  | SmhNone => "None" | SmhS a => "S(" ++ show_N a ++ ")" | SmhSM a b => "SM(" ++ show_N a ++ "," ++ show_N b ++ ")"
  | SmhSMH a b c => "SMH(" ++ show_N a ++ "," ++ show_N b ++ "," ++ show_N c ++ ")"
  end.
Definition show_ct (c : clock_timestamp) : string :=
  show_struct "ClockTimestamp" [
    ("ct_type", ct_type_name (ct_type c)); ("nuit_field_based_flag", show_bool (nuit_field_based_flag c));
    ("counting_type", counting_type_name (counting_type c)); ("discontinuity_flag", show_bool (discontinuity_flag c));
    ("cnt_dropped_flag", show_bool (cnt_dropped_flag c)); ("n_frames", show_N (n_frames c));
    ("smh", show_smh (smh c)); ("time_offset", show_option show_Z (time_offset c))].
Definition show_pt (p : pic_timing) : string :=
  show_struct "PicTiming" [
    ("delays", show_option (fun d => show_struct "Delays" [("cpb_removal_delay", show_N (fst d)); ("dpb_output_delay", show_N (snd d))]) (pt_delays p));
    ("pic_struct", show_option (fun x => show_struct "PicStruct" [("pic_struct", pic_struct_name (fst x));
                                                                  ("clock_timestamps", show_list (show_option show_ct) (snd x))]) (pt_pic_struct p))].
Definition show_pterr (e : pterr) : string :=
  match e with
  | PtRbspError b => "RbspError(" ++ show_biterr_dbg b ++ ")"
  | PtInvalidPicStructId n => "InvalidPicStructId(" ++ show_N n ++ ")"
  end.

Definition show_t35 (r : t35_result) : string :=
  match r with
  | T35Ok nm rest => "ok:" ++ nm ++ ":" ++ hex rest
  | T35NotEnough e a => "E:NotEnoughData{expected:" ++ show_N e ++ ",actual:" ++ show_N a ++ "}"
  end.
