(* Model of annexb::AnnexBReader::push / reset / maybe_emit (src/annexb.rs:130-259).
   Same states, same order of checks, same calls with the same slices; the pair
   (fake, start) of the Rust is carried as (fake, buf[start..i]) - the slice itself instead of
   its two indices - so `start + backtrack < end` reads `backtrack < length (buf[start..end])`. *)
From H264 Require Import Base.Prelude.

Inductive astate := AStart | AStartOneZero | AStartTwoZero | AInUnit | AInUnitOneZero | AInUnitTwoZero.

(* ParseState::in_unit: backtrack_bytes when inside a unit *)
Definition in_unit (s : astate) : option nat :=
  match s with
  | AInUnit => Some 0%nat | AInUnitOneZero => Some 1%nat | AInUnitTwoZero => Some 2%nat
  | _ => None
  end.

Record call := mk_call { bufs : list (list byte); fin : bool }.

(* maybe_emit(buf, fake_and_start, end, backtrack, is_end); real = buf[start..end] *)
Definition maybe_emit (fs : option (nat * list byte)) (bt : nat) (is_end : bool) : list call :=
  match fs with
  | Some (fake, real) =>
      if Nat.ltb bt (length real) then
        if Nat.ltb 0 fake then [mk_call [zeros fake; drop_last bt real] is_end]
        else [mk_call [drop_last bt real] is_end]
      else if is_end then [mk_call [] true] else []
  | None => []
  end.

(* while in a unit, every examined byte extends buf[start..i] *)
Definition grow (fs : option (nat * list byte)) (b : byte) : option (nat * list byte) :=
  match fs with Some (fake, real) => Some (fake, real ++ [b]) | None => None end.

(* the `while i < buf.len()` loop, one examined byte per step; `l` is buf[i..] *)
Fixpoint scan (l : list byte) (st : astate) (fs : option (nat * list byte)) (out : list call)
  : astate * option (nat * list byte) * list call :=
  match l with
  | [] => (st, fs, out)
  | b :: l' =>
    match st with
    | AStart => scan l' (if b =? 0 then AStartOneZero else AStart) fs out
    | AStartOneZero => scan l' (if b =? 0 then AStartTwoZero else AStart) fs out
    | AStartTwoZero =>
        if b =? 0 then scan l' AStartTwoZero fs out
        else if b =? 1 then scan l' AInUnit (Some (0%nat, [])) out
        else scan l' AStart fs out
    | AInUnit => scan l' (if b =? 0 then AInUnitOneZero else AInUnit) (grow fs b) out
    | AInUnitOneZero => scan l' (if b =? 0 then AInUnitTwoZero else AInUnit) (grow fs b) out
    | AInUnitTwoZero =>
        if b =? 0 then scan l' AStartTwoZero None (out ++ maybe_emit fs 2 true)
        else if b =? 1 then scan l' AInUnit (Some (0%nat, [])) (out ++ maybe_emit fs 2 true)
        else scan l' AInUnit (grow fs b) out
    end
  end.

Definition push (st : astate) (buf : list byte) : astate * list call :=
  let fs0 := match in_unit st with Some bt => Some (bt, []) | None => None end in
  let '(st', fs, out) := scan buf st fs0 [] in
  match in_unit st' with
  | Some bt => (st', out ++ maybe_emit fs bt false)
  | None => (st', out)
  end.

Definition reset (st : astate) : astate * list call :=
  match in_unit st with
  | Some bt => (AStart, [if Nat.ltb 0 bt then mk_call [zeros bt] true else mk_call [] true])
  | None => (AStart, [])
  end.

Inductive aop := APush (b : list byte) | AReset | ANew.

Definition step (st : astate) (o : aop) : astate * list call :=
  match o with APush b => push st b | AReset => reset st | ANew => (AStart, []) end.

(* whole operation sequences: calls grouped per operation *)
Fixpoint run_ops (st : astate) (ops : list aop) : list (list call) :=
  match ops with
  | [] => []
  | o :: r => let '(st', cs) := step st o in cs :: run_ops st' r
  end.
