(* Model of annexb::AnnexBReader::push / reset / maybe_emit (src/annexb.rs:130-259), index style.
   A call to the fragment handler is (bufs, end). *)
From H264 Require Import Base.Prelude.

Inductive astate := AStart | AStartOneZero | AStartTwoZero | AInUnit | AInUnitOneZero | AInUnitTwoZero.

(* ParseState::in_unit: backtrack_bytes when inside a unit *)
Definition in_unit (s : astate) : option nat :=
  match s with
  | AInUnit => Some 0%nat | AInUnitOneZero => Some 1%nat | AInUnitTwoZero => Some 2%nat
  | _ => None
  end.

Record call := mk_call { bufs : list (list byte); fin : bool }.

(* maybe_emit(buf, fake_and_start, end, backtrack, is_end) *)
Definition maybe_emit (buf : list byte) (fs : option (nat * nat)) (e bt : nat) (is_end : bool) : list call :=
  match fs with
  | Some (fake, start) =>
      if Nat.ltb (start + bt) e then
        if Nat.ltb 0 fake then [mk_call [zeros fake; sub buf start (e - bt)] is_end]
        else [mk_call [sub buf start (e - bt)] is_end]
      else if is_end then [mk_call [] true] else []
  | None => []
  end.

(* the `while i < buf.len()` loop, one examined byte per step; `l` is buf[i..] *)
Fixpoint scan (buf : list byte) (l : list byte) (i : nat) (st : astate) (fs : option (nat * nat))
         (out : list call) : astate * option (nat * nat) * list call :=
  match l with
  | [] => (st, fs, out)
  | b :: l' =>
    match st with
    | AStart => scan buf l' (S i) (if b =? 0 then AStartOneZero else AStart) fs out
    | AStartOneZero => scan buf l' (S i) (if b =? 0 then AStartTwoZero else AStart) fs out
    | AStartTwoZero =>
        if b =? 0 then scan buf l' (S i) AStartTwoZero fs out
        else if b =? 1 then scan buf l' (S i) AInUnit (Some (0%nat, S i)) out
        else scan buf l' (S i) AStart fs out
    | AInUnit => scan buf l' (S i) (if b =? 0 then AInUnitOneZero else AInUnit) fs out
    | AInUnitOneZero => scan buf l' (S i) (if b =? 0 then AInUnitTwoZero else AInUnit) fs out
    | AInUnitTwoZero =>
        if b =? 0 then scan buf l' (S i) AStartTwoZero None (out ++ maybe_emit buf fs i 2 true)
        else if b =? 1 then scan buf l' (S i) AInUnit (Some (0%nat, S i)) (out ++ maybe_emit buf fs i 2 true)
        else scan buf l' (S i) AInUnit fs out
    end
  end.

Definition push (st : astate) (buf : list byte) : astate * list call :=
  let fs0 := match in_unit st with Some bt => Some (bt, 0%nat) | None => None end in
  let '(st', fs, out) := scan buf buf 0 st fs0 [] in
  match in_unit st' with
  | Some bt => (st', out ++ maybe_emit buf fs (length buf) bt false)
  | None => (st', out)
  end.

Definition reset (st : astate) : astate * list call :=
  match in_unit st with
  | Some bt => (AStart, [if Nat.ltb 0 bt then mk_call [zeros bt] true else mk_call [] true])
  | None => (AStart, [])
  end.

Inductive aop := APush (b : list byte) | AReset | ANew.

Definition step (st : astate) (o : aop) : astate * list call :=
  match o with APush b => push st b | AReset => reset st | ANew => (AStart, []) end.

(* whole operation sequences: calls grouped per operation *)
Fixpoint run_ops (st : astate) (ops : list aop) : list (list call) :=
  match ops with
  | [] => []
  | o :: r => let '(st', cs) := step st o in cs :: run_ops st' r
  end.
