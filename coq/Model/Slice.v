(* Model of nal::slice (src/nal/slice/mod.rs): SliceHeader::from_bits and helpers. *)
From H264 Require Import Base.Prelude Base.Bits Model.BitReader Model.Parser Model.Nal Model.Sps Model.SpsDerived
     Model.Context Model.Pps.
Local Open Scope pe_scope.

Inductive slice_family := FamP | FamB | FamI | FamSP | FamSI.
Definition family_eqb (a b : slice_family) : bool :=
  match a, b with FamP, FamP | FamB, FamB | FamI, FamI | FamSP, FamSP | FamSI, FamSI => true | _, _ => false end.
Record slice_type := mk_st { family : slice_family; exclusive : bool }.
Definition slice_type_from_id (id : N) : option slice_type :=
  match id with
  | 0 => Some (mk_st FamP false) | 1 => Some (mk_st FamB false) | 2 => Some (mk_st FamI false)
  | 3 => Some (mk_st FamSP false) | 4 => Some (mk_st FamSI false)
  | 5 => Some (mk_st FamP true) | 6 => Some (mk_st FamB true) | 7 => Some (mk_st FamI true)
  | 8 => Some (mk_st FamSP true) | 9 => Some (mk_st FamSI true)
  | _ => None
  end.

Inductive field_pic := FpFrame | FpTop | FpBottom.
Inductive poc_lsb :=
| PlFrame (lsb : N) | PlFieldsAbsolute (lsb : N) (delta_bottom : Z) | PlFieldsDelta (d0 d1 : Z).
Inductive num_ref_idx_active := NraP (l0 : N) | NraB (l0 l1 : N).
Inductive modification := ModSubtract (n : N) | ModAdd (n : N) | ModLongTermRef (n : N).
Inductive ref_pic_list_mods := RplI | RplP (l0 : list modification) | RplB (l0 l1 : list modification).
Record pred_weight := mk_pw { pw_weight : Z; pw_offset : Z }.
Record pred_weight_table := mk_pwt {
  luma_log2_weight_denom : N; chroma_log2_weight_denom : option N;
  luma_weights : list (option pred_weight); chroma_weights : list (list pred_weight) }.
Inductive mmco :=
| MmShortTermUnused (d : N) | MmLongTermUnused (n : N) | MmShortTermUsedForLongTerm (d idx : N)
| MmMaxUsedLongTerm (n : N) | MmAllUnused | MmCurrentUsedForLongTerm (idx : N).
Inductive dec_ref_pic_marking := DrIdr (no_output long_term : bool) | DrSlidingWindow | DrAdaptive (ops : list mmco).

Record slice_header := mk_sh {
  first_mb_in_slice : N; sh_slice_type : slice_type; colour_plane : option N; frame_num : N;
  sh_field_pic : field_pic; idr_pic_id : option N; pic_order_cnt_lsb : option poc_lsb;
  redundant_pic_cnt : option N; direct_spatial_mv_pred_flag : option bool;
  sh_num_ref_idx_active : option num_ref_idx_active; ref_pic_list_modification : ref_pic_list_mods;
  sh_pred_weight_table : option pred_weight_table; sh_dec_ref_pic_marking : option dec_ref_pic_marking;
  cabac_init_idc : option N; slice_qp_delta : Z; sp_for_switch_flag : option bool; slice_qs : option N;
  disable_deblocking_filter_idc : N }.

Inductive sliceerr :=
| SlRbspError (e : biterr)
| InvalidSliceType (n : N)
| SlInvalidSeqParamSetId (n : N)        (* from PicParamSetIdError::IdTooLarge *)
| UndefinedPicParamSetId (id : N)
| UndefinedSeqParamSetId (id : N)
| ColourPlaneError (id : N)
| InvalidModificationOfPicNumIdc (n : N)
| InvalidMemoryManagementControlOperation (n : N)
| InvalidSliceQpDelta (z : Z)
| InvalidSliceQsDelta (z : Z)
| InvalidDisableDeblockingFilterIdc (n : N)
| InvalidSliceAlphaC0OffsetDiv2 (z : Z)
| SlInvalidNumRefIdx (name : string) (n : N)
| UnsupportedSyntax (what : string).

Definition rs {A} (p : P A) : PE sliceerr A := liftE SlRbspError p.
Definition sps_help {A} (x : out spserr A) : PE sliceerr A :=
  fun s => match x with
           | OK a => OK (a, s)
           | ERR _ => PANIC "sps helper returned an error"
           | PANIC w => PANIC w
           | FUEL => FUEL
           end.

Definition sl_read_num_ref_idx (nm : string) : PE sliceerr N :=
  v <- rs (read_ue nm) ;;
  if 31 <? v then failE (SlInvalidNumRefIdx nm v) else retE v.

(* RefPicListModifications::read_list: `loop { match read_ue ... 3 => break }`, fuel = S (remaining bits) *)
Fixpoint read_mods_loop (fuel : nat) (acc : list modification) : PE sliceerr (list modification) :=
  match fuel with
  | O => fun _ => FUEL
  | S f =>
    idc <- rs (read_ue "modification_of_pic_nums_idc") ;;
    match idc with
    | 0 => v <- rs (read_ue "abs_diff_pic_num_minus1") ;; read_mods_loop f (acc ++ [ModSubtract v])
    | 1 => v <- rs (read_ue "abs_diff_pic_num_minus1") ;; read_mods_loop f (acc ++ [ModAdd v])
    | 2 => v <- rs (read_ue "long_term_pic_num") ;; read_mods_loop f (acc ++ [ModLongTermRef v])
    | 3 => retE acc
    | v => failE (InvalidModificationOfPicNumIdc v)
    end
  end.
Definition read_mod_list : PE sliceerr (list modification) :=
  f <- rs (read_bool "ref_pic_list_modification_flag") ;;
  if negb f then retE [] else fun s => read_mods_loop (S (length (bits s))) [] s.

Definition ref_pic_list_mods_read (fam : slice_family) : PE sliceerr ref_pic_list_mods :=
  match fam with
  | FamI | FamSI => retE RplI
  | FamB => a <- read_mod_list ;; b <- read_mod_list ;; retE (RplB a b)
  | FamP | FamSP => a <- read_mod_list ;; retE (RplP a)
  end.

(* PredWeightTable::read *)
Definition read_one_weight (mono : bool) : PE sliceerr (option pred_weight * option (list pred_weight)) :=
  lf <- rs (read_bool "luma_weight_l0_flag") ;;
  lw <- (if lf then w <- rs (read_se "luma_weight_l0") ;; o <- rs (read_se "luma_offset_l0") ;; retE (Some (mk_pw w o))
         else retE None) ;;
  if mono then retE (lw, None)
  else
    cf <- rs (read_bool "chroma_weight_l0_flag") ;;
    cw <- (if cf then
             w1 <- rs (read_se "chroma_weight_l0") ;; o1 <- rs (read_se "chroma_offset_l0") ;;
             w2 <- rs (read_se "chroma_weight_l0") ;; o2 <- rs (read_se "chroma_offset_l0") ;;
             retE [mk_pw w1 o1; mk_pw w2 o2]
           else retE []) ;;
    retE (lw, Some cw).

Fixpoint opt_list {A} (l : list (option A)) : list A :=
  match l with [] => [] | Some a :: r => a :: opt_list r | None :: r => opt_list r end.

Definition pred_weight_table_read (st : slice_type) (pp : pps) (sp : sps) (nra : option num_ref_idx_active)
  : PE sliceerr pred_weight_table :=
  let mono := if separate_colour_plane_flag (chroma_info_ sp) then true
              else chroma_format_eqb (chroma_format_ (chroma_info_ sp)) Monochrome in
  ld <- rs (read_ue "luma_log2_weight_denom") ;;
  cd <- (if mono then retE None else v <- rs (read_ue "chroma_log2_weight_denom") ;; retE (Some v)) ;;
  let l0 := match nra with
            | Some (NraP a) => a | Some (NraB a _) => a
            | None => num_ref_idx_l0_default_active_minus1 pp
            end in
  cnt <- liftO (add32 l0 1) ;;
  ws <- repE (N.to_nat cnt) (read_one_weight mono) ;;
  if family_eqb (family st) FamB then failE (UnsupportedSyntax "B frame")
  else retE (mk_pwt ld cd (map fst ws) (opt_list (map snd ws))).

(* the MMCO loop, fuel = S (remaining bits) *)
Fixpoint read_mmco_loop (fuel : nat) (acc : list mmco) : PE sliceerr (list mmco) :=
  match fuel with
  | O => fun _ => FUEL
  | S f =>
    op <- rs (read_ue "memory_management_control_operation") ;;
    match op with
    | 0 => retE acc
    | 1 => d <- rs (read_ue "difference_of_pic_nums_minus1") ;; read_mmco_loop f (acc ++ [MmShortTermUnused d])
    | 2 => n <- rs (read_ue "long_term_pic_num") ;; read_mmco_loop f (acc ++ [MmLongTermUnused n])
    | 3 => d <- rs (read_ue "difference_of_pic_nums_minus1") ;; i <- rs (read_ue "long_term_frame_idx") ;;
           read_mmco_loop f (acc ++ [MmShortTermUsedForLongTerm d i])
    | 4 => n <- rs (read_ue "max_long_term_frame_idx_plus1") ;; read_mmco_loop f (acc ++ [MmMaxUsedLongTerm n])
    | 5 => read_mmco_loop f (acc ++ [MmAllUnused])
    | 6 => i <- rs (read_ue "long_term_frame_idx") ;; read_mmco_loop f (acc ++ [MmCurrentUsedForLongTerm i])
    | v => failE (InvalidMemoryManagementControlOperation v)
    end
  end.

Definition dec_ref_pic_marking_read (unit_type : N) : PE sliceerr dec_ref_pic_marking :=
  if unit_type =? 5 then
    a <- rs (read_bool "no_output_of_prior_pics_flag") ;;
    b <- rs (read_bool "long_term_reference_flag") ;;
    retE (DrIdr a b)
  else
    ad <- rs (read_bool "adaptive_ref_pic_marking_mode_flag") ;;
    if ad then ops <- (fun s => read_mmco_loop (S (length (bits s))) [] s) ;; retE (DrAdaptive ops)
    else retE DrSlidingWindow.

(* SliceHeader::from_bits(ctx, r, header): returns the header and the ids of the activated PPS / SPS *)
Definition slice_header_read (ctx : context) (hdr : byte) : PE sliceerr (slice_header * N * N) :=
  let unit_type := nal_unit_type_id hdr in
  let ref_idc := nal_ref_idc hdr in
  fmb <- rs (read_ue "first_mb_in_slice") ;;
  stv <- rs (read_ue "slice_type") ;;
  match slice_type_from_id stv with
  | None => failE (InvalidSliceType stv)
  | Some st =>
    ppid <- rs (read_ue "pic_parameter_set_id") ;;
    match pic_param_set_id_from_u32 ppid with
    | None => failE (SlInvalidSeqParamSetId ppid)
    | Some pid =>
      match pps_by_id ctx pid with
      | None => failE (UndefinedPicParamSetId pid)
      | Some pp =>
        match sps_by_id ctx (pps_seq_parameter_set_id pp) with
        | None => failE (UndefinedSeqParamSetId (pps_seq_parameter_set_id pp))
        | Some sp =>
          let fam := family st in
          cp <- (if separate_colour_plane_flag (chroma_info_ sp) then
                   v <- rs (read_u 8 2 "colour_plane_id") ;;
                   if 2 <? v then failE (ColourPlaneError v) else retE (Some v)
                 else retE None) ;;
          l2 <- sps_help (log2_max_frame_num sp) ;;
          fn <- rs (read_u 16 l2 "frame_num") ;;
          fp <- (match frame_mbs_flags_ sp with
                 | Fields _ =>
                     f <- rs (read_bool "field_pic_flag") ;;
                     if f then b <- rs (read_bool "bottom_field_flag") ;; retE (if b then FpBottom else FpTop)
                     else retE FpFrame
                 | Frames => retE FpFrame
                 end) ;;
          let is_frame := match fp with FpFrame => true | _ => false end in
          idr <- (if unit_type =? 5 then v <- rs (read_ue "idr_pic_id") ;; retE (Some v) else retE None) ;;
          poc <- (match pic_order_cnt_ sp with
                  | PocTypeZero l =>
                      lsb <- rs (read_u 32 (l + 4) "pic_order_cnt_lsb") ;;
                      if bottom_field_pic_order_in_frame_present_flag pp && is_frame then
                        d <- rs (read_se "delta_pic_order_cnt_bottom") ;; retE (Some (PlFieldsAbsolute lsb d))
                      else retE (Some (PlFrame lsb))
                  | PocTypeOne az _ _ _ =>
                      if az then retE (Some (PlFieldsDelta 0 0))
                      else
                        d0 <- rs (read_se "delta_pic_order_cnt[0]") ;;
                        if bottom_field_pic_order_in_frame_present_flag pp && is_frame then
                          d1 <- rs (read_se "delta_pic_order_cnt[1]") ;; retE (Some (PlFieldsDelta d0 d1))
                        else retE (Some (PlFieldsDelta d0 0))
                  | PocTypeTwo => retE None
                  end) ;;
          red <- (if redundant_pic_cnt_present_flag pp then v <- rs (read_ue "redundant_pic_cnt ") ;; retE (Some v)
                  else retE None) ;;
          dsp <- (if family_eqb fam FamB then v <- rs (read_bool "direct_spatial_mv_pred_flag") ;; retE (Some v)
                  else retE None) ;;
          nra <- (if family_eqb fam FamP || family_eqb fam FamSP || family_eqb fam FamB then
                    ov <- rs (read_bool "num_ref_idx_active_override_flag") ;;
                    if ov then
                      a <- sl_read_num_ref_idx "num_ref_idx_l0_active_minus1" ;;
                      if family_eqb fam FamB then
                        b <- sl_read_num_ref_idx "num_ref_idx_l1_active_minus1" ;; retE (Some (NraB a b))
                      else retE (Some (NraP a))
                    else retE None
                  else retE None) ;;
          if (unit_type =? 20) || (unit_type =? 21) then
            failE (UnsupportedSyntax "NALU types 20 and 21 not yet supported")
          else
          rpl <- ref_pic_list_mods_read fam ;;
          pwt <- (if (weighted_pred_flag pp && (family_eqb fam FamP || family_eqb fam FamSP))
                     || ((weighted_bipred_idc pp =? 1) && family_eqb fam FamB)
                  then t <- pred_weight_table_read st pp sp nra ;; retE (Some t)
                  else retE None) ;;
          drm <- (if ref_idc =? 0 then retE None
                  else m <- dec_ref_pic_marking_read unit_type ;; retE (Some m)) ;;
          cab <- (if entropy_coding_mode_flag pp && negb (family_eqb fam FamI) && negb (family_eqb fam FamSI)
                  then v <- rs (read_ue "cabac_init_idc") ;; retE (Some v) else retE None) ;;
          qpd <- rs (read_se "slice_qp_delta") ;;
          if (51 <? qpd)%Z then failE (InvalidSliceQpDelta qpd) else
          spq <- (if family_eqb fam FamSP || family_eqb fam FamSI then
                    sw <- (if family_eqb fam FamSP then v <- rs (read_bool "sp_for_switch_flag") ;; retE (Some v)
                           else retE None) ;;
                    qsd <- rs (read_se "slice_qs_delta") ;;
                    (* (26 + pic_init_qs_minus26).checked_add(slice_qs_delta).filter(0..=51) *)
                    base <- liftO (addi32 26 (pic_init_qs_minus26 pp)) ;;
                    let q := (base + qsd)%Z in
                    if in_i32 q && (0 <=? q)%Z && (q <=? 51)%Z then retE (sw, Some (Z.to_N q))
                    else failE (InvalidSliceQsDelta qsd)
                  else retE (None, None)) ;;
          ddf <- (if deblocking_filter_control_present_flag pp then
                    v <- rs (read_ue "disable_deblocking_filter_idc") ;;
                    if 6 <? v then failE (InvalidDisableDeblockingFilterIdc v) else
                    if negb (v =? 1) then
                      a <- rs (read_se "slice_alpha_c0_offset_div2") ;;
                      if ((a <? -6) || (6 <? a))%Z then failE (InvalidSliceAlphaC0OffsetDiv2 a) else
                      _b <- rs (read_se "slice_beta_offset_div2") ;; retE v
                    else retE v
                  else retE 0) ;;
          more <- rs (has_more_rbsp_data "slice_header") ;;
          if negb more then failE (SlRbspError (ReaderErrorFor "slice_header" UnexpectedEof)) else
          retE (mk_sh fmb st cp fn fp idr poc red dsp nra rpl pwt drm cab qpd (fst spq) (snd spq) ddf,
                pps_seq_parameter_set_id pp, pid)
        end
      end
    end
  end.
