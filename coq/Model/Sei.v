(* Model of nal::sei::SeiReader (src/nal/sei/mod.rs:143-243) over the bytes a ByteReader delivers,
   and of the payload parsers buffering_period / pic_timing. *)
From H264 Require Import Base.Prelude Base.Bits Model.BitReader Model.Parser Model.Sps Model.Context Model.Pps.

(* byte source: what the RBSP reader delivers before its first error, and how it ends *)
Record bsrc := mk_bsrc { sbytes : list byte; stail : tailk }.

Record sei_reader := mk_sr { sr_src : bsrc; payloads_seen : N; sr_done : bool }.
Definition sei_new (s : bsrc) : sei_reader := mk_sr s 0 false.

(* read_u32: sum of bytes up to and including the first one that is not 0xFF; checked_add *)
Fixpoint read_u32_loop (fuel : nat) (l : list byte) (acc : N) : option (out iokind (N * list byte)) :=
  match fuel with
  | O => None
  | S f =>
    match l with
    | [] => Some (ERR UnexpectedEof)        (* placeholder kind: replaced by the tail's kind by the caller *)
    | b :: r =>
      if two32 <=? acc + b then Some (ERR InvalidData)
      else if b =? 255 then read_u32_loop f r (acc + b)
      else Some (OK (acc + b, r))
    end
  end.

Definition read_u32 (nm : string) (s : bsrc) : out biterr (N * bsrc) :=
  match read_u32_loop (S (length (sbytes s))) (sbytes s) 0 with
  | None => FUEL
  | Some (OK (v, r)) => OK (v, mk_bsrc r (stail s))
  | Some (ERR InvalidData) => ERR (ReaderErrorFor nm InvalidData)
  | Some (ERR _) => ERR (ReaderErrorFor nm (kind_of_tail (stail s)))
  | Some (PANIC w) => PANIC w
  | Some FUEL => FUEL
  end.

Inductive sei_msg := mk_msg (payload_type : N) (payload : list byte).

(* SeiReader::next: (result, new reader state) *)
Definition sei_next (r : sei_reader) : out biterr (option sei_msg) * sei_reader :=
  if sr_done r then (OK None, r) else
  let dead := mk_sr (sr_src r) (payloads_seen r) true in
  match read_u32 "payload_type" (sr_src r) with
  | ERR e => (ERR e, dead) | PANIC w => (PANIC w, dead) | FUEL => (FUEL, dead)
  | OK (pt, s1) =>
    let at_end_check :=
      if (pt =? 128) && (0 <? payloads_seen r) then
        match sbytes s1, stail s1 with
        | [], TEof => Some (OK None)
        | [], t => Some (ERR (ReaderErrorFor "payload_type" (kind_of_tail t)))
        | _, _ => None
        end
      else None in
    match at_end_check with
    | Some res => (res, mk_sr s1 (payloads_seen r) true)
    | None =>
      match read_u32 "payload_len" s1 with
      | ERR e => (ERR e, dead) | PANIC w => (PANIC w, dead) | FUEL => (FUEL, dead)
      | OK (len, s2) =>
        if N.of_nat (length (sbytes s2)) <? len then
          (ERR (ReaderErrorFor "payload" (kind_of_tail (stail s2))), dead)
        else
          let n := N.to_nat len in
          (OK (Some (mk_msg pt (firstn n (sbytes s2)))),
           mk_sr (mk_bsrc (skipn n (sbytes s2)) (stail s2)) (payloads_seen r + 1) false)
      end
    end
  end.

(* call next until it reports None or an error, then `extra` more times *)
Fixpoint sei_run (fuel : nat) (extra : nat) (after : nat) (r : sei_reader) : list (out biterr (option sei_msg)) :=
  match fuel with
  | O => []
  | S f =>
    let '(res, r') := sei_next r in
    let ended := match res with OK (Some _) => false | _ => true end in
    if ended || Nat.ltb 0 after then
      if Nat.ltb extra (S after) then [res] else res :: sei_run f extra (S after) r'
    else res :: sei_run f extra after r'
  end.

(* ---- buffering_period ---- *)
Inductive bperr := BpReaderError (e : biterr) | BpUndefinedSeqParamSetId (id : N) | BpInvalidSeqParamSetId (n : N).
Record buffering_period := mk_bp { nal_hrd_bp : option (list (N * N)); vcl_hrd_bp : option (list (N * N)) }.

Local Open Scope pe_scope.
Definition rb {A} (p : P A) : PE bperr A := liftE BpReaderError p.

Definition read_cpb_removal_delay_list (count : nat) (len : N) : PE bperr (list (N * N)) :=
  repE count (a <- rb (read_u 32 len "initial_cpb_removal_delay") ;;
              b <- rb (read_u 32 len "initial_cpb_removal_delay_offset") ;; retE (a, b)).

Definition bp_hrd (h : option hrd_parameters) : PE bperr (option (list (N * N))) :=
  match h with
  | None => retE None
  | Some p => l <- read_cpb_removal_delay_list (length (cpb_specs p)) (initial_cpb_removal_delay_length_minus1 p + 1) ;;
              retE (Some l)
  end.

Definition buffering_period_read (ctx : context) (payload : list byte) : out bperr buffering_period :=
  let s := mk_src (bits_of_bytes payload) TEof in
  let body : PE bperr buffering_period :=
    idv <- rb (read_ue "seq_parameter_set_id") ;;
    match seq_param_set_id_from_u32 idv with
    | None => failE (BpInvalidSeqParamSetId idv)
    | Some id =>
      match sps_by_id ctx id with
      | None => failE (BpUndefinedSeqParamSetId id)
      | Some sp =>
        let vui := vui_parameters_ sp in
        n <- bp_hrd (match vui with Some v => nal_hrd_parameters v | None => None end) ;;
        v <- bp_hrd (match vui with Some v => vcl_hrd_parameters v | None => None end) ;;
        retE (mk_bp n v)
      end
    end in
  match body s with
  | OK (v, s') => match finish_sei_payload s' with
                  | OK _ => OK v | ERR e => ERR (BpReaderError e) | PANIC w => PANIC w | FUEL => FUEL
                  end
  | ERR e => ERR e | PANIC w => PANIC w | FUEL => FUEL
  end.

(* ---- pic_timing ---- *)
Inductive pterr := PtRbspError (e : biterr) | PtInvalidPicStructId (n : N).
Inductive sec_min_hour := SmhNone | SmhS (s : N) | SmhSM (s m : N) | SmhSMH (s m h : N).
Record clock_timestamp := mk_ct {
  ct_type : N; nuit_field_based_flag : bool; counting_type : N; discontinuity_flag : bool; cnt_dropped_flag : bool;
  n_frames : N; smh : sec_min_hour; time_offset : option Z }.
Record pic_timing := mk_pt { pt_delays : option (N * N); pt_pic_struct : option (N * list (option clock_timestamp)) }.

Definition rp {A} (p : P A) : PE pterr A := liftE PtRbspError p.

Definition num_clock_timestamps (pic_struct : N) : nat :=
  match pic_struct with
  | 0 | 1 | 2 => 1%nat | 3 | 4 | 7 => 2%nat | 5 | 6 | 8 => 3%nat | _ => 0%nat
  end.

Definition clock_timestamp_read (sp : sps) : PE pterr clock_timestamp :=
  ct <- rp (read_u 8 2 "ct_type") ;;
  nu <- rp (read_bool "nuit_field_based_flag") ;;
  cn <- rp (read_u 8 5 "counting_type") ;;
  full <- rp (read_bool "full_timestamp_flag") ;;
  disc <- rp (read_bool "discontinuity_flag") ;;
  drop <- rp (read_bool "cnt_dropped_flag") ;;
  nf <- rp (read_u 8 8 "n_frames") ;;
  t <- (if full then
          s <- rp (read_u 8 6 "seconds_value") ;; m <- rp (read_u 8 6 "minutes_value") ;; h <- rp (read_u 8 5 "hours_value") ;;
          retE (SmhSMH s m h)
        else
          sf <- rp (read_bool "seconds_flag") ;;
          if sf then
            s <- rp (read_u 8 6 "seconds_value") ;;
            mf <- rp (read_bool "minutes_flag") ;;
            if mf then
              m <- rp (read_u 8 6 "minutes_value") ;;
              hf <- rp (read_bool "hours_flag") ;;
              if hf then h <- rp (read_u 8 5 "hours_value") ;; retE (SmhSMH s m h)
              else retE (SmhSM s m)
            else retE (SmhS s)
          else retE SmhNone) ;;
  let tol := match vui_parameters_ sp with
             | Some v => match nal_hrd_parameters v with
                         | Some h => time_offset_length h
                         | None => match vcl_hrd_parameters v with Some h => time_offset_length h | None => 24 end
                         end
             | None => 24
             end in
  off <- (if tol =? 0 then retE None
          else raw <- rp (read_u 32 tol "time_offset_length") ;; retE (Some (sign_extend tol raw))) ;;
  retE (mk_ct ct nu cn disc drop nf t off).

Definition pic_timing_read (sp : sps) (payload : list byte) : out pterr pic_timing :=
  let s := mk_src (bits_of_bytes payload) TEof in
  let body : PE pterr pic_timing :=
    delays <- (match vui_parameters_ sp with
               | Some v =>
                 match (match nal_hrd_parameters v with Some h => Some h | None => vcl_hrd_parameters v end) with
                 | Some h =>
                     a <- rp (read_u 32 (cpb_removal_delay_length_minus1 h + 1) "cpb_removal_delay") ;;
                     b <- rp (read_u 32 (dpb_output_delay_length_minus1 h + 1) "dpb_output_delay") ;;
                     retE (Some (a, b))
                 | None => retE None
                 end
               | None => retE None
               end) ;;
    ps <- (match vui_parameters_ sp with
           | Some v =>
             if pic_struct_present_flag v then
               id <- rp (read_u 8 4 "pic_struct") ;;
               if 15 <? id then failE (PtInvalidPicStructId id) else
               cts <- repE (num_clock_timestamps id)
                        (f <- rp (read_bool "clock_timestamp_flag") ;;
                         if f then c <- clock_timestamp_read sp ;; retE (Some c) else retE None) ;;
               retE (Some (id, cts))
             else retE None
           | None => retE None
           end) ;;
    retE (mk_pt delays ps) in
  match body s with
  | OK (v, s') => match finish_sei_payload s' with
                  | OK _ => OK v | ERR e => ERR (PtRbspError e) | PANIC w => PANIC w | FUEL => FUEL
                  end
  | ERR e => ERR e | PANIC w => PANIC w | FUEL => FUEL
  end.
