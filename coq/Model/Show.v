(* Rendering of model values in the harness's answer grammar (Rust `{:?}` with whitespace removed). *)
From Coq Require Import DecimalString.
From H264 Require Import Base.Prelude.
Local Open Scope string_scope.

Definition show_N (n : N) : string := NilZero.string_of_uint (N.to_uint n).
Definition show_Z (z : Z) : string := NilZero.string_of_int (Z.to_int z).
Definition show_nat (n : nat) : string := show_N (N.of_nat n).
Definition show_bool (b : bool) : string := if b then "true" else "false".
Definition show_bit (b : bool) : string := if b then "1" else "0".

Definition hex_digit (n : N) : string :=
  match n with
  | 0%N => "0" | 1%N => "1" | 2%N => "2" | 3%N => "3" | 4%N => "4" | 5%N => "5" | 6%N => "6" | 7%N => "7"
  | 8%N => "8" | 9%N => "9" | 10%N => "a" | 11%N => "b" | 12%N => "c" | 13%N => "d" | 14%N => "e" | _ => "f"
  end.
Definition hex_byte (b : byte) : string := hex_digit (b / 16 mod 16) ++ hex_digit (b mod 16).

(* concatenation of many pieces by pairwise merging: n log n character copies where the right-nested fold takes n^2
   with the extracted (native, immutable) strings - long NALs and id lists are printed with this *)
Fixpoint pair_up (l : list string) : list string :=
  match l with a :: b :: r => (a ++ b) :: pair_up r | _ => l end.
Fixpoint cat_rounds (n : nat) (l : list string) : string :=
  match n with
  | O => fold_right append "" l
  | S n' => match l with [] => "" | [x] => x | _ => cat_rounds n' (pair_up l) end
  end.
Definition cat (l : list string) : string := cat_rounds 64 l.

Definition hex_body (l : list byte) : string := cat (map hex_byte l).
Definition hex (l : list byte) : string := match l with [] => "-" | _ => hex_body l end.

Fixpoint intersperse (sep : string) (l : list string) : list string :=
  match l with
  | [] => []
  | [x] => [x]
  | x :: r => x :: sep :: intersperse sep r
  end.
Definition join (sep : string) (l : list string) : string := cat (intersperse sep l).

Definition show_list {A} (f : A -> string) (l : list A) : string := "[" ++ join "," (map f l) ++ "]".
Definition show_option {A} (f : A -> string) (o : option A) : string :=
  match o with None => "None" | Some a => "Some(" ++ f a ++ ")" end.

Definition show_iokind (k : iokind) : string :=
  match k with
  | UnexpectedEof => "UnexpectedEof" | WouldBlock => "WouldBlock"
  | InvalidData => "InvalidData" | InvalidInput => "InvalidInput"
  end.

(* field lists: "Name{a:1,b:2}" *)
Definition show_struct (name : string) (fields : list (string * string)) : string :=
  name ++ "{" ++ join "," (map (fun p => fst p ++ ":" ++ snd p) fields) ++ "}".
