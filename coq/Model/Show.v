(* Rendering of model values in the harness's answer grammar (Rust `{:?}` with whitespace removed). *)
From Coq Require Import DecimalString.
From H264 Require Import Base.Prelude.
Local Open Scope string_scope.

Definition show_N (n : N) : string := NilZero.string_of_uint (N.to_uint n).
Definition show_Z (z : Z) : string := NilZero.string_of_int (Z.to_int z).
Definition show_nat (n : nat) : string := show_N (N.of_nat n).
Definition show_bool (b : bool) : string := if b then "true" else "false".
Definition show_bit (b : bool) : string := if b then "1" else "0".

Definition hex_digit (n : N) : string :=
  match n with
  | 0%N => "0" | 1%N => "1" | 2%N => "2" | 3%N => "3" | 4%N => "4" | 5%N => "5" | 6%N => "6" | 7%N => "7"
  | 8%N => "8" | 9%N => "9" | 10%N => "a" | 11%N => "b" | 12%N => "c" | 13%N => "d" | 14%N => "e" | _ => "f"
  end.
Definition hex_byte (b : byte) : string := hex_digit (b / 16 mod 16) ++ hex_digit (b mod 16).
Fixpoint hex_body (l : list byte) : string :=
  match l with [] => "" | b :: r => hex_byte b ++ hex_body r end.
Definition hex (l : list byte) : string := match l with [] => "-" | _ => hex_body l end.

Fixpoint join (sep : string) (l : list string) : string :=
  match l with
  | [] => ""
  | [x] => x
  | x :: r => x ++ sep ++ join sep r
  end.

Definition show_list {A} (f : A -> string) (l : list A) : string := "[" ++ join "," (map f l) ++ "]".
Definition show_option {A} (f : A -> string) (o : option A) : string :=
  match o with None => "None" | Some a => "Some(" ++ f a ++ ")" end.

Definition show_iokind (k : iokind) : string :=
  match k with
  | UnexpectedEof => "UnexpectedEof" | WouldBlock => "WouldBlock"
  | InvalidData => "InvalidData" | InvalidInput => "InvalidInput"
  end.

(* field lists: "Name{a:1,b:2}" *)
Definition show_struct (name : string) (fields : list (string * string)) : string :=
  name ++ "{" ++ join "," (map (fun p => fst p ++ ":" ++ snd p) fields) ++ "}".
