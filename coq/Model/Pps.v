(* Model of nal::pps (src/nal/pps.rs): PicParameterSet::from_bits and helpers. *)
From H264 Require Import Base.Prelude Base.Bits Model.BitReader Model.Parser Model.Sps Model.SpsDerived Model.Context.
Local Open Scope pe_scope.

Inductive slice_group :=
| SgInterleaved (run_length_minus1 : list N)
| SgDispersed (num_slice_groups_minus1 : N)
| SgForeground (rectangles : list (N * N))
| SgChanging (change_type : N) (num_slice_groups_minus1 : N) (direction : bool) (rate_minus1 : N)
| SgExplicit (num_slice_groups_minus1 : N) (slice_group_id : list N).

Record pic_scaling_matrix := mk_psm { psm4x4 : list scaling_list; psm8x8 : option (list scaling_list) }.
Record pps_extra := mk_ext { transform_8x8_mode_flag : bool; pic_scaling_matrix_ : option pic_scaling_matrix;
                             second_chroma_qp_index_offset : Z }.

Record pps := mk_pps {
  pic_parameter_set_id : N;
  pps_seq_parameter_set_id : N;
  entropy_coding_mode_flag : bool;
  bottom_field_pic_order_in_frame_present_flag : bool;
  slice_groups : option slice_group;
  num_ref_idx_l0_default_active_minus1 : N;
  num_ref_idx_l1_default_active_minus1 : N;
  weighted_pred_flag : bool;
  weighted_bipred_idc : N;
  pic_init_qp_minus26 : Z;
  pic_init_qs_minus26 : Z;
  chroma_qp_index_offset : Z;
  deblocking_filter_control_present_flag : bool;
  constrained_intra_pred_flag : bool;
  redundant_pic_cnt_present_flag : bool;
  extension : option pps_extra }.

Inductive ppserr :=
| PpsRbspReaderError (e : biterr)
| InvalidSliceGroupMapType (n : N)
| InvalidNumSliceGroupsMinus1 (n : N)
| InvalidNumRefIdx (name : string) (n : N)
| InvalidSliceGroupChangeType (n : N)
| UnknownSeqParamSetId (id : N)
| BadPicParamSetId (n : N)
| PpsBadSeqParamSetId (n : N)
| PpsScalingMatrix (e : smerr)
| InvalidSecondChromaQpIndexOffset (z : Z)
| InvalidPicInitQpMinus26 (z : Z)
| InvalidPicInitQsMinus26 (z : Z)
| InvalidChromaQpIndexOffset (z : Z)
| InvalidRunLengthMinus1 (n : N)
| InvalidTopLeft (n : N)
| InvalidBottomRight (n : N)
| InvalidSliceGroupChangeRateMinus1 (n : N).

Record context := mk_ctx { ctx_sps : list (option sps); ctx_pps : list (option pps) }.
Definition ctx_empty : context := mk_ctx [] [].
Definition sps_by_id (c : context) (id : N) : option sps := map_get (ctx_sps c) (N.to_nat id).
Definition pps_by_id (c : context) (id : N) : option pps := map_get (ctx_pps c) (N.to_nat id).
Definition put_seq_param_set (c : context) (s : sps) : context :=
  mk_ctx (map_put (ctx_sps c) (N.to_nat (seq_parameter_set_id s)) s) (ctx_pps c).
Definition put_pic_param_set (c : context) (p : pps) : context :=
  mk_ctx (ctx_sps c) (map_put (ctx_pps c) (N.to_nat (pic_parameter_set_id p)) p).

(* helpers of the SPS that can abort only on values no parsed SPS has *)
Definition sps_helper {A} (x : out spserr A) : PE ppserr A :=
  fun s => match x with
           | OK a => OK (a, s)
           | ERR _ => PANIC "sps helper returned an error"
           | PANIC w => PANIC w
           | FUEL => FUEL
           end.

Definition rd {A} (p : P A) : PE ppserr A := liftE PpsRbspReaderError p.

(* SliceRect::read *)
Definition slice_rect_read (sp : sps) : PE ppserr (N * N) :=
  tl <- rd (read_ue "top_left") ;;
  br <- rd (read_ue "bottom_right") ;;
  if br <? tl then failE (InvalidTopLeft tl) else
  size <- sps_helper (pic_size_in_map_units sp) ;;
  if size <? br then failE (InvalidBottomRight br) else
  w <- sps_helper (pic_width_in_mbs sp) ;;
  if w =? 0 then panicE "attempt to calculate the remainder with a divisor of zero" else
  if br mod w <? tl mod w then failE (InvalidTopLeft tl) else
  retE (tl, br).

Definition read_run_length (sp : sps) : PE ppserr N :=
  v <- rd (read_ue "run_length_minus1") ;;
  size <- sps_helper (pic_size_in_map_units sp) ;;
  sm1 <- liftO (sub32 size 1) ;;
  if sm1 <? v then failE (InvalidRunLengthMinus1 v) else retE v.

(* ceil(log2(1 + n)) computed in f64 for n in 1..7 *)
Definition ceil_log2_1p (n : N) : N :=
  match n with 0 => 0 | 1 => 1 | 2 | 3 => 2 | _ => 3 end.

(* the `for _ in 0..pic_size_in_map_units_minus1 + 1` loop; every iteration reads size >= 1 bits,
   so the number of iterations is bounded by the bits available: fuel = S (remaining bits) *)
Fixpoint read_ids_loop (fuel : nat) (count : N) (size : N) (acc : list N) : PE ppserr (list N) :=
  match fuel with
  | O => fun _ => FUEL
  | S f => if count =? 0 then retE acc
           else x <- rd (read_u 32 size "slice_group_id") ;; read_ids_loop f (count - 1) size (acc ++ [x])
  end.

Definition read_group_ids (n : N) : PE ppserr (list N) :=
  m1 <- rd (read_ue "pic_size_in_map_units_minus1") ;;
  cnt <- liftO (add32 m1 1) ;;
  fun s => read_ids_loop (S (length (bits s))) cnt (ceil_log2_1p n) [] s.

Definition slice_group_read (n : N) (sp : sps) : PE ppserr slice_group :=
  t <- rd (read_ue "slice_group_map_type") ;;
  match t with
  | 0 => np1 <- liftO (add32 n 1) ;;
         l <- repE (N.to_nat np1) (read_run_length sp) ;; retE (SgInterleaved l)
  | 1 => retE (SgDispersed n)
  | 2 => l <- repE (N.to_nat n) (slice_rect_read sp) ;; retE (SgForeground l)
  | 3 | 4 | 5 =>
      d <- rd (read_bool "slice_group_change_direction_flag") ;;
      r <- rd (read_ue "slice_group_change_rate_minus1") ;;
      size <- sps_helper (pic_size_in_map_units sp) ;;
      sm1 <- liftO (sub32 size 1) ;;
      if sm1 <? r then failE (InvalidSliceGroupChangeRateMinus1 r)
      else retE (SgChanging t n d r)
  | 6 => ids <- read_group_ids n ;; retE (SgExplicit n ids)
  | _ => failE (InvalidSliceGroupMapType t)
  end.

Definition read_slice_groups (sp : sps) : PE ppserr (option slice_group) :=
  n <- rd (read_ue "num_slice_groups_minus1") ;;
  if 7 <? n then failE (InvalidNumSliceGroupsMinus1 n)
  else if 0 <? n then g <- slice_group_read n sp ;; retE (Some g)
  else retE None.

Definition read_num_ref_idx (nm : string) : PE ppserr N :=
  v <- rd (read_ue nm) ;;
  if 31 <? v then failE (InvalidNumRefIdx nm v) else retE v.

(* the loop of PicScalingMatrix::read *)
Fixpoint read_pic_scaling_lists (n : nat) (i : nat) (l4 l8 : list scaling_list) : PE ppserr (list scaling_list * list scaling_list) :=
  match n with
  | O => retE (l4, l8)
  | S n' =>
    flag <- rd (read_bool "seq_scaling_list_present_flag") ;;
    if Nat.ltb i 6 then sl <- mapE PpsScalingMatrix (read_scaling_list 16 flag) ;; read_pic_scaling_lists n' (S i) (l4 ++ [sl]) l8
    else sl <- mapE PpsScalingMatrix (read_scaling_list 64 flag) ;; read_pic_scaling_lists n' (S i) l4 (l8 ++ [sl])
  end.

Definition pic_scaling_matrix_read (sp : sps) (t8x8 : bool) : PE ppserr (option pic_scaling_matrix) :=
  f <- rd (read_bool "pic_scaling_matrix_present_flag") ;;
  if negb f then retE None else
  let count := if t8x8 then (if chroma_format_eqb (chroma_format_ (chroma_info_ sp)) YUV444 then 6 else 2)%nat else 0%nat in
  r <- read_pic_scaling_lists (6 + count) 0 [] [] ;;
  retE (Some (mk_psm (fst r) (match snd r with [] => None | l => Some l end))).

Definition pps_extra_read (sp : sps) : PE ppserr (option pps_extra) :=
  more <- rd (has_more_rbsp_data "transform_8x8_mode_flag") ;;
  if more then
    t <- rd (read_bool "transform_8x8_mode_flag") ;;
    m <- pic_scaling_matrix_read sp t ;;
    q <- rd (read_se "second_chroma_qp_index_offset") ;;
    if ((q <? -12) || (12 <? q))%Z then failE (InvalidSecondChromaQpIndexOffset q)
    else retE (Some (mk_ext t m q))
  else retE None.

Definition pic_param_set_id_from_u32 (id : N) : option N := if 255 <? id then None else Some id.

Definition pps_body (ctx : context) : PE ppserr pps :=
  idv <- rd (read_ue "pic_parameter_set_id") ;;
  match pic_param_set_id_from_u32 idv with
  | None => failE (BadPicParamSetId idv)
  | Some id =>
    sidv <- rd (read_ue "seq_parameter_set_id") ;;
    match seq_param_set_id_from_u32 sidv with
    | None => failE (PpsBadSeqParamSetId sidv)
    | Some sid =>
      match sps_by_id ctx sid with
      | None => failE (UnknownSeqParamSetId sid)
      | Some sp =>
        ec <- rd (read_bool "entropy_coding_mode_flag") ;;
        bf <- rd (read_bool "bottom_field_pic_order_in_frame_present_flag") ;;
        sg <- read_slice_groups sp ;;
        l0 <- read_num_ref_idx "num_ref_idx_l0_default_active_minus1" ;;
        l1 <- read_num_ref_idx "num_ref_idx_l1_default_active_minus1" ;;
        wp <- rd (read_bool "weighted_pred_flag") ;;
        wb <- rd (read_u 8 2 "weighted_bipred_idc") ;;
        qp <- rd (read_se "pic_init_qp_minus26") ;;
        qs <- rd (read_se "pic_init_qs_minus26") ;;
        cq <- rd (read_se "chroma_qp_index_offset") ;;
        db <- rd (read_bool "deblocking_filter_control_present_flag") ;;
        ci <- rd (read_bool "constrained_intra_pred_flag") ;;
        rp <- rd (read_bool "redundant_pic_cnt_present_flag") ;;
        ext <- pps_extra_read sp ;;
        let qp_bd_offset_y := (6 * Z.of_N (bit_depth_luma_minus8 (chroma_info_ sp)))%Z in
        if ((qp <? - (26 + qp_bd_offset_y)) || (25 <? qp))%Z then failE (InvalidPicInitQpMinus26 qp) else
        if ((qs <? -26) || (25 <? qs))%Z then failE (InvalidPicInitQsMinus26 qs) else
        if ((cq <? -12) || (12 <? cq))%Z then failE (InvalidChromaQpIndexOffset cq) else
        retE (mk_pps id sid ec bf sg l0 l1 wp wb qp qs cq db ci rp ext)
      end
    end
  end.

Definition pps_from_bits (ctx : context) (s : src) : out ppserr pps :=
  match pps_body ctx s with
  | OK (v, s') => match finish_rbsp s' with
                  | OK _ => OK v
                  | ERR e => ERR (PpsRbspReaderError e)
                  | PANIC w => PANIC w
                  | FUEL => FUEL
                  end
  | ERR e => ERR e
  | PANIC w => PANIC w
  | FUEL => FUEL
  end.
