From H264 Require Import Base.Prelude Model.Show Model.BitReader Model.Sps Model.ShowSps Model.Pps Model.Slice.
Local Open Scope string_scope.

Definition show_family (f : slice_family) : string :=
  match f with FamP => "P" | FamB => "B" | FamI => "I" | FamSP => "SP" | FamSI => "SI" end.
Definition show_slice_type (t : slice_type) : string :=
  show_struct "SliceType" [("family", show_family (family t)); ("exclusive", if exclusive t then "Exclusive" else "NonExclusive")].
Definition show_colour_plane (n : N) : string := match n with 0%N => "Y" | 1%N => "Cb" | _ => "Cr" end.
Definition show_field_pic (f : field_pic) : string :=
  match f with FpFrame => "Frame" | FpTop => "Field(Top)" | FpBottom => "Field(Bottom)" end.
Definition show_poc_lsb (p : poc_lsb) : string :=
  match p with
  | PlFrame n => "Frame(" ++ show_N n ++ ")"
  | PlFieldsAbsolute n d => show_struct "FieldsAbsolute" [("pic_order_cnt_lsb", show_N n); ("delta_pic_order_cnt_bottom", show_Z d)]
  | PlFieldsDelta a b => "FieldsDelta([" ++ show_Z a ++ "," ++ show_Z b ++ "])"
  end.
Definition show_nra (n : num_ref_idx_active) : string :=
  match n with
  | NraP a => show_struct "P" [("num_ref_idx_l0_active_minus1", show_N a)]
  | NraB a b => show_struct "B" [("num_ref_idx_l0_active_minus1", show_N a); ("num_ref_idx_l1_active_minus1", show_N b)]
  end.
Definition show_mod (m : modification) : string :=
  match m with
  | ModSubtract n => "Subtract(" ++ show_N n ++ ")" | ModAdd n => "Add(" ++ show_N n ++ ")"
  | ModLongTermRef n => "LongTermRef(" ++ show_N n ++ ")"
  end.
Definition show_rpl (r : ref_pic_list_mods) : string :=
  match r with
  | RplI => "I"
  | RplP a => show_struct "P" [("ref_pic_list_modification_l0", show_list show_mod a)]
  | RplB a b => show_struct "B" [("ref_pic_list_modification_l0", show_list show_mod a);
                                 ("ref_pic_list_modification_l1", show_list show_mod b)]
  end.
Definition show_pw (p : pred_weight) : string :=
  show_struct "PredWeight" [("weight", show_Z (pw_weight p)); ("offset", show_Z (pw_offset p))].
Definition show_pwt (t : pred_weight_table) : string :=
  show_struct "PredWeightTable" [
    ("luma_log2_weight_denom", show_N (luma_log2_weight_denom t));
    ("chroma_log2_weight_denom", show_option show_N (chroma_log2_weight_denom t));
    ("luma_weights", show_list (show_option show_pw) (luma_weights t));
    ("chroma_weights", show_list (show_list show_pw) (chroma_weights t))].
Definition show_mmco (m : mmco) : string :=
  match m with
  | MmShortTermUnused d => show_struct "ShortTermUnusedForRef" [("difference_of_pic_nums_minus1", show_N d)]
  | MmLongTermUnused n => show_struct "LongTermUnusedForRef" [("long_term_pic_num", show_N n)]
  | MmShortTermUsedForLongTerm d i =>
      show_struct "ShortTermUsedForLongTerm" [("difference_of_pic_nums_minus1", show_N d); ("long_term_frame_idx", show_N i)]
  | MmMaxUsedLongTerm n => show_struct "MaxUsedLongTermFrameRef" [("max_long_term_frame_idx_plus1", show_N n)]
  | MmAllUnused => "AllRefPicturesUnused"
  | MmCurrentUsedForLongTerm i => show_struct "CurrentUsedForLongTerm" [("long_term_frame_idx", show_N i)]
  end.
Definition show_drm (d : dec_ref_pic_marking) : string :=
  match d with
  | DrIdr a b => show_struct "Idr" [("no_output_of_prior_pics_flag", show_bool a); ("long_term_reference_flag", show_bool b)]
  | DrSlidingWindow => "SlidingWindow"
  | DrAdaptive ops => "Adaptive(" ++ show_list show_mmco ops ++ ")"
  end.

Definition show_slice_header (h : slice_header) : string :=
  show_struct "SliceHeader" [
    ("first_mb_in_slice", show_N (first_mb_in_slice h));
    ("slice_type", show_slice_type (sh_slice_type h));
    ("colour_plane", show_option show_colour_plane (colour_plane h));
    ("frame_num", show_N (frame_num h));
    ("field_pic", show_field_pic (sh_field_pic h));
    ("idr_pic_id", show_option show_N (idr_pic_id h));
    ("pic_order_cnt_lsb", show_option show_poc_lsb (pic_order_cnt_lsb h));
    ("redundant_pic_cnt", show_option show_N (redundant_pic_cnt h));
    ("direct_spatial_mv_pred_flag", show_option show_bool (direct_spatial_mv_pred_flag h));
    ("num_ref_idx_active", show_option show_nra (sh_num_ref_idx_active h));
    ("ref_pic_list_modification", "Some(" ++ show_rpl (ref_pic_list_modification h) ++ ")");
    ("pred_weight_table", show_option show_pwt (sh_pred_weight_table h));
    ("dec_ref_pic_marking", show_option show_drm (sh_dec_ref_pic_marking h));
    ("cabac_init_idc", show_option show_N (cabac_init_idc h));
    ("slice_qp_delta", show_Z (slice_qp_delta h));
    ("sp_for_switch_flag", show_option show_bool (sp_for_switch_flag h));
    ("slice_qs", show_option show_N (slice_qs h));
    ("disable_deblocking_filter_idc", show_N (disable_deblocking_filter_idc h))].

Definition show_sliceerr (e : sliceerr) : string :=
  match e with
  | SlRbspError b => "RbspError(" ++ show_biterr_dbg b ++ ")"
  | InvalidSliceType n => "InvalidSliceType(" ++ show_N n ++ ")"
  | SlInvalidSeqParamSetId n => "InvalidSeqParamSetId(IdTooLarge(" ++ show_N n ++ "))"
  | UndefinedPicParamSetId id => "UndefinedPicParamSetId(PicParamSetId(" ++ show_N id ++ "))"
  | UndefinedSeqParamSetId id => "UndefinedSeqParamSetId(SeqParamSetId(" ++ show_N id ++ "))"
  | ColourPlaneError id => "ColourPlaneError(InvalidId(" ++ show_N id ++ "))"
  | InvalidModificationOfPicNumIdc n => "InvalidModificationOfPicNumIdc(" ++ show_N n ++ ")"
  | InvalidMemoryManagementControlOperation n => "InvalidMemoryManagementControlOperation(" ++ show_N n ++ ")"
  | InvalidSliceQpDelta z => "InvalidSliceQpDelta(" ++ show_Z z ++ ")"
  | InvalidSliceQsDelta z => "InvalidSliceQsDelta(" ++ show_Z z ++ ")"
  | InvalidDisableDeblockingFilterIdc n => "InvalidDisableDeblockingFilterIdc(" ++ show_N n ++ ")"
  | InvalidSliceAlphaC0OffsetDiv2 z => "InvalidSliceAlphaC0OffsetDiv2(" ++ show_Z z ++ ")"
  | SlInvalidNumRefIdx nm n => "InvalidNumRefIdx(" ++ q nm ++ "," ++ show_N n ++ ")"
  | UnsupportedSyntax w => "UnsupportedSyntax(" ++ q (strip_spaces w) ++ ")"
  end.
