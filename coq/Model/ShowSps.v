(* Rust `{:?}` rendering (whitespace removed) of the SPS model values and errors. *)
From H264 Require Import Base.Prelude Model.Show Model.BitReader Model.Sps Model.SpsDerived.
Local Open Scope string_scope.

Definition q (s : string) : string := String (Ascii.ascii_of_nat 34) (s ++ String (Ascii.ascii_of_nat 34) "").

Fixpoint strip_spaces (s : string) : string :=
  match s with
  | EmptyString => EmptyString
  | String c r => if Ascii.eqb c (Ascii.ascii_of_nat 32) then strip_spaces r else String c (strip_spaces r)
  end.

Definition show_biterr_dbg (e : biterr) : string :=
  match e with
  | ReaderErrorFor n k => "ReaderErrorFor(" ++ strip_spaces n ++ "," ++ show_iokind k ++ ")"
  | ExpGolombTooLarge n => "ExpGolombTooLarge(" ++ strip_spaces n ++ ")"
  | RemainingData => "RemainingData"
  | Unaligned => "Unaligned"
  end.

Definition show_chroma_format (c : chroma_format) : string :=
  match c with
  | Monochrome => "Monochrome" | YUV420 => "YUV420" | YUV422 => "YUV422" | YUV444 => "YUV444"
  | CfInvalid n => "Invalid(" ++ show_N n ++ ")"
  end.

Definition show_scaling_list (l : scaling_list) : string :=
  match l with
  | SlNotPresent => "NotPresent" | SlUseDefault => "UseDefault"
  | SlList v => "List(" ++ show_list show_N v ++ ")"
  end.

Definition show_ssm (m : seq_scaling_matrix) : string :=
  show_struct "SeqScalingMatrix" [("scaling_list4x4", show_list show_scaling_list (scaling_list4x4 m));
                                  ("scaling_list8x8", show_list show_scaling_list (scaling_list8x8 m))].

Definition show_chroma_info (c : chroma_info) : string :=
  show_struct "ChromaInfo" [
    ("chroma_format", show_chroma_format (chroma_format_ c));
    ("separate_colour_plane_flag", show_bool (separate_colour_plane_flag c));
    ("bit_depth_luma_minus8", show_N (bit_depth_luma_minus8 c));
    ("bit_depth_chroma_minus8", show_N (bit_depth_chroma_minus8 c));
    ("qpprime_y_zero_transform_bypass_flag", show_bool (qpprime_y_zero_transform_bypass_flag c));
    ("scaling_matrix", show_option show_ssm (scaling_matrix c))].

Definition show_poc (p : pic_order_cnt) : string :=
  match p with
  | PocTypeZero l => show_struct "TypeZero" [("log2_max_pic_order_cnt_lsb_minus4", show_N l)]
  | PocTypeOne az nr tb offs =>
      show_struct "TypeOne" [("delta_pic_order_always_zero_flag", show_bool az);
                             ("offset_for_non_ref_pic", show_Z nr);
                             ("offset_for_top_to_bottom_field", show_Z tb);
                             ("offsets_for_ref_frame", show_list show_Z offs)]
  | PocTypeTwo => "TypeTwo"
  end.

Definition show_frame_mbs (f : frame_mbs_flags) : string :=
  match f with
  | Frames => "Frames"
  | Fields m => show_struct "Fields" [("mb_adaptive_frame_field_flag", show_bool m)]
  end.

Definition show_crop (c : frame_cropping) : string :=
  show_struct "FrameCropping" [("left_offset", show_N (left_offset c)); ("right_offset", show_N (right_offset c));
                               ("top_offset", show_N (top_offset c)); ("bottom_offset", show_N (bottom_offset c))].

Definition ratio_name (idc : N) : string :=
  match idc with
  | 1%N => "Ratio1_1" | 2%N => "Ratio12_11" | 3%N => "Ratio10_11" | 4%N => "Ratio16_11" | 5%N => "Ratio40_33"
  | 6%N => "Ratio24_11" | 7%N => "Ratio20_11" | 8%N => "Ratio32_11" | 9%N => "Ratio80_33" | 10%N => "Ratio18_11"
  | 11%N => "Ratio15_11" | 12%N => "Ratio64_33" | 13%N => "Ratio160_99" | 14%N => "Ratio4_3" | 15%N => "Ratio3_2"
  | _ => "Ratio2_1"
  end.
Definition show_aspect (a : aspect_ratio_info) : string :=
  match a with
  | ArUnspecified => "Unspecified"
  | ArRatio idc => ratio_name idc
  | ArReserved n => "Reserved(" ++ show_N n ++ ")"
  | ArExtended w h => "Extended(" ++ show_N w ++ "," ++ show_N h ++ ")"
  end.
Definition show_overscan (o : overscan_appropriate) : string :=
  match o with OvUnspecified => "Unspecified" | OvAppropriate => "Appropriate" | OvInappropriate => "Inappropriate" end.
Definition show_video_format (v : N) : string :=
  match v with
  | 0%N => "Component" | 1%N => "PAL" | 2%N => "NTSC" | 3%N => "SECAM" | 4%N => "MAC" | 5%N => "Unspecified"
  | _ => "Reserved(" ++ show_N v ++ ")"
  end.
Definition show_cd (c : colour_description) : string :=
  show_struct "ColourDescription" [("colour_primaries", show_N (colour_primaries c));
                                   ("transfer_characteristics", show_N (transfer_characteristics c));
                                   ("matrix_coefficients", show_N (matrix_coefficients c))].
Definition show_vst (v : video_signal_type) : string :=
  show_struct "VideoSignalType" [("video_format", show_video_format (video_format v));
                                 ("video_full_range_flag", show_bool (video_full_range_flag v));
                                 ("colour_description", show_option show_cd (colour_description_ v))].
Definition show_cli (c : chroma_loc_info) : string :=
  show_struct "ChromaLocInfo" [("chroma_sample_loc_type_top_field", show_N (chroma_sample_loc_type_top_field c));
                               ("chroma_sample_loc_type_bottom_field", show_N (chroma_sample_loc_type_bottom_field c))].
Definition show_ti (t : timing_info) : string :=
  show_struct "TimingInfo" [("num_units_in_tick", show_N (num_units_in_tick t)); ("time_scale", show_N (time_scale t));
                            ("fixed_frame_rate_flag", show_bool (fixed_frame_rate_flag t))].
Definition show_cpb (c : cpb_spec) : string :=
  show_struct "CpbSpec" [("bit_rate_value_minus1", show_N (bit_rate_value_minus1 c));
                         ("cpb_size_value_minus1", show_N (cpb_size_value_minus1 c)); ("cbr_flag", show_bool (cbr_flag c))].
Definition show_hrd (h : hrd_parameters) : string :=
  show_struct "HrdParameters" [
    ("bit_rate_scale", show_N (bit_rate_scale h)); ("cpb_size_scale", show_N (cpb_size_scale h));
    ("cpb_specs", show_list show_cpb (cpb_specs h));
    ("initial_cpb_removal_delay_length_minus1", show_N (initial_cpb_removal_delay_length_minus1 h));
    ("cpb_removal_delay_length_minus1", show_N (cpb_removal_delay_length_minus1 h));
    ("dpb_output_delay_length_minus1", show_N (dpb_output_delay_length_minus1 h));
    ("time_offset_length", show_N (time_offset_length h))].
Definition show_br (b : bitstream_restrictions) : string :=
  show_struct "BitstreamRestrictions" [
    ("motion_vectors_over_pic_boundaries_flag", show_bool (motion_vectors_over_pic_boundaries_flag b));
    ("max_bytes_per_pic_denom", show_N (max_bytes_per_pic_denom b));
    ("max_bits_per_mb_denom", show_N (max_bits_per_mb_denom b));
    ("log2_max_mv_length_horizontal", show_N (log2_max_mv_length_horizontal b));
    ("log2_max_mv_length_vertical", show_N (log2_max_mv_length_vertical b));
    ("max_num_reorder_frames", show_N (max_num_reorder_frames b));
    ("max_dec_frame_buffering", show_N (max_dec_frame_buffering b))].
Definition show_vui (v : vui_parameters) : string :=
  show_struct "VuiParameters" [
    ("aspect_ratio_info", show_option show_aspect (aspect_ratio_info_ v));
    ("overscan_appropriate", show_overscan (overscan_appropriate_ v));
    ("video_signal_type", show_option show_vst (video_signal_type_ v));
    ("chroma_loc_info", show_option show_cli (chroma_loc_info_ v));
    ("timing_info", show_option show_ti (timing_info_ v));
    ("nal_hrd_parameters", show_option show_hrd (nal_hrd_parameters v));
    ("vcl_hrd_parameters", show_option show_hrd (vcl_hrd_parameters v));
    ("low_delay_hrd_flag", show_option show_bool (low_delay_hrd_flag v));
    ("pic_struct_present_flag", show_bool (pic_struct_present_flag v));
    ("bitstream_restrictions", show_option show_br (bitstream_restrictions_ v))].

Definition show_flags (f : N) : string :=
  show_struct "ConstraintFlags" [
    ("flag0", show_bool (N.testbit f 7)); ("flag1", show_bool (N.testbit f 6)); ("flag2", show_bool (N.testbit f 5));
    ("flag3", show_bool (N.testbit f 4)); ("flag4", show_bool (N.testbit f 3)); ("flag5", show_bool (N.testbit f 2));
    ("reserved_zero_two_bits", show_N (N.land f 3))].

Definition show_sps (s : sps) : string :=
  show_struct "SeqParameterSet" [
    ("profile_idc", "ProfileIdc(" ++ show_N (profile_idc s) ++ ")");
    ("constraint_flags", show_flags (constraint_flags s));
    ("level_idc", show_N (level_idc s));
    ("seq_parameter_set_id", "SeqParamSetId(" ++ show_N (seq_parameter_set_id s) ++ ")");
    ("chroma_info", show_chroma_info (chroma_info_ s));
    ("log2_max_frame_num_minus4", show_N (log2_max_frame_num_minus4 s));
    ("pic_order_cnt", show_poc (pic_order_cnt_ s));
    ("max_num_ref_frames", show_N (max_num_ref_frames s));
    ("gaps_in_frame_num_value_allowed_flag", show_bool (gaps_in_frame_num_value_allowed_flag s));
    ("pic_width_in_mbs_minus1", show_N (pic_width_in_mbs_minus1 s));
    ("pic_height_in_map_units_minus1", show_N (pic_height_in_map_units_minus1 s));
    ("frame_mbs_flags", show_frame_mbs (frame_mbs_flags_ s));
    ("direct_8x8_inference_flag", show_bool (direct_8x8_inference_flag s));
    ("frame_cropping", show_option show_crop (frame_cropping_ s));
    ("vui_parameters", show_option show_vui (vui_parameters_ s))].

Definition show_smerr (e : smerr) : string :=
  match e with
  | SmReader b => "ReaderError(" ++ show_biterr_dbg b ++ ")"
  | SmDeltaScaleOutOfRange d => "DeltaScaleOutOfRange(" ++ show_Z d ++ ")"
  end.
Definition show_pocerr (e : pocerr) : string :=
  match e with
  | PocInvalidType n => "InvalidPicOrderCountType(" ++ show_N n ++ ")"
  | PocReader b => "ReaderError(" ++ show_biterr_dbg b ++ ")"
  | PocLog2OutOfRange n => "Log2MaxPicOrderCntLsbMinus4OutOfRange(" ++ show_N n ++ ")"
  | PocNumRefFramesOutOfRange n => "NumRefFramesInPicOrderCntCycleOutOfRange(" ++ show_N n ++ ")"
  end.
Definition show_spserr (e : spserr) : string :=
  match e with
  | BitDepthOutOfRange n => "BitDepthOutOfRange(" ++ show_N n ++ ")"
  | RbspReaderError b => "RbspReaderError(" ++ show_biterr_dbg b ++ ")"
  | PicOrderCntErr p => "PicOrderCnt(" ++ show_pocerr p ++ ")"
  | ScalingMatrixErr s => "ScalingMatrix(" ++ show_smerr s ++ ")"
  | Log2MaxFrameNumMinus4OutOfRange n => "Log2MaxFrameNumMinus4OutOfRange(" ++ show_N n ++ ")"
  | BadSeqParamSetId n => "BadSeqParamSetId(IdTooLarge(" ++ show_N n ++ "))"
  | FieldValueTooLarge nm v => "FieldValueTooLarge{name:" ++ q nm ++ ",value:" ++ show_N v ++ "}"
  | FieldValueTooSmall nm v => "FieldValueTooSmall{name:" ++ q nm ++ ",value:" ++ show_N v ++ "}"
  | CroppingError c => "CroppingError(" ++ show_crop c ++ ")"
  | CpbCountOutOfRange n => "CpbCountOutOfRange(" ++ show_N n ++ ")"
  end.

Definition show_profile (idc : N) : string :=
  let n := profile_name idc in if String.eqb n "" then "Unknown(" ++ show_N idc ++ ")" else n.
Definition show_level (flags idc : N) : string :=
  let n := level_name flags idc in if String.eqb n "" then "Unknown(" ++ show_N idc ++ ")" else n.

Definition hex_upper_digit (n : N) : string :=
  match n with
  | 10%N => "A" | 11%N => "B" | 12%N => "C" | 13%N => "D" | 14%N => "E" | 15%N => "F" | _ => hex_digit n
  end.
Definition hex2_upper (b : N) : string := hex_upper_digit (b / 16 mod 16) ++ hex_upper_digit (b mod 16).

Definition show_sout {A} (f : A -> string) (x : out spserr A) : string :=
  match x with
  | OK a => f a
  | ERR e => "E:" ++ show_spserr e
  | PANIC _ => "PANIC"
  | FUEL => "FUEL"
  end.

(* the derived values, in the order the harness prints them *)
Definition show_derived (s : sps) : list string :=
  [ "dims=" ++ show_sout (fun p => show_N (fst p) ++ "x" ++ show_N (snd p)) (pixel_dimensions s);
    "fps=" ++ match fps s with Some (a, b) => show_N a ++ "/" ++ show_N b | None => "None" end;
    "level=" ++ show_level (constraint_flags s) (level_idc s) ++ ":" ++ show_N (level_idc s);
    "profile=" ++ show_profile (profile_idc s) ++ ":" ++ show_N (profile_idc s);
    "rfc=avc1." ++ hex2_upper (profile_idc s) ++ hex2_upper (constraint_flags s) ++ hex2_upper (level_idc s);
    "l2mfn=" ++ show_sout show_N (log2_max_frame_num s);
    "wmbs=" ++ show_sout show_N (pic_width_in_mbs s);
    "hmu=" ++ show_sout show_N (pic_height_in_map_units s);
    "psmu=" ++ show_sout show_N (pic_size_in_map_units s);
    "sar=" ++ match vui_parameters_ s with
              | Some v => match aspect_ratio_info_ v with
                          | Some a => match aspect_get a with Some (w, h) => show_N w ++ ":" ++ show_N h | None => "None" end
                          | None => "-"
                          end
              | None => "-"
              end ].
