(* Model of nal::NalHeader and nal::UnitType (src/nal/mod.rs:16-135). *)
From H264 Require Import Base.Prelude.
Local Open Scope string_scope.

(* NalHeader::new: refuses a set forbidden_zero_bit (header_value & 0x80 != 0) *)
Definition nal_header_new (b : byte) : option byte :=
  if N.testbit b 7 then None else Some b.
Definition nal_ref_idc (h : byte) : N := (N.land h 96) / 32.       (* (h & 0b0110_0000) >> 5 *)
Definition nal_unit_type_id (h : byte) : N := N.land h 31.          (* h & 0b0001_1111 *)

(* UnitType::for_id: Some (Debug rendering of the type) for id <= 31; its id() gives the id back *)
Definition unit_type_name (id : N) : option string :=
  match id with
  | 0%N => Some "Unspecified(0)"
  | 1%N => Some "SliceLayerWithoutPartitioningNonIdr"
  | 2%N => Some "SliceDataPartitionALayer"
  | 3%N => Some "SliceDataPartitionBLayer"
  | 4%N => Some "SliceDataPartitionCLayer"
  | 5%N => Some "SliceLayerWithoutPartitioningIdr"
  | 6%N => Some "SEI"
  | 7%N => Some "SeqParameterSet"
  | 8%N => Some "PicParameterSet"
  | 9%N => Some "AccessUnitDelimiter"
  | 10%N => Some "EndOfSeq"
  | 11%N => Some "EndOfStream"
  | 12%N => Some "FillerData"
  | 13%N => Some "SeqParameterSetExtension"
  | 14%N => Some "PrefixNALUnit"
  | 15%N => Some "SubsetSeqParameterSet"
  | 16%N => Some "DepthParameterSet"
  | 17%N => Some "Reserved(17)"
  | 18%N => Some "Reserved(18)"
  | 19%N => Some "SliceLayerWithoutPartitioningAux"
  | 20%N => Some "SliceExtension"
  | 21%N => Some "SliceExtensionViewComponent"
  | 22%N => Some "Reserved(22)"
  | 23%N => Some "Reserved(23)"
  | 24%N => Some "Unspecified(24)"
  | 25%N => Some "Unspecified(25)"
  | 26%N => Some "Unspecified(26)"
  | 27%N => Some "Unspecified(27)"
  | 28%N => Some "Unspecified(28)"
  | 29%N => Some "Unspecified(29)"
  | 30%N => Some "Unspecified(30)"
  | 31%N => Some "Unspecified(31)"
  | _ => None
  end.
