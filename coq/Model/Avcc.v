(* Model of avcc::AvcDecoderConfigurationRecord (src/avcc.rs). Index-checked accesses: an
   out-of-bounds index or split is PANIC. *)
From H264 Require Import Base.Prelude Model.Nal Model.RefNal Model.Rbsp Model.BitReader Model.Source Model.Sps Model.Context Model.Pps.

Inductive avccerr :=
| NotEnoughData (expected actual : nat)
| UnsupportedConfigurationVersion (v : N)
| AvParamSet (e : string)       (* Debug rendering of the ParamSetError *)
| AvSps (e : spserr)
| AvPps (e : ppserr).

Definition ck (data : list byte) (len : nat) : out avccerr unit :=
  if Nat.ltb (length data) len then ERR (NotEnoughData len (length data)) else OK tt.

Definition idx (data : list byte) (i : nat) : out avccerr byte :=
  match nth_error data i with Some b => OK b | None => PANIC "index out of bounds" end.

Definition be16 (a b : byte) : nat := N.to_nat (a * 256 + b).

(* the `while num > 0` loops of try_from / seq_param_sets_end *)
Fixpoint sets_end (data : list byte) (num : nat) (len : nat) : out avccerr nat :=
  match num with
  | O => OK len
  | S n =>
    obind (ck data (len + 2)) (fun _ =>
    obind (idx data len) (fun a => obind (idx data (len + 1)) (fun b =>
    let l := be16 a b in
    obind (ck data (len + 2 + l)) (fun _ => sets_end data n (len + 2 + l)))))
  end.

Definition num_of_sps (data : list byte) : out avccerr nat :=
  obind (idx data 5) (fun b => OK (N.to_nat (N.land b 31))).

Definition seq_param_sets_end (data : list byte) : out avccerr nat :=
  obind (num_of_sps data) (fun n => sets_end data n 6).

Definition try_from (data : list byte) : out avccerr unit :=
  obind (ck data 6) (fun _ =>
  obind (idx data 0) (fun v =>
  if negb (v =? 1) then ERR (UnsupportedConfigurationVersion v) else
  obind (seq_param_sets_end data) (fun len =>
  obind (ck data (len + 1)) (fun _ =>
  obind (idx data len) (fun np =>
  obind (sets_end data (N.to_nat np) (len + 1)) (fun _ => OK tt)))))).

(* ParamSetIter::next, `take(num)` applied by the caller *)
Inductive item := ItOk (nal : list byte) | ItErr (dbg : string).

Local Open Scope string_scope.
Definition unit_type_dbg (id : N) : string :=
  match unit_type_name id with Some s => s | None => "?" end.

(* one step: None = iterator finished; Some (item, rest) *)
Definition iter_next (buf : list byte) (expected : N) : out avccerr (option (item * list byte)) :=
  match buf with
  | [] => OK None
  | _ =>
    obind (idx buf 0) (fun a => obind (idx buf 1) (fun b =>
    let len := be16 a b in
    if Nat.eqb len 0 then OK (Some (ItErr "EmptyNal", buf)) else
    let data := skipn 2 buf in
    obind (idx data 0) (fun h =>
    match nal_header_new h with
    | Some hdr =>
        if (nal_unit_type_id hdr =? expected)%N then
          if Nat.ltb (length data) len then PANIC "mid > len"
          else OK (Some (ItOk (firstn len data), skipn len data))
        else OK (Some (ItErr ("IncorrectNalType{expected:" ++ unit_type_dbg expected ++ ",actual:" ++ unit_type_dbg (nal_unit_type_id hdr) ++ "}"), buf))
    | None => OK (Some (ItErr "NalHeader(ForbiddenZeroBit)", buf))
    end)))
  end.

Fixpoint iter_take (n : nat) (buf : list byte) (expected : N) : out avccerr (list item) :=
  match n with
  | O => OK []
  | S n' =>
    obind (iter_next buf expected) (fun r =>
    match r with
    | None => OK []
    | Some (it, rest) => obind (iter_take n' rest expected) (fun l => OK (it :: l))
    end)
  end.

Definition sequence_parameter_sets (data : list byte) : out avccerr (list item) :=
  obind (num_of_sps data) (fun n => iter_take n (skipn 6 data) 7).

Definition picture_parameter_sets (data : list byte) : out avccerr (list item) :=
  match seq_param_sets_end data with
  | OK off => obind (idx data off) (fun n => iter_take (N.to_nat n) (skipn (off + 1) data) 8)
  | ERR _ => PANIC "called `Result::unwrap()` on an `Err` value"
  | PANIC w => PANIC w
  | FUEL => FUEL
  end.

Local Close Scope string_scope.
(* create_context: the first error item / parse error aborts *)
Fixpoint ctx_of_sps (l : list item) (c : context) : out avccerr context :=
  match l with
  | [] => OK c
  | ItErr d :: _ => ERR (AvParamSet d)
  | ItOk [] :: _ => PANIC "RefNal must be non-empty"
  | ItOk nal :: r => match sps_from_bits (nal_bitsrc nal) with
                     | OK s => ctx_of_sps r (put_seq_param_set c s)
                     | ERR e => ERR (AvSps e) | PANIC w => PANIC w | FUEL => FUEL
                     end
  end.
Fixpoint ctx_of_pps (l : list item) (c : context) : out avccerr context :=
  match l with
  | [] => OK c
  | ItErr d :: _ => ERR (AvParamSet d)
  | ItOk [] :: _ => PANIC "RefNal must be non-empty"
  | ItOk nal :: r => match pps_from_bits c (nal_bitsrc nal) with
                     | OK p => ctx_of_pps r (put_pic_param_set c p)
                     | ERR e => ERR (AvPps e) | PANIC w => PANIC w | FUEL => FUEL
                     end
  end.
Definition create_context (data : list byte) : out avccerr context :=
  obind (sequence_parameter_sets data) (fun ss =>
  obind (ctx_of_sps ss ctx_empty) (fun c =>
  obind (picture_parameter_sets data) (fun ps => ctx_of_pps ps c))).

