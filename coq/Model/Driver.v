(* Entry points of the correspondence check: one function per harness command, from the parsed
   command to the answer string.  Evaluated by the extracted `modelrun` and by vm_compute. *)
From H264 Require Import Base.Prelude Base.Bits Model.Show Model.BitReader Model.RefNal Model.Rbsp Model.Source Model.Nal Model.AnnexB Model.Accum
     Model.Parser Model.Sps Model.SpsDerived Model.ShowSps Model.Context Model.Pps Model.ShowPps Model.Slice Model.ShowSlice Model.SeiTables Model.Sei Model.ShowSei Model.Avcc.
Local Open Scope string_scope.

Definition show_biterr (e : biterr) : string :=
  match e with
  | ReaderErrorFor n k => "E:ReaderErrorFor:" ++ n ++ ":" ++ show_iokind k
  | ExpGolombTooLarge n => "E:ExpGolombTooLarge:" ++ n
  | RemainingData => "E:RemainingData"
  | Unaligned => "E:Unaligned"
  end.

Inductive bitop :=
| OpU (width n : N) | OpTo (bytes : N) | OpI32 (n : N) | OpUe | OpSe | OpB | OpSkip (n : N) | OpMore | OpFin | OpFinSei
| OpReader (n : N).   (* BitReader::reader(): when byte-aligned, take up to n whole bytes through the borrowed inner reader *)

Definition show_out {A} (f : A -> string) (x : out biterr A) : string :=
  match x with
  | OK a => f a
  | ERR e => show_biterr e
  | PANIC w => "PANIC"
  | FUEL => "FUEL"
  end.

Definition as_i32 (v : N) : Z := if (v <? 2147483648)%N then Z.of_N v else (Z.of_N v - 4294967296)%Z.

(* where the crate's reader stands after ExpGolombTooLarge: behind the first 1 bit (read_unary1 consumed the zeros and
   the 1 before the count was judged); the history goes on from there *)
Fixpoint drop_zeros_and_one (l : list bool) : list bool :=
  match l with [] => [] | true :: r => r | false :: r => drop_zeros_and_one r end.

Fixpoint run_bitops (ops : list bitop) (s : src) : list string :=
  match ops with
  | [] => []
  | op :: rest =>
    let step (A : Type) (p : P A) (f : A -> string) :=
      match p s with
      | OK (a, s') => f a :: run_bitops rest s'
      | ERR e => [show_biterr e]
      | PANIC _ => ["PANIC"]
      | FUEL => ["FUEL"]
      end in
    let step_eg (A : Type) (p : P A) (f : A -> string) :=
      match p s with
      | OK (a, s') => f a :: run_bitops rest s'
      | ERR (ExpGolombTooLarge n) =>
          show_biterr (ExpGolombTooLarge n) :: run_bitops rest (set_bits s (drop_zeros_and_one (bits s)))
      | ERR e => [show_biterr e]
      | PANIC _ => ["PANIC"]
      | FUEL => ["FUEL"]
      end in
    match op with
    | OpU w n => step _ (read_u w n "x") (fun v => "v" ++ show_N v)
    | OpTo k => step _ (read_u (8 * k) (8 * k) "x") (fun v => "v" ++ show_N v)
    | OpI32 n => step _ (read_u 32 n "x") (fun v => "v" ++ show_Z (as_i32 v))
    | OpUe => step_eg _ (read_ue "x") (fun v => "v" ++ show_N v)
    | OpSe => step_eg _ (read_se "x") (fun v => "v" ++ show_Z v)
    | OpB => step _ (read_bool "x") (fun b => if b then "T" else "F")
    | OpSkip n => step _ (skip n "x") (fun _ => "ok")
    | OpMore => step _ (has_more_rbsp_data "x") (fun b => if b then "T" else "F")
    | OpReader n =>
        if (N.of_nat (length (bits s)) mod 8 =? 0)%N then
          let k := N.min n (N.of_nat (length (bits s)) / 8) in
          if (k <? n)%N then ["R:" ++ show_N k]      (* the inner reader ended or failed first: the history stops here *)
          else ("R:" ++ show_N k) :: run_bitops rest (set_bits s (skipn (8 * N.to_nat k) (bits s)))
        else "R:unaligned" :: run_bitops rest s
    | OpFin => [show_out (fun _ => "ok") (finish_rbsp s)]
    | OpFinSei => [show_out (fun _ => "ok") (finish_sei_payload s)]
    end
  end.

Definition cmd_bits (s : source) (ops : list bitop) : string :=
  join " " (run_bitops ops (bitsrc_of_source s)).

(* ---- rbsp ---- *)
Inductive byteop := BoRead (n : nat) | BoFill | BoConsume (k : nat) | BoEnd | BoClone.

Definition show_ioout {A} (f : A -> string) (x : out iokind A) : string :=
  match x with
  | OK a => f a
  | ERR k => "E:" ++ show_iokind k
  | PANIC _ => "PANIC"
  | FUEL => "FUEL"
  end.

Definition show_term (t : term) : string :=
  match t with
  | TermEof => "" | TermErr k => "!" ++ show_iokind k | TermPanic _ => "!PANIC" | TermFuel => "!FUEL"
  end.

(* `avail`: bytes returned by the last fill_buf and not consumed since; BoConsume k consumes
   min k avail, which keeps every script inside BufRead::consume's precondition *)
Fixpoint run_rbsp_ops (ops : list byteop) (r : br) (avail : nat) : list string :=
  match ops with
  | [] => []
  | op :: rest =>
    match op with
    | BoFill => let '(x, r') := br_fill_buf r in
                let avail' := match x with OK b => length b | _ => 0%nat end in
                show_ioout (fun b => "f:" ++ hex b) x :: (if is_panic x then [] else run_rbsp_ops rest r' avail')
    | BoRead n => let '(x, r') := br_read r n in
                  show_ioout (fun b => "r:" ++ hex b) x :: (if is_panic x then [] else run_rbsp_ops rest r' 0%nat)
    | BoConsume k => let k' := Nat.min k avail in
                     match br_consume r k' with
                     | OK r' => ("c" ++ show_nat k') :: run_rbsp_ops rest r' (avail - k')%nat
                     | _ => ["PANIC"]
                     end
    | BoEnd => let '(acc, t, r') := br_drain r in
               ("e:" ++ hex acc ++ show_term t) :: run_rbsp_ops rest r' 0%nat
    | BoClone => ["?"]
    end
  end.

Definition cmd_rbsp (s : source) (skip max_fill : N) (ops : list byteop) : string :=
  join " " (run_rbsp_ops ops (br_new (rdr_of_source s) skip (if (max_fill =? 0)%N then 128%N else max_fill)) 0%nat).

Definition cmd_decode_nal (nal : list byte) : string :=
  match decode_nal nal with
  | OK (Borrowed b) => "B:" ++ hex b
  | OK (Owned b) => "O:" ++ hex b
  | ERR k => "E:" ++ show_iokind k
  | PANIC _ => "PANIC"
  | FUEL => "FUEL"
  end.

(* ---- refnal: header accessors and the chunk reader, with clones ---- *)
Fixpoint rdr_drain_loop (fuel : nat) (r : rdr) (acc : list byte) : list byte * string * rdr :=
  match fuel with
  | O => (acc, "FUEL", r)
  | S fuel' =>
    match rdr_fill_buf r with
    | OK [] => (acc, "Eof", r)
    | OK b => match rdr_consume r (length b) with
              | OK r' => rdr_drain_loop fuel' r' (acc ++ b)
              | _ => (acc, "PANIC", r)
              end
    | ERR k => (acc, show_iokind k, r)
    | _ => (acc, "PANIC", r)
    end
  end.
Definition rdr_drain (r : rdr) (acc : list byte) := rdr_drain_loop (length (rest r) + 3) r acc.

Definition show_drained (r : rdr) : string :=
  let '(a1, e1, r1) := rdr_drain r [] in
  let '(a2, e2, r2) := rdr_drain r1 a1 in
  let '(a3, e3, r3) := rdr_drain r2 a2 in
  let rd := match rdr_read r3 1 with
            | OK (b, _) => show_nat (length b)
            | ERR k => show_iokind k
            | _ => "PANIC"
            end in
  "d:" ++ hex a3 ++ "!" ++ e1 ++ "." ++ e2 ++ "." ++ e3 ++ "!" ++ rd.

Fixpoint run_refnal_ops (ops : list byteop) (stack : list rdr) : list string :=
  match stack with
  | [] => []
  | r :: below =>
    match ops with
    | [] => map show_drained stack
    | op :: more =>
      match op with
      | BoFill => show_ioout (fun b => "f:" ++ hex b) (rdr_fill_buf r) :: run_refnal_ops more stack
      | BoClone => "K" :: run_refnal_ops more (r :: stack)
      | BoRead n => match rdr_read r n with
                    | OK (b, r') => ("r:" ++ hex b) :: run_refnal_ops more (r' :: below)
                    | ERR k => ("E:" ++ show_iokind k) :: run_refnal_ops more stack
                    | _ => ["PANIC"]
                    end
      | BoConsume k => match rdr_consume r k with
                       | OK r' => "c" :: run_refnal_ops more (r' :: below)
                       | _ => ["PANIC"]
                       end
      | BoEnd => ["?"]
      end
    end
  end.

Definition show_header (s : source) : string :=
  let c := match s with SrcNal c _ => c | SrcRaw _ => true end in
  let first := match rdr_remaining (rdr_of_source s) with b :: _ => Some b | [] => None end in
  match first with
  | None => "PANIC"
  | Some b =>
    match nal_header_new b with
    | Some h => "h:" ++ show_N (nal_ref_idc h) ++ ":" ++ show_N (nal_unit_type_id h) ++ ":" ++ show_bit c
    | None => "h:err:" ++ show_bit c
    end
  end.

Definition cmd_refnal (s : source) (ops : list byteop) : string :=
  join " " (show_header s :: run_refnal_ops ops [rdr_of_source s]).

(* ---- annexb: the raw call trace, "|" after every operation ---- *)
Definition show_call (c : call) : string :=
  join "/" (map hex (bufs c)) ++ ";" ++ show_bit (fin c).

Definition cmd_annexb (ops : list aop) : string :=
  join " " (flat_map (fun cs => (map show_call cs ++ ["|"])%list) (run_ops AStart ops)).

(* ---- accum ---- *)
Definition show_invocation (i : invocation) : string :=
  let r := rdr_of_nal (hd [] (inv_chunks i)) (tl (inv_chunks i)) (inv_complete i) in
  let '(bytes, e, _) := rdr_drain r [] in
  let hdr := match inv_bytes i with
             | b :: _ => match nal_header_new b with
                         | Some h => show_N (nal_ref_idc h) ++ "." ++ show_N (nal_unit_type_id h)
                         | None => "err"
                         end
             | [] => "PANIC"
             end in
  hex bytes ++ ";" ++ show_bit (inv_complete i) ++ ";" ++ e ++ ";" ++ hdr ++ ";rd=same".

Definition cmd_accum (frs : list (list (list byte) * bool)) (pol : list interest) : string :=
  join " " (map show_invocation (run_fragments acc_init pol frs)).

(* ---- sps ---- *)
Definition parse_sps (s : source) : out spserr sps := sps_from_bits (bitsrc_of_source s).

Definition cmd_sps (s : source) : string :=
  match parse_sps s with
  | OK v => join " " (("ok:" ++ show_sps v) :: show_derived v)
  | ERR e => "E:" ++ show_spserr e
  | PANIC _ => "PANIC"
  | FUEL => "FUEL"
  end.

(* ---- contexts: "S<nal>" / "P<nal>" items parsed in order, successes stored ---- *)
Inductive ctx_item := CtxSps (nal : list byte) | CtxPps (nal : list byte).


Definition ctx_step (c : context) (it : ctx_item) : context :=
  match it with
  | CtxSps [] | CtxPps [] => c
  | CtxSps nal => match sps_from_bits (nal_bitsrc nal) with OK s => put_seq_param_set c s | _ => c end
  | CtxPps nal => match pps_from_bits c (nal_bitsrc nal) with OK p => put_pic_param_set c p | _ => c end
  end.
Definition build_ctx (items : list ctx_item) : context := fold_left ctx_step items ctx_empty.

Definition cmd_pps (items : list ctx_item) (s : source) : string :=
  match pps_from_bits (build_ctx items) (bitsrc_of_source s) with
  | OK v => "ok:" ++ show_pps v
  | ERR e => "E:" ++ show_ppserr e
  | PANIC _ => "PANIC"
  | FUEL => "FUEL"
  end.

(* ---- slice: header, ids of the activated sets, and the next (up to) 16 bits one by one ---- *)
Fixpoint next_bits (n : nat) (s : src) : string :=
  match n with
  | O => ""
  | S n' => match read_bool "n" s with
            | OK (b, s') => show_bit b ++ next_bits n' s'
            | ERR e => "!" ++ show_biterr_dbg e
            | _ => "!PANIC"
            end
  end.

Definition cmd_slice (items : list ctx_item) (s : source) : string :=
  let ctx := build_ctx items in
  match rdr_remaining (rdr_of_source s) with
  | [] => "PANIC"
  | b :: _ =>
    match nal_header_new b with
    | None => "E:hdr"
    | Some hdr =>
      match slice_header_read ctx hdr (bitsrc_of_source (match s with SrcRaw x => SrcNal true [x] | _ => s end)) with
      | OK ((h, sid, pid), s') =>
          "ok:" ++ show_slice_header h ++ " sps=" ++ show_N sid ++ ";pps=" ++ show_N pid ++ ";same=11 next=" ++ next_bits 16 s'
      | ERR e => "E:" ++ show_sliceerr e
      | PANIC _ => "PANIC"
      | FUEL => "FUEL"
      end
    end
  end.

(* ---- sei ---- *)
Definition bsrc_of_br (r : br) : bsrc :=
  match br_drain r with (bytes, t, _) => mk_bsrc bytes (tail_of_term t) end.
Definition bytesrc_of_source (s : source) : bsrc :=
  match s with
  | SrcRaw b => mk_bsrc b TEof
  | SrcNal _ _ => bsrc_of_br (br_new (rdr_of_source s) 1 128)
  end.

Definition cmd_sei (s : source) (extra : nat) : string :=
  let src := bytesrc_of_source s in
  join " " (map show_sei_result (sei_run (length (sbytes src) + extra + 3) extra 0 (sei_new src))).

Definition cmd_bp (items : list ctx_item) (payload : list byte) : string :=
  match buffering_period_read (build_ctx items) payload with
  | OK v => "ok:" ++ show_bp v
  | ERR e => "E:" ++ show_bperr e
  | PANIC _ => "PANIC" | FUEL => "FUEL"
  end.

(* SecMinHour::seconds / minutes / hours *)
Definition smh_seconds (t : sec_min_hour) : N := match t with SmhNone => 0 | SmhS s | SmhSM s _ | SmhSMH s _ _ => s end.
Definition smh_minutes (t : sec_min_hour) : N := match t with SmhNone | SmhS _ => 0 | SmhSM _ m | SmhSMH _ m _ => m end.
Definition smh_hours (t : sec_min_hour) : N := match t with SmhSMH _ _ h => h | _ => 0 end.
Definition show_smh_acc (c : clock_timestamp) : string :=
  show_N (smh_seconds (smh c)) ++ "/" ++ show_N (smh_minutes (smh c)) ++ "/" ++ show_N (smh_hours (smh c)).

Definition cmd_pt (items : list ctx_item) (id : N) (payload : list byte) : string :=
  match (if (31 <? id)%N then None else sps_by_id (build_ctx items) id) with
  | None => "nosps"
  | Some sp =>
    match pic_timing_read sp payload with
    | OK v => "ok:" ++ show_pt v ++
              match pt_pic_struct v with
              | Some (_, cts) => " smh=[" ++ join "," (map show_smh_acc (opt_list cts)) ++ "]"
              | None => ""
              end
    | ERR e => "E:" ++ show_pterr e
    | PANIC _ => "PANIC" | FUEL => "FUEL"
    end
  end.

Definition cmd_t35 (payload : list byte) : string := show_t35 (t35_read payload).

(* ---- avcc ---- *)
Definition show_avccerr (e : avccerr) : string :=
  match e with
  | NotEnoughData a b => "NotEnoughData{expected:" ++ show_nat a ++ ",actual:" ++ show_nat b ++ "}"
  | UnsupportedConfigurationVersion v => "UnsupportedConfigurationVersion(" ++ show_N v ++ ")"
  | AvParamSet d => "ParamSet(" ++ d ++ ")"
  | AvSps e => "Sps(" ++ show_spserr e ++ ")"
  | AvPps e => "Pps(" ++ show_ppserr e ++ ")"
  end.

Definition show_items (x : out avccerr (list item)) : string :=
  match x with
  | OK l => "[" ++ join "," (map (fun i => match i with ItOk b => hex b | ItErr d => "E:" ++ d end) l) ++ "]"
  | _ => "[PANIC]"
  end.

Definition byte_at (data : list byte) (i : nat) : N := nth i data 0%N.

Definition cmd_avcc (data : list byte) : string :=
  match try_from data with
  | ERR e => "E:" ++ show_avccerr e
  | PANIC _ => "PANIC" | FUEL => "FUEL"
  | OK _ =>
    join " " [
      "ok";
      "ver=" ++ show_N (byte_at data 0);
      "nsps=" ++ show_N (N.land (byte_at data 5) 31);
      "prof=" ++ show_N (byte_at data 1);
      "compat=" ++ show_N (byte_at data 2);
      "level=" ++ show_level (byte_at data 2) (byte_at data 3);
      "lsm1=" ++ show_N (N.land (byte_at data 4) 3);
      "sps=" ++ show_items (sequence_parameter_sets data);
      "pps=" ++ show_items (picture_parameter_sets data);
      "ctx=" ++ match create_context data with
                | OK c => "ok:" ++ show_ctx c
                | ERR e => "E:" ++ show_avccerr e
                | _ => "PANIC"
                end ]
  end.

(* ---- ctx: puts and lookups through the public Context API ---- *)
Inductive ctx_op := CoSps (nal : list byte) | CoPps (nal : list byte) | CoGetSps (id : N) | CoGetPps (id : N) | CoIter.

Fixpoint run_ctx_ops (ops : list ctx_op) (c : context) : list string :=
  match ops with
  | [] => []
  | o :: r =>
    match o with
    | CoSps nal => match sps_from_bits (nal_bitsrc nal) with
                   | OK s => "put" :: run_ctx_ops r (put_seq_param_set c s)
                   | ERR e => ("E:" ++ show_spserr e) :: run_ctx_ops r c
                   | _ => ["PANIC"]
                   end
    | CoPps nal => match pps_from_bits c (nal_bitsrc nal) with
                   | OK p => "put" :: run_ctx_ops r (put_pic_param_set c p)
                   | ERR e => ("E:" ++ show_ppserr e) :: run_ctx_ops r c
                   | _ => ["PANIC"]
                   end
    | CoGetSps id => (if (31 <? id)%N then "gs:badid" else "gs:" ++ show_option show_sps (sps_by_id c id)) :: run_ctx_ops r c
    | CoGetPps id => (if (255 <? id)%N then "gp:badid" else "gp:" ++ show_option show_pps (pps_by_id c id)) :: run_ctx_ops r c
    | CoIter => show_ctx c :: run_ctx_ops r c
    end
  end.
Definition cmd_ctx (ops : list ctx_op) : string := join " " (run_ctx_ops ops ctx_empty).

(* ---- pipeline: AnnexBReader::accumulate + a handler that parses every complete NAL against a running context ---- *)
Definition variant_of (s : string) : string :=
  (* text before the first "(" or "{" *)
  let fix go (s : string) : string :=
    match s with
    | EmptyString => EmptyString
    | String c r => if Ascii.eqb c (Ascii.ascii_of_nat 40) || Ascii.eqb c (Ascii.ascii_of_nat 123) then EmptyString else String c (go r)
    end in go s.

Definition parse_in_ctx (c : context) (i : invocation) : string * context :=
  let chunks := inv_chunks i in
  let src := SrcNal true chunks in
  match inv_bytes i with
  | [] => ("PANIC", c)
  | b :: _ =>
    match nal_header_new b with
    | None => ("hdrerr", c)
    | Some hdr =>
      let t := nal_unit_type_id hdr in
      if (t =? 7)%N then
        match sps_from_bits (bitsrc_of_source src) with
        | OK s => ("sps:ok:" ++ show_sps s, put_seq_param_set c s)
        | ERR e => ("sps:E:" ++ show_spserr e, c)
        | _ => ("PANIC", c)
        end
      else if (t =? 8)%N then
        match pps_from_bits c (bitsrc_of_source src) with
        | OK p => ("pps:ok:" ++ show_pps p, put_pic_param_set c p)
        | ERR e => ("pps:E:" ++ show_ppserr e, c)
        | _ => ("PANIC", c)
        end
      else if (t =? 6)%N then
        let bs := bytesrc_of_source src in
        let rs := sei_run (length (sbytes bs) + 3) 0 0 (sei_new bs) in
        ("sei:" ++ join "," (map (fun x => match x with
                                           | ERR e => "E:" ++ variant_of (show_biterr_dbg e)
                                           | _ => show_sei_result x end) rs), c)
      else if (t =? 1)%N || (t =? 5)%N then
        match slice_header_read c hdr (bitsrc_of_source src) with
        | OK ((h, sid, pid), _) => ("slice:ok:" ++ show_slice_header h ++ ";" ++ show_N sid ++ ";" ++ show_N pid, c)
        | ERR e => ("slice:E:" ++ variant_of (show_sliceerr e), c)
        | _ => ("PANIC", c)
        end
      else ("other:" ++ show_N t, c)
    end
  end.

Record pstate := mk_ps { ps_a : astate; ps_acc : acc; ps_pol : list interest; ps_ctx : context }.

Definition render_line (i : invocation) (parsed : string) : string :=
  let bytes := inv_bytes i in
  let shown := if inv_complete i then hex bytes
               else "#" ++ show_nat (length bytes) ++ "." ++ hex (skipn (length bytes - 4) bytes) in
  "N:" ++ shown ++ ";" ++ show_bit (inv_complete i) ++ ";" ++ parsed.

(* the three folds of the pipeline, with named step functions (Proofs/C12_pipeline.v reasons about them) *)
Definition feed_inv_step (acc : pstate * list string) (i : invocation) : pstate * list string :=
  let st := fst acc in
  let pc := if inv_complete i then parse_in_ctx (ps_ctx st) i else ("-", ps_ctx st) in
  (mk_ps (ps_a st) (ps_acc st) (ps_pol st) (snd pc), (snd acc ++ [render_line i (fst pc)])%list).

Definition feed_invocations (st : pstate) (invs : list invocation) : pstate * list string :=
  fold_left feed_inv_step invs (st, []).

Definition feed_call_step (acc : pstate * list string) (c : call) : pstate * list string :=
  let st := fst acc in
  let '(a', pol', invs) := nal_fragment (ps_acc st) (ps_pol st) (bufs c) (fin c) in
  let r := feed_invocations (mk_ps (ps_a st) a' pol' (ps_ctx st)) invs in
  (fst r, (snd acc ++ snd r)%list).

Definition feed_calls_p (st : pstate) (cs : list call) : pstate * list string :=
  fold_left feed_call_step cs (st, []).

Definition pipeline_op (st : pstate) (o : aop) : pstate * list string :=
  let '(a', cs) := step (ps_a st) o in
  feed_calls_p (mk_ps a' (ps_acc st) (ps_pol st) (ps_ctx st)) cs.

Definition pipeline_step (acc : pstate * list string) (o : aop) : pstate * list string :=
  let r := pipeline_op (fst acc) o in (fst r, (snd acc ++ snd r)%list).

Definition pipeline_run (ctx0 : context) (pol : list interest) (pre : list string) (ops : list aop) : pstate * list string :=
  fold_left pipeline_step ops (mk_ps AStart acc_init pol ctx0, pre).

Definition cmd_pipeline (avcc : option (list byte)) (ops : list aop) (pol : list interest) : string :=
  let '(ctx0, pre) := match avcc with
                      | None => (ctx_empty, [])
                      | Some d => match try_from d with
                                  | OK _ => match create_context d with OK c => (c, []) | _ => (ctx_empty, ["avccfail"]) end
                                  | _ => (ctx_empty, ["avccfail"])
                                  end
                      end in
  join " " (snd (pipeline_run ctx0 pol pre (ops ++ [AReset])%list)).
