(* Model of Context / ParamSetMap (src/lib.rs:19-76): Vec<Option<T>> indexed by id. *)
From H264 Require Import Base.Prelude.

Section Map.
  Context {T : Type}.
  Definition psmap := list (option T).

  Definition map_get (m : psmap) (index : nat) : option T :=
    match nth_error m index with Some (Some t) => Some t | _ => None end.

  (* resize_with(index + 1, || None) when too short, then self.0[index] = Some(t) *)
  Fixpoint set_nth (m : psmap) (index : nat) (t : T) : psmap :=
    match index, m with
    | O, [] => [Some t]
    | O, _ :: r => Some t :: r
    | S i, [] => None :: set_nth [] i t
    | S i, x :: r => x :: set_nth r i t
    end.
  Definition map_put (m : psmap) (index : nat) (t : T) : psmap := set_nth m index t.

  Fixpoint map_iter (m : psmap) : list T :=
    match m with
    | [] => []
    | Some t :: r => t :: map_iter r
    | None :: r => map_iter r
    end.
End Map.
