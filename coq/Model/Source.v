(* Sources of NAL / RBSP data for the parsers: how a bit source arises from bytes or from a RefNal. *)
From H264 Require Import Base.Prelude Base.Bits Model.BitReader Model.RefNal Model.Rbsp.

Inductive source := SrcRaw (b : list byte) | SrcNal (c : bool) (chunks : list (list byte)).

Definition rdr_of_source (s : source) : rdr :=
  match s with
  | SrcRaw b => rdr_of_slice b
  | SrcNal c [] => rdr_of_nal [] [] c
  | SrcNal c (h :: t) => rdr_of_nal h t c
  end.

Definition tail_of_term (t : term) : tailk :=
  match t with
  | TermErr WouldBlock => TWouldBlock
  | TermErr _ => TInvalid
  | _ => TEof
  end.

(* the bit source a BitReader sees on top of a ByteReader: everything delivered before the first error *)
Definition src_of_br (r : br) : src :=
  match br_drain r with
  | (bytes, t, _) => mk_src (bits_of_bytes bytes) (tail_of_term t)
  end.

(* BitReader::new(&bytes[..]) for raw; nal.rbsp_bits() for a NAL *)
Definition bitsrc_of_source (s : source) : src :=
  match s with
  | SrcRaw b => mk_src (bits_of_bytes b) TEof
  | SrcNal _ _ => src_of_br (br_new (rdr_of_source s) 1 128)
  end.


Definition nal_bitsrc (nal : list byte) : src := bitsrc_of_source (SrcNal true [nal]).
