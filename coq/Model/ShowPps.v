From H264 Require Import Base.Prelude Model.Show Model.BitReader Model.Sps Model.ShowSps Model.Pps Model.Context.
Local Open Scope string_scope.

Definition change_type_name (t : N) : string :=
  match t with 3%N => "BoxOut" | 4%N => "RasterScan" | _ => "WipeOut" end.

Definition show_slice_group (g : slice_group) : string :=
  match g with
  | SgInterleaved l => show_struct "Interleaved" [("run_length_minus1", show_list show_N l)]
  | SgDispersed n => show_struct "Dispersed" [("num_slice_groups_minus1", show_N n)]
  | SgForeground l =>
      show_struct "ForegroundAndLeftover"
        [("rectangles", show_list (fun r => show_struct "SliceRect" [("top_left", show_N (fst r)); ("bottom_right", show_N (snd r))]) l)]
  | SgChanging t n d r =>
      show_struct "Changing" [("change_type", change_type_name t); ("num_slice_groups_minus1", show_N n);
                              ("slice_group_change_direction_flag", show_bool d);
                              ("slice_group_change_rate_minus1", show_N r)]
  | SgExplicit n ids => show_struct "ExplicitAssignment" [("num_slice_groups_minus1", show_N n); ("slice_group_id", show_list show_N ids)]
  end.

Definition show_psm (m : pic_scaling_matrix) : string :=
  show_struct "PicScalingMatrix" [("scaling_list4x4", show_list show_scaling_list (psm4x4 m));
                                  ("scaling_list8x8", show_option (show_list show_scaling_list) (psm8x8 m))].
Definition show_ext (e : pps_extra) : string :=
  show_struct "PicParameterSetExtra" [("transform_8x8_mode_flag", show_bool (transform_8x8_mode_flag e));
                                      ("pic_scaling_matrix", show_option show_psm (pic_scaling_matrix_ e));
                                      ("second_chroma_qp_index_offset", show_Z (second_chroma_qp_index_offset e))].

Definition show_pps (p : pps) : string :=
  show_struct "PicParameterSet" [
    ("pic_parameter_set_id", "PicParamSetId(" ++ show_N (pic_parameter_set_id p) ++ ")");
    ("seq_parameter_set_id", "SeqParamSetId(" ++ show_N (pps_seq_parameter_set_id p) ++ ")");
    ("entropy_coding_mode_flag", show_bool (entropy_coding_mode_flag p));
    ("bottom_field_pic_order_in_frame_present_flag", show_bool (bottom_field_pic_order_in_frame_present_flag p));
    ("slice_groups", show_option show_slice_group (slice_groups p));
    ("num_ref_idx_l0_default_active_minus1", show_N (num_ref_idx_l0_default_active_minus1 p));
    ("num_ref_idx_l1_default_active_minus1", show_N (num_ref_idx_l1_default_active_minus1 p));
    ("weighted_pred_flag", show_bool (weighted_pred_flag p));
    ("weighted_bipred_idc", show_N (weighted_bipred_idc p));
    ("pic_init_qp_minus26", show_Z (pic_init_qp_minus26 p));
    ("pic_init_qs_minus26", show_Z (pic_init_qs_minus26 p));
    ("chroma_qp_index_offset", show_Z (chroma_qp_index_offset p));
    ("deblocking_filter_control_present_flag", show_bool (deblocking_filter_control_present_flag p));
    ("constrained_intra_pred_flag", show_bool (constrained_intra_pred_flag p));
    ("redundant_pic_cnt_present_flag", show_bool (redundant_pic_cnt_present_flag p));
    ("extension", show_option show_ext (extension p))].

Definition show_ppserr (e : ppserr) : string :=
  match e with
  | PpsRbspReaderError b => "RbspReaderError(" ++ show_biterr_dbg b ++ ")"
  | InvalidSliceGroupMapType n => "InvalidSliceGroupMapType(" ++ show_N n ++ ")"
  | InvalidNumSliceGroupsMinus1 n => "InvalidNumSliceGroupsMinus1(" ++ show_N n ++ ")"
  | InvalidNumRefIdx nm n => "InvalidNumRefIdx(" ++ q nm ++ "," ++ show_N n ++ ")"
  | InvalidSliceGroupChangeType n => "InvalidSliceGroupChangeType(" ++ show_N n ++ ")"
  | UnknownSeqParamSetId id => "UnknownSeqParamSetId(SeqParamSetId(" ++ show_N id ++ "))"
  | BadPicParamSetId n => "BadPicParamSetId(IdTooLarge(" ++ show_N n ++ "))"
  | PpsBadSeqParamSetId n => "BadSeqParamSetId(IdTooLarge(" ++ show_N n ++ "))"
  | PpsScalingMatrix s => "ScalingMatrix(" ++ show_smerr s ++ ")"
  | InvalidSecondChromaQpIndexOffset z => "InvalidSecondChromaQpIndexOffset(" ++ show_Z z ++ ")"
  | InvalidPicInitQpMinus26 z => "InvalidPicInitQpMinus26(" ++ show_Z z ++ ")"
  | InvalidPicInitQsMinus26 z => "InvalidPicInitQsMinus26(" ++ show_Z z ++ ")"
  | InvalidChromaQpIndexOffset z => "InvalidChromaQpIndexOffset(" ++ show_Z z ++ ")"
  | InvalidRunLengthMinus1 n => "InvalidRunLengthMinus1(" ++ show_N n ++ ")"
  | InvalidTopLeft n => "InvalidTopLeft(" ++ show_N n ++ ")"
  | InvalidBottomRight n => "InvalidBottomRight(" ++ show_N n ++ ")"
  | InvalidSliceGroupChangeRateMinus1 n => "InvalidSliceGroupChangeRateMinus1(" ++ show_N n ++ ")"
  end.

Definition show_ctx (c : context) : string :=
  "sps[" ++ join ";" (map show_sps (map_iter (ctx_sps c))) ++ "]pps[" ++ join ";" (map show_pps (map_iter (ctx_pps c))) ++ "]".
