(* Model of push::NalAccumulator::nal_fragment (src/push/mod.rs:135-162).
   The handler is an arbitrary decision stream: one NalInterest per invocation. *)
From H264 Require Import Base.Prelude.

Inductive interest := Buffer | Ignore.

Record acc := mk_acc { abuf : list byte; aint : interest }.
Definition acc_init : acc := mk_acc [] Buffer.

(* what the handler is shown: the RefNal's chunks (head :: tail) and its complete flag *)
Record invocation := mk_inv { inv_chunks : list (list byte); inv_complete : bool }.
Definition inv_bytes (i : invocation) : list byte := concat (inv_chunks i).

Definition next_decision (pol : list interest) : interest * list interest :=
  match pol with [] => (Buffer, []) | d :: r => (d, r) end.

Definition nal_fragment (a : acc) (pol : list interest) (bufs : list (list byte)) (e : bool)
  : acc * list interest * list invocation :=
  let finish (a' : acc) := if e then acc_init else a' in
  match aint a with
  | Ignore => (finish a, pol, [])
  | Buffer =>
    let nal := match abuf a with
               | _ :: _ => Some (mk_inv (abuf a :: bufs) e)
               | [] => match bufs with
                       | [] => None
                       | b0 :: tl => Some (mk_inv (b0 :: tl) e)
                       end
               end in
    match nal with
    | None => (a, pol, [])                      (* `return; // no-op.` before the end handling *)
    | Some n =>
      let '(d, pol') := next_decision pol in
      let a' := match d with
                | Buffer => if e then a else mk_acc (abuf a ++ concat bufs) Buffer
                | Ignore => mk_acc (abuf a) Ignore
                end in
      (finish a', pol', [n])
    end
  end.

Fixpoint run_fragments (a : acc) (pol : list interest) (frs : list (list (list byte) * bool)) : list invocation :=
  match frs with
  | [] => []
  | (bufs, e) :: r =>
    let '(a', pol', invs) := nal_fragment a pol bufs e in
    invs ++ run_fragments a' pol' r
  end.
