(* Parsers with their own error type on top of the bit reader (the `?` / From<BitReaderError> plumbing). *)
From H264 Require Import Base.Prelude Base.Bits Model.BitReader.

Definition PE (E A : Type) := src -> out E (A * src).

Definition retE {E A} (a : A) : PE E A := fun s => OK (a, s).
Definition bindE {E A B} (p : PE E A) (k : A -> PE E B) : PE E B :=
  fun s => match p s with
           | OK (a, s') => k a s'
           | ERR e => ERR e
           | PANIC w => PANIC w
           | FUEL => FUEL
           end.
Definition failE {E A} (e : E) : PE E A := fun _ => ERR e.
Definition panicE {E A} (w : string) : PE E A := fun _ => PANIC w.
(* `?` on a Result<_, BitReaderError> inside a function returning Result<_, E: From<BitReaderError>> *)
Definition liftE {E A} (f : biterr -> E) (p : P A) : PE E A :=
  fun s => match p s with
           | OK x => OK x
           | ERR e => ERR (f e)
           | PANIC w => PANIC w
           | FUEL => FUEL
           end.
(* map_err *)
Definition mapE {E F A} (f : E -> F) (p : PE E A) : PE F A :=
  fun s => match p s with
           | OK x => OK x
           | ERR e => ERR (f e)
           | PANIC w => PANIC w
           | FUEL => FUEL
           end.
Definition liftO {E A} (x : out E A) : PE E A :=
  fun s => match x with OK a => OK (a, s) | ERR e => ERR e | PANIC w => PANIC w | FUEL => FUEL end.

Declare Scope pe_scope.
Delimit Scope pe_scope with pe.
Notation "x <- p ;; k" := (bindE p (fun x => k)) (at level 61, p at next level, right associativity) : pe_scope.
Notation "p ;;; k" := (bindE p (fun _ => k)) (at level 61, right associativity) : pe_scope.

Fixpoint repE {E A} (n : nat) (p : PE E A) : PE E (list A) :=
  match n with
  | O => retE []
  | S n' => bindE p (fun x => bindE (repE n' p) (fun xs => retE (x :: xs)))
  end.
