(* Model of rbsp::ByteReader (src/rbsp.rs:56-208) and rbsp::decode_nal (231-254).
   Index-style, one step per examined byte (memchr jumps are per-byte self-loops). *)
From H264 Require Import Base.Prelude Model.RefNal.

Inductive pstate := Start | OneZero | TwoZero | Skip (n : N) | Three | PostThree.

Record br := mk_br { inner : rdr; st : pstate; idx : nat; max_fill : N }.

Definition br_new (r : rdr) (skip : N) (mf : N) : br :=
  mk_br r (if skip =? 0 then Start else Skip skip) 0 mf.

(* result of the `while self.i < limit` loop *)
Inductive scan_res :=
| ScanDone (s : pstate) (i : nat)                  (* loop ran to the limit or broke without consuming *)
| ScanConsume (s : pstate) (k : nat)               (* break after self.inner.consume(k); i = 0 *)
| ScanErr (s : pstate) (i : nat).                  (* InvalidData; state and i stay as they were *)

(* `l` is chunk[i..limit] *)
Fixpoint scan (chunk_len : nat) (s : pstate) (i : nat) (l : list byte) : scan_res :=
  match l with
  | [] => ScanDone s i
  | b :: l' =>
    match s with
    | Start => scan chunk_len (if b =? 0 then OneZero else Start) (S i) l'
    | OneZero => scan chunk_len (if b =? 0 then TwoZero else Start) (S i) l'
    | TwoZero =>
        if b =? 3 then ScanDone Three i
        else if b =? 0 then ScanErr s i
        else scan chunk_len Start (S i) l'
    | Skip n =>
        let k := Nat.min chunk_len (N.to_nat n) in
        let left := n - N.of_nat k in
        ScanConsume (if left =? 0 then Start else Skip left) k
    | Three => ScanConsume PostThree 1
    | PostThree =>
        if b =? 0 then scan chunk_len OneZero (S i) l'
        else if b <=? 3 then scan chunk_len Start (S i) l'
        else ScanErr s i
    end
  end.

(* try_fill_buf_slow: called with idx = 0 (debug_assert) *)
Definition try_fill_buf_slow (r : br) : out iokind (bool * br) :=
  if negb (Nat.eqb (idx r) 0) then PANIC "assertion failed: self.i == 0" else
  obind (rdr_fill_buf (inner r)) (fun chunk =>
  match chunk with
  | [] => OK (false, r)
  | _ =>
    let len := length chunk in
    let limit := N.to_nat (N.min (N.of_nat len) (max_fill r)) in
    match scan len (st r) (idx r) (firstn limit chunk) with
    | ScanDone s i => OK (true, mk_br (inner r) s i (max_fill r))
    | ScanConsume s k =>
        obind (rdr_consume (inner r) k) (fun inner' => OK (true, mk_br inner' s 0 (max_fill r)))
    | ScanErr s i => ERR InvalidData
    end
  end).

(* after an InvalidData error the Rust object keeps the advanced index; the model exposes that
   state separately because `out` carries no state on ERR *)
Definition try_fill_state_after_err (r : br) : br :=
  match rdr_fill_buf (inner r) with
  | OK chunk =>
    let len := length chunk in
    let limit := N.to_nat (N.min (N.of_nat len) (max_fill r)) in
    match scan len (st r) (idx r) (firstn limit chunk) with
    | ScanErr s i => mk_br (inner r) s i (max_fill r)
    | _ => r
    end
  | _ => r
  end.

(* fill_buf: `while self.i == 0 && self.try_fill_buf_slow()? {}` then inner.fill_buf()[0..i].
   Returns the new state also on error (the Rust object is mutated in place). *)
Fixpoint br_fill_loop (fuel : nat) (r : br) : out iokind br * br :=
  match fuel with
  | O => (FUEL, r)
  | S fuel' =>
    if negb (Nat.eqb (idx r) 0) then (OK r, r)
    else match try_fill_buf_slow r with
         | OK (true, r') => br_fill_loop fuel' r'
         | OK (false, r') => (OK r', r')
         | ERR e => (ERR e, try_fill_state_after_err r)
         | PANIC w => (PANIC w, r)
         | FUEL => (FUEL, r)
         end
  end.

Definition br_fuel (r : br) : nat := 2 * length (rdr_remaining (inner r)) + 4.

Definition br_fill_buf (r : br) : out iokind (list byte) * br :=
  match br_fill_loop (br_fuel r) r with
  | (OK r', _) =>
      match rdr_fill_buf (inner r') with
      | OK chunk =>
          if Nat.ltb (length chunk) (idx r') then (PANIC "range end index out of range for slice", r')
          else (OK (firstn (idx r') chunk), r')
      | ERR e => (ERR e, r')
      | PANIC w => (PANIC w, r')
      | FUEL => (FUEL, r')
      end
  | (ERR e, r') => (ERR e, r')
  | (PANIC w, r') => (PANIC w, r')
  | (FUEL, r') => (FUEL, r')
  end.

(* consume: `self.i.checked_sub(amt).unwrap()` *)
Definition br_consume (r : br) (amt : nat) : out iokind br :=
  if Nat.ltb (idx r) amt then PANIC "called `Option::unwrap()` on a `None` value"
  else obind (rdr_consume (inner r) amt) (fun inner' =>
       OK (mk_br inner' (st r) (idx r - amt) (max_fill r))).

(* Read::read with a buffer of n bytes *)
Definition br_read (r : br) (n : nat) : out iokind (list byte) * br :=
  match br_fill_buf r with
  | (OK chunk, r') =>
      let amt := Nat.min n (length chunk) in
      match br_consume r' amt with
      | OK r'' => (OK (firstn amt chunk), r'')
      | ERR e => (ERR e, r')
      | PANIC w => (PANIC w, r')
      | FUEL => (FUEL, r')
      end
  | (ERR e, r') => (ERR e, r')
  | (PANIC w, r') => (PANIC w, r')
  | (FUEL, r') => (FUEL, r')
  end.

(* How a drain (repeated fill_buf / consume-all, as read_to_end or a bit reader does) ends. *)
Inductive term := TermEof | TermErr (k : iokind) | TermPanic (w : string) | TermFuel.

Fixpoint br_drain_loop (fuel : nat) (r : br) (acc : list byte) : list byte * term * br :=
  match fuel with
  | O => (acc, TermFuel, r)
  | S fuel' =>
    match br_fill_buf r with
    | (OK [], r') => (acc, TermEof, r')
    | (OK chunk, r') =>
        match br_consume r' (length chunk) with
        | OK r'' => br_drain_loop fuel' r'' (acc ++ chunk)
        | ERR e => (acc, TermErr e, r')
        | PANIC w => (acc, TermPanic w, r')
        | FUEL => (acc, TermFuel, r')
        end
    | (ERR e, r') => (acc, TermErr e, r')
    | (PANIC w, r') => (acc, TermPanic w, r')
    | (FUEL, r') => (acc, TermFuel, r')
    end
  end.

Definition br_drain (r : br) : list byte * term * br :=
  br_drain_loop (S (length (rdr_remaining (inner r)))) r [].

(* decode_nal: ByteReader over the slice with Skip(1), max_fill = usize::MAX *)
Definition usize_max : N := 18446744073709551615.

Inductive cow := Borrowed (b : list byte) | Owned (b : list byte).

Definition decode_nal (nal : list byte) : out iokind cow :=
  let r := br_new (rdr_of_slice nal) 1 usize_max in
  match br_fill_buf r with
  | (OK buf, r') =>
      if Nat.eqb (length buf + 1) (length nal) then OK (Borrowed (tl nal))
      else
        (* Vec::with_capacity(nal_unit.len().saturating_sub(2)): no arithmetic can fail *)
        match br_drain r' with
             | (acc, TermEof, _) => OK (Owned acc)
             | (_, TermErr e, _) => ERR e
             | (_, TermPanic w, _) => PANIC w
             | (_, TermFuel, _) => FUEL
             end
  | (ERR e, _) => ERR e
  | (PANIC w, _) => PANIC w
  | (FUEL, _) => FUEL
  end.
