(* H.264 7.3.2.2 pic_parameter_set_rbsp written as an ENCODER from the structure to its bits, and the
   ranges the standard allows (wf_pps).  Descriptors as in Spec/SyntaxSps.v. *)
From H264 Require Import Base.Prelude Base.Bits Spec.Golomb Spec.SyntaxSps Model.Sps Model.Context Model.Pps.
Local Open Scope N_scope.

(* 7.4.2.1.1: PicWidthInMbs, PicSizeInMapUnits of the SPS the PPS refers to *)
Definition spec_width_in_mbs (sp : sps) : N := pic_width_in_mbs_minus1 sp + 1.
Definition spec_size_in_map_units (sp : sps) : N :=
  (pic_width_in_mbs_minus1 sp + 1) * (pic_height_in_map_units_minus1 sp + 1).

(* slice_group_id is u(v), v = Ceil(Log2(num_slice_groups_minus1 + 1)) *)
Definition slice_group_id_bits (n : N) : nat := N.to_nat (N.log2_up (n + 1)).

Definition enc_slice_group (g : slice_group) : list bool :=
  match g with
  | SgInterleaved l => ue 0 ++ concat (map ue l)
  | SgDispersed _ => ue 1
  | SgForeground l => ue 2 ++ concat (map (fun r => ue (fst r) ++ ue (snd r)) l)
  | SgChanging t _ d r => ue t ++ flag d ++ ue r
  | SgExplicit n ids => ue 6 ++ ue (N.of_nat (length ids) - 1) ++ concat (map (u (slice_group_id_bits n)) ids)
  end.

Definition num_slice_groups_minus1_of (g : option slice_group) : N :=
  match g with
  | None => 0
  | Some (SgInterleaved l) => N.of_nat (length l) - 1
  | Some (SgDispersed n) => n
  | Some (SgForeground l) => N.of_nat (length l)
  | Some (SgChanging _ n _ _) => n
  | Some (SgExplicit n _) => n
  end.

Definition enc_slice_groups (g : option slice_group) : list bool :=
  ue (num_slice_groups_minus1_of g) ++ match g with Some x => enc_slice_group x | None => [] end.

(* the optional tail; `plists` are the coded scaling lists when pic_scaling_matrix_present_flag = 1 *)
Definition enc_pps_ext (e : option pps_extra) (plists : option (list (option (list Z)))) : list bool :=
  match e with
  | None => []
  | Some x =>
      flag (transform_8x8_mode_flag x) ++
      (match plists with Some ls => flag true ++ concat (map enc_scaling_list ls) | None => flag false end) ++
      se (second_chroma_qp_index_offset x)
  end.

(* pic_parameter_set_rbsp up to (not including) the rbsp trailing bits *)
Definition enc_pps (p : pps) (plists : option (list (option (list Z)))) : list bool :=
  ue (pic_parameter_set_id p) ++ ue (pps_seq_parameter_set_id p) ++
  flag (entropy_coding_mode_flag p) ++ flag (bottom_field_pic_order_in_frame_present_flag p) ++
  enc_slice_groups (slice_groups p) ++
  ue (num_ref_idx_l0_default_active_minus1 p) ++ ue (num_ref_idx_l1_default_active_minus1 p) ++
  flag (weighted_pred_flag p) ++ u 2 (weighted_bipred_idc p) ++
  se (pic_init_qp_minus26 p) ++ se (pic_init_qs_minus26 p) ++ se (chroma_qp_index_offset p) ++
  flag (deblocking_filter_control_present_flag p) ++ flag (constrained_intra_pred_flag p) ++
  flag (redundant_pic_cnt_present_flag p) ++
  enc_pps_ext (extension p) plists.

(* ---- ranges (7.4.2.2) ---- *)
Definition wf_slice_group (sp : sps) (g : slice_group) : Prop :=
  let size := spec_size_in_map_units sp in
  let w := spec_width_in_mbs sp in
  match g with
  | SgInterleaved l => (2 <= length l <= 8)%nat /\ Forall (fun v => v <= size - 1 /\ u32v v) l
  | SgDispersed n => 1 <= n <= 7
  | SgForeground l => (1 <= length l <= 7)%nat /\
      Forall (fun r => fst r <= snd r /\ snd r < size /\ fst r mod w <= snd r mod w /\ u32v (snd r)) l
  | SgChanging t n _ r => 3 <= t <= 5 /\ 1 <= n <= 7 /\ r <= size - 1 /\ u32v r
  | SgExplicit n ids => 1 <= n <= 7 /\ (1 <= length ids)%nat /\ N.of_nat (length ids) < 4294967296 /\
      Forall (fun x => x <= n) ids
  end.

Definition psm_count (sp : sps) (t8 : bool) : nat :=
  if t8 then (if chroma_format_eqb (chroma_format_ (chroma_info_ sp)) YUV444 then 6 else 2)%nat else 0%nat.

Definition wf_pps_ext (sp : sps) (e : option pps_extra) (plists : option (list (option (list Z)))) : Prop :=
  match e with
  | None => plists = None
  | Some x =>
      (-12 <= second_chroma_qp_index_offset x <= 12)%Z /\
      match plists, pic_scaling_matrix_ x with
      | None, None => True
      | Some ls, Some m =>
          length ls = (6 + psm_count sp (transform_8x8_mode_flag x))%nat /\
          Forall (fun l => match l with Some ds => Forall (fun d => (-128 <= d <= 127)%Z) ds | None => True end) ls /\
          map Some (psm4x4 m) = map (sem_scaling_list 16) (firstn 6 ls) /\
          match psm8x8 m with
          | None => skipn 6 ls = []
          | Some l8 => l8 <> [] /\ map Some l8 = map (sem_scaling_list 64) (skipn 6 ls)
          end
      | _, _ => False
      end
  end.

Definition wf_pps (c : context) (p : pps) (plists : option (list (option (list Z)))) : Prop :=
  pic_parameter_set_id p <= 255 /\ pps_seq_parameter_set_id p <= 31 /\
  exists sp, sps_by_id c (pps_seq_parameter_set_id p) = Some sp /\
    match slice_groups p with Some g => wf_slice_group sp g | None => True end /\
    num_ref_idx_l0_default_active_minus1 p <= 31 /\ num_ref_idx_l1_default_active_minus1 p <= 31 /\
    weighted_bipred_idc p <= 2 /\
    (- (26 + 6 * Z.of_N (bit_depth_luma_minus8 (chroma_info_ sp))) <= pic_init_qp_minus26 p <= 25)%Z /\
    (-26 <= pic_init_qs_minus26 p <= 25)%Z /\ (-12 <= chroma_qp_index_offset p <= 12)%Z /\
    wf_pps_ext sp (extension p) plists.
