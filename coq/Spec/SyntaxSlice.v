(* H.264 7.3.3 slice_header (with 7.3.3.1 ref_pic_list_modification, 7.3.3.2 pred_weight_table, 7.3.3.3
   dec_ref_pic_marking) written as an ENCODER from the structure to its bits, relative to the activated
   PPS / SPS and the NAL header; and the conditions under which the structure is a conforming header
   (wf_slice).  Two coded values are not kept by the library's structure and are extra arguments:
   slice_alpha_c0_offset_div2 and slice_beta_offset_div2 (`ab`); and which of the two codings of an empty
   reference list modification was used (`em`, one flag per list).  slice_qs_delta is recovered from the
   stored SliceQS (= 26 + pic_init_qs_minus26 + slice_qs_delta, 7.4.3). *)
From H264 Require Import Base.Prelude Base.Bits Spec.Golomb Spec.SyntaxSps Model.Nal Model.Sps Model.Context Model.Pps Model.Slice.
Local Open Scope N_scope.

Definition slice_type_id (st : slice_type) : N :=
  (match family st with FamP => 0 | FamB => 1 | FamI => 2 | FamSP => 3 | FamSI => 4 end) + (if exclusive st then 5 else 0).

Definition is_frame (fp : field_pic) : bool := match fp with FpFrame => true | _ => false end.

Definition enc_field_pic (sp : sps) (fp : field_pic) : list bool :=
  match frame_mbs_flags_ sp with
  | Frames => []
  | Fields _ => match fp with FpFrame => flag false | FpTop => flag true ++ flag false | FpBottom => flag true ++ flag true end
  end.

Definition enc_poc_lsb (sp : sps) (pp : pps) (fp : field_pic) (poc : option poc_lsb) : list bool :=
  let both := bottom_field_pic_order_in_frame_present_flag pp && is_frame fp in
  match pic_order_cnt_ sp, poc with
  | PocTypeZero l, Some (PlFrame lsb) => u (N.to_nat (l + 4)) lsb
  | PocTypeZero l, Some (PlFieldsAbsolute lsb d) => u (N.to_nat (l + 4)) lsb ++ se d
  | PocTypeOne az _ _ _, Some (PlFieldsDelta d0 d1) => if az then [] else se d0 ++ (if both then se d1 else [])
  | _, _ => []
  end.

Definition wf_poc_lsb (sp : sps) (pp : pps) (fp : field_pic) (poc : option poc_lsb) : Prop :=
  let both := bottom_field_pic_order_in_frame_present_flag pp && is_frame fp in
  match pic_order_cnt_ sp with
  | PocTypeZero l =>
      if both then exists lsb d, poc = Some (PlFieldsAbsolute lsb d) /\ lsb < 2 ^ (l + 4) /\ s32v d
      else exists lsb, poc = Some (PlFrame lsb) /\ lsb < 2 ^ (l + 4)
  | PocTypeOne az _ _ _ =>
      exists d0 d1, poc = Some (PlFieldsDelta d0 d1) /\ s32v d0 /\ s32v d1 /\
        (az = true -> d0 = 0%Z /\ d1 = 0%Z) /\ (both = false -> d1 = 0%Z)
  | PocTypeTwo => poc = None
  end.

Definition enc_mod (m : modification) : list bool :=
  match m with ModSubtract v => ue 0 ++ ue v | ModAdd v => ue 1 ++ ue v | ModLongTermRef v => ue 2 ++ ue v end.
Definition mod_val (m : modification) : N := match m with ModSubtract v | ModAdd v | ModLongTermRef v => v end.
(* ref_pic_list_modification_flag_lX = 0, or 1 followed by the operations and the terminating idc 3; the empty list
   has both codings (flag 0, or flag 1 and idc 3 at once) - `e` chooses the second *)
Definition enc_mod_list (e : bool) (l : list modification) : list bool :=
  match l with
  | [] => if e then flag true ++ ue 3 else flag false
  | _ => flag true ++ concat (map enc_mod l) ++ ue 3
  end.

Definition enc_rpl (em : bool * bool) (r : ref_pic_list_mods) : list bool :=
  match r with
  | RplI => []
  | RplP a => enc_mod_list (fst em) a
  | RplB a b => enc_mod_list (fst em) a ++ enc_mod_list (snd em) b
  end.

Definition wf_rpl (fam : slice_family) (r : ref_pic_list_mods) : Prop :=
  match fam, r with
  | (FamI | FamSI), RplI => True
  | (FamP | FamSP), RplP a => Forall (fun m => u32v (mod_val m)) a
  | FamB, RplB a b => Forall (fun m => u32v (mod_val m)) a /\ Forall (fun m => u32v (mod_val m)) b
  | _, _ => False
  end.

(* pred_weight_table: one entry per reference index *)
Definition spec_mono (sp : sps) : bool :=
  if separate_colour_plane_flag (chroma_info_ sp) then true
  else chroma_format_eqb (chroma_format_ (chroma_info_ sp)) Monochrome.

Definition enc_pw (w : pred_weight) : list bool := se (pw_weight w) ++ se (pw_offset w).
Definition enc_weight_entry (mono : bool) (e : option pred_weight * option (list pred_weight)) : list bool :=
  (match fst e with Some w => flag true ++ enc_pw w | None => flag false end) ++
  (if mono then []
   else match snd e with
        | Some (a :: b :: _) => flag true ++ enc_pw a ++ enc_pw b
        | _ => flag false
        end).
Definition weight_entries (mono : bool) (t : pred_weight_table) : list (option pred_weight * option (list pred_weight)) :=
  if mono then map (fun l => (l, None)) (luma_weights t) else combine (luma_weights t) (map Some (chroma_weights t)).
Definition enc_pwt (mono : bool) (t : pred_weight_table) : list bool :=
  ue (luma_log2_weight_denom t) ++
  (match chroma_log2_weight_denom t with Some c => ue c | None => [] end) ++
  concat (map (enc_weight_entry mono) (weight_entries mono t)).

Definition wf_pw (w : pred_weight) : Prop := s32v (pw_weight w) /\ s32v (pw_offset w).
Definition wf_pwt (mono : bool) (count : N) (t : pred_weight_table) : Prop :=
  u32v (luma_log2_weight_denom t) /\
  (if mono then chroma_log2_weight_denom t = None /\ chroma_weights t = []
   else (exists c, chroma_log2_weight_denom t = Some c /\ u32v c) /\ length (chroma_weights t) = length (luma_weights t) /\
        Forall (fun c => c = [] \/ exists a b, c = [a; b] /\ wf_pw a /\ wf_pw b) (chroma_weights t)) /\
  N.of_nat (length (luma_weights t)) = count /\
  Forall (fun l => match l with Some w => wf_pw w | None => True end) (luma_weights t).

Definition enc_mmco (m : mmco) : list bool :=
  match m with
  | MmShortTermUnused d => ue 1 ++ ue d
  | MmLongTermUnused n => ue 2 ++ ue n
  | MmShortTermUsedForLongTerm d i => ue 3 ++ ue d ++ ue i
  | MmMaxUsedLongTerm n => ue 4 ++ ue n
  | MmAllUnused => ue 5
  | MmCurrentUsedForLongTerm i => ue 6 ++ ue i
  end.
Definition wf_mmco (m : mmco) : Prop :=
  match m with
  | MmShortTermUnused d => u32v d | MmLongTermUnused n => u32v n
  | MmShortTermUsedForLongTerm d i => u32v d /\ u32v i
  | MmMaxUsedLongTerm n => u32v n | MmAllUnused => True | MmCurrentUsedForLongTerm i => u32v i
  end.
Definition enc_drm (d : dec_ref_pic_marking) : list bool :=
  match d with
  | DrIdr a b => flag a ++ flag b
  | DrSlidingWindow => flag false
  | DrAdaptive ops => flag true ++ concat (map enc_mmco ops) ++ ue 0
  end.
Definition wf_drm (unit_type : N) (d : dec_ref_pic_marking) : Prop :=
  match d with
  | DrIdr _ _ => unit_type = 5
  | DrSlidingWindow => unit_type <> 5
  | DrAdaptive ops => unit_type <> 5 /\ Forall wf_mmco ops
  end.

Definition fam_p_sp_b (f : slice_family) : bool := family_eqb f FamP || family_eqb f FamSP || family_eqb f FamB.
Definition fam_sp_si (f : slice_family) : bool := family_eqb f FamSP || family_eqb f FamSI.
Definition has_pwt (pp : pps) (f : slice_family) : bool :=
  (weighted_pred_flag pp && (family_eqb f FamP || family_eqb f FamSP)) || ((weighted_bipred_idc pp =? 1) && family_eqb f FamB).
Definition has_cabac_init (pp : pps) (f : slice_family) : bool :=
  entropy_coding_mode_flag pp && negb (family_eqb f FamI) && negb (family_eqb f FamSI).

Definition enc_nra (f : slice_family) (n : option num_ref_idx_active) : list bool :=
  if fam_p_sp_b f then
    match n with
    | None => flag false
    | Some (NraP a) => flag true ++ ue a
    | Some (NraB a b) => flag true ++ ue a ++ ue b
    end
  else [].
Definition wf_nra (f : slice_family) (n : option num_ref_idx_active) : Prop :=
  match n with
  | None => True
  | Some (NraP a) => (family_eqb f FamP || family_eqb f FamSP) = true /\ a <= 31
  | Some (NraB a b) => family_eqb f FamB = true /\ a <= 31 /\ b <= 31
  end.

Definition l0_count (pp : pps) (n : option num_ref_idx_active) : N :=
  (match n with Some (NraP a) => a | Some (NraB a _) => a | None => num_ref_idx_l0_default_active_minus1 pp end) + 1.

Definition slice_qs_delta_of (pp : pps) (qs : N) : Z := (Z.of_N qs - 26 - pic_init_qs_minus26 pp)%Z.

Definition enc_deblock (pp : pps) (idc : N) (ab : Z * Z) : list bool :=
  if deblocking_filter_control_present_flag pp then
    ue idc ++ (if idc =? 1 then [] else se (fst ab) ++ se (snd ab))
  else [].

(* slice_header( ) for NAL header byte hdr, activated PPS pp and SPS sp *)
Definition enc_slice_header (hdr : byte) (pp : pps) (sp : sps) (h : slice_header) (ab : Z * Z) (em : bool * bool) : list bool :=
  let f := family (sh_slice_type h) in
  ue (first_mb_in_slice h) ++ ue (slice_type_id (sh_slice_type h)) ++ ue (pic_parameter_set_id pp) ++
  (match colour_plane h with Some v => u 2 v | None => [] end) ++
  u (N.to_nat (log2_max_frame_num_minus4 sp + 4)) (frame_num h) ++
  enc_field_pic sp (sh_field_pic h) ++
  (match idr_pic_id h with Some v => ue v | None => [] end) ++
  enc_poc_lsb sp pp (sh_field_pic h) (pic_order_cnt_lsb h) ++
  (match redundant_pic_cnt h with Some v => ue v | None => [] end) ++
  (match direct_spatial_mv_pred_flag h with Some b => flag b | None => [] end) ++
  enc_nra f (sh_num_ref_idx_active h) ++
  enc_rpl em (ref_pic_list_modification h) ++
  (match sh_pred_weight_table h with Some t => enc_pwt (spec_mono sp) t | None => [] end) ++
  (match sh_dec_ref_pic_marking h with Some d => enc_drm d | None => [] end) ++
  (match cabac_init_idc h with Some v => ue v | None => [] end) ++
  se (slice_qp_delta h) ++
  (match sp_for_switch_flag h with Some b => flag b | None => [] end) ++
  (match slice_qs h with Some q => se (slice_qs_delta_of pp q) | None => [] end) ++
  enc_deblock pp (disable_deblocking_filter_idc h) ab.

(* the presence conditions of 7.3.3 and the value ranges the library can represent *)
Definition wf_slice (c : context) (hdr : byte) (pp : pps) (sp : sps) (h : slice_header) (ab : Z * Z) : Prop :=
  let f := family (sh_slice_type h) in
  let ut := nal_unit_type_id hdr in
  pic_parameter_set_id pp <= 255 /\ pps_by_id c (pic_parameter_set_id pp) = Some pp /\
  sps_by_id c (pps_seq_parameter_set_id pp) = Some sp /\
  ut <> 20 /\ ut <> 21 /\
  u32v (first_mb_in_slice h) /\
  (if separate_colour_plane_flag (chroma_info_ sp) then exists v, colour_plane h = Some v /\ v <= 2 else colour_plane h = None) /\
  frame_num h < 2 ^ (log2_max_frame_num_minus4 sp + 4) /\
  (match frame_mbs_flags_ sp with Frames => sh_field_pic h = FpFrame | Fields _ => True end) /\
  (if ut =? 5 then exists v, idr_pic_id h = Some v /\ u32v v else idr_pic_id h = None) /\
  wf_poc_lsb sp pp (sh_field_pic h) (pic_order_cnt_lsb h) /\
  (if redundant_pic_cnt_present_flag pp then exists v, redundant_pic_cnt h = Some v /\ u32v v else redundant_pic_cnt h = None) /\
  (if family_eqb f FamB then exists b, direct_spatial_mv_pred_flag h = Some b else direct_spatial_mv_pred_flag h = None) /\
  wf_nra f (sh_num_ref_idx_active h) /\
  wf_rpl f (ref_pic_list_modification h) /\
  (if has_pwt pp f then family_eqb f FamB = false /\
                        exists t, sh_pred_weight_table h = Some t /\ wf_pwt (spec_mono sp) (l0_count pp (sh_num_ref_idx_active h)) t
   else sh_pred_weight_table h = None) /\
  (if nal_ref_idc hdr =? 0 then sh_dec_ref_pic_marking h = None
   else exists d, sh_dec_ref_pic_marking h = Some d /\ wf_drm ut d) /\
  (if has_cabac_init pp f then exists v, cabac_init_idc h = Some v /\ u32v v else cabac_init_idc h = None) /\
  (- 2147483647 <= slice_qp_delta h <= 51)%Z /\
  (if family_eqb f FamSP then exists b, sp_for_switch_flag h = Some b else sp_for_switch_flag h = None) /\
  (if fam_sp_si f then exists q, slice_qs h = Some q /\ q <= 51 else slice_qs h = None) /\
  (if deblocking_filter_control_present_flag pp
   then disable_deblocking_filter_idc h <= 6 /\
        (disable_deblocking_filter_idc h <> 1 -> (-6 <= fst ab <= 6)%Z /\ s32v (snd ab))
   else disable_deblocking_filter_idc h = 0).
