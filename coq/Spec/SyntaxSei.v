(* H.264 Annex D.1.2 buffering_period and D.1.3 pic_timing written as ENCODERS from the structure to the
   payload bits, relative to the SPS whose VUI selects presences and field widths; and the conditions
   under which a structure is a conforming payload for that SPS.  full_timestamp_flag is not kept by the
   library's structure and is an extra argument (one flag per coded clock timestamp). *)
From H264 Require Import Base.Prelude Base.Bits Spec.Golomb Spec.SyntaxSps Model.Sps Model.Context Model.Pps Model.Sei.
Local Open Scope N_scope.

Definition nal_hrd_of (sp : sps) : option hrd_parameters :=
  match vui_parameters_ sp with Some v => nal_hrd_parameters v | None => None end.
Definition vcl_hrd_of (sp : sps) : option hrd_parameters :=
  match vui_parameters_ sp with Some v => vcl_hrd_parameters v | None => None end.

(* ---- D.1.2 ---- *)
Definition enc_bp_hrd (h : option hrd_parameters) (l : option (list (N * N))) : list bool :=
  match h, l with
  | Some p, Some ds =>
      let w := N.to_nat (initial_cpb_removal_delay_length_minus1 p + 1) in
      concat (map (fun d => u w (fst d) ++ u w (snd d)) ds)
  | _, _ => []
  end.

Definition enc_bp (sp : sps) (b : buffering_period) : list bool :=
  ue (seq_parameter_set_id sp) ++ enc_bp_hrd (nal_hrd_of sp) (nal_hrd_bp b) ++ enc_bp_hrd (vcl_hrd_of sp) (vcl_hrd_bp b).

Definition wf_bp_hrd (h : option hrd_parameters) (l : option (list (N * N))) : Prop :=
  match h, l with
  | None, None => True
  | Some p, Some ds =>
      length ds = length (cpb_specs p) /\
      Forall (fun d => fst d < 2 ^ (initial_cpb_removal_delay_length_minus1 p + 1) /\
                       snd d < 2 ^ (initial_cpb_removal_delay_length_minus1 p + 1)) ds
  | _, _ => False
  end.

(* one delay pair per CPB for each HRD that is present *)
Definition wf_bp (sp : sps) (b : buffering_period) : Prop :=
  wf_bp_hrd (nal_hrd_of sp) (nal_hrd_bp b) /\ wf_bp_hrd (vcl_hrd_of sp) (vcl_hrd_bp b).

(* ---- D.1.3 ---- *)
Definition delays_hrd_of (sp : sps) : option hrd_parameters :=
  match nal_hrd_of sp with Some h => Some h | None => vcl_hrd_of sp end.

Definition time_offset_length_of (sp : sps) : N :=
  match delays_hrd_of sp with Some h => time_offset_length h | None => 24 end.

Definition enc_smh (full : bool) (t : sec_min_hour) : list bool :=
  if full then
    match t with SmhSMH s m h => u 6 s ++ u 6 m ++ u 5 h | _ => [] end
  else
    match t with
    | SmhNone => flag false
    | SmhS s => flag true ++ u 6 s ++ flag false
    | SmhSM s m => flag true ++ u 6 s ++ flag true ++ u 6 m ++ flag false
    | SmhSMH s m h => flag true ++ u 6 s ++ flag true ++ u 6 m ++ flag true ++ u 5 h
    end.

Definition enc_time_offset (tol : N) (o : option Z) : list bool :=
  match o with
  | Some z => u (N.to_nat tol) (Z.to_N (z mod 2 ^ Z.of_N tol))      (* i(v): two's complement on tol bits *)
  | None => []
  end.

Definition enc_ct (sp : sps) (full : bool) (c : clock_timestamp) : list bool :=
  u 2 (ct_type c) ++ flag (nuit_field_based_flag c) ++ u 5 (counting_type c) ++ flag full ++
  flag (discontinuity_flag c) ++ flag (cnt_dropped_flag c) ++ u 8 (n_frames c) ++
  enc_smh full (smh c) ++ enc_time_offset (time_offset_length_of sp) (time_offset c).

Definition enc_ct_opt (sp : sps) (e : option clock_timestamp * bool) : list bool :=
  match fst e with Some c => flag true ++ enc_ct sp (snd e) c | None => flag false end.

Definition pic_struct_present (sp : sps) : bool :=
  match vui_parameters_ sp with Some v => pic_struct_present_flag v | None => false end.

Definition enc_pt (sp : sps) (t : pic_timing) (fulls : list bool) : list bool :=
  (match delays_hrd_of sp, pt_delays t with
   | Some h, Some (a, b) => u (N.to_nat (cpb_removal_delay_length_minus1 h + 1)) a ++ u (N.to_nat (dpb_output_delay_length_minus1 h + 1)) b
   | _, _ => []
   end) ++
  (match pt_pic_struct t with
   | Some (id, cts) => u 4 id ++ concat (map (enc_ct_opt sp) (combine cts fulls))
   | None => []
   end).

Definition wf_smh (full : bool) (t : sec_min_hour) : Prop :=
  match t with
  | SmhNone => full = false
  | SmhS s => full = false /\ s < 64
  | SmhSM s m => full = false /\ s < 64 /\ m < 64
  | SmhSMH s m h => s < 64 /\ m < 64 /\ h < 32
  end.

Definition wf_time_offset (tol : N) (o : option Z) : Prop :=
  match o with
  | None => tol = 0
  | Some z => 0 < tol /\ (- 2 ^ (Z.of_N tol - 1) <= z < 2 ^ (Z.of_N tol - 1))%Z
  end.

Definition wf_ct (sp : sps) (full : bool) (c : clock_timestamp) : Prop :=
  ct_type c < 4 /\ counting_type c < 32 /\ n_frames c < 256 /\ wf_smh full (smh c) /\
  wf_time_offset (time_offset_length_of sp) (time_offset c).

Definition wf_pt (sp : sps) (t : pic_timing) (fulls : list bool) : Prop :=
  match delays_hrd_of sp, pt_delays t with
  | None, None => True
  | Some h, Some (a, b) => a < 2 ^ (cpb_removal_delay_length_minus1 h + 1) /\ b < 2 ^ (dpb_output_delay_length_minus1 h + 1)
  | _, _ => False
  end /\
  (if pic_struct_present sp then
     exists id cts, pt_pic_struct t = Some (id, cts) /\ id <= 15 /\
       length cts = num_clock_timestamps id /\ length fulls = length cts /\
       Forall (fun e => match fst e with Some c => wf_ct sp (snd e) c | None => True end) (combine cts fulls)
   else pt_pic_struct t = None).

(* sei_payload: the syntax structure, then - unless byte aligned - bit_equal_to_one and zero bits *)
Definition sei_payload_bits (body : list bool) (pad : list bool) : list bool := body ++ pad.
Definition sei_pad_ok (pad : list bool) : Prop := pad = [] \/ exists k, pad = true :: repeat false k.
