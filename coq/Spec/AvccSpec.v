(* ISO/IEC 14496-15 5.2.4.1 AVCDecoderConfigurationRecord, as a builder. *)
From H264 Require Import Base.Prelude.

Definition enc_ps (nal : list byte) : list byte :=
  [N.of_nat (length nal) / 256; N.of_nat (length nal) mod 256] ++ nal.

Record avcc_header := mk_ah { ah_profile : N; ah_compat : N; ah_level : N; ah_byte4 : N; ah_reserved3 : N }.

Definition build_avcc (h : avcc_header) (spss ppss : list (list byte)) (trailing : list byte) : list byte :=
  [1; ah_profile h; ah_compat h; ah_level h; ah_byte4 h; ah_reserved3 h * 32 + N.of_nat (length spss)]
  ++ concat (map enc_ps spss) ++ [N.of_nat (length ppss)] ++ concat (map enc_ps ppss) ++ trailing.
