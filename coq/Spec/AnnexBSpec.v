(* Annex B byte stream segmentation as a function of the whole stream (no notion of calls).
   outside: skip to the first 00 00 01.  inside: collect the unit's bytes up to the next
   00 00 00 / 00 00 01 or the end of the stream (a reset), returning (unit, later units). *)
From H264 Require Import Base.Prelude.

Fixpoint outside (l : list byte) : list (list byte) :=
  match l with
  | [] => []
  | a :: t1 =>
    match t1 with
    | b :: c :: rest =>
        if (a =? 0) && (b =? 0) && (c =? 1) then
          let '(u, us) := inside rest in u :: us
        else outside t1
    | _ => []
    end
  end
with inside (l : list byte) : list byte * list (list byte) :=
  match l with
  | [] => ([], [])
  | a :: t1 =>
    match t1 with
    | b :: c :: rest =>
        if (a =? 0) && (b =? 0) && (c =? 1) then
          let '(u, us) := inside rest in ([], u :: us)
        else if (a =? 0) && (b =? 0) && (c =? 0) then
          ([], outside t1)
        else let '(u, us) := inside t1 in (a :: u, us)
    | _ => (l, [])
    end
  end.

Definition segment (stream : list byte) : list (list byte) := outside stream.
