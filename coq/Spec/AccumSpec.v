(* What the accumulated-NAL handler must see, as a function of the whole history (C08). *)
From H264 Require Import Base.Prelude Model.Accum.

(* state of the spec: all bytes of the current NAL so far, and whether the handler said Ignore *)
Fixpoint spec_run (sofar : list byte) (ignored : bool) (pol : list interest)
         (frs : list (list (list byte) * bool)) : list (list byte * bool) :=
  match frs with
  | [] => []
  | (bufs, e) :: more =>
    let sofar' := sofar ++ concat bufs in
    match ignored, sofar' with
    | false, _ :: _ =>
        let '(d, pol') := next_decision pol in
        (sofar', e) ::
        (if e then spec_run [] false pol' more
         else spec_run sofar' (match d with Ignore => true | Buffer => false end) pol' more)
    | _, _ =>
        if e then spec_run [] false pol more else spec_run sofar' ignored pol more
    end
  end.

Definition spec_history pol frs := spec_run [] false pol frs.
