(* H.264 7.4.2.1.1 / Table 6-1: frame size from the SPS, over unbounded integers. *)
From H264 Require Import Base.Prelude Model.Sps.

(* SubWidthC / SubHeightC-derived crop units; separate planes only exist with 4:4:4 where both are 1 *)
Definition crop_unit_x (cf : chroma_format) : Z := match cf with YUV420 | YUV422 => 2 | _ => 1 end.
Definition field_mul (f : frame_mbs_flags) : Z := match f with Frames => 1 | Fields _ => 2 end.   (* 2 - frame_mbs_only_flag *)
Definition crop_unit_y (cf : chroma_format) (f : frame_mbs_flags) : Z :=
  (match cf with YUV420 => 2 | _ => 1 end * field_mul f)%Z.

Definition crop_of (s : sps) : Z * Z * Z * Z :=
  match frame_cropping_ s with
  | Some c => (Z.of_N (left_offset c), Z.of_N (right_offset c), Z.of_N (top_offset c), Z.of_N (bottom_offset c))
  | None => (0, 0, 0, 0)%Z
  end.

Definition coded_width (s : sps) : Z := (16 * (Z.of_N (pic_width_in_mbs_minus1 s) + 1))%Z.
Definition coded_height (s : sps) : Z := (16 * field_mul (frame_mbs_flags_ s) * (Z.of_N (pic_height_in_map_units_minus1 s) + 1))%Z.

Definition spec_width (s : sps) : Z :=
  let '(l, r, _, _) := crop_of s in (coded_width s - crop_unit_x (chroma_format_ (chroma_info_ s)) * (l + r))%Z.
Definition spec_height (s : sps) : Z :=
  let '(_, _, t, b) := crop_of s in
  (coded_height s - crop_unit_y (chroma_format_ (chroma_info_ s)) (frame_mbs_flags_ s) * (t + b))%Z.

Definition u32max : Z := 4294967295.

(* every product the computation forms fits 32 bits *)
Definition products_fit (s : sps) : Prop :=
  let cf := chroma_format_ (chroma_info_ s) in
  let '(l, r, t, b) := crop_of s in
  (coded_width s <= u32max /\ coded_height s <= u32max /\
   crop_unit_x cf * l <= u32max /\ crop_unit_x cf * r <= u32max /\
   crop_unit_y cf (frame_mbs_flags_ s) * t <= u32max /\ crop_unit_y cf (frame_mbs_flags_ s) * b <= u32max)%Z.

(* the crop does not exceed the picture *)
Definition crop_within (s : sps) : Prop := (0 <= spec_width s /\ 0 <= spec_height s)%Z.
