(* H.264 7.3.2.1.1 seq_parameter_set_data, 7.3.2.1.1.1 scaling_list, E.1.1 vui_parameters, E.1.2
   hrd_parameters: the syntax tables written as ENCODERS from the structure to its bits, and the
   ranges the standard allows (the wf_ predicates).  Descriptors: u(n) = to_bits, ue(v) = enc_ue, se(v) = enc_se. *)
From H264 Require Import Base.Prelude Base.Bits Spec.Golomb Model.Sps.

Definition u (n : nat) (v : N) : list bool := to_bits n v.
Definition flag (b : bool) : list bool := [b].
Definition ue := enc_ue.
Definition se := enc_se.

(* the profiles whose SPS carries chroma_format_idc etc. (7.3.2.1.1) *)
Definition spec_has_chroma_info (p : N) : bool :=
  existsb (N.eqb p) [100; 110; 122; 244; 44; 83; 86; 118; 128; 138; 139; 134; 135].

Definition idc_of_chroma_format (c : chroma_format) : N :=
  match c with Monochrome => 0 | YUV420 => 1 | YUV422 => 2 | YUV444 => 3 | CfInvalid n => n end.

(* 7.3.2.1.1.1: the delta_scale values of one list; the derived list is what the parser must return *)
Fixpoint derive_scaling (deltas : list Z) (n : nat) (j0 : bool) (last next : N) (ud : bool) (acc : list N)
  : option (bool * list N) :=
  match n with
  | O => match deltas with [] => Some (ud, acc) | _ => None end
  | S n' =>
    if next =? 0 then derive_scaling deltas n' false last 0 ud (acc ++ [last])
    else match deltas with
         | [] => None
         | d :: ds =>
           let next' := Z.to_N ((Z.of_N last + d + 256) mod 256) in
           let v := if next' =? 0 then last else next' in
           derive_scaling ds n' false v next' (j0 && (next' =? 0)) (acc ++ [v])
         end
  end.

Definition enc_scaling_list (present : option (list Z)) : list bool :=
  match present with
  | None => flag false
  | Some deltas => flag true ++ concat (map se deltas)
  end.

Definition sem_scaling_list (size : nat) (present : option (list Z)) : option scaling_list :=
  match present with
  | None => Some SlNotPresent
  | Some deltas => match derive_scaling deltas size true 8 8 false [] with
                   | Some (true, _) => Some SlUseDefault
                   | Some (false, l) => Some (SlList l)
                   | None => None
                   end
  end.

Definition enc_hrd (h : hrd_parameters) : list bool :=
  ue (N.of_nat (length (cpb_specs h)) - 1) ++ u 4 (bit_rate_scale h) ++ u 4 (cpb_size_scale h) ++
  concat (map (fun c => ue (bit_rate_value_minus1 c) ++ ue (cpb_size_value_minus1 c) ++ flag (cbr_flag c)) (cpb_specs h)) ++
  u 5 (initial_cpb_removal_delay_length_minus1 h) ++ u 5 (cpb_removal_delay_length_minus1 h) ++
  u 5 (dpb_output_delay_length_minus1 h) ++ u 5 (time_offset_length h).

Definition enc_opt {A} (f : A -> list bool) (o : option A) : list bool :=
  match o with Some a => flag true ++ f a | None => flag false end.

Definition enc_aspect (a : aspect_ratio_info) : list bool :=
  match a with
  | ArUnspecified => u 8 0
  | ArRatio idc => u 8 idc
  | ArReserved n => u 8 n
  | ArExtended w h => u 8 255 ++ u 16 w ++ u 16 h
  end.

Definition enc_vui (v : vui_parameters) : list bool :=
  enc_opt enc_aspect (aspect_ratio_info_ v) ++
  (match overscan_appropriate_ v with
   | OvUnspecified => flag false | OvAppropriate => flag true ++ flag true | OvInappropriate => flag true ++ flag false end) ++
  enc_opt (fun x => u 3 (video_format x) ++ flag (video_full_range_flag x) ++
                    enc_opt (fun c => u 8 (colour_primaries c) ++ u 8 (transfer_characteristics c) ++ u 8 (matrix_coefficients c))
                            (colour_description_ x)) (video_signal_type_ v) ++
  enc_opt (fun c => ue (chroma_sample_loc_type_top_field c) ++ ue (chroma_sample_loc_type_bottom_field c)) (chroma_loc_info_ v) ++
  enc_opt (fun t => u 32 (num_units_in_tick t) ++ u 32 (time_scale t) ++ flag (fixed_frame_rate_flag t)) (timing_info_ v) ++
  enc_opt enc_hrd (nal_hrd_parameters v) ++
  enc_opt enc_hrd (vcl_hrd_parameters v) ++
  (match low_delay_hrd_flag v with Some b => flag b | None => [] end) ++
  flag (pic_struct_present_flag v) ++
  enc_opt (fun b => flag (motion_vectors_over_pic_boundaries_flag b) ++ ue (max_bytes_per_pic_denom b) ++
                    ue (max_bits_per_mb_denom b) ++ ue (log2_max_mv_length_horizontal b) ++ ue (log2_max_mv_length_vertical b) ++
                    ue (max_num_reorder_frames b) ++ ue (max_dec_frame_buffering b)) (bitstream_restrictions_ v).

Definition enc_poc (p : pic_order_cnt) : list bool :=
  match p with
  | PocTypeZero l => ue 0 ++ ue l
  | PocTypeOne az nr tb offs =>
      ue 1 ++ flag az ++ se nr ++ se tb ++ ue (N.of_nat (length offs)) ++ concat (map se offs)
  | PocTypeTwo => ue 2
  end.

(* seq_parameter_set_data up to (not including) the rbsp trailing bits; `lists` are the coded scaling
   lists (8 or 12 entries) when seq_scaling_matrix_present_flag = 1 *)
Definition enc_sps (x : sps) (lists : option (list (option (list Z)))) : list bool :=
  u 8 (profile_idc x) ++ u 8 (constraint_flags x) ++ u 8 (level_idc x) ++ ue (seq_parameter_set_id x) ++
  (if spec_has_chroma_info (profile_idc x) then
     let ci := chroma_info_ x in
     let idc := idc_of_chroma_format (chroma_format_ ci) in
     ue idc ++ (if idc =? 3 then flag (separate_colour_plane_flag ci) else []) ++
     ue (bit_depth_luma_minus8 ci) ++ ue (bit_depth_chroma_minus8 ci) ++ flag (qpprime_y_zero_transform_bypass_flag ci) ++
     match lists with
     | Some ls => flag true ++ concat (map enc_scaling_list ls)
     | None => flag false
     end
   else []) ++
  ue (log2_max_frame_num_minus4 x) ++ enc_poc (pic_order_cnt_ x) ++
  ue (max_num_ref_frames x) ++ flag (gaps_in_frame_num_value_allowed_flag x) ++
  ue (pic_width_in_mbs_minus1 x) ++ ue (pic_height_in_map_units_minus1 x) ++
  (match frame_mbs_flags_ x with Frames => flag true | Fields m => flag false ++ flag m end) ++
  flag (direct_8x8_inference_flag x) ++
  enc_opt (fun c => ue (left_offset c) ++ ue (right_offset c) ++ ue (top_offset c) ++ ue (bottom_offset c)) (frame_cropping_ x) ++
  enc_opt enc_vui (vui_parameters_ x).

Definition trailing_bits (k : nat) : list bool := true :: repeat false k.

(* ---- ranges the standard allows, as far as the library represents them ---- *)
Definition u32v (v : N) : Prop := v < 4294967295.          (* ue(v) values fit the 32-bit limit *)
Definition s32v (z : Z) : Prop := (- 2147483647 <= z <= 2147483647)%Z.

Definition wf_hrd (h : hrd_parameters) : Prop :=
  (1 <= length (cpb_specs h) <= 32)%nat /\ bit_rate_scale h < 16 /\ cpb_size_scale h < 16 /\
  Forall (fun c => u32v (bit_rate_value_minus1 c) /\ u32v (cpb_size_value_minus1 c)) (cpb_specs h) /\
  initial_cpb_removal_delay_length_minus1 h < 32 /\ cpb_removal_delay_length_minus1 h < 32 /\
  dpb_output_delay_length_minus1 h < 32 /\ time_offset_length h < 32.

Definition wf_aspect (a : aspect_ratio_info) : Prop :=
  match a with
  | ArUnspecified => True
  | ArRatio idc => 1 <= idc <= 16
  | ArReserved n => 17 <= n <= 254
  | ArExtended w h => w < 65536 /\ h < 65536
  end.

Definition wf_vui (mr : N) (v : vui_parameters) : Prop :=
  match aspect_ratio_info_ v with Some a => wf_aspect a | None => True end /\
  match video_signal_type_ v with
  | Some x => video_format x < 8 /\
              match colour_description_ x with
              | Some c => colour_primaries c < 256 /\ transfer_characteristics c < 256 /\ matrix_coefficients c < 256
              | None => True end
  | None => True end /\
  match chroma_loc_info_ v with
  | Some c => u32v (chroma_sample_loc_type_top_field c) /\ u32v (chroma_sample_loc_type_bottom_field c) | None => True end /\
  match timing_info_ v with Some t => num_units_in_tick t < 4294967296 /\ time_scale t < 4294967296 | None => True end /\
  match nal_hrd_parameters v with Some h => wf_hrd h | None => True end /\
  match vcl_hrd_parameters v with Some h => wf_hrd h | None => True end /\
  (is_some (low_delay_hrd_flag v) = is_some (nal_hrd_parameters v) || is_some (vcl_hrd_parameters v)) /\
  match bitstream_restrictions_ v with
  | Some b => max_bytes_per_pic_denom b <= 16 /\ max_bits_per_mb_denom b <= 16 /\
              log2_max_mv_length_horizontal b <= 16 /\ log2_max_mv_length_vertical b <= 16 /\
              max_num_reorder_frames b <= max_dec_frame_buffering b /\ mr <= max_dec_frame_buffering b /\
              u32v (max_dec_frame_buffering b)
  | None => True end.

Definition wf_poc (p : pic_order_cnt) : Prop :=
  match p with
  | PocTypeZero l => l <= 12
  | PocTypeOne _ nr tb offs => s32v nr /\ s32v tb /\ (length offs <= 255)%nat /\ Forall s32v offs
  | PocTypeTwo => True
  end.

Definition wf_sps (x : sps) (lists : option (list (option (list Z)))) : Prop :=
  profile_idc x < 256 /\ constraint_flags x < 256 /\ level_idc x < 256 /\ seq_parameter_set_id x <= 31 /\
  (let ci := chroma_info_ x in
   if spec_has_chroma_info (profile_idc x) then
     idc_of_chroma_format (chroma_format_ ci) <= 3 /\
     chroma_format_ ci = chroma_format_of_idc (idc_of_chroma_format (chroma_format_ ci)) /\
     (separate_colour_plane_flag ci = true -> chroma_format_ ci = YUV444) /\
     bit_depth_luma_minus8 ci <= 6 /\ bit_depth_chroma_minus8 ci <= 6 /\
     match lists with
     | None => scaling_matrix ci = None
     | Some ls =>
         length ls = (if (idc_of_chroma_format (chroma_format_ ci) =? 3)%N then 12%nat else 8%nat) /\
         Forall (fun l => match l with Some ds => Forall (fun d => (-128 <= d <= 127)%Z) ds | None => True end) ls /\
         exists l4 l8, scaling_matrix ci = Some (mk_ssm l4 l8) /\
           map Some l4 = map (sem_scaling_list 16) (firstn 6 ls) /\
           map Some l8 = map (sem_scaling_list 64) (skipn 6 ls)
     end
   else ci = chroma_info_default /\ lists = None) /\
  log2_max_frame_num_minus4 x <= 12 /\ wf_poc (pic_order_cnt_ x) /\
  u32v (max_num_ref_frames x) /\ u32v (pic_width_in_mbs_minus1 x) /\ u32v (pic_height_in_map_units_minus1 x) /\
  match frame_cropping_ x with
  | Some c => u32v (left_offset c) /\ u32v (right_offset c) /\ u32v (top_offset c) /\ u32v (bottom_offset c) | None => True end /\
  match vui_parameters_ x with Some v => wf_vui (max_num_ref_frames x) v | None => True end.
