(* H.264 clause 9.1: Exp-Golomb codewords, written as encoders. *)
From H264 Require Import Base.Prelude Base.Bits.

(* ue(v): codeNum n is  [m zeros] 1 [m-bit info],  m = floor(log2(n+1)), info = n + 1 - 2^m *)
Definition enc_ue (n : N) : list bool :=
  let m := N.log2 (n + 1) in
  repeat false (N.to_nat m) ++ [true] ++ to_bits (N.to_nat m) (n + 1 - 2 ^ m).

(* Table 9-3: se(v) value k > 0 has codeNum 2k-1, k <= 0 has codeNum -2k *)
Definition codenum_of_se (z : Z) : N :=
  if (0 <? z)%Z then Z.to_N (2 * z - 1) else Z.to_N (- 2 * z).
Definition enc_se (z : Z) : list bool := enc_ue (codenum_of_se z).

(* 9.1.1: (-1)^(k+1) * Ceil(k / 2) *)
Definition se_of_codenum (k : N) : Z :=
  if N.odd k then Z.of_N ((k + 1) / 2) else (- Z.of_N (k / 2))%Z.

(* u(n): n-bit big-endian *)
Definition enc_u (n : nat) (v : N) : list bool := to_bits n v.
