(* H.264 7.4.1: emulation prevention.  unescape works on the bytes after the NAL header, by
   3-byte look-ahead; escape is the encoder side. *)
From H264 Require Import Base.Prelude.

(* None = the input holds a forbidden sequence (00 00 00, or 00 00 03 followed by a byte above 03) *)
Fixpoint unescape (l : list byte) : option (list byte) :=
  match l with
  | [] => Some []
  | a :: t1 =>
    match t1 with
    | b :: c :: r =>
        if (a =? 0) && (b =? 0) && (c =? 0) then None
        else if (a =? 0) && (b =? 0) && (c =? 3) then
          match r with
          | [] => Some [0; 0]
          | x :: _ => if 3 <? x then None
                      else match unescape r with Some u => Some (0 :: 0 :: u) | None => None end
          end
        else match unescape t1 with Some u => Some (a :: u) | None => None end
    | _ => Some l
    end
  end.

(* insert 03 before any byte <= 03 that follows two zero bytes of the output; a trailing 00 00 gets 03 appended *)
Fixpoint escape_from (zeros : nat) (p : list byte) : list byte :=
  match p with
  | [] => match zeros with S (S _) => [3] | _ => [] end
  | b :: r =>
    match zeros with
    | S (S _) => if b <=? 3 then 3 :: b :: escape_from (if b =? 0 then 1 else 0) r
                 else b :: escape_from 0 r
    | _ => b :: escape_from (if b =? 0 then S zeros else 0) r
    end
  end.
Definition escape (p : list byte) : list byte := escape_from 0 p.
