(* H.264 7.3.2.3 / 7.3.2.3.1: sei_rbsp = sei_message+ rbsp_trailing_bits; payload type and size are
   coded as ff_byte* last_byte with value 255*k + last. *)
From H264 Require Import Base.Prelude.

Definition ff_code (n : N) : list byte := repeat 255 (N.to_nat (n / 255)) ++ [n mod 255].
Definition enc_msg (m : N * list byte) : list byte :=
  ff_code (fst m) ++ ff_code (N.of_nat (length (snd m))) ++ snd m.
Definition enc_sei (msgs : list (N * list byte)) : list byte := concat (map enc_msg msgs) ++ [128].
