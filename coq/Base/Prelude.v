(* Shared vocabulary: bytes, outcomes with explicit panic, machine arithmetic. *)
From Coq Require Export String.
From Coq Require Export NArith ZArith Lia Bool List.
From Coq Require Export ZifyBool ZifyNat ZifyN.
Export ListNotations.
Global Open Scope N_scope.

Ltac Zify.zify_post_hook ::= Z.div_mod_to_equations.
Global Arguments N.add : simpl never.
Global Arguments N.mul : simpl never.
Global Arguments N.sub : simpl never.
Global Arguments N.pow : simpl never.
Global Arguments N.div : simpl never.
Global Arguments N.modulo : simpl never.
Global Arguments N.eqb : simpl never.
Global Arguments N.ltb : simpl never.
Global Arguments N.leb : simpl never.
Global Arguments N.shiftl : simpl never.
Global Arguments N.shiftr : simpl never.
Global Arguments Z.add : simpl never.
Global Arguments Z.mul : simpl never.
Global Arguments Z.sub : simpl never.
Global Arguments Z.pow : simpl never.

Notation byte := N (only parsing).

(* Result of a model function.  PANIC is everything that aborts Rust in a build with
   overflow checks and debug assertions; FUEL is an exhausted fuelled loop. *)
Inductive out (E A : Type) : Type :=
| OK (a : A)
| ERR (e : E)
| PANIC (why : string)
| FUEL.
Arguments OK {E A} a.
Arguments ERR {E A} e.
Arguments PANIC {E A} why.
Arguments FUEL {E A}.

Definition obind {E A B} (x : out E A) (f : A -> out E B) : out E B :=
  match x with
  | OK a => f a
  | ERR e => ERR e
  | PANIC w => PANIC w
  | FUEL => FUEL
  end.

Definition omap_err {E F A} (g : E -> F) (x : out E A) : out F A :=
  match x with
  | OK a => OK a
  | ERR e => ERR (g e)
  | PANIC w => PANIC w
  | FUEL => FUEL
  end.

Definition is_ok {E A} (x : out E A) : bool := match x with OK _ => true | _ => false end.
Definition is_panic {E A} (x : out E A) : bool := match x with PANIC _ => true | _ => false end.
Definition no_abort {E A} (x : out E A) : Prop :=
  match x with OK _ | ERR _ => True | _ => False end.

(* Kinds of std::io::Error that can reach the library's callers. *)
Inductive iokind := UnexpectedEof | WouldBlock | InvalidData | InvalidInput.

Definition iokind_eqb (a b : iokind) : bool :=
  match a, b with
  | UnexpectedEof, UnexpectedEof | WouldBlock, WouldBlock
  | InvalidData, InvalidData | InvalidInput, InvalidInput => true
  | _, _ => false
  end.

(* Machine arithmetic: the unchecked Rust operators, which panic in a checked build. *)
Definition two32 : N := 4294967296.
Definition two31z : Z := 2147483648.

Definition add32 {E} (a b : N) : out E N :=
  if a + b <? two32 then OK (a + b) else PANIC "attempt to add with overflow".
Definition sub32 {E} (a b : N) : out E N :=
  if b <=? a then OK (a - b) else PANIC "attempt to subtract with overflow".
Definition mul32 {E} (a b : N) : out E N :=
  if a * b <? two32 then OK (a * b) else PANIC "attempt to multiply with overflow".
Definition shl32 {E} (a sh : N) : out E N :=
  (* `a << sh` on u32: panics when sh >= 32; bits shifted out are lost silently *)
  if sh <? 32 then OK ((a * 2 ^ sh) mod two32) else PANIC "attempt to shift left with overflow".

Definition in_i32 (z : Z) : bool := ((- two31z <=? z) && (z <? two31z))%Z.
Definition addi32 {E} (a b : Z) : out E Z :=
  if in_i32 (a + b) then OK (a + b)%Z else PANIC "attempt to add with overflow".
Definition subi32 {E} (a b : Z) : out E Z :=
  if in_i32 (a - b) then OK (a - b)%Z else PANIC "attempt to subtract with overflow".
Definition muli32 {E} (a b : Z) : out E Z :=
  if in_i32 (a * b) then OK (a * b)%Z else PANIC "attempt to multiply with overflow".
Definition negi32 {E} (a : Z) : out E Z :=
  if in_i32 (- a) then OK (- a)%Z else PANIC "attempt to negate with overflow".

Definition checked_add32 (a b : N) : option N := if a + b <? two32 then Some (a + b) else None.
Definition checked_mul32 (a b : N) : option N := if a * b <? two32 then Some (a * b) else None.
Definition checked_sub32 (a b : N) : option N := if b <=? a then Some (a - b) else None.

(* list helpers used by several layers *)
Fixpoint zeros (k : nat) : list byte := match k with O => [] | S k' => 0 :: zeros k' end.
Definition sub {A} (l : list A) (s e : nat) : list A := firstn (e - s) (skipn s l).
Definition drop_last {A} (k : nat) (l : list A) : list A := rev (skipn k (rev l)).
