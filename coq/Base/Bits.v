(* Big-endian bit strings. *)
From H264 Require Import Base.Prelude.

Fixpoint to_bits (k : nat) (v : N) : list bool :=
  match k with O => [] | S k' => to_bits k' (v / 2) ++ [N.odd v] end.

Fixpoint from_bits_acc (acc : N) (bs : list bool) : N :=
  match bs with [] => acc | b :: r => from_bits_acc (2 * acc + N.b2n b) r end.
Definition from_bits (bs : list bool) : N := from_bits_acc 0 bs.

Definition bits_of_byte (b : byte) : list bool := to_bits 8 b.
Definition bits_of_bytes (l : list byte) : list bool := flat_map bits_of_byte l.

Fixpoint take_bits (n : nat) (bs : list bool) : option (list bool * list bool) :=
  match n with
  | O => Some ([], bs)
  | S n' =>
      match bs with
      | [] => None
      | b :: r => match take_bits n' r with Some (x, y) => Some (b :: x, y) | None => None end
      end
  end.

(* two's complement reading of a k-bit unsigned value, k >= 1 *)
Definition sign_extend (k : N) (v : N) : Z :=
  if k =? 0 then 0%Z else
  if v <? 2 ^ (k - 1) then Z.of_N v else (Z.of_N v - Z.of_N (2 ^ k))%Z.
