(* The bit source the parsers see on a NAL, from the byte layers (C02 + C15): the unescaped payload with
   tail Eof for a complete NAL and WouldBlock for a partially buffered one; and a prefix of a clean NAL
   presented as incomplete is a prefix_src of the complete one, whatever the two chunkings. *)
From H264 Require Import Base.Prelude Base.Bits Spec.Escape Model.BitReader Model.RefNal Model.Rbsp Model.Source
     Proofs.C15_proofs Proofs.RbspSem Proofs.RbspScan Proofs.RbspReader Proofs.RbspStream Proofs.C17_proofs.
Local Open Scope N_scope.

Lemma uout_prefix a : forall s b, snd (uout s (a ++ b)) = true ->
  snd (uout s a) = true /\ exists q, fst (uout s (a ++ b)) = fst (uout s a) ++ q.
Proof.
  induction a as [|x r IH]; intros s b H.
  - cbn [app uout snd fst]. split; [reflexivity|]. eexists. reflexivity.
  - cbn [app uout] in *.
    destruct s; repeat match goal with |- context [if ?c then _ else _] => destruct c end;
    try (cbn [snd] in H; discriminate);
    match goal with |- context [uout ?s' (r ++ b)] =>
      specialize (IH s' b); destruct (uout s' (r ++ b)) as [o1 k1]; destruct (uout s' r) as [o2 k2];
      cbn [fst snd] in *; destruct (IH H) as [Hk [q Hq]]; split; [exact Hk|exists q; rewrite Hq; reflexivity] end.
Qed.

Lemma unescape_prefix a b p : unescape (a ++ b) = Some p ->
  exists p1 q, unescape a = Some p1 /\ p = p1 ++ q.
Proof.
  intros H. pose proof (uout_start_is_unescape (a ++ b)) as Hu. rewrite H in Hu. cbn [of_option] in Hu.
  assert (Hs : snd (uout Start (a ++ b)) = true) by (rewrite Hu; reflexivity).
  destruct (uout_prefix a Start b Hs) as [Hk [q Hq]]. rewrite Hu in Hq. cbn [fst] in Hq.
  exists (fst (uout Start a)), q. split; [|exact Hq].
  rewrite (unescape_via_uout a (fst (uout Start a)) (snd (uout Start a))) by (destruct (uout Start a); reflexivity).
  rewrite Hk. reflexivity.
Qed.

(* the bit source on a NAL given in chunks *)
Theorem bitsrc_of_nal c head tl p : head <> [] -> Forall (fun ch => ch <> []) tl ->
  unescape (skipn 1 (head ++ concat tl)) = Some p ->
  bitsrc_of_source (SrcNal c (head :: tl)) = mk_src (bits_of_bytes p) (if c then TEof else TWouldBlock).
Proof.
  intros Hh Ht Hu. unfold bitsrc_of_source, src_of_br, rdr_of_source.
  assert (Hlen : 1 <= N.of_nat (length (head ++ concat tl))).
  { destruct head; [contradiction|]. cbn [app length]. lia. }
  pose proof (stream_drain head tl c 1 128 Hh Ht ltac:(lia) Hlen) as H.
  destruct (br_drain (br_new (rdr_of_nal head tl c) 1 128)) as [[d t] r'].
  unfold payload in H. change (N.to_nat 1) with 1%nat in H. rewrite Hu in H. destruct H as [-> ->].
  destruct c; reflexivity.
Qed.

Lemma bits_of_bytes_app a b : bits_of_bytes (a ++ b) = bits_of_bytes a ++ bits_of_bytes b.
Proof. unfold bits_of_bytes. apply flat_map_app. Qed.

(* a partially buffered clean NAL is a prefix source of the complete NAL, for any two chunkings *)
Theorem partial_nal_prefix_src head1 tl1 head2 tl2 more p :
  head1 <> [] -> Forall (fun ch => ch <> []) tl1 -> head2 <> [] -> Forall (fun ch => ch <> []) tl2 ->
  head2 ++ concat tl2 = (head1 ++ concat tl1) ++ more ->
  unescape (skipn 1 (head2 ++ concat tl2)) = Some p ->
  prefix_src (bitsrc_of_source (SrcNal false (head1 :: tl1))) (bitsrc_of_source (SrcNal true (head2 :: tl2))) /\
  bitsrc_of_source (SrcNal true (head2 :: tl2)) = mk_src (bits_of_bytes p) TEof.
Proof.
  intros H1 T1 H2 T2 Hm Hu.
  assert (Hsk : skipn 1 (head2 ++ concat tl2) = skipn 1 (head1 ++ concat tl1) ++ more).
  { rewrite Hm. destruct head1 as [|x xs]; [contradiction|]. reflexivity. }
  rewrite Hsk in Hu. destruct (unescape_prefix _ _ _ Hu) as (p1 & q & Hu1 & Hp).
  rewrite <- Hsk in Hu.
  rewrite (bitsrc_of_nal false head1 tl1 p1 H1 T1 Hu1), (bitsrc_of_nal true head2 tl2 p H2 T2 Hu).
  split; [|reflexivity]. split; [reflexivity|]. cbn [bits]. exists (bits_of_bytes q). rewrite Hp. apply bits_of_bytes_app.
Qed.

(* the same for the byte source under the SEI reader *)
From H264 Require Import Model.Sei Model.Driver Proofs.C17_more.

Theorem bytesrc_of_nal c head tl p : head <> [] -> Forall (fun ch => ch <> []) tl ->
  unescape (skipn 1 (head ++ concat tl)) = Some p ->
  bytesrc_of_source (SrcNal c (head :: tl)) = mk_bsrc p (if c then TEof else TWouldBlock).
Proof.
  intros Hh Ht Hu. unfold bytesrc_of_source, bsrc_of_br, rdr_of_source.
  assert (Hlen : 1 <= N.of_nat (length (head ++ concat tl))).
  { destruct head; [contradiction|]. cbn [app length]. lia. }
  pose proof (stream_drain head tl c 1 128 Hh Ht ltac:(lia) Hlen) as H.
  destruct (br_drain (br_new (rdr_of_nal head tl c) 1 128)) as [[d t] r'].
  unfold payload in H. change (N.to_nat 1) with 1%nat in H. rewrite Hu in H. destruct H as [-> ->].
  destruct c; reflexivity.
Qed.

Theorem partial_nal_prefix_reader head1 tl1 head2 tl2 more p :
  head1 <> [] -> Forall (fun ch => ch <> []) tl1 -> head2 <> [] -> Forall (fun ch => ch <> []) tl2 ->
  head2 ++ concat tl2 = (head1 ++ concat tl1) ++ more ->
  unescape (skipn 1 (head2 ++ concat tl2)) = Some p ->
  prefix_reader (sei_new (bytesrc_of_source (SrcNal false (head1 :: tl1)))) (sei_new (bytesrc_of_source (SrcNal true (head2 :: tl2)))).
Proof.
  intros H1 T1 H2 T2 Hm Hu.
  assert (Hsk : skipn 1 (head2 ++ concat tl2) = skipn 1 (head1 ++ concat tl1) ++ more).
  { rewrite Hm. destruct head1 as [|x xs]; [contradiction|]. reflexivity. }
  rewrite Hsk in Hu. destruct (unescape_prefix _ _ _ Hu) as (p1 & q & Hu1 & Hp).
  rewrite <- Hsk in Hu.
  rewrite (bytesrc_of_nal false head1 tl1 p1 H1 T1 Hu1), (bytesrc_of_nal true head2 tl2 p H2 T2 Hu).
  unfold prefix_reader, sei_new, prefix_bsrc. cbn [sr_src payloads_seen sr_done sbytes stail].
  repeat split. exists q. exact Hp.
Qed.
