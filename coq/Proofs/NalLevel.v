(* Capstone: from the structure to the NAL unit and back, through every layer.  A parameter set encoded per the syntax
   tables, completed by rbsp trailing bits to a whole number of bytes, escaped (7.4.1) and prefixed by a NAL header
   byte, then handed to the parser as a RefNal in ANY chunking, parses to the structure. *)
From H264 Require Import Base.Prelude Base.Bits Spec.Escape Spec.Golomb Spec.SyntaxSps Spec.SyntaxPps
     Model.BitReader Model.Parser Model.RefNal Model.Rbsp Model.Source Model.Sps Model.Context Model.Pps
     Proofs.BitsLemmas Proofs.EscapeProofs Proofs.RbspStream Proofs.C17_tie Proofs.SpsRoundtrip Proofs.SpsInv Proofs.PpsInv Proofs.PpsRoundtrip.
Local Open Scope N_scope.

(* pack bits into bytes, most significant bit first; a final partial byte is padded with zeros *)
Fixpoint bytes_of_bits (fuel : nat) (bs : list bool) : list byte :=
  match fuel with
  | O => []
  | S f => match bs with
           | [] => []
           | _ => from_bits (firstn 8 (bs ++ repeat false 7)) :: bytes_of_bits f (skipn 8 bs)
           end
  end.
Definition pack (bs : list bool) : list byte := bytes_of_bits (S (length bs)) bs.

Lemma bits_of_bytes_pack_aux fuel : forall bs, (length bs < fuel)%nat -> (8 | N.of_nat (length bs))%N -> bits_of_bytes (bytes_of_bits fuel bs) = bs.
Proof.
  induction fuel as [|f IH]; intros bs Hf Hd; [lia|]. cbn [bytes_of_bits].
  destruct bs as [|b0 r]; [reflexivity|].
  destruct Hd as [k Hk].
  assert (Hlen : (8 <= length (b0 :: r))%nat) by (destruct k; [cbn [length] in Hk; lia|lia]).
  set (l := b0 :: r) in *.
  assert (Hf8 : firstn 8 (l ++ repeat false 7) = firstn 8 l) by (rewrite firstn_app; replace (8 - length l)%nat with 0%nat by lia; rewrite firstn_O, app_nil_r; reflexivity).
  rewrite Hf8. unfold bits_of_bytes. cbn [flat_map]. fold (bits_of_bytes (bytes_of_bits f (skipn 8 l))).
  rewrite IH.
  - unfold bits_of_byte. assert (H8 : length (firstn 8 l) = 8%nat) by (rewrite firstn_length; lia).
    rewrite <- H8 at 1. rewrite to_bits_from_bits. apply firstn_skipn.
  - rewrite skipn_length. lia.
  - rewrite skipn_length. exists (k - 1). lia.
Qed.

Lemma bits_of_bytes_pack bs : (8 | N.of_nat (length bs)) -> bits_of_bytes (pack bs) = bs.
Proof. intros H. apply bits_of_bytes_pack_aux; [lia|exact H]. Qed.

(* the NAL unit for an RBSP given as bits (a whole number of bytes) *)
Definition nal_of_bits (hdr : byte) (rbsp_bits : list bool) : list byte := hdr :: escape (pack rbsp_bits).

Theorem nal_bitsrc_of_bits hdr bs c head tl :
  (8 | N.of_nat (length bs)) -> head <> [] -> Forall (fun ch => ch <> []) tl -> head ++ concat tl = nal_of_bits hdr bs ->
  bitsrc_of_source (SrcNal c (head :: tl)) = mk_src bs (if c then TEof else TWouldBlock).
Proof.
  intros Hd Hh Ht Hcat.
  rewrite (bitsrc_of_nal c head tl (pack bs) Hh Ht).
  - rewrite bits_of_bytes_pack by exact Hd. reflexivity.
  - rewrite Hcat. unfold nal_of_bits. cbn [skipn]. apply unescape_escape.
Qed.

(* SPS: any number k of trailing zero bits that completes the last byte *)
Theorem sps_nal_roundtrip x lists k hdr head tl : wf_sps x lists ->
  (8 | N.of_nat (length (enc_sps x lists ++ trailing_bits k))) ->
  head <> [] -> Forall (fun ch => ch <> []) tl -> head ++ concat tl = nal_of_bits hdr (enc_sps x lists ++ trailing_bits k) ->
  sps_from_bits (bitsrc_of_source (SrcNal true (head :: tl))) = OK x.
Proof.
  intros Hwf Hd Hh Ht Hcat. rewrite (nal_bitsrc_of_bits hdr _ true head tl Hd Hh Ht Hcat). apply sps_roundtrip. exact Hwf.
Qed.

Theorem pps_nal_roundtrip c p plists k hdr head tl : ctx_sps_ok c -> wf_pps c p plists ->
  (8 | N.of_nat (length (enc_pps p plists ++ trailing_bits k))) ->
  head <> [] -> Forall (fun ch => ch <> []) tl -> head ++ concat tl = nal_of_bits hdr (enc_pps p plists ++ trailing_bits k) ->
  pps_from_bits c (bitsrc_of_source (SrcNal true (head :: tl))) = OK p.
Proof.
  intros Hc Hwf Hd Hh Ht Hcat. rewrite (nal_bitsrc_of_bits hdr _ true head tl Hd Hh Ht Hcat). apply pps_roundtrip; assumption.
Qed.

From H264 Require Import Model.Nal Model.Slice Spec.SyntaxSlice Proofs.SliceInv Proofs.SliceRoundtrip Proofs.C14_proofs.

(* slice NAL: header bits followed by the slice data (which ends with the rbsp stop bit) *)
Theorem slice_nal_roundtrip c hdr pp sp h ab em data head tl : ctx_ok c -> wf_slice c hdr pp sp h ab ->
  any_one (List.tl data) = true ->
  (8 | N.of_nat (length (enc_slice_header hdr pp sp h ab em ++ data))) ->
  head <> [] -> Forall (fun ch => ch <> []) tl -> head ++ concat tl = nal_of_bits hdr (enc_slice_header hdr pp sp h ab em ++ data) ->
  slice_header_read c hdr (bitsrc_of_source (SrcNal true (head :: tl)))
  = OK ((h, pps_seq_parameter_set_id pp, pic_parameter_set_id pp), mk_src data TEof).
Proof.
  intros Hc Hwf Hdata Hd Hh Ht Hcat. rewrite (nal_bitsrc_of_bits hdr _ true head tl Hd Hh Ht Hcat).
  apply slice_header_roundtrip; assumption.
Qed.
