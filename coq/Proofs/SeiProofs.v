(* SEI reader: totality, fusedness, size-coding bound; payload parsers never abort. *)
From H264 Require Import Base.Prelude Base.Bits Model.BitReader Model.Parser Model.Sps Model.Context Model.Pps Model.Sei
     Spec.Golomb Proofs.BitsLemmas Proofs.C07_proofs Proofs.Wp Proofs.SpsInv Proofs.PpsInv.
Local Open Scope N_scope.

(* read_u32: with fuel S (length l) the loop never runs out; the value is at most 255 per byte consumed *)
Lemma read_u32_loop_spec fuel : forall l acc, (length l < fuel)%nat ->
  match read_u32_loop fuel l acc with
  | None => False
  | Some (OK (v, r)) => exists used, l = used ++ r /\ used <> [] /\ v < two32 /\
                                     (Forall (fun b => b <= 255) used -> v <= acc + 255 * N.of_nat (length used))
  | Some (ERR k) => k = UnexpectedEof \/ k = InvalidData
  | Some _ => False
  end.
Proof.
  induction fuel as [|f IH]; intros l acc Hf; [lia|]. cbn [read_u32_loop].
  destruct l as [|b r]; [left; reflexivity|].
  destruct (N.leb_spec two32 (acc + b)) as [Hov|Hok]; [right; reflexivity|].
  destruct (N.eqb_spec b 255) as [->|Hb].
  - specialize (IH r (acc + 255)). cbn [length] in Hf. assert (Hf' : (length r < f)%nat) by lia. specialize (IH Hf').
    destruct (read_u32_loop f r (acc + 255)) as [[[v r']|k| |]|]; try exact IH.
    destruct IH as (used & Hu & Hne & Hv & Hbound). exists (255 :: used).
    split; [cbn; rewrite Hu; reflexivity|]. split; [discriminate|]. split; [exact Hv|].
    intros Hall. inversion Hall; subst. specialize (Hbound H2). cbn [length]. lia.
  - exists [b]. split; [reflexivity|]. split; [discriminate|]. split; [exact Hok|].
    intros Hall. inversion Hall; subst. cbn [length]. lia.
Qed.

Lemma read_u32_total nm s : no_abort (read_u32 nm s).
Proof.
  unfold read_u32. pose proof (read_u32_loop_spec (S (length (sbytes s))) (sbytes s) 0 (Nat.lt_succ_diag_r _)) as H.
  destruct (read_u32_loop _ _ _) as [[[v r]|k| |]|]; try contradiction; cbn; auto.
  destruct k; exact I.
Qed.

(* next() never aborts; after None or an error the reader is done, and a done reader answers None forever *)
Theorem sei_next_total r : no_abort (fst (sei_next r)).
Proof.
  unfold sei_next. destruct (sr_done r); [exact I|].
  pose proof (read_u32_total "payload_type" (sr_src r)) as H1.
  destruct (read_u32 "payload_type" (sr_src r)) as [[pt s1]|e| |]; try contradiction; [|exact I].
  destruct ((pt =? 128) && (0 <? payloads_seen r)).
  - destruct (sbytes s1) as [|x xs] eqn:Eb; [destruct (stail s1); exact I|].
    pose proof (read_u32_total "payload_len" s1) as H2.
    destruct (read_u32 "payload_len" s1) as [[len s2]|e| |]; try contradiction; [|exact I].
    destruct (N.of_nat (length (sbytes s2)) <? len); exact I.
  - pose proof (read_u32_total "payload_len" s1) as H2.
    destruct (read_u32 "payload_len" s1) as [[len s2]|e| |]; try contradiction; [|exact I].
    destruct (N.of_nat (length (sbytes s2)) <? len); exact I.
Qed.

Theorem sei_fused r : match fst (sei_next r) with OK (Some _) => True | _ => sr_done (snd (sei_next r)) = true end.
Proof.
  unfold sei_next. destruct (sr_done r) eqn:Ed; [exact Ed|].
  destruct (read_u32 "payload_type" (sr_src r)) as [[pt s1]|e| |]; try reflexivity.
  destruct ((pt =? 128) && (0 <? payloads_seen r)).
  - destruct (sbytes s1) as [|x xs] eqn:Eb; [destruct (stail s1); reflexivity|].
    destruct (read_u32 "payload_len" s1) as [[len s2]|e| |]; try reflexivity.
    destruct (N.of_nat (length (sbytes s2)) <? len); [reflexivity|exact I].
  - destruct (read_u32 "payload_len" s1) as [[len s2]|e| |]; try reflexivity.
    destruct (N.of_nat (length (sbytes s2)) <? len); [reflexivity|exact I].
Qed.

Theorem sei_done_stays r : sr_done r = true -> sei_next r = (OK None, r).
Proof. intros H. unfold sei_next. rewrite H. reflexivity. Qed.

(* a returned payload lies entirely within the data: its length never exceeds what is buffered *)
Theorem sei_payload_within r t p r' : sei_next r = (OK (Some (mk_msg t p)), r') ->
  exists pre, sbytes (sr_src r) = pre ++ p ++ sbytes (sr_src r') /\ pre <> [].
Proof.
  unfold sei_next. destruct (sr_done r); [discriminate|].
  unfold read_u32 at 1.
  pose proof (read_u32_loop_spec (S (length (sbytes (sr_src r)))) (sbytes (sr_src r)) 0 (Nat.lt_succ_diag_r _)) as H1.
  destruct (read_u32_loop _ (sbytes (sr_src r)) 0) as [[[pt r1]|k| |]|]; try contradiction.
  2:{ destruct k; discriminate. }
  destruct H1 as (u1 & Hu1 & Hne1 & _).
  set (s1 := mk_bsrc r1 (stail (sr_src r))).
  assert (Hgo : forall X, match read_u32 "payload_len" s1 with
            | ERR e => (ERR e, X) | PANIC w => (PANIC w, X) | FUEL => (FUEL, X)
            | OK (len, s2) =>
                if N.of_nat (length (sbytes s2)) <? len then (ERR (ReaderErrorFor "payload" (kind_of_tail (stail s2))), X)
                else (OK (Some (mk_msg pt (firstn (N.to_nat len) (sbytes s2)))),
                      mk_sr (mk_bsrc (skipn (N.to_nat len) (sbytes s2)) (stail s2)) (payloads_seen r + 1) false)
            end = (OK (Some (mk_msg t p)), r') ->
            exists pre, sbytes (sr_src r) = pre ++ p ++ sbytes (sr_src r') /\ pre <> []).
  { intros X. unfold read_u32.
    pose proof (read_u32_loop_spec (S (length (sbytes s1))) (sbytes s1) 0 (Nat.lt_succ_diag_r _)) as H2.
    destruct (read_u32_loop _ (sbytes s1) 0) as [[[len r2]|k| |]|]; try contradiction.
    2:{ destruct k; discriminate. }
    destruct H2 as (u2 & Hu2 & Hne2 & _). cbn [sbytes stail].
    destruct (N.of_nat (length r2) <? len); [discriminate|]. intros Heq. injection Heq as <- <- <-.
    exists (u1 ++ u2). cbn [sr_src sbytes]. split.
    - rewrite Hu1. cbn [s1 sbytes] in Hu2. rewrite Hu2. rewrite <- app_assoc. f_equal. f_equal. symmetry. apply firstn_skipn.
    - destruct u1; [contradiction|discriminate]. }
  destruct ((pt =? 128) && (0 <? payloads_seen r)).
  - cbn [sbytes stail]. fold s1. destruct (sbytes s1) as [|x xs] eqn:Eb.
    + destruct (stail s1); discriminate.
    + apply Hgo.
  - apply Hgo.
Qed.

(* ---- payload parsers: nothing in them can abort ---- *)
Lemma bp_total c payload : ctx_sps_ok c -> no_abort (buffering_period_read c payload).
Proof.
  intros Hc. unfold buffering_period_read.
  set (s := mk_src (bits_of_bytes payload) TEof).
  match goal with |- no_abort (match ?body s with _ => _ end) => assert (Hwp : wp (body s) (fun _ _ => True)) end.
  { unfold rb. apply wp_bind. apply wp_read_ue. intros idv s1 _ _ _. cbv beta.
    destruct (seq_param_set_id_from_u32 idv) as [id|]; [|apply wp_fail].
    destruct (sps_by_id c id) as [sp|] eqn:Es; [|apply wp_fail].
    assert (Hh : forall h s0 (Phi : option (list (N * N)) -> src -> Prop), (forall v s', Phi v s') -> wp (bp_hrd h s0) Phi).
    { intros h s0 Phi Hk. unfold bp_hrd. destruct h as [p|]; [|apply wp_ret; apply Hk].
      apply wp_bind. unfold read_cpb_removal_delay_list. apply (wp_repE _ (fun _ => True)).
      - intros s2 _. apply wp_bind. unfold rb. apply wp_read_u. intros a s3 _ _ Hb3 Hl3. cbv beta.
        apply wp_bind. apply wp_read_u. intros b s4 _ _ Hb4 Hl4. cbv beta. apply wp_ret. split; [exact I|wp_done].
      - intros l s5 _ _ _. cbv beta. apply wp_ret. apply Hk. }
    apply wp_bind. apply Hh. intros n s2. cbv beta. apply wp_bind. apply Hh. intros v s3. cbv beta. apply wp_ret. exact I. }
  match goal with |- no_abort (match ?x with _ => _ end) => destruct x as [[v s']| | |] end; cbn in Hwp; try contradiction; try exact I.
  unfold finish_sei_payload. destruct (bits s') as [|[|] r]; try exact I.
  - destruct (tail s'); exact I.
  - destruct (unary1 r 0); [exact I|]. destruct (tail s'); exact I.
Qed.

Lemma pt_total sp payload : no_abort (pic_timing_read sp payload).
Proof.
  unfold pic_timing_read.
  set (s := mk_src (bits_of_bytes payload) TEof).
  match goal with |- no_abort (match ?body s with _ => _ end) => assert (Hwp : wp (body s) (fun _ _ => True)) end.
  { unfold rp. apply wp_bind.
    assert (Hd : forall s0 (Phi : option (N * N) -> src -> Prop), (forall v s', Phi v s') ->
              wp ((match vui_parameters_ sp with
                   | Some v => match (match nal_hrd_parameters v with Some h => Some h | None => vcl_hrd_parameters v end) with
                               | Some h => bindE (liftE PtRbspError (read_u 32 (cpb_removal_delay_length_minus1 h + 1) "cpb_removal_delay")) (fun a =>
                                           bindE (liftE PtRbspError (read_u 32 (dpb_output_delay_length_minus1 h + 1) "dpb_output_delay")) (fun b => retE (Some (a, b))))
                               | None => retE None end
                   | None => retE None end) s0) Phi).
    { intros s0 Phi Hk. destruct (vui_parameters_ sp) as [v|]; [|apply wp_ret; apply Hk].
      destruct (match nal_hrd_parameters v with Some h => Some h | None => vcl_hrd_parameters v end) as [h|]; [|apply wp_ret; apply Hk].
      apply wp_bind. apply wp_read_u. intros a s1 _ _ _ _. cbv beta.
      apply wp_bind. apply wp_read_u. intros b s2 _ _ _ _. cbv beta. apply wp_ret. apply Hk. }
    apply Hd. intros delays s1. cbv beta. apply wp_bind.
    destruct (vui_parameters_ sp) as [v|]; [|apply wp_ret; cbv beta; apply wp_ret; exact I].
    destruct (pic_struct_present_flag v); [|apply wp_ret; cbv beta; apply wp_ret; exact I].
    apply wp_bind. apply wp_read_u. intros id s2 _ _ _ _. cbv beta.
    destruct (15 <? id); [apply wp_fail|].
    apply wp_bind. apply (wp_repE _ (fun _ => True)).
    - intros s3 _. apply wp_bind. apply wp_read_bool. intros f s4 Hb4 Hl4. cbv beta. destruct f.
      + apply wp_bind. unfold clock_timestamp_read, rp.
        wp_go; repeat (apply wp_ret; cbv beta); wp_go; repeat (apply wp_ret; cbv beta); try (split; [exact I|wp_done]).
      + apply wp_ret. split; [exact I|wp_done].
    - intros l s5 _ _ _. cbv beta. apply wp_ret. cbv beta. apply wp_ret. exact I. }
  match goal with |- no_abort (match ?x with _ => _ end) => destruct x as [[v s']| | |] end; cbn in Hwp; try contradiction; try exact I.
  unfold finish_sei_payload. destruct (bits s') as [|[|] r]; try exact I.
  - destruct (tail s'); exact I.
  - destruct (unary1 r 0); [exact I|]. destruct (tail s'); exact I.
Qed.
