(* C12 capstone over structures: an SPS and a PPS that refers to it, each encoded per the syntax tables, completed by
   rbsp trailing bits, escaped, given a NAL header byte, serialised as an Annex B stream and pushed in ANY pieces,
   leave the pipeline's context holding exactly the two structures (composition of C04, C05, C02, C15, C08, C01, C19). *)
From H264 Require Import Base.Prelude Base.Bits Spec.AnnexBSpec Spec.Escape Spec.SyntaxSps Spec.SyntaxPps
     Model.BitReader Model.Source Model.AnnexB Model.Accum Model.Nal Model.Sps Model.Context Model.Pps Model.Driver Model.ShowSps Model.ShowPps
     Proofs.EscapeProofs Proofs.AnnexB_compose Proofs.SpsRoundtrip Proofs.C19_proofs Proofs.SpsInv Proofs.PpsInv Proofs.C12_frame Proofs.C12_compose Proofs.C12_pipeline Proofs.NalLevel.
Local Open Scope N_scope.

Lemma nal_of_bits_clean hdr bits : exists p, unescape (skipn 1 (nal_of_bits hdr bits)) = Some p.
Proof. exists (pack bits). unfold nal_of_bits. cbn [skipn]. apply unescape_escape. Qed.

Lemma parse_alone_sps c bits x :
  sps_from_bits (bitsrc_of_source (SrcNal true [nal_of_bits 103 bits])) = OK x ->
  parse_in_ctx c (mk_inv [nal_of_bits 103 bits] true) = (("sps:ok:" ++ show_sps x)%string, put_seq_param_set c x).
Proof.
  intros H. unfold parse_in_ctx. unfold inv_bytes. cbn [inv_chunks concat]. unfold nal_of_bits at 1. cbn [app].
  change (nal_header_new 103) with (Some 103). cbv iota. change (nal_unit_type_id 103 =? 7) with true. cbv iota.
  rewrite H. reflexivity.
Qed.

Lemma parse_alone_pps c bits p :
  pps_from_bits c (bitsrc_of_source (SrcNal true [nal_of_bits 104 bits])) = OK p ->
  parse_in_ctx c (mk_inv [nal_of_bits 104 bits] true) = (("pps:ok:" ++ show_pps p)%string, put_pic_param_set c p).
Proof.
  intros H. unfold parse_in_ctx. unfold inv_bytes. cbn [inv_chunks concat]. unfold nal_of_bits at 1. cbn [app].
  change (nal_header_new 104) with (Some 104). cbv iota. change (nal_unit_type_id 104 =? 7) with false.
  change (nal_unit_type_id 104 =? 8) with true. cbv iota.
  rewrite H. reflexivity.
Qed.

Lemma wf_sps_inv x lists : wf_sps x lists -> inv_sps x.
Proof.
  intros H. pose proof (sps_from_bits_inv (mk_src (enc_sps x lists ++ trailing_bits 0) TEof)) as Hi.
  rewrite (sps_roundtrip x lists 0 H) in Hi. exact Hi.
Qed.

Lemma ctx_sps_ok_put c x : ctx_sps_ok c -> inv_sps x -> ctx_sps_ok (put_seq_param_set c x).
Proof.
  intros Hc Hx id sp Hl. destruct (N.eq_dec id (seq_parameter_set_id x)) as [->|Hne].
  - rewrite sps_lookup_after_put in Hl. injection Hl as <-. exact Hx.
  - rewrite (sps_lookup_other c x id Hne) in Hl. apply (Hc id sp Hl).
Qed.

Theorem stream_sps_pps_context x lists k1 p plists k2 n1 n2 t cs ctx0 pre :
  let c1 := put_seq_param_set ctx0 x in
  let u1 := nal_of_bits 103 (enc_sps x lists ++ trailing_bits k1) in
  let u2 := nal_of_bits 104 (enc_pps p plists ++ trailing_bits k2) in
  wf_sps x lists -> ctx_sps_ok ctx0 -> wf_pps c1 p plists ->
  (8 | N.of_nat (length (enc_sps x lists ++ trailing_bits k1))) ->
  (8 | N.of_nat (length (enc_pps p plists ++ trailing_bits k2))) ->
  unit_ok u1 -> unit_ok u2 -> (t = 0%nat \/ 3 <= t)%nat ->
  concat cs = annexb_encode [(n1, u1); (n2, u2)] t ->
  ps_ctx (fst (pipeline_run ctx0 [] pre (map APush cs ++ [AReset]))) = put_pic_param_set c1 p.
Proof.
  intros c1 u1 u2 Hx Hc0 Hp D1 D2 O1 O2 Ht Hcat.
  assert (Hc1 : ctx_sps_ok c1) by (apply ctx_sps_ok_put; [exact Hc0|apply (wf_sps_inv x lists Hx)]).
  assert (Hu : Forall (fun u : nat * list byte => unit_ok (snd u)) [(n1, u1); (n2, u2)]) by (constructor; [exact O1|constructor; [exact O2|constructor]]).
  assert (Hcl : Forall (fun u : nat * list byte => exists q, unescape (skipn 1 (snd u)) = Some q) [(n1, u1); (n2, u2)])
    by (constructor; [apply nal_of_bits_clean|constructor; [apply nal_of_bits_clean|constructor]]).
  destruct (pipeline_end_to_end _ t cs ctx0 pre Hu Ht Hcl Hcat) as (invs & _ & _ & _ & Hctx).
  rewrite Hctx. cbn [map snd alone_all fst]. subst u1 u2.
  assert (Hne : forall h b, nal_of_bits h b <> []) by (intros; discriminate).
  rewrite (parse_alone_sps ctx0 _ x).
  2:{ apply (sps_nal_roundtrip x lists k1 103 _ [] Hx D1 (Hne _ _) (Forall_nil _)). cbn [concat]. apply app_nil_r. }
  cbn [snd]. fold c1. rewrite (parse_alone_pps c1 _ p).
  2:{ apply (pps_nal_roundtrip c1 p plists k2 104 _ [] Hc1 Hp D2 (Hne _ _) (Forall_nil _)). cbn [concat]. apply app_nil_r. }
  reflexivity.
Qed.

(* ---- the unit_ok hypotheses follow from the rbsp trailing bits: the last RBSP byte holds the stop bit ---- *)
Lemma stop_bit_in_last_byte (X b : list bool) k :
  X ++ repeat false 8 = b ++ true :: repeat false k -> (k < 8)%nat -> False.
Proof.
  intros H Hk. pose proof (f_equal (@length bool) H) as Hl. rewrite !app_length in Hl. cbn [length] in Hl. rewrite !repeat_length in Hl.
  apply (f_equal (fun l => nth (length b) l false)) in H. rewrite nth_middle in H.
  rewrite app_nth2 in H by lia. rewrite nth_repeat in H. discriminate.
Qed.

Lemma pack_nonempty_last b k : (k < 8)%nat -> (8 | N.of_nat (length (b ++ trailing_bits k))) ->
  pack (b ++ trailing_bits k) <> [] /\ last (pack (b ++ trailing_bits k)) 1 <> 0.
Proof.
  intros Hk Hd. pose proof (bits_of_bytes_pack _ Hd) as Hb. unfold trailing_bits in *.
  assert (Hne : pack (b ++ true :: repeat false k) <> []).
  { intros E. rewrite E in Hb. cbn in Hb. destruct b; discriminate. }
  split; [exact Hne|]. intros Hl.
  destruct (exists_last Hne) as (q & a & Eq). rewrite Eq in Hl, Hb. rewrite last_last in Hl. subst a.
  unfold bits_of_bytes in Hb. rewrite flat_map_app in Hb. cbn [flat_map] in Hb. rewrite app_nil_r in Hb.
  assert (Hz : bits_of_byte 0 = repeat false 8) by reflexivity. rewrite Hz in Hb.
  exact (stop_bit_in_last_byte _ _ _ Hb Hk).
Qed.

Lemma nal_of_bits_unit_ok hdr b k : hdr <> 0 -> (k < 8)%nat -> (8 | N.of_nat (length (b ++ trailing_bits k))) ->
  unit_ok (nal_of_bits hdr (b ++ trailing_bits k)).
Proof.
  intros Hh Hk Hd. destruct (pack_nonempty_last b k Hk Hd) as [H1 H2]. unfold nal_of_bits. apply unit_ok_escaped; assumption.
Qed.

(* the capstone without side conditions on the bytes: well-formed structures, byte-completing trailing bits *)
Theorem stream_sps_pps x lists k1 p plists k2 n1 n2 t cs ctx0 pre :
  let c1 := put_seq_param_set ctx0 x in
  wf_sps x lists -> ctx_sps_ok ctx0 -> wf_pps c1 p plists ->
  (k1 < 8)%nat -> (k2 < 8)%nat ->
  (8 | N.of_nat (length (enc_sps x lists ++ trailing_bits k1))) ->
  (8 | N.of_nat (length (enc_pps p plists ++ trailing_bits k2))) ->
  (t = 0%nat \/ 3 <= t)%nat ->
  concat cs = annexb_encode [(n1, nal_of_bits 103 (enc_sps x lists ++ trailing_bits k1));
                             (n2, nal_of_bits 104 (enc_pps p plists ++ trailing_bits k2))] t ->
  ps_ctx (fst (pipeline_run ctx0 [] pre (map APush cs ++ [AReset]))) = put_pic_param_set c1 p.
Proof.
  intros c1 Hx Hc Hp K1 K2 D1 D2 Ht Hcat.
  apply (stream_sps_pps_context x lists k1 p plists k2 n1 n2 t cs ctx0 pre Hx Hc Hp D1 D2); try assumption.
  - apply nal_of_bits_unit_ok; [discriminate|exact K1|exact D1].
  - apply nal_of_bits_unit_ok; [discriminate|exact K2|exact D2].
Qed.

(* ---- a slice after its parameter sets ---- *)
From H264 Require Import Model.Show Model.Slice Model.ShowSlice Spec.SyntaxSlice Proofs.SliceInv Proofs.C14_proofs.

Lemma ctx_ok_put_sps c x : ctx_ok c -> inv_sps x -> ctx_ok (put_seq_param_set c x).
Proof.
  intros [Hs Hp] Hx. split; [apply ctx_sps_ok_put; assumption|].
  intros id q Hq. unfold pps_by_id in *. rewrite sps_put_keeps_pps in Hq. apply (Hp id q Hq).
Qed.

Lemma ctx_ok_put_pps c p : ctx_ok c -> inv_pps c p -> ctx_ok (put_pic_param_set c p).
Proof.
  intros [Hs Hp] Hi. split.
  - intros id sp Hl. unfold sps_by_id in *. rewrite pps_put_keeps_sps in Hl. apply (Hs id sp Hl).
  - intros id q Hq. destruct (N.eq_dec id (pic_parameter_set_id p)) as [->|Hne].
    + rewrite pps_lookup_after_put in Hq. injection Hq as <-.
      destruct Hi as (_ & _ & _ & _ & H1 & _ & _ & H2 & _). split; assumption.
    + rewrite (pps_lookup_other c p id Hne) in Hq. apply (Hp id q Hq).
Qed.

Lemma wf_pps_inv c p plists : ctx_sps_ok c -> wf_pps c p plists -> inv_pps c p.
Proof.
  intros Hc H. pose proof (pps_from_bits_inv c (mk_src (enc_pps p plists ++ trailing_bits 0) TEof) Hc) as Hi.
  rewrite (PpsRoundtrip.pps_roundtrip c p plists 0 Hc H) in Hi. exact Hi.
Qed.

Lemma parse_alone_slice c hdr bits h sid pid s' :
  nal_header_new hdr = Some hdr -> (nal_unit_type_id hdr = 1 \/ nal_unit_type_id hdr = 5) ->
  slice_header_read c hdr (bitsrc_of_source (SrcNal true [nal_of_bits hdr bits])) = OK ((h, sid, pid), s') ->
  parse_in_ctx c (mk_inv [nal_of_bits hdr bits] true)
  = (("slice:ok:" ++ show_slice_header h ++ ";" ++ show_N sid ++ ";" ++ show_N pid)%string, c).
Proof.
  intros Hh Ht H. unfold parse_in_ctx. unfold inv_bytes. cbn [inv_chunks concat]. unfold nal_of_bits at 1. cbn [app].
  rewrite Hh. destruct Ht as [Ht|Ht]; rewrite Ht.
  - change (1 =? 7) with false. change (1 =? 8) with false. change (1 =? 6) with false. change ((1 =? 1) || (1 =? 5))%bool with true.
    cbv iota. rewrite H. reflexivity.
  - change (5 =? 7) with false. change (5 =? 8) with false. change (5 =? 6) with false. change ((5 =? 1) || (5 =? 5))%bool with true.
    cbv iota. rewrite H. reflexivity.
Qed.

(* SPS, PPS, then a slice that names them: pushed in any pieces, the handler reports the three parses of the structures
   (the slice header read in the context the two parameter sets left) and the context holds both parameter sets *)
Theorem stream_sps_pps_slice x lists k1 p plists k2 hdr pp sp h ab em d k3 n1 n2 n3 t cs ctx0 pre :
  let c1 := put_seq_param_set ctx0 x in
  let c2 := put_pic_param_set c1 p in
  let u1 := nal_of_bits 103 (enc_sps x lists ++ trailing_bits k1) in
  let u2 := nal_of_bits 104 (enc_pps p plists ++ trailing_bits k2) in
  let u3 := nal_of_bits hdr (enc_slice_header hdr pp sp h ab em ++ d ++ trailing_bits k3) in
  wf_sps x lists -> ctx_ok ctx0 -> wf_pps c1 p plists -> wf_slice c2 hdr pp sp h ab ->
  (k1 < 8)%nat -> (k2 < 8)%nat -> (k3 < 8)%nat ->
  (8 | N.of_nat (length (enc_sps x lists ++ trailing_bits k1))) ->
  (8 | N.of_nat (length (enc_pps p plists ++ trailing_bits k2))) ->
  (8 | N.of_nat (length (enc_slice_header hdr pp sp h ab em ++ d ++ trailing_bits k3))) ->
  hdr <> 0 -> nal_header_new hdr = Some hdr -> (nal_unit_type_id hdr = 1 \/ nal_unit_type_id hdr = 5) ->
  any_one (List.tl (d ++ trailing_bits k3)) = true ->
  (t = 0%nat \/ 3 <= t)%nat ->
  concat cs = annexb_encode [(n1, u1); (n2, u2); (n3, u3)] t ->
  let r := pipeline_run ctx0 [] pre (map APush cs ++ [AReset]) in
  ps_ctx (fst r) = c2 /\
  exists invs,
    snd r = pre ++ fst (lines_of ctx0 (map contiguous invs)) /\
    complete_parses ctx0 invs =
      ([("sps:ok:" ++ show_sps x)%string; ("pps:ok:" ++ show_pps p)%string;
        ("slice:ok:" ++ show_slice_header h ++ ";" ++ show_N (pps_seq_parameter_set_id pp) ++ ";" ++ show_N (pic_parameter_set_id pp))%string], c2).
Proof.
  intros c1 c2 u1 u2 u3 Hx Hc0 Hp Hsl K1 K2 K3 D1 D2 D3 Hh0 Hh Hty Hany Ht Hcat.
  assert (Hc1 : ctx_ok c1) by (apply ctx_ok_put_sps; [exact Hc0|apply (wf_sps_inv x lists Hx)]).
  assert (Hc2 : ctx_ok c2) by (apply ctx_ok_put_pps; [exact Hc1|apply (wf_pps_inv c1 p plists (proj1 Hc1) Hp)]).
  assert (O1 : unit_ok u1) by (apply nal_of_bits_unit_ok; [discriminate|exact K1|exact D1]).
  assert (O2 : unit_ok u2) by (apply nal_of_bits_unit_ok; [discriminate|exact K2|exact D2]).
  assert (O3 : unit_ok u3).
  { subst u3. rewrite app_assoc in D3 |- *. apply nal_of_bits_unit_ok; [exact Hh0|exact K3|exact D3]. }
  assert (Hu : Forall (fun u : nat * list byte => unit_ok (snd u)) [(n1, u1); (n2, u2); (n3, u3)])
    by (constructor; [exact O1|constructor; [exact O2|constructor; [exact O3|constructor]]]).
  assert (Hcl : Forall (fun u : nat * list byte => exists q, unescape (skipn 1 (snd u)) = Some q) [(n1, u1); (n2, u2); (n3, u3)])
    by (constructor; [apply nal_of_bits_clean|constructor; [apply nal_of_bits_clean|constructor; [apply nal_of_bits_clean|constructor]]]).
  assert (Hne : forall hh b, nal_of_bits hh b <> []) by (intros; discriminate).
  assert (Halone : alone_all ctx0 [u1; u2; u3] =
      ([("sps:ok:" ++ show_sps x)%string; ("pps:ok:" ++ show_pps p)%string;
        ("slice:ok:" ++ show_slice_header h ++ ";" ++ show_N (pps_seq_parameter_set_id pp) ++ ";" ++ show_N (pic_parameter_set_id pp))%string], c2)).
  { cbn [alone_all]. subst u1 u2 u3.
    rewrite (parse_alone_sps ctx0 _ x).
    2:{ apply (sps_nal_roundtrip x lists k1 103 _ [] Hx D1 (Hne _ _) (Forall_nil _)). cbn [concat]. apply app_nil_r. }
    cbn [fst snd]. fold c1. rewrite (parse_alone_pps c1 _ p).
    2:{ apply (pps_nal_roundtrip c1 p plists k2 104 _ [] (proj1 Hc1) Hp D2 (Hne _ _) (Forall_nil _)). cbn [concat]. apply app_nil_r. }
    cbn [fst snd]. fold c2.
    rewrite (parse_alone_slice c2 hdr _ h (pps_seq_parameter_set_id pp) (pic_parameter_set_id pp) (mk_src (d ++ trailing_bits k3) TEof) Hh Hty).
    2:{ apply (slice_nal_roundtrip c2 hdr pp sp h ab em (d ++ trailing_bits k3) _ [] Hc2 Hsl Hany D3 (Hne _ _) (Forall_nil _)). cbn [concat]. apply app_nil_r. }
    reflexivity. }
  cbv zeta. destruct (pipeline_end_to_end _ t cs ctx0 pre Hu Ht Hcl Hcat) as (invs & _ & Hout & Hcp & Hctx).
  cbn [map snd] in Hcp, Hctx. rewrite Halone in Hcp, Hctx. split; [exact Hctx|].
  exists invs. split; [exact Hout|exact Hcp].
Qed.

(* ---- the context after ANY stream of clean units: the fold of "parse alone and store" (Driver.ctx_step, the function
   behind the context histories of C05 / C06 / C19) over the units of type 7 and 8 ---- *)
Definition ctx_after_unit (c : context) (u : list byte) : context :=
  match u with
  | [] => c
  | b :: _ =>
    match nal_header_new b with
    | None => c
    | Some hdr =>
      if nal_unit_type_id hdr =? 7 then ctx_step c (CtxSps u)
      else if nal_unit_type_id hdr =? 8 then ctx_step c (CtxPps u) else c
    end
  end.

Lemma parse_alone_ctx c u : (exists q, unescape (skipn 1 u) = Some q) ->
  snd (parse_in_ctx c (mk_inv [u] true)) = ctx_after_unit c u.
Proof.
  intros [q Hq]. unfold parse_in_ctx, ctx_after_unit. unfold inv_bytes. cbn [inv_chunks concat]. rewrite app_nil_r.
  destruct u as [|b r]; [reflexivity|].
  assert (Hne : b :: r <> []) by discriminate.
  assert (Hq' : unescape (skipn 1 ((b :: r) ++ concat [])) = Some q) by (cbn [concat]; rewrite app_nil_r; exact Hq).
  destruct (parse_view_chunk_independent (b :: r) [] q Hne (Forall_nil _) Hq') as [B1 _].
  cbn [concat] in B1. rewrite app_nil_r in B1.
  destruct (nal_header_new b) as [hdr|]; [|reflexivity].
  destruct (nal_unit_type_id hdr =? 7).
  { rewrite B1. cbn [ctx_step]. destruct (sps_from_bits (nal_bitsrc (b :: r))); reflexivity. }
  destruct (nal_unit_type_id hdr =? 8).
  { rewrite B1. cbn [ctx_step]. destruct (pps_from_bits c (nal_bitsrc (b :: r))); reflexivity. }
  destruct (nal_unit_type_id hdr =? 6); [reflexivity|].
  destruct ((nal_unit_type_id hdr =? 1) || (nal_unit_type_id hdr =? 5))%bool; [|reflexivity].
  destruct (slice_header_read c hdr (bitsrc_of_source (SrcNal true [b :: r]))) as [[[[hh sid] pid] s']| | |]; reflexivity.
Qed.

Lemma alone_all_ctx us : forall c, Forall (fun u => exists q, unescape (skipn 1 u) = Some q) us ->
  snd (alone_all c us) = fold_left ctx_after_unit us c.
Proof.
  induction us as [|u r IH]; intros c H; [reflexivity|]. inversion H as [|? ? Hu Hr]; subst.
  cbn [alone_all fold_left snd]. rewrite (IH _ Hr), (parse_alone_ctx c u Hu). reflexivity.
Qed.

Theorem stream_context units t cs ctx0 pre :
  Forall (fun u => unit_ok (snd u)) units -> (t = 0%nat \/ 3 <= t)%nat ->
  Forall (fun u => exists p, unescape (skipn 1 (snd u)) = Some p) units ->
  concat cs = annexb_encode units t ->
  ps_ctx (fst (pipeline_run ctx0 [] pre (map APush cs ++ [AReset]))) = fold_left ctx_after_unit (map snd units) ctx0.
Proof.
  intros Hu Ht Hp Hc. destruct (pipeline_end_to_end units t cs ctx0 pre Hu Ht Hp Hc) as (invs & _ & _ & _ & Hctx).
  rewrite Hctx. apply alone_all_ctx. rewrite Forall_map. exact Hp.
Qed.

(* ---- last writer wins, for streams: the SPS found under an id after the whole stream is the last accepted SPS unit with
   that id ---- *)
Lemma ctx_after_unit_keeps c v i x :
  sps_by_id c i = Some x ->
  (forall y, sps_from_bits (nal_bitsrc v) = OK y -> seq_parameter_set_id y <> i) ->
  sps_by_id (ctx_after_unit c v) i = Some x.
Proof.
  intros Hc Hv. unfold ctx_after_unit. destruct v as [|b r]; [exact Hc|].
  destruct (nal_header_new b) as [hdr|]; [|exact Hc].
  destruct (nal_unit_type_id hdr =? 7).
  { cbn [ctx_step]. destruct (sps_from_bits (nal_bitsrc (b :: r))) as [y| | |] eqn:E; try exact Hc.
    rewrite sps_lookup_other; [exact Hc|]. intros Heq. apply (Hv y eq_refl). symmetry. exact Heq. }
  destruct (nal_unit_type_id hdr =? 8); [|exact Hc].
  cbn [ctx_step]. destruct (pps_from_bits c (nal_bitsrc (b :: r))); try exact Hc.
Qed.

Lemma fold_keeps post : forall c i x,
  sps_by_id c i = Some x ->
  Forall (fun v => forall y, sps_from_bits (nal_bitsrc v) = OK y -> seq_parameter_set_id y <> i) post ->
  sps_by_id (fold_left ctx_after_unit post c) i = Some x.
Proof.
  induction post as [|v r IH]; intros c i x Hc H; [exact Hc|]. inversion H as [|? ? Hv Hr]; subst.
  cbn [fold_left]. apply IH; [apply ctx_after_unit_keeps; assumption|exact Hr].
Qed.

Theorem stream_sps_last_writer_wins before n b r after x t cs ctx0 pre :
  let u := b :: r in
  let units := before ++ (n, u) :: after in
  Forall (fun v => unit_ok (snd v)) units -> (t = 0%nat \/ 3 <= t)%nat ->
  Forall (fun v => exists p, unescape (skipn 1 (snd v)) = Some p) units ->
  nal_header_new b = Some b -> nal_unit_type_id b = 7 -> sps_from_bits (nal_bitsrc u) = OK x ->
  Forall (fun v => forall y, sps_from_bits (nal_bitsrc (snd v)) = OK y -> seq_parameter_set_id y <> seq_parameter_set_id x) after ->
  concat cs = annexb_encode units t ->
  sps_by_id (ps_ctx (fst (pipeline_run ctx0 [] pre (map APush cs ++ [AReset])))) (seq_parameter_set_id x) = Some x.
Proof.
  intros u units Hu Ht Hp Hh Hty Hx Hafter Hc.
  rewrite (stream_context units t cs ctx0 pre Hu Ht Hp Hc). subst units.
  rewrite map_app, fold_left_app. cbn [map snd fold_left].
  apply fold_keeps.
  - set (C := fold_left ctx_after_unit (map snd before) ctx0). subst u. unfold ctx_after_unit. rewrite Hh, Hty.
    change (7 =? 7) with true. cbv iota. cbn [ctx_step]. rewrite Hx. apply sps_lookup_after_put.
  - rewrite Forall_map. exact Hafter.
Qed.

(* the same for PPSs (a PPS is parsed against the context the units before it left) *)
Lemma ctx_after_unit_keeps_pps c v i p :
  pps_by_id c i = Some p ->
  (forall c' y, pps_from_bits c' (nal_bitsrc v) = OK y -> pic_parameter_set_id y <> i) ->
  pps_by_id (ctx_after_unit c v) i = Some p.
Proof.
  intros Hc Hv. unfold ctx_after_unit. destruct v as [|b r]; [exact Hc|].
  destruct (nal_header_new b) as [hdr|]; [|exact Hc].
  destruct (nal_unit_type_id hdr =? 7).
  { cbn [ctx_step]. destruct (sps_from_bits (nal_bitsrc (b :: r))); try exact Hc. }
  destruct (nal_unit_type_id hdr =? 8); [|exact Hc].
  cbn [ctx_step]. destruct (pps_from_bits c (nal_bitsrc (b :: r))) as [y| | |] eqn:E; try exact Hc.
  rewrite pps_lookup_other; [exact Hc|]. intros Heq. apply (Hv c y E). symmetry. exact Heq.
Qed.

Lemma fold_keeps_pps post : forall c i p,
  pps_by_id c i = Some p ->
  Forall (fun v => forall c' y, pps_from_bits c' (nal_bitsrc v) = OK y -> pic_parameter_set_id y <> i) post ->
  pps_by_id (fold_left ctx_after_unit post c) i = Some p.
Proof.
  induction post as [|v r IH]; intros c i p Hc H; [exact Hc|]. inversion H as [|? ? Hv Hr]; subst.
  cbn [fold_left]. apply IH; [apply ctx_after_unit_keeps_pps; assumption|exact Hr].
Qed.

Theorem stream_pps_last_writer_wins before n b r after p t cs ctx0 pre :
  let u := b :: r in
  let units := before ++ (n, u) :: after in
  Forall (fun v => unit_ok (snd v)) units -> (t = 0%nat \/ 3 <= t)%nat ->
  Forall (fun v => exists q, unescape (skipn 1 (snd v)) = Some q) units ->
  nal_header_new b = Some b -> nal_unit_type_id b = 8 ->
  pps_from_bits (fold_left ctx_after_unit (map snd before) ctx0) (nal_bitsrc u) = OK p ->
  Forall (fun v => forall c' y, pps_from_bits c' (nal_bitsrc (snd v)) = OK y -> pic_parameter_set_id y <> pic_parameter_set_id p) after ->
  concat cs = annexb_encode units t ->
  pps_by_id (ps_ctx (fst (pipeline_run ctx0 [] pre (map APush cs ++ [AReset])))) (pic_parameter_set_id p) = Some p.
Proof.
  intros u units Hu Ht Hp Hh Hty Hx Hafter Hc.
  rewrite (stream_context units t cs ctx0 pre Hu Ht Hp Hc). subst units.
  rewrite map_app, fold_left_app. cbn [map snd fold_left].
  apply fold_keeps_pps.
  - set (C := fold_left ctx_after_unit (map snd before) ctx0) in *. subst u. unfold ctx_after_unit. rewrite Hh, Hty.
    change (8 =? 7) with false. change (8 =? 8) with true. cbv iota. cbn [ctx_step]. rewrite Hx. apply pps_lookup_after_put.
  - rewrite Forall_map. exact Hafter.
Qed.
