(* C03, value-level side of "never over-allocates": every variable-length part of an accepted structure has at most
   as many elements as the input has bits, because - by the converse theorems - the input IS the encoding of the
   structure and every element costs at least one bit. *)
From H264 Require Import Base.Prelude Base.Bits Model.BitReader Model.Parser Model.Nal Model.Sps Model.Context Model.Pps Model.Slice
     Spec.Golomb Spec.SyntaxSps Spec.SyntaxPps Spec.SyntaxSlice
     Proofs.BitsLemmas Proofs.Wp Proofs.SpsInv Proofs.PpsInv Proofs.SliceInv Proofs.SliceRoundtrip
     Proofs.PpsRoundtrip Proofs.SpsConverse Proofs.PpsConverse Proofs.SliceConverse.
Local Open Scope N_scope.

Lemma concat_map_length_ge {A} (f : A -> list bool) (l : list A) : (forall x, 1 <= length (f x))%nat -> (length l <= length (concat (map f l)))%nat.
Proof. intros H. induction l as [|x r IH]; cbn [map concat length]; [lia|]. rewrite app_length. specialize (H x). lia. Qed.

Lemma ue_len v : (1 <= length (ue v))%nat.
Proof. unfold ue. apply enc_ue_length_pos. Qed.

Lemma to_bits_len_pos n v : (1 <= n)%nat -> (1 <= length (to_bits n v))%nat.
Proof. intros H. rewrite to_bits_length. exact H. Qed.

(* PPS: the explicit slice-group map, run lengths and rectangles *)
Definition slice_group_elems (g : option slice_group) : nat :=
  match g with
  | Some (SgInterleaved l) => length l
  | Some (SgForeground l) => length l
  | Some (SgExplicit _ ids) => length ids
  | _ => 0%nat
  end.

Lemma enc_slice_groups_len g : match g with Some (SgExplicit n _) => 1 <= n <= 7 | _ => True end ->
  (slice_group_elems g <= length (enc_slice_groups g))%nat.
Proof.
  intros Hn. unfold enc_slice_groups. rewrite app_length. destruct g as [[l|n|l|t n d r|n ids]|]; cbn [slice_group_elems enc_slice_group]; try lia.
  - rewrite app_length. pose proof (concat_map_length_ge ue l ue_len). lia.
  - rewrite app_length. pose proof (concat_map_length_ge (fun r => ue (fst r) ++ ue (snd r)) l) as H.
    assert (Hx : forall x : N * N, (1 <= length (ue (fst x) ++ ue (snd x)))%nat) by (intros x; rewrite app_length; pose proof (ue_len (fst x)); lia).
    specialize (H Hx). lia.
  - rewrite !app_length.
    assert (Hw : (1 <= slice_group_id_bits n)%nat).
    { unfold slice_group_id_bits. rewrite <- (ceil_log2_is_spec n Hn). pose proof (ceil_log2_range n Hn). lia. }
    pose proof (concat_map_length_ge (u (slice_group_id_bits n)) ids (fun x => to_bits_len_pos _ x Hw)). lia.
Qed.

Theorem pps_elems_bounded c s v s' : ctx_sps_ok c -> pps_body c s = OK (v, s') ->
  (slice_group_elems (slice_groups v) <= length (bits s))%nat.
Proof.
  intros Hc H. destruct (pps_body_converse c s v s' Hc H) as (plists & Hb & _).
  pose proof (wp_pps_body c s (fun v s' => inv_pps c v) Hc (fun v s' Hi _ => Hi)) as Hw. rewrite H in Hw. cbn [wp] in Hw.
  assert (Hn : match slice_groups v with Some (SgExplicit n _) => 1 <= n <= 7 | _ => True end).
  { destruct Hw as (_ & _ & _ & Hg & _). destruct (slice_groups v) as [[l|n|l|t n d r|n ids]|]; try exact I. cbn [inv_slice_group] in Hg. apply Hg. }
  pose proof (enc_slice_groups_len (slice_groups v) Hn) as Hl.
  rewrite Hb. unfold enc_pps. rewrite !app_length. lia.
Qed.

(* slice header: modification lists, marking operations, weight entries *)
Definition rpl_elems (r : ref_pic_list_mods) : nat :=
  match r with RplI => 0 | RplP a => length a | RplB a b => length a + length b end%nat.
Definition drm_elems (d : option dec_ref_pic_marking) : nat :=
  match d with Some (DrAdaptive ops) => length ops | _ => 0%nat end.
Definition pwt_elems (t : option pred_weight_table) : nat :=
  match t with Some x => length (luma_weights x) | None => 0%nat end.

Lemma enc_mod_list_len e l : (length l <= length (enc_mod_list e l))%nat.
Proof.
  unfold enc_mod_list. destruct l as [|m r]; [cbn [length]; lia|]. rewrite !app_length.
  pose proof (concat_map_length_ge enc_mod (m :: r) enc_mod_length). lia.
Qed.

Lemma enc_rpl_len em r : (rpl_elems r <= length (enc_rpl em r))%nat.
Proof.
  destruct r as [|a|a b]; cbn [rpl_elems enc_rpl]; [lia|apply enc_mod_list_len|].
  rewrite app_length. pose proof (enc_mod_list_len (fst em) a). pose proof (enc_mod_list_len (snd em) b). lia.
Qed.

Lemma enc_drm_len d : (drm_elems d <= length (match d with Some x => enc_drm x | None => [] end))%nat.
Proof.
  destruct d as [[a b| |ops]|]; cbn [drm_elems enc_drm length]; try lia.
  rewrite !app_length. pose proof (concat_map_length_ge enc_mmco ops enc_mmco_length). lia.
Qed.

Lemma weight_entries_len mono t : (length (chroma_weights t) = length (luma_weights t) \/ mono = true) ->
  length (weight_entries mono t) = length (luma_weights t).
Proof.
  intros H. unfold weight_entries. destruct mono; [apply map_length|].
  destruct H as [H|H]; [|discriminate]. rewrite combine_length, map_length. lia.
Qed.

Lemma enc_entry_len mono e : (1 <= length (enc_weight_entry mono e))%nat.
Proof. unfold enc_weight_entry. rewrite app_length. destruct (fst e); cbn [length flag app]; lia. Qed.

Theorem slice_elems_bounded c hdr s h sid pid s' : ctx_ok c -> ctx_keyed c ->
  slice_header_read c hdr s = OK ((h, sid, pid), s') ->
  (rpl_elems (ref_pic_list_modification h) + drm_elems (sh_dec_ref_pic_marking h) <= length (bits s))%nat.
Proof.
  intros Hc Hk H. destruct (slice_header_converse c hdr s h sid pid s' Hc Hk H) as (pp & sp & ab & em & _ & _ & _ & Hb & _).
  pose proof (enc_rpl_len em (ref_pic_list_modification h)) as H1.
  pose proof (enc_drm_len (sh_dec_ref_pic_marking h)) as H2.
  rewrite Hb. unfold enc_slice_header. rewrite !app_length. lia.
Qed.

(* SPS: POC cycle offsets and CPB entries *)
Definition sps_elems (v : sps) : nat :=
  (match pic_order_cnt_ v with PocTypeOne _ _ _ offs => length offs | _ => 0 end +
   match vui_parameters_ v with
   | Some u => match nal_hrd_parameters u with Some h => length (cpb_specs h) | None => 0 end +
               match vcl_hrd_parameters u with Some h => length (cpb_specs h) | None => 0 end
   | None => 0 end)%nat.

Lemma se_len z : (1 <= length (se z))%nat.
Proof. unfold se, enc_se. apply enc_ue_length_pos. Qed.

Lemma enc_hrd_opt_len o : (match o with Some h => length (cpb_specs h) | None => 0 end <= length (enc_opt enc_hrd o))%nat.
Proof.
  destruct o as [h|]; cbn [enc_opt]; [|cbn; lia]. unfold enc_hrd. rewrite !app_length.
  pose proof (concat_map_length_ge (fun c => ue (bit_rate_value_minus1 c) ++ ue (cpb_size_value_minus1 c) ++ flag (cbr_flag c)) (cpb_specs h)) as Hl.
  assert (Hx : forall c : cpb_spec, (1 <= length (ue (bit_rate_value_minus1 c) ++ ue (cpb_size_value_minus1 c) ++ flag (cbr_flag c)))%nat).
  { intros c. rewrite app_length. pose proof (ue_len (bit_rate_value_minus1 c)). lia. }
  specialize (Hl Hx). lia.
Qed.

Theorem sps_elems_bounded s v s' : sps_body s = OK (v, s') -> (sps_elems v <= length (bits s))%nat.
Proof.
  intros H. destruct (sps_body_converse s v s' H) as (lists & Hb & _). rewrite Hb. unfold enc_sps, sps_elems. rewrite !app_length.
  assert (Hpoc : (match pic_order_cnt_ v with PocTypeOne _ _ _ offs => length offs | _ => 0 end <= length (enc_poc (pic_order_cnt_ v)))%nat).
  { destruct (pic_order_cnt_ v) as [l|az nr tb offs|]; cbn [enc_poc]; try lia. rewrite !app_length.
    pose proof (concat_map_length_ge se offs se_len). lia. }
  assert (Hvui : (match vui_parameters_ v with
                  | Some u => match nal_hrd_parameters u with Some h => length (cpb_specs h) | None => 0 end +
                              match vcl_hrd_parameters u with Some h => length (cpb_specs h) | None => 0 end
                  | None => 0 end <= length (enc_opt enc_vui (vui_parameters_ v)))%nat).
  { destruct (vui_parameters_ v) as [u0|]; cbn [enc_opt]; [|lia]. unfold enc_vui. rewrite !app_length.
    pose proof (enc_hrd_opt_len (nal_hrd_parameters u0)). pose proof (enc_hrd_opt_len (vcl_hrd_parameters u0)). lia. }
  lia.
Qed.
