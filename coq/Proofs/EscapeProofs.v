(* 7.4.1: unescape (escape p) = p. *)
From H264 Require Import Base.Prelude Spec.Escape.
Local Open Scope N_scope.

Lemma unescape_cons_nz a t : a <> 0 -> unescape (a :: t) = match unescape t with Some u => Some (a :: u) | None => None end.
Proof.
  intros Ha. cbn [unescape]. destruct t as [|b [|c r]].
  - reflexivity.
  - reflexivity.
  - destruct (N.eqb_spec a 0); [contradiction|]. cbn [andb]. reflexivity.
Qed.

Lemma unescape_0_nz b t u : b <> 0 -> unescape t = Some u -> unescape (0 :: b :: t) = Some (0 :: b :: u).
Proof.
  intros Hb Ht. cbn [unescape]. destruct t as [|c r'].
  - cbn [unescape] in Ht. injection Ht as <-. reflexivity.
  - destruct (N.eqb_spec b 0); [contradiction|]. change (0 =? 0) with true. cbn [andb].
    destruct r' as [|d r''].
    + cbn [unescape] in Ht. injection Ht as <-. reflexivity.
    + rewrite Ht. reflexivity.
Qed.

Lemma unescape_003 x r : unescape (0 :: 0 :: 3 :: x :: r) =
  if 3 <? x then None else match unescape (x :: r) with Some u => Some (0 :: 0 :: u) | None => None end.
Proof. reflexivity. Qed.
Lemma unescape_003_end : unescape [0; 0; 3] = Some [0; 0].
Proof. reflexivity. Qed.
Lemma unescape_00c c r : c <> 0 -> c <> 3 ->
  unescape (0 :: 0 :: c :: r) = match unescape (0 :: c :: r) with Some u => Some (0 :: u) | None => None end.
Proof.
  intros H0 H3. change (unescape (0 :: 0 :: c :: r)) with
    (if (0 =? 0) && (0 =? 0) && (c =? 0) then None
     else if (0 =? 0) && (0 =? 0) && (c =? 3) then
            match r with [] => Some [0; 0] | x :: _ => if 3 <? x then None else match unescape r with Some u => Some (0 :: 0 :: u) | None => None end end
          else match unescape (0 :: c :: r) with Some u => Some (0 :: u) | None => None end).
  change (0 =? 0) with true. cbn [andb]. destruct (N.eqb_spec c 0); [contradiction|]. destruct (N.eqb_spec c 3); [contradiction|]. reflexivity.
Qed.

(* unescape of what escape produces, by the number of zeros already emitted (0, 1 or >= 2) *)
Lemma unescape_escape_from p :
  unescape (escape_from 0 p) = Some p /\
  unescape (0 :: escape_from 1 p) = Some (0 :: p) /\
  unescape (0 :: 0 :: escape_from 2 p) = Some (0 :: 0 :: p).
Proof.
  induction p as [|b r (I0 & I1 & I2)].
  - repeat split; reflexivity.
  - repeat split; cbn [escape_from].
    + destruct (N.eqb_spec b 0) as [->|Hb].
      * exact I1.
      * rewrite unescape_cons_nz by exact Hb. rewrite I0. reflexivity.
    + destruct (N.eqb_spec b 0) as [->|Hb].
      * exact I2.
      * apply unescape_0_nz; assumption.
    + destruct (N.leb_spec b 3) as [Hle|Hgt].
      * rewrite unescape_003. destruct (N.ltb_spec 3 b); [lia|].
        destruct (N.eqb_spec b 0) as [->|Hb].
        -- rewrite I1. reflexivity.
        -- rewrite unescape_cons_nz by exact Hb. rewrite I0. reflexivity.
      * assert (Hb : b <> 0) by lia. assert (Hb3 : b <> 3) by lia.
        rewrite unescape_00c by assumption.
        rewrite (unescape_0_nz b _ r Hb I0). reflexivity.
Qed.

Theorem unescape_escape p : unescape (escape p) = Some p.
Proof. exact (proj1 (unescape_escape_from p)). Qed.

(* escape never produces a start code prefix or a forbidden sequence: no 00 00 0x with x <= 2 *)
Fixpoint has_sc (l : list byte) : bool :=
  match l with
  | [] => false
  | a :: t1 =>
    match t1 with
    | b :: c :: _ => ((a =? 0) && (b =? 0) && (c <=? 2)) || has_sc t1
    | _ => false
    end
  end.

Lemma has_sc_cons_nz a t : a <> 0 -> has_sc (a :: t) = has_sc t.
Proof.
  intros Ha. destruct t as [|b [|c r]]; try reflexivity.
  change (has_sc (a :: b :: c :: r)) with (((a =? 0) && (b =? 0) && (c <=? 2)) || has_sc (b :: c :: r)).
  destruct (N.eqb_spec a 0); [contradiction|]. reflexivity.
Qed.
Lemma has_sc_0_nz b t : b <> 0 -> has_sc (0 :: b :: t) = has_sc t.
Proof.
  intros Hb. destruct t as [|c r].
  - reflexivity.
  - change (has_sc (0 :: b :: c :: r)) with (((0 =? 0) && (b =? 0) && (c <=? 2)) || has_sc (b :: c :: r)).
    destruct (N.eqb_spec b 0); [contradiction|]. rewrite Bool.andb_false_r. cbn [andb orb]. apply has_sc_cons_nz. exact Hb.
Qed.
Lemma has_sc_00 c r : has_sc (0 :: 0 :: c :: r) = (c <=? 2) || has_sc (0 :: c :: r).
Proof. reflexivity. Qed.

Lemma escape_clean_from p :
  has_sc (escape_from 0 p) = false /\ has_sc (0 :: escape_from 1 p) = false /\ has_sc (0 :: 0 :: escape_from 2 p) = false.
Proof.
  induction p as [|b r (I0 & I1 & I2)].
  - repeat split; reflexivity.
  - repeat split; cbn [escape_from].
    + destruct (N.eqb_spec b 0) as [->|Hb]; [exact I1|]. rewrite has_sc_cons_nz by exact Hb. exact I0.
    + destruct (N.eqb_spec b 0) as [->|Hb]; [exact I2|]. rewrite has_sc_0_nz by exact Hb. exact I0.
    + destruct (N.leb_spec b 3) as [Hle|Hgt].
      * rewrite has_sc_00. change (3 <=? 2) with false. cbn [orb].
        rewrite has_sc_0_nz by lia.
        destruct (N.eqb_spec b 0) as [->|Hb]; [exact I1|]. rewrite has_sc_cons_nz by exact Hb. exact I0.
      * rewrite has_sc_00. destruct (N.leb_spec b 2); [lia|]. cbn [orb].
        destruct (N.eqb_spec b 0); [lia|]. rewrite has_sc_0_nz by lia. exact I0.
Qed.

Theorem escape_no_startcode p : has_sc (escape p) = false.
Proof. exact (proj1 (escape_clean_from p)). Qed.
