(* PPS parser: never aborts under a context of accepted SPS, and accepted values satisfy the range invariants. *)
From H264 Require Import Base.Prelude Base.Bits Model.BitReader Model.Parser Model.Sps Model.SpsDerived Model.Context Model.Pps
     Spec.Golomb Proofs.BitsLemmas Proofs.C07_proofs Proofs.Wp Proofs.SpsInv.
Local Open Scope N_scope.

(* every SPS stored in the context was accepted by the parser (history quantifier of C03/C16) *)
Definition ctx_sps_ok (c : context) : Prop := forall id sp, sps_by_id c id = Some sp -> inv_sps sp.

Lemma wp_sps_helper_width sp s (Phi : N -> src -> Prop) :
  inv_sps sp -> (forall w, w = pic_width_in_mbs_minus1 sp + 1 -> 1 <= w < 4294967296 -> Phi w s) ->
  wp (sps_helper (pic_width_in_mbs sp) s) Phi.
Proof.
  intros Hi Hk. unfold sps_helper, pic_width_in_mbs, add32.
  destruct Hi as (_ & _ & _ & _ & _ & _ & _ & _ & Hw & _).
  destruct (N.ltb_spec (pic_width_in_mbs_minus1 sp + 1) two32) as [|Hge]; [|unfold two32 in Hge; lia].
  cbn. apply Hk; [reflexivity|unfold two32 in *; lia].
Qed.

Lemma wp_sps_helper_size sp s (Phi : N -> src -> Prop) :
  inv_sps sp -> (forall n, 1 <= n <= 4294967295 -> Phi n s) ->
  wp (sps_helper (pic_size_in_map_units sp) s) Phi.
Proof.
  intros Hi Hk. unfold sps_helper, pic_size_in_map_units, pic_width_in_mbs, pic_height_in_map_units, add32.
  destruct Hi as (_ & _ & _ & _ & _ & _ & _ & _ & Hw & Hh & _).
  destruct (N.ltb_spec (pic_width_in_mbs_minus1 sp + 1) two32) as [|Hge]; [|unfold two32 in Hge; lia].
  destruct (N.ltb_spec (pic_height_in_map_units_minus1 sp + 1) two32) as [|Hge]; [|unfold two32 in Hge; lia].
  cbn. apply Hk. split; [|lia].
  apply N.min_glb; [|lia]. nia.
Qed.

Definition inv_slice_group (g : slice_group) : Prop :=
  match g with
  | SgInterleaved l => (2 <= length l <= 8)%nat
  | SgDispersed n => 1 <= n <= 7
  | SgForeground l => (1 <= length l <= 7)%nat /\ Forall (fun r => fst r <= snd r) l
  | SgChanging t n _ _ => 3 <= t <= 5 /\ 1 <= n <= 7
  | SgExplicit n ids => 1 <= n <= 7 /\ Forall (fun x => x < 8) ids
  end.

Lemma wp_slice_rect sp s (Phi : N * N -> src -> Prop) : inv_sps sp ->
  (forall r s', fst r <= snd r -> consumes s s' -> Phi r s') -> wp (slice_rect_read sp s) Phi.
Proof.
  intros Hi Hk. unfold slice_rect_read, rd.
  apply wp_bind. apply wp_read_ue. intros tl s1 _ Hb1 Hl1. cbv beta.
  apply wp_bind. apply wp_read_ue. intros br s2 _ Hb2 Hl2. cbv beta.
  destruct (br <? tl) eqn:E1; [apply wp_fail|].
  apply wp_bind. apply wp_sps_helper_size; [exact Hi|]. intros size Hsize. cbv beta.
  destruct (size <? br) eqn:E2; [apply wp_fail|].
  apply wp_bind. apply wp_sps_helper_width; [exact Hi|]. intros w Hw Hwr. cbv beta.
  destruct (w =? 0) eqn:E3; [lia|].
  destruct (br mod w <? tl mod w) eqn:E4; [apply wp_fail|].
  apply wp_ret. apply Hk; [cbn; lia|wp_done].
Qed.

Lemma wp_read_run_length sp s (Phi : N -> src -> Prop) : inv_sps sp ->
  (forall v s', consumes s s' -> Phi v s') -> wp (read_run_length sp s) Phi.
Proof.
  intros Hi Hk. unfold read_run_length, rd.
  apply wp_bind. apply wp_read_ue. intros v s1 _ Hb1 Hl1. cbv beta.
  apply wp_bind. apply wp_sps_helper_size; [exact Hi|]. intros size Hsize. cbv beta.
  apply wp_bind. unfold sub32. destruct (N.leb_spec 1 size); [|lia]. apply (wp_liftO_ok _ (size - 1)); [reflexivity|].
  destruct (size - 1 <? v) eqn:E; [apply wp_fail|]. apply wp_ret. apply Hk. wp_done.
Qed.

Lemma to_bits_width_bound size x : x < 2 ^ size -> size <= 3 -> x < 8.
Proof. intros H Hs. assert (2 ^ size <= 2 ^ 3) by (apply N.pow_le_mono_r; lia). change (2 ^ 3) with 8 in *. lia. Qed.

Lemma wp_read_ids_loop fuel : forall count size acc s (Phi : list N -> src -> Prop),
  1 <= size <= 3 -> (length (bits s) < fuel)%nat -> Forall (fun x => x < 8) acc ->
  (forall l s', Forall (fun x => x < 8) l -> consumes s s' -> Phi l s') ->
  wp (read_ids_loop fuel count size acc s) Phi.
Proof.
  induction fuel as [|f IH]; intros count size acc s Phi Hs Hf Hacc Hk; [lia|].
  cbn [read_ids_loop]. destruct (count =? 0) eqn:Ec.
  - apply wp_ret. apply Hk; [exact Hacc|apply consumes_refl].
  - apply wp_bind. unfold rd. apply wp_read_u. intros x s1 _ Hx Hb Ht. cbv beta.
    assert (Hlen : (length (bits s1) < length (bits s))%nat).
    { rewrite Hb, app_length, to_bits_length. lia. }
    apply IH; [exact Hs|lia|apply Forall_app; split; [exact Hacc|constructor; [|constructor]]; eapply to_bits_width_bound; [exact Hx|lia]|].
    intros l s' Hl Hc. apply Hk; [exact Hl|]. wp_done.
Qed.

Lemma ceil_log2_range n : 1 <= n <= 7 -> 1 <= ceil_log2_1p n <= 3.
Proof. intros H. unfold ceil_log2_1p. destruct n as [|[[[]|[]|]|[[]|[]|]|]]; lia. Qed.

Lemma wp_read_group_ids n s (Phi : list N -> src -> Prop) : 1 <= n <= 7 ->
  (forall l s', Forall (fun x => x < 8) l -> consumes s s' -> Phi l s') -> wp (read_group_ids n s) Phi.
Proof.
  intros Hn Hk. unfold read_group_ids, rd.
  apply wp_bind. apply wp_read_ue. intros m1 s1 Hm Hb1 Hl1. cbv beta.
  apply wp_bind. unfold add32. destruct (N.ltb_spec (m1 + 1) two32) as [|Hge]; [|unfold two32 in Hge; lia].
  apply (wp_liftO_ok _ (m1 + 1)); [reflexivity|].
  apply wp_read_ids_loop; [apply ceil_log2_range; exact Hn|lia|constructor|].
  intros l s' Hl Hc. apply Hk; [exact Hl|wp_done].
Qed.

Lemma wp_slice_group n sp s (Phi : slice_group -> src -> Prop) : inv_sps sp -> 1 <= n <= 7 ->
  (forall g s', inv_slice_group g -> consumes s s' -> Phi g s') -> wp (slice_group_read n sp s) Phi.
Proof.
  intros Hi Hn Hk. unfold slice_group_read, rd.
  apply wp_bind. apply wp_read_ue. intros t s1 Ht Hb1 Hl1. cbv beta.
  destruct t as [|[[[p|p|]|[p|p|]|]|[[p|p|]|[p|p|]|]|]]; try apply wp_fail.
  - (* 0 *)
    apply wp_bind. unfold add32. destruct (N.ltb_spec (n + 1) two32) as [|Hge]; [|unfold two32 in Hge; lia].
    apply (wp_liftO_ok _ (n + 1)); [reflexivity|].
    apply wp_bind. apply (wp_repE _ (fun _ => True)).
    + intros s2 Hc2. apply wp_read_run_length; [exact Hi|]. intros v s3 Hc3. split; [exact I|exact Hc3].
    + intros l s4 _ Hlen Hc4. cbv beta. apply wp_ret. apply Hk; [cbn; lia|wp_done].
  - (* 5 *)
    wp_go. apply wp_sps_helper_size; [exact Hi|]. intros size Hsize. cbv beta.
    apply wp_bind. unfold sub32. destruct (N.leb_spec 1 size); [|lia]. apply (wp_liftO_ok _ (size - 1)); [reflexivity|].
    destruct (size - 1 <? _) eqn:E; [apply wp_fail|]. apply wp_ret. apply Hk; [cbn; lia|wp_done].
  - (* 3 *)
    wp_go. apply wp_sps_helper_size; [exact Hi|]. intros size Hsize. cbv beta.
    apply wp_bind. unfold sub32. destruct (N.leb_spec 1 size); [|lia]. apply (wp_liftO_ok _ (size - 1)); [reflexivity|].
    destruct (size - 1 <? _) eqn:E; [apply wp_fail|]. apply wp_ret. apply Hk; [cbn; lia|wp_done].
  - (* 6 *)
    apply wp_bind. apply wp_read_group_ids; [exact Hn|]. intros ids s2 Hids Hc2. cbv beta.
    apply wp_ret. apply Hk; [cbn; auto|wp_done].
  - (* 4 *)
    wp_go. apply wp_sps_helper_size; [exact Hi|]. intros size Hsize. cbv beta.
    apply wp_bind. unfold sub32. destruct (N.leb_spec 1 size); [|lia]. apply (wp_liftO_ok _ (size - 1)); [reflexivity|].
    destruct (size - 1 <? _) eqn:E; [apply wp_fail|]. apply wp_ret. apply Hk; [cbn; lia|wp_done].
  - (* 2 *)
    apply wp_bind. apply (wp_repE _ (fun r => fst r <= snd r)).
    + intros s2 Hc2. apply wp_slice_rect; [exact Hi|]. intros r s3 Hr Hc3. split; [exact Hr|exact Hc3].
    + intros l s4 Hall Hlen Hc4. cbv beta. apply wp_ret. apply Hk; [cbn; split; [lia|exact Hall]|wp_done].
  - (* 1 *)
    apply wp_ret. apply Hk; [cbn; lia|wp_done].
Qed.

Lemma wp_read_slice_groups sp s (Phi : option slice_group -> src -> Prop) : inv_sps sp ->
  (forall g s', match g with Some x => inv_slice_group x | None => True end -> consumes s s' -> Phi g s') ->
  wp (read_slice_groups sp s) Phi.
Proof.
  intros Hi Hk. unfold read_slice_groups, rd.
  apply wp_bind. apply wp_read_ue. intros n s1 Hn Hb1 Hl1. cbv beta.
  destruct (7 <? n) eqn:E7; [apply wp_fail|]. destruct (0 <? n) eqn:E0.
  - apply wp_bind. apply wp_slice_group; [exact Hi|lia|]. intros g s2 Hg Hc2. cbv beta.
    apply wp_ret. apply Hk; [exact Hg|wp_done].
  - apply wp_ret. apply Hk; [exact I|wp_done].
Qed.

Lemma wp_read_num_ref_idx nm s (Phi : N -> src -> Prop) :
  (forall v s', v <= 31 -> consumes s s' -> Phi v s') -> wp (read_num_ref_idx nm s) Phi.
Proof.
  intros Hk. unfold read_num_ref_idx, rd. wp_go. apply wp_ret. apply Hk; [lia|wp_done].
Qed.

Lemma wp_read_pic_scaling_lists n : forall i l4 l8 s (Phi : list scaling_list * list scaling_list -> src -> Prop),
  inv_lists l4 l8 ->
  (forall r s', inv_lists (fst r) (snd r) ->
                (length (fst r) + length (snd r) = length l4 + length l8 + n)%nat ->
                (length (fst r) = length l4 + (Nat.min n (6 - i)))%nat ->
                consumes s s' -> Phi r s') ->
  wp (read_pic_scaling_lists n i l4 l8 s) Phi.
Proof.
  induction n as [|n IH]; intros i l4 l8 s Phi [H4 H8] Hk; cbn [read_pic_scaling_lists].
  - apply wp_ret. apply Hk; cbn [fst snd]; [split; assumption|lia|lia|apply consumes_refl].
  - apply wp_bind. unfold rd. apply wp_read_bool. intros flag s1 Hb Ht. cbv beta.
    destruct (Nat.ltb_spec i 6).
    + apply wp_bind. apply wp_mapE. apply wp_read_scaling_list. intros sl s2 Hsl Hc2. cbv beta.
      apply IH; [split; [apply Forall_app; split; [exact H4|constructor; [exact Hsl|constructor]]|exact H8]|].
      intros r s' Hinv Hlen Hl4 Hc. apply Hk; [exact Hinv|rewrite Hlen, app_length; cbn [length]; lia|rewrite Hl4, app_length; cbn [length]; lia|].
      wp_done.
    + apply wp_bind. apply wp_mapE. apply wp_read_scaling_list. intros sl s2 Hsl Hc2. cbv beta.
      apply IH; [split; [exact H4|apply Forall_app; split; [exact H8|constructor; [exact Hsl|constructor]]]|].
      intros r s' Hinv Hlen Hl4 Hc. apply Hk; [exact Hinv|rewrite Hlen, app_length; cbn [length]; lia|rewrite Hl4; lia|].
      wp_done.
Qed.

Definition inv_psm (sp : sps) (t8 : bool) (m : pic_scaling_matrix) : Prop :=
  length (psm4x4 m) = 6%nat /\ Forall (inv_scaling_list 16) (psm4x4 m) /\
  match psm8x8 m with
  | Some l => t8 = true /\ Forall (inv_scaling_list 64) l /\
              length l = (if chroma_format_eqb (chroma_format_ (chroma_info_ sp)) YUV444 then 6%nat else 2%nat)
  | None => t8 = false
  end.

Lemma wp_pic_scaling_matrix sp t8 s (Phi : option pic_scaling_matrix -> src -> Prop) :
  (forall m s', match m with Some x => inv_psm sp t8 x | None => True end -> consumes s s' -> Phi m s') ->
  wp (pic_scaling_matrix_read sp t8 s) Phi.
Proof.
  intros Hk. unfold pic_scaling_matrix_read, rd.
  apply wp_bind. apply wp_read_bool. intros f s1 Hb1 Hl1. cbv beta. destruct f; cbn [negb].
  - apply wp_bind. apply wp_read_pic_scaling_lists; [split; constructor|].
    intros r s2 [H4 H8] Hlen Hl4 Hc2. cbv beta. apply wp_ret. apply Hk; [|wp_done].
    unfold inv_psm. cbn [psm4x4 psm8x8 length] in *.
    destruct t8; [destruct (chroma_format_eqb _ _)|]; cbn [plus] in *;
      (split; [lia|]; split; [exact H4|]);
      destruct (snd r) as [|x l] eqn:E; cbn [length] in *; try lia;
      try (split; [reflexivity|]; split; [exact H8|cbn [length]; lia]); reflexivity.
  - apply wp_ret. apply Hk; [exact I|wp_done].
Qed.

Definition inv_ext (sp : sps) (e : pps_extra) : Prop :=
  (-12 <= second_chroma_qp_index_offset e <= 12)%Z /\
  match pic_scaling_matrix_ e with Some m => inv_psm sp (transform_8x8_mode_flag e) m | None => True end.

Lemma wp_pps_extra sp s (Phi : option pps_extra -> src -> Prop) :
  (forall e s', match e with Some x => inv_ext sp x | None => True end -> consumes s s' -> Phi e s') ->
  wp (pps_extra_read sp s) Phi.
Proof.
  intros Hk. unfold pps_extra_read, rd.
  apply wp_bind. apply wp_has_more. intros more. cbv beta. destruct more.
  - apply wp_bind. apply wp_read_bool. intros t s1 Hb1 Hl1. cbv beta.
    apply wp_bind. apply wp_pic_scaling_matrix. intros m s2 Hm Hc2. cbv beta.
    apply wp_bind. apply wp_read_se. intros q s3 Hq [k (_ & _ & Hb3)] Hl3. cbv beta.
    destruct ((q <? -12)%Z || (12 <? q)%Z) eqn:E; [apply wp_fail|].
    apply wp_ret. apply Hk; [|wp_done]. unfold inv_ext. cbn. split; [lia|exact Hm].
  - apply wp_ret. apply Hk; [exact I|apply consumes_refl].
Qed.

Definition inv_pps (c : context) (p : pps) : Prop :=
  pic_parameter_set_id p <= 255 /\ pps_seq_parameter_set_id p <= 31 /\
  (exists sp, sps_by_id c (pps_seq_parameter_set_id p) = Some sp /\
              (- (26 + 6 * Z.of_N (bit_depth_luma_minus8 (chroma_info_ sp))) <= pic_init_qp_minus26 p <= 25)%Z /\
              match extension p with Some e => inv_ext sp e | None => True end) /\
  match slice_groups p with Some g => inv_slice_group g | None => True end /\
  num_ref_idx_l0_default_active_minus1 p <= 31 /\ num_ref_idx_l1_default_active_minus1 p <= 31 /\
  weighted_bipred_idc p < 4 /\
  (-26 <= pic_init_qs_minus26 p <= 25)%Z /\ (-12 <= chroma_qp_index_offset p <= 12)%Z.

Lemma wp_pps_body c s (Phi : pps -> src -> Prop) : ctx_sps_ok c ->
  (forall p s', inv_pps c p -> consumes s s' -> Phi p s') -> wp (pps_body c s) Phi.
Proof.
  intros Hctx Hk. unfold pps_body, rd.
  apply wp_bind. apply wp_read_ue. intros idv s1 _ Hb1 Hl1. cbv beta.
  unfold pic_param_set_id_from_u32. destruct (255 <? idv) eqn:Eid; [apply wp_fail|].
  apply wp_bind. apply wp_read_ue. intros sidv s2 _ Hb2 Hl2. cbv beta.
  unfold seq_param_set_id_from_u32. destruct (31 <? sidv) eqn:Esid; [apply wp_fail|].
  destruct (sps_by_id c sidv) as [sp|] eqn:Esp; [|apply wp_fail].
  pose proof (Hctx _ _ Esp) as Hi.
  apply wp_bind. apply wp_read_bool. intros ec s3 Hb3 Hl3. cbv beta.
  apply wp_bind. apply wp_read_bool. intros bf s4 Hb4 Hl4. cbv beta.
  apply wp_bind. apply wp_read_slice_groups; [exact Hi|]. intros sg s5 Hsg Hc5. cbv beta.
  apply wp_bind. apply wp_read_num_ref_idx. intros l0 s6 Hl0 Hc6. cbv beta.
  apply wp_bind. apply wp_read_num_ref_idx. intros l1 s7 Hl1' Hc7. cbv beta.
  apply wp_bind. apply wp_read_bool. intros wpf s8 Hb8 Hl8. cbv beta.
  apply wp_bind. apply wp_read_u. intros wb s9 _ Hwb Hb9 Hl9. cbv beta.
  apply wp_bind. apply wp_read_se. intros qp s10 _ [k10 (_ & _ & Hb10)] Hl10. cbv beta.
  apply wp_bind. apply wp_read_se. intros qs s11 _ [k11 (_ & _ & Hb11)] Hl11. cbv beta.
  apply wp_bind. apply wp_read_se. intros cq s12 _ [k12 (_ & _ & Hb12)] Hl12. cbv beta.
  apply wp_bind. apply wp_read_bool. intros db s13 Hb13 Hl13. cbv beta.
  apply wp_bind. apply wp_read_bool. intros ci s14 Hb14 Hl14. cbv beta.
  apply wp_bind. apply wp_read_bool. intros rp s15 Hb15 Hl15. cbv beta.
  apply wp_bind. apply wp_pps_extra. intros ext s16 Hext Hc16. cbv beta.
  destruct ((qp <? - (26 + 6 * Z.of_N (bit_depth_luma_minus8 (chroma_info_ sp))))%Z || (25 <? qp)%Z) eqn:E1; [apply wp_fail|].
  destruct ((qs <? -26)%Z || (25 <? qs)%Z) eqn:E2; [apply wp_fail|].
  destruct ((cq <? -12)%Z || (12 <? cq)%Z) eqn:E3; [apply wp_fail|].
  apply wp_ret. apply Hk; [|wp_done].
  unfold inv_pps.
  cbn [pic_parameter_set_id pps_seq_parameter_set_id slice_groups num_ref_idx_l0_default_active_minus1
       num_ref_idx_l1_default_active_minus1 weighted_bipred_idc pic_init_qp_minus26 pic_init_qs_minus26
       chroma_qp_index_offset extension].
  change (2 ^ 2) with 4 in *.
  split; [lia|]. split; [lia|]. split.
  { exists sp. split; [exact Esp|]. split; [lia|exact Hext]. }
  split; [exact Hsg|]. repeat match goal with |- _ /\ _ => apply conj end; try assumption; lia.
Qed.

Theorem pps_from_bits_inv c s : ctx_sps_ok c ->
  match pps_from_bits c s with
  | OK p => inv_pps c p
  | ERR _ => True
  | _ => False
  end.
Proof.
  intros Hctx. unfold pps_from_bits.
  pose proof (wp_pps_body c s (fun p _ => inv_pps c p) Hctx (fun p s' H _ => H)) as H.
  destruct (pps_body c s) as [[v s']| | |]; cbn in H; try exact H; try exact I.
  unfold finish_rbsp. destruct (bits s') as [|[|] r]; try exact I.
  - destruct (unary1 r 0); [exact I|]. destruct (tail s'); [exact H|exact I|exact I].
  - destruct (unary1 r 0); exact I.
Qed.
