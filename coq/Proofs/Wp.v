(* Weakest-precondition reasoning for the parser monads: `wp (p s) Phi` says that running p on s
   neither panics nor runs out of fuel, and that a successful result satisfies Phi. *)
From H264 Require Import Base.Prelude Base.Bits Model.BitReader Model.Parser Spec.Golomb
     Proofs.BitsLemmas Proofs.C07_proofs.

Definition wp {E A} (x : out E (A * src)) (Phi : A -> src -> Prop) : Prop :=
  match x with
  | OK (a, s') => Phi a s'
  | ERR _ => True
  | PANIC _ => False
  | FUEL => False
  end.

(* s' is s after some bits were consumed *)
Definition consumes (s s' : src) : Prop := (exists c, bits s = c ++ bits s') /\ tail s' = tail s.

Lemma consumes_refl s : consumes s s.
Proof. split; [exists []; reflexivity|reflexivity]. Qed.
Lemma consumes_trans a b c : consumes a b -> consumes b c -> consumes a c.
Proof. intros [[x Hx] Ht] [[y Hy] Hu]. split; [exists (x ++ y); rewrite Hx, Hy, app_assoc; reflexivity|congruence]. Qed.
Lemma consumes_step s s' x : bits s = x ++ bits s' -> tail s' = tail s -> consumes s s'.
Proof. intros H Ht. split; [exists x; exact H|exact Ht]. Qed.
Lemma consumes_length s s' : consumes s s' -> (length (bits s') <= length (bits s))%nat.
Proof. intros [[c H] _]. rewrite H, app_length. lia. Qed.

Lemma wp_mono {E A} (x : out E (A * src)) (P Q : A -> src -> Prop) :
  wp x P -> (forall a s, P a s -> Q a s) -> wp x Q.
Proof. destruct x as [[a s]| | |]; cbn; auto. Qed.

Lemma wp_bind {E A B} (p : PE E A) (k : A -> PE E B) s Phi :
  wp (p s) (fun a s' => wp (k a s') Phi) -> wp (bindE p k s) Phi.
Proof. unfold bindE. destruct (p s) as [[a s']| | |]; cbn; auto. Qed.
Lemma wp_ret {E A} (a : A) s (Phi : A -> src -> Prop) : Phi a s -> wp (@retE E A a s) Phi.
Proof. auto. Qed.
Lemma wp_fail {E A} (e : E) s (Phi : A -> src -> Prop) : wp (@failE E A e s) Phi.
Proof. exact I. Qed.
Lemma wp_mapE {E F A} (f : E -> F) (p : PE E A) s Phi : wp (p s) Phi -> wp (mapE f p s) Phi.
Proof. unfold mapE. destruct (p s) as [[a s']| | |]; cbn; auto. Qed.
Lemma wp_liftO_ok {E A} (x : out E A) a s (Phi : A -> src -> Prop) : x = OK a -> Phi a s -> wp (liftO x s) Phi.
Proof. intros -> H. exact H. Qed.

(* ---- primitives, continuation style ---- *)
Lemma wp_read_bool {E} (f : biterr -> E) nm s (Phi : bool -> src -> Prop) :
  (forall b s', bits s = b :: bits s' -> tail s' = tail s -> Phi b s') ->
  wp (liftE f (read_bool nm) s) Phi.
Proof.
  intros H. unfold liftE, read_bool. destruct (bits s) as [|b r] eqn:E0; [exact I|].
  cbn. apply H; [cbn [set_bits bits]; reflexivity|reflexivity].
Qed.

Lemma wp_read_u {E} (f : biterr -> E) w n nm s (Phi : N -> src -> Prop) :
  (forall v s', n <= w -> v < 2 ^ n -> bits s = to_bits (N.to_nat n) v ++ bits s' -> tail s' = tail s -> Phi v s') ->
  wp (liftE f (read_u w n nm) s) Phi.
Proof.
  intros H. unfold liftE. destruct (read_u w n nm s) as [[v s']| | |] eqn:Er.
  - destruct (read_u_sound _ _ _ _ _ _ Er) as (H1 & H2 & H3 & H4). cbn. apply H; assumption.
  - exact I.
  - unfold read_u in Er. destruct (w <? n); [discriminate|]. destruct (take_bits _ _) as [[? ?]|]; discriminate.
  - unfold read_u in Er. destruct (w <? n); [discriminate|]. destruct (take_bits _ _) as [[? ?]|]; discriminate.
Qed.

Lemma wp_read_ue {E} (f : biterr -> E) nm s (Phi : N -> src -> Prop) :
  (forall v s', v < 4294967295 -> bits s = enc_ue v ++ bits s' -> tail s' = tail s -> Phi v s') ->
  wp (liftE f (read_ue nm) s) Phi.
Proof.
  intros H. unfold liftE. pose proof (read_ue_no_abort nm s) as Hna.
  destruct (read_ue nm s) as [[v s']| | |] eqn:Er; try contradiction; [|exact I].
  destruct (read_ue_sound _ _ _ _ Er) as (H1 & H2 & H3). cbn. apply H; assumption.
Qed.

Lemma wp_read_se {E} (f : biterr -> E) nm s (Phi : Z -> src -> Prop) :
  (forall z s', (- 2147483647 <= z <= 2147483647)%Z ->
                (exists k, k < 4294967295 /\ z = se_of_codenum k /\ bits s = enc_ue k ++ bits s') ->
                tail s' = tail s -> Phi z s') ->
  wp (liftE f (read_se nm) s) Phi.
Proof.
  intros H. unfold liftE. pose proof (read_se_no_abort nm s) as Hna.
  destruct (read_se nm s) as [[z s']| | |] eqn:Er; try contradiction; [|exact I].
  destruct (read_se_sound _ _ _ _ Er) as (k & Hk & Hz & Hb & Ht). cbn. apply H; [|exists k; auto|exact Ht].
  subst z. unfold se_of_codenum. destruct (N.odd k); lia.
Qed.

Lemma wp_has_more {E} (f : biterr -> E) nm s (Phi : bool -> src -> Prop) :
  (forall b, Phi b s) -> wp (liftE f (has_more_rbsp_data nm) s) Phi.
Proof.
  intros H. unfold liftE, has_more_rbsp_data.
  destruct (match bits s with [] => None | _ :: rest => unary1 rest 0 end); [cbn; apply H|].
  destruct (tail s); cbn; auto.
Qed.

(* enc_ue is never empty: a ue read consumes at least one bit *)
Lemma enc_ue_nonempty v : enc_ue v <> [].
Proof. unfold enc_ue. intros H. apply (f_equal (@length bool)) in H. rewrite !app_length in H. cbn in H. lia. Qed.

(* counted loops *)
Lemma wp_repE {E A} (p : PE E A) (Inv : A -> Prop) n : forall s (Phi : list A -> src -> Prop),
  (forall s1, consumes s s1 -> wp (p s1) (fun a s2 => Inv a /\ consumes s1 s2)) ->
  (forall l s', Forall Inv l -> length l = n -> consumes s s' -> Phi l s') ->
  wp (repE n p s) Phi.
Proof.
  induction n as [|n IH]; intros s Phi Hp Hk; cbn [repE].
  - apply wp_ret. apply Hk; [constructor|reflexivity|apply consumes_refl].
  - apply wp_bind. eapply wp_mono; [apply Hp; apply consumes_refl|].
    intros a s1 [Ha Hc1]. cbv beta. apply wp_bind. apply IH.
    + intros s2 Hc2. apply Hp. eapply consumes_trans; eassumption.
    + intros l s' Hl Hlen Hc. apply wp_ret. apply Hk; [constructor; assumption|cbn; lia|eapply consumes_trans; eassumption].
Qed.

Ltac wp_bits :=
  cbv beta in *;
  repeat match goal with
  | H : exists k, _ /\ _ /\ bits _ = _ ++ bits _ |- _ => destruct H as (? & _ & _ & H)
  end;
  repeat match goal with
  | H : bits ?a = _ ++ bits ?b, T : tail ?b = tail ?a |- _ =>
      let Hc := fresh "Hc" in pose proof (consumes_step a b _ H T) as Hc; clear H T
  | H : bits ?a = _ :: bits ?b, T : tail ?b = tail ?a |- _ =>
      let Hc := fresh "Hc" in pose proof (consumes_step a b [_] H T) as Hc; clear H T
  end.
