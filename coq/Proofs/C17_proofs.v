(* C17: parsing a prefix presented as an incomplete NAL never contradicts parsing the whole. *)
From H264 Require Import Base.Prelude Base.Bits Model.BitReader Model.Parser Spec.Golomb
     Proofs.BitsLemmas Proofs.C07_proofs Proofs.C14_proofs.

(* s1 is an incomplete view (tail = WouldBlock) of a prefix of the data that s2 holds *)
Definition prefix_src (s1 s2 : src) : Prop := tail s1 = TWouldBlock /\ exists more, bits s2 = bits s1 ++ more.

Definition blocked (e : biterr) : Prop := exists nm, e = ReaderErrorFor nm WouldBlock.

(* monotone parser: on the prefix it either blocks, or agrees with the whole (same value, sources
   still related), or fails where the whole fails too *)
Definition mono {E A} (blk : E -> Prop) (p : PE E A) : Prop :=
  forall s1 s2, prefix_src s1 s2 ->
    match p s1 with
    | OK (v, s1') => exists s2', p s2 = OK (v, s2') /\ prefix_src s1' s2'
    | ERR e => blk e \/ exists e', p s2 = ERR e'
    | _ => True
    end.

Lemma mono_ret {E A} blk (a : A) : mono blk (@retE E A a).
Proof. intros s1 s2 H. cbn. exists s2. split; [reflexivity|exact H]. Qed.

Lemma mono_fail {E A} blk (e : E) : mono blk (@failE E A e).
Proof. intros s1 s2 H. cbn. right. exists e. reflexivity. Qed.

Lemma mono_bind {E A B} blk (p : PE E A) (k : A -> PE E B) :
  mono blk p -> (forall a, mono blk (k a)) -> mono blk (bindE p k).
Proof.
  intros Hp Hk s1 s2 H. unfold bindE. specialize (Hp s1 s2 H).
  destruct (p s1) as [[a s1']|e| |]; auto.
  - destruct Hp as (s2' & E2 & H'). rewrite E2. apply Hk. exact H'.
  - destruct Hp as [Hb|[e' E2]]; [left; exact Hb|right]. rewrite E2. exists e'. reflexivity.
Qed.

Lemma mono_mapE {E F A} (blkE : E -> Prop) (blkF : F -> Prop) (f : E -> F) (p : PE E A) :
  (forall e, blkE e -> blkF (f e)) -> mono blkE p -> mono blkF (mapE f p).
Proof.
  intros Hf Hp s1 s2 H. unfold mapE. specialize (Hp s1 s2 H).
  destruct (p s1) as [[a s1']|e| |]; auto.
  - destruct Hp as (s2' & E2 & H'). rewrite E2. eauto.
  - destruct Hp as [Hb|[e' E2]]; [left; auto|right]. rewrite E2. eauto.
Qed.

Lemma mono_liftE {E A} (blkE : E -> Prop) (f : biterr -> E) (p : P A) :
  (forall e, blocked e -> blkE (f e)) -> mono blocked p -> mono blkE (liftE f p).
Proof.
  intros Hf Hp s1 s2 H. unfold liftE. specialize (Hp s1 s2 H).
  destruct (p s1) as [[a s1']|e| |]; auto.
  - destruct Hp as (s2' & E2 & H'). rewrite E2. eauto.
  - destruct Hp as [Hb|[e' E2]]; [left; auto|right]. rewrite E2. eauto.
Qed.

(* ---- primitives ---- *)
Lemma mono_read_bool nm : mono blocked (read_bool nm).
Proof.
  intros s1 s2 [Ht [more Hm]]. unfold read_bool. destruct (bits s1) as [|b r] eqn:E1.
  - left. exists nm. unfold eof_err. rewrite Ht. reflexivity.
  - rewrite Hm. cbn [app]. eexists. split; [reflexivity|]. split; [exact Ht|]. exists more. reflexivity.
Qed.

Lemma take_bits_prefix n : forall bs more x y, take_bits n bs = Some (x, y) -> take_bits n (bs ++ more) = Some (x, y ++ more).
Proof.
  induction n as [|n IH]; intros bs more x y H; cbn [take_bits] in *.
  - injection H as <- <-. reflexivity.
  - destruct bs as [|b r]; [discriminate|]. cbn [app]. destruct (take_bits n r) as [[x' y']|] eqn:E; [|discriminate].
    injection H as <- <-. rewrite (IH _ more _ _ E). reflexivity.
Qed.

Lemma mono_read_u w n nm : mono blocked (read_u w n nm).
Proof.
  intros s1 s2 [Ht [more Hm]]. unfold read_u. destruct (w <? n); [right; eexists; reflexivity|].
  destruct (take_bits (N.to_nat n) (bits s1)) as [[x y]|] eqn:E.
  - rewrite Hm, (take_bits_prefix _ _ more _ _ E). eexists. split; [reflexivity|]. split; [exact Ht|]. exists more. reflexivity.
  - left. exists nm. unfold eof_err. rewrite Ht. reflexivity.
Qed.

Lemma mono_skip n nm : mono blocked (skip n nm).
Proof.
  intros s1 s2 [Ht [more Hm]]. unfold skip.
  destruct (take_bits (N.to_nat n) (bits s1)) as [[x y]|] eqn:E.
  - rewrite Hm, (take_bits_prefix _ _ more _ _ E). eexists. split; [reflexivity|]. split; [exact Ht|]. exists more. reflexivity.
  - left. exists nm. unfold eof_err. rewrite Ht. reflexivity.
Qed.

Lemma unary1_prefix bs : forall acc more n r, unary1 bs acc = Some (n, r) -> unary1 (bs ++ more) acc = Some (n, r ++ more).
Proof.
  induction bs as [|b bs IH]; intros acc more n r H; cbn [unary1 app] in *; [discriminate|].
  destruct b; [injection H as <- <-; reflexivity|]. apply IH. exact H.
Qed.

Lemma mono_read_unary1 nm : mono blocked (read_unary1 nm).
Proof.
  intros s1 s2 [Ht [more Hm]]. unfold read_unary1.
  destruct (unary1 (bits s1) 0) as [[n r]|] eqn:E.
  - rewrite Hm, (unary1_prefix _ _ more _ _ E). eexists. split; [reflexivity|]. split; [exact Ht|]. exists more. reflexivity.
  - left. exists nm. unfold eof_err. rewrite Ht. reflexivity.
Qed.

Lemma mono_lift {A} (x : out biterr A) : (forall w, x <> PANIC w) -> x <> FUEL -> mono blocked (lift x).
Proof.
  intros _ _ s1 s2 H. unfold lift. destruct x; auto.
  - eexists. split; [reflexivity|exact H].
  - right. eexists. reflexivity.
Qed.

Lemma mono_P_bind {A B} (p : P A) (k : A -> P B) : mono blocked p -> (forall a, mono blocked (k a)) -> mono blocked (bind p k).
Proof. intros Hp Hk. exact (mono_bind blocked p k Hp Hk). Qed.

Lemma mono_read_ue nm : mono blocked (read_ue nm).
Proof.
  unfold read_ue. apply mono_P_bind; [apply mono_read_unary1|]. intros count.
  destruct (31 <? count); [exact (mono_fail blocked _)|].
  destruct (0 <? count); [|exact (mono_ret blocked 0)].
  apply mono_P_bind; [apply mono_read_u|]. intros val.
  intros s1 s2 H. unfold lift.
  destruct (obind (shl32 1 count) (fun a => obind (sub32 a 1) (fun b => add32 b val))); auto.
  - eexists. split; [reflexivity|exact H].
  - right. eexists. reflexivity.
Qed.

Lemma mono_read_se nm : mono blocked (read_se nm).
Proof.
  unfold read_se. apply mono_P_bind; [apply mono_read_ue|]. intros v.
  intros s1 s2 H. unfold lift. destruct (golomb_to_signed v); auto.
  - eexists. split; [reflexivity|exact H].
  - right. eexists. reflexivity.
Qed.

(* more_rbsp_data on a partial NAL: true is definitive, otherwise it blocks *)
Lemma mono_has_more nm : mono blocked (has_more_rbsp_data nm).
Proof.
  intros s1 s2 [Ht [more Hm]]. rewrite (has_more_spec nm s1), (has_more_spec nm s2), Ht.
  destruct (any_one (List.tl (bits s1))) eqn:E1.
  - assert (E2 : any_one (List.tl (bits s2)) = true).
    { rewrite Hm. destruct (bits s1) as [|b r]; [discriminate|]. cbn [List.tl app] in *.
      unfold any_one in *. rewrite existsb_app, E1. reflexivity. }
    rewrite E2. exists s2. split; [reflexivity|]. split; [exact Ht|]. exists more. exact Hm.
  - left. exists nm. reflexivity.
Qed.

(* SPS / PPS end with finish_rbsp, which needs to see the end of data: never OK on a partial NAL *)
Lemma finish_rbsp_partial s : tail s <> TEof -> forall u, finish_rbsp s <> OK u.
Proof.
  intros Ht u. rewrite finish_rbsp_spec. destruct (bits s) as [|b r]; [discriminate|].
  destruct (any_one r); [discriminate|]. destruct b; [|discriminate]. destruct (tail s); [contradiction|discriminate|discriminate].
Qed.

Lemma finish_sei_partial s : tail s <> TEof -> forall u, finish_sei_payload s <> OK u.
Proof.
  intros Ht u. rewrite finish_sei_spec. destruct (bits s) as [|[|] r].
  - destruct (tail s); [contradiction|discriminate|discriminate].
  - destruct (any_one r); [discriminate|]. destruct (tail s); [contradiction|discriminate|discriminate].
  - discriminate.
Qed.

(* ---- whole SPS parser ---- *)
From H264 Require Import Model.Sps.

Lemma mono_repE {E A} blk (p : PE E A) n : mono blk p -> mono blk (repE n p).
Proof.
  intros Hp. induction n as [|n IH]; cbn [repE]; [apply mono_ret|].
  apply mono_bind; [exact Hp|]. intros x. apply mono_bind; [exact IH|]. intros xs. apply mono_ret.
Qed.

Definition blk_sm (e : smerr) : Prop := exists b, e = SmReader b /\ blocked b.
Definition blk_poc (e : pocerr) : Prop := exists b, e = PocReader b /\ blocked b.
Definition blk_sps (e : spserr) : Prop :=
  (exists b, e = RbspReaderError b /\ blocked b) \/ (exists x, e = PicOrderCntErr x /\ blk_poc x) \/ (exists x, e = ScalingMatrixErr x /\ blk_sm x).

Lemma blk_sps_rd e : blocked e -> blk_sps (RbspReaderError e). Proof. intros H. left. eauto. Qed.
Lemma blk_sm_rd e : blocked e -> blk_sm (SmReader e). Proof. intros H. unfold blk_sm. eauto. Qed.
Lemma blk_poc_rd e : blocked e -> blk_poc (PocReader e). Proof. intros H. unfold blk_poc. eauto. Qed.

Ltac mono_prim :=
  first [ apply mono_read_bool | apply mono_read_u | apply mono_read_ue | apply mono_read_se | apply mono_has_more ].
Ltac mono_go lift_lemma :=
  repeat first
  [ apply mono_ret | apply mono_fail
  | apply mono_bind; [|intros ?]
  | apply mono_liftE; [exact lift_lemma|mono_prim]
  | match goal with |- mono _ (if ?c then _ else _) => destruct c end
  | match goal with |- mono _ (match ?x with _ => _ end) => destruct x end ].

Lemma mono_fill n : forall j0 last next ud acc, mono blk_sm (fill_scaling_list n j0 last next ud acc).
Proof.
  induction n as [|n IH]; intros j0 last next ud acc; cbn [fill_scaling_list]; [apply mono_ret|].
  destruct (next =? 0); [apply IH|].
  apply mono_bind; [apply mono_liftE; [exact blk_sm_rd|apply mono_read_se]|]. intros d.
  destruct ((d <? -128)%Z || (127 <? d)%Z); [apply mono_fail|apply IH].
Qed.

Lemma mono_scaling_list size present : mono blk_sm (read_scaling_list size present).
Proof.
  unfold read_scaling_list. destruct (negb present); [apply mono_ret|].
  apply mono_bind; [apply mono_fill|]. intros r. apply mono_ret.
Qed.

Lemma mono_scaling_lists n : forall i l4 l8, mono blk_sm (read_scaling_lists n i l4 l8).
Proof.
  induction n as [|n IH]; intros i l4 l8; cbn [read_scaling_lists]; [apply mono_ret|].
  apply mono_bind; [apply mono_liftE; [exact blk_sm_rd|apply mono_read_bool]|]. intros f.
  destruct (Nat.ltb i 6); (apply mono_bind; [apply mono_scaling_list|]); intros sl; apply IH.
Qed.

Lemma mono_chroma_info p : mono blk_sps (chroma_info_read p).
Proof.
  unfold chroma_info_read, read_bit_depth_minus8, read_scaling_matrix, seq_scaling_matrix_read.
  destruct (has_chroma_info p); [|apply mono_ret].
  mono_go blk_sps_rd.
  apply mono_mapE with (blkE := blk_sm); [|apply mono_scaling_lists].
  intros e He. right. right. eauto.
Qed.

Lemma mono_poc : mono blk_poc pic_order_cnt_read.
Proof.
  unfold pic_order_cnt_read.
  apply mono_bind; [apply mono_liftE; [exact blk_poc_rd|apply mono_read_ue]|]. intros t.
  destruct t as [|[[p|p|]|[p|p|]|]]; try apply mono_fail.
  - mono_go blk_poc_rd.
  - apply mono_ret.
  - apply mono_bind; [apply mono_liftE; [exact blk_poc_rd|mono_prim]|]. intros az.
    apply mono_bind; [apply mono_liftE; [exact blk_poc_rd|mono_prim]|]. intros nr.
    apply mono_bind; [apply mono_liftE; [exact blk_poc_rd|mono_prim]|]. intros tb.
    apply mono_bind; [apply mono_liftE; [exact blk_poc_rd|mono_prim]|]. intros n.
    destruct (255 <? n); [apply mono_fail|].
    apply mono_bind; [apply mono_repE; apply mono_liftE; [exact blk_poc_rd|mono_prim]|]. intros offs. apply mono_ret.
Qed.

Lemma mono_hrd : mono blk_sps hrd_parameters_read.
Proof.
  unfold hrd_parameters_read, cpb_spec_read.
  apply mono_bind; [apply mono_liftE; [exact blk_sps_rd|mono_prim]|]. intros f. destruct f; [|apply mono_ret].
  apply mono_bind; [apply mono_liftE; [exact blk_sps_rd|mono_prim]|]. intros cnt.
  destruct (31 <? cnt); [apply mono_fail|].
  apply mono_bind; [apply mono_liftE; [exact blk_sps_rd|mono_prim]|]. intros brs.
  apply mono_bind; [apply mono_liftE; [exact blk_sps_rd|mono_prim]|]. intros css.
  apply mono_bind; [apply mono_repE; mono_go blk_sps_rd|]. intros specs.
  mono_go blk_sps_rd.
Qed.

Lemma mono_vui mr : mono blk_sps (vui_parameters_read mr).
Proof.
  unfold vui_parameters_read, aspect_ratio_info_read, overscan_appropriate_read, video_signal_type_read,
    chroma_loc_info_read, timing_info_read, bitstream_restrictions_read.
  apply mono_bind; [apply mono_liftE; [exact blk_sps_rd|mono_prim]|]. intros f. destruct f; [|apply mono_ret].
  apply mono_bind; [mono_go blk_sps_rd|]. intros ar.
  apply mono_bind; [mono_go blk_sps_rd|]. intros ov.
  apply mono_bind; [mono_go blk_sps_rd|]. intros vs.
  apply mono_bind; [mono_go blk_sps_rd|]. intros cl.
  apply mono_bind; [mono_go blk_sps_rd|]. intros ti.
  apply mono_bind; [apply mono_hrd|]. intros nal.
  apply mono_bind; [apply mono_hrd|]. intros vcl.
  apply mono_bind; [mono_go blk_sps_rd|]. intros ld.
  apply mono_bind; [apply mono_liftE; [exact blk_sps_rd|mono_prim]|]. intros ps.
  apply mono_bind; [mono_go blk_sps_rd|]. intros br. apply mono_ret.
Qed.

Theorem mono_sps_body : mono blk_sps sps_body.
Proof.
  unfold sps_body, frame_mbs_flags_read, frame_cropping_read.
  apply mono_bind; [apply mono_liftE; [exact blk_sps_rd|mono_prim]|]. intros p.
  apply mono_bind; [apply mono_liftE; [exact blk_sps_rd|mono_prim]|]. intros c.
  apply mono_bind; [apply mono_liftE; [exact blk_sps_rd|mono_prim]|]. intros l.
  apply mono_bind; [apply mono_liftE; [exact blk_sps_rd|mono_prim]|]. intros idv.
  destruct (seq_param_set_id_from_u32 idv) as [id|]; [|apply mono_fail].
  apply mono_bind; [apply mono_chroma_info|]. intros ci.
  apply mono_bind; [apply mono_liftE; [exact blk_sps_rd|mono_prim]|]. intros l2.
  destruct (12 <? l2); [apply mono_fail|].
  apply mono_bind.
  { apply mono_mapE with (blkE := blk_poc); [|apply mono_poc]. intros e He. right. left. eauto. }
  intros poc.
  apply mono_bind; [apply mono_liftE; [exact blk_sps_rd|mono_prim]|]. intros mr.
  apply mono_bind; [apply mono_liftE; [exact blk_sps_rd|mono_prim]|]. intros gaps.
  apply mono_bind; [apply mono_liftE; [exact blk_sps_rd|mono_prim]|]. intros w.
  apply mono_bind; [apply mono_liftE; [exact blk_sps_rd|mono_prim]|]. intros h.
  apply mono_bind; [mono_go blk_sps_rd|]. intros fm.
  apply mono_bind; [apply mono_liftE; [exact blk_sps_rd|mono_prim]|]. intros d8.
  apply mono_bind; [mono_go blk_sps_rd|]. intros crop.
  apply mono_bind; [apply mono_vui|]. intros vui. apply mono_ret.
Qed.

(* SPS on a proper prefix presented as incomplete: never a value; and an error other than "would
   block" only where the complete NAL is an error too *)
Theorem sps_prefix_consistent s1 s2 : prefix_src s1 s2 ->
  match sps_from_bits s1 with
  | OK _ => False
  | ERR e => blk_sps e \/ exists e', sps_from_bits s2 = ERR e'
  | _ => True
  end.
Proof.
  intros H. unfold sps_from_bits. pose proof (mono_sps_body s1 s2 H) as Hm.
  destruct (sps_body s1) as [[v s1']|e| |]; auto.
  - destruct Hm as (s2' & E2 & [Ht' [more Hmore]]). rewrite E2.
    rewrite (finish_rbsp_spec s1'), (finish_rbsp_spec s2'), Ht', Hmore.
    destruct (bits s1') as [|b r].
    + left. left. eexists. split; [reflexivity|]. eexists. reflexivity.
    + cbn [app]. destruct (any_one r) eqn:Ea.
      * right. assert (Ea2 : any_one (r ++ more) = true) by (unfold any_one in *; rewrite existsb_app, Ea; reflexivity).
        rewrite Ea2. eexists. reflexivity.
      * destruct b; left; left; (eexists; split; [reflexivity|eexists; reflexivity]).
  - destruct Hm as [Hb|[e' E2]]; [left; exact Hb|right]. rewrite E2. eauto.
Qed.
