(* C10, converse direction: every message the SEI reader returns was coded in its input exactly as
   7.3.2.3.1 prescribes (0xFF-extension coded type and size, then the payload), at the reader's position. *)
From H264 Require Import Base.Prelude Model.BitReader Model.Sei Spec.SeiSpec Proofs.SeiProofs Proofs.C10_proofs.
Local Open Scope N_scope.

Lemma u32_loop_sound fuel : forall l acc v r, read_u32_loop fuel l acc = Some (OK (v, r)) ->
  exists n b, b <> 255 /\ l = repeat 255 n ++ b :: r /\ v = acc + 255 * N.of_nat n + b /\ v < two32.
Proof.
  induction fuel as [|f IH]; intros l acc v r H; [discriminate|]. cbn [read_u32_loop] in H.
  destruct l as [|b l']; [discriminate|].
  destruct (N.leb_spec two32 (acc + b)) as [|Hlt]; [discriminate|].
  destruct (N.eqb_spec b 255) as [->|Hb].
  - destruct (IH _ _ _ _ H) as (n & b' & Hb' & Hl & Hv & Hlt'). exists (S n), b'.
    split; [exact Hb'|]. split; [cbn [repeat app]; rewrite Hl; reflexivity|]. split; [lia|exact Hlt'].
  - injection H as <- <-. exists 0%nat, b. split; [exact Hb|]. split; [reflexivity|]. split; [lia|exact Hlt].
Qed.

Lemma read_u32_sound nm s v s' : read_u32 nm s = OK (v, s') ->
  exists n b, b <> 255 /\ sbytes s = repeat 255 n ++ b :: sbytes s' /\ v = 255 * N.of_nat n + b /\ v < two32 /\ stail s' = stail s.
Proof.
  unfold read_u32. intros H.
  destruct (read_u32_loop (S (length (sbytes s))) (sbytes s) 0) as [[[v0 r]|k| |]|] eqn:E; try discriminate; try (destruct k; discriminate).
  injection H as <- <-. destruct (u32_loop_sound _ _ _ _ _ E) as (n & b & Hb & Hl & Hv & Hlt).
  exists n, b. cbn [sbytes stail]. repeat split; try assumption; lia.
Qed.

(* for bytes (< 256) the coding is ff_code of the value *)
Lemma ff_code_of n b : b < 255 -> ff_code (255 * N.of_nat n + b) = repeat 255 n ++ [b].
Proof.
  intros Hb. unfold ff_code.
  assert (Hd : (255 * N.of_nat n + b) / 255 = N.of_nat n) by (symmetry; apply (N.div_unique _ 255 _ b); lia).
  assert (Hm : (255 * N.of_nat n + b) mod 255 = b) by (symmetry; apply (N.mod_unique _ 255 (N.of_nat n)); lia).
  rewrite Hd, Hm, Nat2N.id. reflexivity.
Qed.

Definition bytes_ok (l : list byte) : Prop := Forall (fun b => b < 256) l.

Theorem sei_next_converse r t p r' : bytes_ok (sbytes (sr_src r)) ->
  sei_next r = (OK (Some (mk_msg t p)), r') ->
  sbytes (sr_src r) = enc_msg (t, p) ++ sbytes (sr_src r') /\ stail (sr_src r') = stail (sr_src r) /\
  t < two32 /\ N.of_nat (length p) < two32 /\ payloads_seen r' = payloads_seen r + 1.
Proof.
  intros Hok H. unfold sei_next in H. destruct (sr_done r); [discriminate|].
  destruct (read_u32 "payload_type" (sr_src r)) as [[pt s1]| | |] eqn:E1; try discriminate.
  destruct (read_u32_sound _ _ _ _ E1) as (n1 & b1 & Hb1 & Hl1 & Hv1 & Hlt1 & Ht1).
  assert (Hrest : exists len s2, read_u32 "payload_len" s1 = OK (len, s2) /\
     (N.of_nat (length (sbytes s2)) <? len) = false /\ t = pt /\ p = firstn (N.to_nat len) (sbytes s2) /\
     r' = mk_sr (mk_bsrc (skipn (N.to_nat len) (sbytes s2)) (stail s2)) (payloads_seen r + 1) false).
  { destruct ((pt =? 128) && (0 <? payloads_seen r)).
    - destruct (sbytes s1) as [|x xs] eqn:Es1.
      + destruct (stail s1); discriminate.
      + destruct (read_u32 "payload_len" s1) as [[len s2]| | |]; try discriminate.
        destruct (N.of_nat (length (sbytes s2)) <? len) eqn:El; [discriminate|].
        injection H as <- <- <-. eexists _, _. repeat split; reflexivity || assumption.
    - destruct (read_u32 "payload_len" s1) as [[len s2]| | |]; try discriminate.
      destruct (N.of_nat (length (sbytes s2)) <? len) eqn:El; [discriminate|].
      injection H as <- <- <-. eexists _, _. repeat split; reflexivity || assumption. }
  destruct Hrest as (len & s2 & E2 & El & -> & -> & ->).
  destruct (read_u32_sound _ _ _ _ E2) as (n2 & b2 & Hb2 & Hl2 & Hv2 & Hlt2 & Ht2).
  apply N.ltb_ge in El.
  assert (Hb1' : b1 < 255).
  { unfold bytes_ok in Hok. rewrite Hl1 in Hok. apply Forall_app in Hok. destruct Hok as [_ Hok]. inversion Hok; subst. lia. }
  assert (Hb2' : b2 < 255).
  { unfold bytes_ok in Hok. rewrite Hl1, Hl2 in Hok. apply Forall_app in Hok. destruct Hok as [_ Hok]. inversion Hok as [|? ? _ Hok2]; subst.
    apply Forall_app in Hok2. destruct Hok2 as [_ Hok2]. inversion Hok2; subst. lia. }
  cbn [sr_src sbytes stail payloads_seen].
  assert (Hlenp : length (firstn (N.to_nat len) (sbytes s2)) = N.to_nat len) by (rewrite firstn_length; lia).
  split; [|split; [congruence|split; [exact Hlt1|split; [rewrite Hlenp, N2Nat.id; exact Hlt2|reflexivity]]]].
  unfold enc_msg. cbn [fst snd]. rewrite Hlenp, N2Nat.id, Hv1, Hv2, (ff_code_of n1 b1 Hb1'), (ff_code_of n2 b2 Hb2').
  rewrite Hl1, Hl2. rewrite <- !app_assoc. cbn [app]. rewrite firstn_skipn. reflexivity.
Qed.
