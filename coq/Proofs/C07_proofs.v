(* C07: the bit reader model decodes every u(n)/ue(v)/se(v) codeword to the standard's value. *)
From H264 Require Import Base.Prelude Base.Bits Model.BitReader Spec.Golomb Proofs.BitsLemmas.
Local Open Scope N_scope.

(* ---- read_unary1 ---- *)
Lemma unary1_repeat m : forall acc rest,
  unary1 (repeat false m ++ true :: rest) acc = Some (acc + N.of_nat m, rest).
Proof.
  induction m as [|m IH]; intros acc rest; cbn [repeat app unary1].
  - f_equal. f_equal. lia.
  - rewrite IH. f_equal. f_equal. lia.
Qed.

Lemma unary1_spec bs : forall acc n r, unary1 bs acc = Some (n, r) ->
  acc <= n /\ bs = repeat false (N.to_nat (n - acc)) ++ true :: r.
Proof.
  induction bs as [|b bs IH]; intros acc n r H; cbn [unary1] in H; [discriminate|].
  destruct b.
  - injection H as <- <-. split; [lia|]. replace (acc - acc) with 0 by lia. reflexivity.
  - destruct (IH _ _ _ H) as [Hle ->]. split; [lia|].
    replace (N.to_nat (n - acc)) with (S (N.to_nat (n - (acc + 1)))) by lia. reflexivity.
Qed.

Lemma unary1_none bs : forall acc, unary1 bs acc = None <-> bs = repeat false (length bs).
Proof.
  induction bs as [|b bs IH]; intros acc; cbn [unary1 length repeat].
  - split; reflexivity.
  - destruct b.
    + split; discriminate.
    + rewrite IH. split; intros H; [f_equal; exact H|injection H as H; exact H].
Qed.

(* ---- u(n) ---- *)
Lemma read_u_roundtrip width n v nm rest tl :
  n <= width -> v < 2 ^ n ->
  read_u width n nm (mk_src (to_bits (N.to_nat n) v ++ rest) tl) = OK (v, mk_src rest tl).
Proof.
  intros Hw Hv. unfold read_u. cbn [bits].
  destruct (N.ltb_spec width n); [lia|].
  replace (N.to_nat n) with (length (to_bits (N.to_nat n) v)) at 1 by apply to_bits_length.
  rewrite take_bits_app. rewrite from_bits_to_bits by (rewrite Nnat.N2Nat.id; exact Hv).
  reflexivity.
Qed.

Lemma read_u_sound width n nm s v s' :
  read_u width n nm s = OK (v, s') ->
  n <= width /\ v < 2 ^ n /\ bits s = to_bits (N.to_nat n) v ++ bits s' /\ tail s' = tail s.
Proof.
  unfold read_u. destruct (N.ltb_spec width n); [discriminate|].
  destruct (take_bits (N.to_nat n) (bits s)) as [[x r]|] eqn:E; [|discriminate].
  intros Hok. injection Hok as <- <-. destruct (take_bits_spec _ _ _ _ E) as [Hb Hl].
  split; [assumption|]. split.
  - pose proof (from_bits_bound x) as Hx. rewrite Hl, Nnat.N2Nat.id in Hx. exact Hx.
  - split; [|reflexivity]. cbn [bits set_bits]. rewrite <- Hl, to_bits_from_bits. exact Hb.
Qed.

Lemma read_u_wide width n nm s : width < n -> read_u width n nm s = ERR (ReaderErrorFor nm InvalidInput).
Proof. intros H. unfold read_u. destruct (N.ltb_spec width n); [reflexivity|lia]. Qed.

Lemma read_u_short width n nm s : n <= width -> (length (bits s) < N.to_nat n)%nat ->
  read_u width n nm s = ERR (ReaderErrorFor nm (kind_of_tail (tail s))).
Proof.
  intros Hw Hl. unfold read_u. destruct (N.ltb_spec width n); [lia|].
  apply take_bits_none in Hl. rewrite Hl. reflexivity.
Qed.

(* ---- ue(v) ---- *)
Lemma log2_bounds n : let m := N.log2 (n + 1) in 2 ^ m <= n + 1 < 2 * 2 ^ m.
Proof. cbv zeta. rewrite <- N.pow_succ_r'. apply N.log2_spec. lia. Qed.

Lemma ue_arith count val :
  count < 32 -> val < 2 ^ count ->
  obind (shl32 (E:=biterr) 1 count) (fun a => obind (sub32 a 1) (fun b => add32 b val)) = OK (2 ^ count - 1 + val).
Proof.
  intros Hc Hv.
  assert (Hp : 2 ^ count <= 2 ^ 31) by (apply N.pow_le_mono_r; lia).
  change (2 ^ 31) with 2147483648 in Hp.
  assert (0 < 2 ^ count) by (apply N.lt_le_trans with (m := 2 ^ 0); [cbn; lia|apply N.pow_le_mono_r; lia]).
  unfold shl32. destruct (N.ltb_spec count 32); [|lia]. cbn [obind].
  rewrite N.mul_1_l. rewrite N.mod_small by (unfold two32; lia).
  unfold sub32. destruct (N.leb_spec 1 (2 ^ count)); [|lia]. cbn [obind].
  unfold add32. destruct (N.ltb_spec (2 ^ count - 1 + val) two32); [reflexivity|unfold two32 in *; lia].
Qed.

Lemma read_ue_roundtrip n nm rest tl :
  n < 4294967295 ->
  read_ue nm (mk_src (enc_ue n ++ rest) tl) = OK (n, mk_src rest tl).
Proof.
  intros Hn. unfold enc_ue. pose proof (log2_bounds n) as Hlog. cbv zeta in Hlog.
  set (m := N.log2 (n + 1)) in *.
  assert (Hm : m < 32).
  { destruct (N.lt_ge_cases m 32) as [|Hge]; [assumption|exfalso].
    assert (2 ^ 32 <= 2 ^ m) by (apply N.pow_le_mono_r; lia).
    change (2 ^ 32) with 4294967296 in *. lia. }
  unfold read_ue, bind, read_unary1. cbn [bits].
  rewrite <- !app_assoc. cbn [app].
  rewrite unary1_repeat. rewrite N.add_0_l, Nnat.N2Nat.id. unfold set_bits; cbn [tail bits].
  destruct (N.ltb_spec 31 m); [lia|].
  destruct (N.ltb_spec 0 m) as [Hpos|Hz].
  - rewrite read_u_roundtrip by lia. unfold lift.
    rewrite ue_arith by lia. f_equal. f_equal. lia.
  - assert (m = 0) by lia. subst m. rewrite H0 in *. cbn [N.to_nat to_bits app].
    unfold ret. cbn in Hlog. f_equal. f_equal. lia.
Qed.

Lemma read_ue_sound nm s n s' :
  read_ue nm s = OK (n, s') ->
  n < 4294967295 /\ bits s = enc_ue n ++ bits s' /\ tail s' = tail s.
Proof.
  unfold read_ue, bind, read_unary1.
  destruct (unary1 (bits s) 0) as [[count r]|] eqn:E; [|discriminate].
  destruct (unary1_spec _ _ _ _ E) as [_ Hb]. rewrite N.sub_0_r in Hb.
  destruct (N.ltb_spec 31 count) as [|Hc]; [discriminate|].
  destruct (N.ltb_spec 0 count) as [Hpos|Hz].
  - destruct (read_u 32 count nm (set_bits s r)) as [[val s1]| | |] eqn:Eu; try discriminate.
    destruct (read_u_sound _ _ _ _ _ _ Eu) as (_ & Hv & Hbits & Htl).
    unfold lift. rewrite ue_arith by lia. intros H. injection H as <- <-.
    assert (Hp : 2 ^ count <= 2 ^ 31) by (apply N.pow_le_mono_r; lia).
    change (2 ^ 31) with 2147483648 in Hp.
    assert (0 < 2 ^ count) by (apply N.lt_le_trans with (m := 2 ^ 0); [cbn; lia|apply N.pow_le_mono_r; lia]).
    split; [lia|]. split; [|cbn [tail set_bits] in Htl; exact Htl].
    unfold enc_ue.
    assert (Hlog : N.log2 (2 ^ count - 1 + val + 1) = count).
    { apply (N.log2_unique' _ count val); lia. }
    cbv zeta. rewrite Hlog.
    replace (2 ^ count - 1 + val + 1 - 2 ^ count) with val by lia.
    rewrite Hb. cbn [bits set_bits] in Hbits. rewrite Hbits. rewrite <- !app_assoc. reflexivity.
  - assert (count = 0) by lia. subst count. unfold ret. intros H. injection H as <- <-.
    split; [lia|]. split; [|reflexivity]. rewrite Hb. reflexivity.
Qed.

Lemma read_ue_too_large z nm rest tl : (32 <= z)%nat ->
  read_ue nm (mk_src (repeat false z ++ true :: rest) tl) = ERR (ExpGolombTooLarge nm).
Proof.
  intros Hz. unfold read_ue, bind, read_unary1. cbn [bits]. rewrite unary1_repeat.
  destruct (N.ltb_spec 31 (0 + N.of_nat z)); [reflexivity|lia].
Qed.

Lemma firstn_repeat_le {A} (x : A) j : forall k, (j <= k)%nat -> firstn j (repeat x k) = repeat x j.
Proof.
  induction j as [|j IH]; intros k Hk; [reflexivity|].
  destruct k; [lia|]. cbn. f_equal. apply IH. lia.
Qed.

(* a proper prefix of a codeword is a read error naming the field, never a value *)
Lemma read_ue_truncated n nm bs tl :
  n < 4294967295 -> (exists more, more <> [] /\ bs ++ more = enc_ue n) ->
  read_ue nm (mk_src bs tl) = ERR (ReaderErrorFor nm (kind_of_tail tl)).
Proof.
  intros Hn (more & Hne & Heq). unfold enc_ue in Heq. pose proof (log2_bounds n) as Hlog. cbv zeta in *.
  set (m := N.log2 (n + 1)) in *.
  assert (Hm : m < 32).
  { destruct (N.lt_ge_cases m 32) as [|Hge]; [assumption|exfalso].
    assert (2 ^ 32 <= 2 ^ m) by (apply N.pow_le_mono_r; lia).
    change (2 ^ 32) with 4294967296 in *. lia. }
  set (info := to_bits (N.to_nat m) (n + 1 - 2 ^ m)) in *.
  assert (Hil : length info = N.to_nat m) by apply to_bits_length.
  unfold read_ue, bind, read_unary1. cbn [bits].
  destruct (Nat.le_gt_cases (length bs) (N.to_nat m)) as [Hshort|Hlong].
  - (* cut inside the zero prefix: no 1 bit at all *)
    assert (Hbs : bs = repeat false (length bs)).
    { apply (f_equal (firstn (length bs))) in Heq. rewrite firstn_app, Nat.sub_diag, firstn_all, firstn_O, app_nil_r in Heq.
      rewrite Heq. rewrite firstn_app. rewrite repeat_length.
      replace (length bs - N.to_nat m)%nat with 0%nat by lia. rewrite firstn_O, app_nil_r.
      rewrite firstn_length, repeat_length, Nat.min_l by lia.
      apply firstn_repeat_le. exact Hshort. }
    apply (unary1_none bs 0) in Hbs. rewrite Hbs. reflexivity.
  - (* the prefix and the 1 are there; the info bits are cut short *)
    assert (Hsplit : exists part, bs = repeat false (N.to_nat m) ++ true :: part /\ (length part < N.to_nat m)%nat).
    { exists (skipn (S (N.to_nat m)) bs). split.
      - assert (H1 : firstn (S (N.to_nat m)) bs = repeat false (N.to_nat m) ++ [true]).
        { apply (f_equal (firstn (S (N.to_nat m)))) in Heq. rewrite firstn_app in Heq.
          replace (S (N.to_nat m) - length bs)%nat with 0%nat in Heq by lia. rewrite firstn_O, app_nil_r in Heq.
          rewrite Heq. rewrite app_assoc. rewrite firstn_app.
          rewrite app_length, repeat_length. cbn [length].
          replace (S (N.to_nat m) - (N.to_nat m + 1))%nat with 0%nat by lia.
          rewrite firstn_O, app_nil_r. apply firstn_all2. rewrite app_length, repeat_length. cbn. lia. }
        rewrite <- (firstn_skipn (S (N.to_nat m)) bs) at 1. rewrite H1. rewrite <- app_assoc. reflexivity.
      - rewrite skipn_length. apply (f_equal (@length bool)) in Heq.
        rewrite !app_length, repeat_length in Heq. cbn [length] in Heq.
        destruct more; [congruence|]. cbn [length] in Heq. lia. }
    destruct Hsplit as (part & -> & Hpart).
    rewrite unary1_repeat. rewrite N.add_0_l, Nnat.N2Nat.id. unfold set_bits; cbn [tail bits].
    destruct (N.ltb_spec 31 m); [lia|].
    destruct (N.ltb_spec 0 m) as [Hpos|]; [|lia].
    rewrite read_u_short; cbn [bits tail]; [reflexivity|lia|exact Hpart].
Qed.

(* ---- se(v) ---- *)
Lemma in_i32_true z : (- 2147483648 <= z < 2147483648)%Z -> in_i32 z = true.
Proof. intros H. unfold in_i32, two31z. lia. Qed.
Lemma addi32_ok {E} a b : (- 2147483648 <= a + b < 2147483648)%Z -> @addi32 E a b = OK (a + b)%Z.
Proof. intros H. unfold addi32. rewrite in_i32_true by exact H. reflexivity. Qed.
Lemma subi32_ok {E} a b : (- 2147483648 <= a - b < 2147483648)%Z -> @subi32 E a b = OK (a - b)%Z.
Proof. intros H. unfold subi32. rewrite in_i32_true by exact H. reflexivity. Qed.
Lemma muli32_ok {E} a b : (- 2147483648 <= a * b < 2147483648)%Z -> @muli32 E a b = OK (a * b)%Z.
Proof. intros H. unfold muli32. rewrite in_i32_true by exact H. reflexivity. Qed.

Lemma golomb_to_signed_value k : k < 4294967295 -> golomb_to_signed k = OK (se_of_codenum k).
Proof.
  intros Hk. unfold golomb_to_signed, se_of_codenum.
  assert (Hodd : N.odd k = (k mod 2 =? 1)).
  { pose proof (b2n_odd k) as H. destruct (N.odd k); cbn [N.b2n] in H; rewrite <- H; reflexivity. }
  rewrite Hodd.
  assert (Hm : k mod 2 = 0 \/ k mod 2 = 1) by lia.
  destruct Hm as [H0|H1].
  - rewrite H0. change (0 =? 1) with false. change (Z.of_N 0 * 2 - 1)%Z with (-1)%Z. change (Z.of_N 0) with 0%Z.
    rewrite subi32_ok by lia. cbn [obind].
    rewrite addi32_ok by lia. cbn [obind].
    rewrite muli32_ok by lia. f_equal. lia.
  - rewrite H1. change (1 =? 1) with true. change (Z.of_N 1 * 2 - 1)%Z with 1%Z. change (Z.of_N 1) with 1%Z.
    rewrite subi32_ok by lia. cbn [obind].
    rewrite addi32_ok by lia. cbn [obind].
    rewrite muli32_ok by lia. f_equal. lia.
Qed.

Lemma se_of_codenum_of_se z : se_of_codenum (codenum_of_se z) = z.
Proof.
  unfold se_of_codenum, codenum_of_se. destruct (Z.ltb_spec 0 z).
  - assert (Ho : N.odd (Z.to_N (2 * z - 1)) = true).
    { replace (Z.to_N (2 * z - 1)) with (1 + 2 * Z.to_N (z - 1)) by lia.
      rewrite N.odd_add_mul_2. reflexivity. }
    rewrite Ho. lia.
  - assert (Ho : N.odd (Z.to_N (- 2 * z)) = false).
    { replace (Z.to_N (- 2 * z)) with (0 + 2 * Z.to_N (- z)) by lia.
      rewrite N.odd_add_mul_2. reflexivity. }
    rewrite Ho. lia.
Qed.

Lemma read_se_roundtrip z nm rest tl :
  (- 2147483647 <= z <= 2147483647)%Z ->
  read_se nm (mk_src (enc_se z ++ rest) tl) = OK (z, mk_src rest tl).
Proof.
  intros Hz. unfold read_se, bind, enc_se.
  assert (Hk : codenum_of_se z < 4294967295) by (unfold codenum_of_se; destruct (Z.ltb_spec 0 z); lia).
  rewrite read_ue_roundtrip by exact Hk. unfold lift.
  rewrite golomb_to_signed_value by exact Hk. rewrite se_of_codenum_of_se. reflexivity.
Qed.

Lemma read_se_sound nm s z s' :
  read_se nm s = OK (z, s') ->
  exists k, k < 4294967295 /\ z = se_of_codenum k /\ bits s = enc_ue k ++ bits s' /\ tail s' = tail s.
Proof.
  unfold read_se, bind. destruct (read_ue nm s) as [[k s1]| | |] eqn:E; try discriminate.
  destruct (read_ue_sound _ _ _ _ E) as (Hk & Hb & Ht).
  unfold lift. rewrite golomb_to_signed_value by exact Hk. intros H. injection H as <- <-.
  exists k. repeat split; assumption.
Qed.

(* ---- the primitives never abort ---- *)
Lemma read_ue_no_abort nm s : no_abort (read_ue nm s).
Proof.
  unfold read_ue, bind, read_unary1.
  destruct (unary1 (bits s) 0) as [[count r]|] eqn:E; [|exact I].
  destruct (N.ltb_spec 31 count) as [|Hc]; [exact I|].
  destruct (N.ltb_spec 0 count) as [Hpos|Hz]; [|exact I].
  destruct (read_u 32 count nm (set_bits s r)) as [[val s1]| | |] eqn:Eu.
  - destruct (read_u_sound _ _ _ _ _ _ Eu) as (_ & Hv & _).
    unfold lift. rewrite ue_arith by lia. exact I.
  - exact I.
  - unfold read_u in Eu. destruct (32 <? count); [discriminate|].
    destruct (take_bits _ _) as [[? ?]|]; discriminate.
  - unfold read_u in Eu. destruct (32 <? count); [discriminate|].
    destruct (take_bits _ _) as [[? ?]|]; discriminate.
Qed.

Lemma read_se_no_abort nm s : no_abort (read_se nm s).
Proof.
  unfold read_se, bind. pose proof (read_ue_no_abort nm s) as H.
  destruct (read_ue nm s) as [[k s1]| | |] eqn:E; try exact H; try exact I.
  destruct (read_ue_sound _ _ _ _ E) as (Hk & _).
  unfold lift. rewrite golomb_to_signed_value by exact Hk. exact I.
Qed.
