(* C09, converse direction: every byte string accepted by the construction IS a record built (per
   Spec/AvccSpec.v) from some header fields, parameter-set byte strings and trailing bytes. *)
From H264 Require Import Base.Prelude Model.Avcc Spec.AvccSpec Proofs.C09_proofs.
Local Open Scope N_scope.

Definition bytes_ok (l : list byte) : Prop := Forall (fun b => b < 256) l.

Lemma idx_ok data i b : idx data i = OK b -> nth_error data i = Some b.
Proof. unfold idx. destruct (nth_error data i); [intros H; injection H as <-; reflexivity|discriminate]. Qed.

Lemma skipn_cons2 {A} (l : list A) i a b : nth_error l i = Some a -> nth_error l (i + 1) = Some b ->
  skipn i l = a :: b :: skipn (i + 2) l.
Proof.
  revert l. induction i as [|i IH]; intros l Ha Hb.
  - destruct l as [|x [|y r]]; cbn in *; try discriminate. injection Ha as <-. injection Hb as <-. reflexivity.
  - destruct l as [|x r]; [discriminate|]. cbn [skipn Nat.add]. apply IH; assumption.
Qed.

Lemma skipn_cons1 {A} (l : list A) i a : nth_error l i = Some a -> skipn i l = a :: skipn (i + 1) l.
Proof.
  revert l. induction i as [|i IH]; intros l Ha.
  - destruct l as [|x r]; cbn in *; [discriminate|]. injection Ha as <-. reflexivity.
  - destruct l as [|x r]; [discriminate|]. cbn [skipn Nat.add]. apply IH; assumption.
Qed.

Lemma ck_ok data n : ck data n = OK tt -> (n <= length data)%nat.
Proof. unfold ck. destruct (Nat.ltb_spec (length data) n); [discriminate|lia]. Qed.

Lemma skipn_add {A} (l : list A) a b : skipn a (skipn b l) = skipn (b + a) l.
Proof. revert l. induction b as [|b IH]; intros l; [reflexivity|]. destruct l; [rewrite !skipn_nil; reflexivity|]. cbn [skipn Nat.add]. apply IH. Qed.

Lemma nth_in_ok data i b : bytes_ok data -> nth_error data i = Some b -> b < 256.
Proof. intros H Hn. apply nth_error_In in Hn. unfold bytes_ok in H. rewrite Forall_forall in H. apply H. exact Hn. Qed.

Lemma sets_end_sound data : bytes_ok data -> forall num len len', sets_end data num len = OK len' ->
  (len <= len')%nat /\ (num = 0%nat \/ (len' <= length data)%nat) /\
  exists nals, length nals = num /\ skipn len data = concat (map enc_ps nals) ++ skipn len' data /\
               Forall nal_len_ok nals.
Proof.
  intros Hok num. induction num as [|n IH]; intros len len' H; cbn [sets_end] in H.
  - injection H as <-. split; [lia|]. split; [left; reflexivity|]. exists []. repeat split; constructor.
  - destruct (ck data (len + 2)) as [[]| | |] eqn:Ec1; try discriminate. cbn [obind] in H.
    destruct (idx data len) as [a| | |] eqn:Ea; try discriminate. cbn [obind] in H.
    destruct (idx data (len + 1)) as [b| | |] eqn:Eb; try discriminate. cbn [obind] in H.
    destruct (ck data (len + 2 + be16 a b)) as [[]| | |] eqn:Ec2; try discriminate. cbn [obind] in H.
    apply idx_ok in Ea. apply idx_ok in Eb. apply ck_ok in Ec2.
    pose proof (nth_in_ok _ _ _ Hok Ea) as Ha. pose proof (nth_in_ok _ _ _ Hok Eb) as Hb.
    destruct (IH _ _ H) as (Hle & Hend & nals & Hlen & Hsk & Hall).
    split; [lia|]. split; [right; destruct Hend as [->|Hend]; [cbn [sets_end] in H; injection H as <-; lia|exact Hend]|].
    set (l := be16 a b) in *.
    exists (firstn l (skipn (len + 2) data) :: nals).
    assert (Hfl : length (firstn l (skipn (len + 2) data)) = l) by (rewrite firstn_length, skipn_length; lia).
    split; [cbn [length]; lia|]. split.
    + cbn [map concat]. unfold enc_ps at 1. rewrite Hfl.
      assert (Hl : N.of_nat l = a * 256 + b) by (unfold l, be16; lia).
      replace (N.of_nat l / 256) with a by (rewrite Hl; apply (N.div_unique (a * 256 + b) 256 a b); lia).
      replace (N.of_nat l mod 256) with b by (rewrite Hl; apply (N.mod_unique (a * 256 + b) 256 a b); lia).
      rewrite (skipn_cons2 data len a b Ea Eb). cbn [app]. f_equal. f_equal.
      rewrite <- app_assoc. rewrite <- Hsk.
      rewrite <- (firstn_skipn l (skipn (len + 2) data)) at 1. rewrite skipn_add. reflexivity.
    + constructor; [|exact Hall]. unfold nal_len_ok. rewrite Hfl. unfold l, be16. lia.
Qed.

Theorem try_from_converse data : bytes_ok data -> try_from data = OK tt ->
  exists h spss ppss trailing, data = build_avcc h spss ppss trailing /\
    (length spss <= 31)%nat /\ (length ppss <= 255)%nat /\ ah_reserved3 h <= 7 /\
    Forall nal_len_ok spss /\ Forall nal_len_ok ppss.
Proof.
  intros Hok H. unfold try_from in H.
  destruct (ck data 6) as [[]| | |] eqn:Ec0; try discriminate. cbn [obind] in H. apply ck_ok in Ec0.
  destruct (idx data 0) as [v| | |] eqn:E0; try discriminate. cbn [obind] in H.
  destruct (N.eqb_spec v 1) as [->|Hv]; cbn [negb] in H; [|discriminate].
  unfold seq_param_sets_end, num_of_sps in H.
  destruct (idx data 5) as [b5| | |] eqn:E5; try discriminate. cbn [obind] in H.
  destruct (sets_end data (N.to_nat (N.land b5 31)) 6) as [len| | |] eqn:Es; try discriminate. cbn [obind] in H.
  destruct (ck data (len + 1)) as [[]| | |] eqn:Ec1; try discriminate. cbn [obind] in H. apply ck_ok in Ec1.
  destruct (idx data len) as [np| | |] eqn:En; try discriminate. cbn [obind] in H.
  destruct (sets_end data (N.to_nat np) (len + 1)) as [len2| | |] eqn:Es2; try discriminate.
  destruct (sets_end_sound data Hok _ _ _ Es) as (Hle1 & _ & spss & Hl1 & Hsk1 & Hall1).
  destruct (sets_end_sound data Hok _ _ _ Es2) as (Hle2 & _ & ppss & Hl2 & Hsk2 & Hall2).
  apply idx_ok in E0. apply idx_ok in E5. apply idx_ok in En.
  pose proof (nth_in_ok _ _ _ Hok E5) as Hb5. pose proof (nth_in_ok _ _ _ Hok En) as Hnp.
  (* the six fixed bytes *)
  destruct data as [|d0 [|d1 [|d2 [|d3 [|d4 [|d5 rest]]]]]]; cbn [length] in Ec0; try lia.
  cbn in E0, E5. injection E0 as ->. injection E5 as ->.
  set (D := 1 :: d1 :: d2 :: d3 :: d4 :: b5 :: rest) in *.
  assert (HD : D = 1 :: d1 :: d2 :: d3 :: d4 :: b5 :: skipn 6 D) by reflexivity.
  exists (mk_ah d1 d2 d3 d4 (b5 / 32)), spss, ppss, (skipn len2 D).
  assert (Hland : N.land b5 31 = b5 mod 32) by (change 31 with (N.ones 5); rewrite N.land_ones; reflexivity).
  assert (Hn1 : N.of_nat (length spss) = b5 mod 32) by (rewrite Hl1, N2Nat.id; exact Hland).
  split.
  - unfold build_avcc. cbn [ah_profile ah_compat ah_level ah_byte4 ah_reserved3].
    replace (b5 / 32 * 32 + N.of_nat (length spss)) with b5 by (rewrite Hn1; pose proof (N.div_mod b5 32); lia).
    rewrite HD at 1. cbn [app]. do 6 f_equal.
    rewrite Hsk1. f_equal.
    rewrite (skipn_cons1 _ len np En). cbn [app]. rewrite Hl2, N2Nat.id. f_equal. exact Hsk2.
  - assert (Hmod : b5 mod 32 < 32) by (apply N.mod_lt; lia).
    split; [lia|]. split; [lia|]. split; [cbn [ah_reserved3]; assert (b5 / 32 < 8) by (apply N.div_lt_upper_bound; lia); lia|].
    split; assumption.
Qed.
