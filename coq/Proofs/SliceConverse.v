(* C06, converse direction: every bit string the slice-header parser accepts is the encoding (per
   Spec/SyntaxSlice.v) of the structure it returns, followed by the slice data it stopped on. *)
From H264 Require Import Base.Prelude Base.Bits Model.BitReader Model.Parser Model.Nal Model.Sps Model.SpsDerived Model.Context Model.Pps
     Model.Slice Spec.Golomb Spec.SyntaxSps Spec.SyntaxPps Spec.SyntaxSlice
     Proofs.BitsLemmas Proofs.C07_proofs Proofs.Wp Proofs.SpsInv Proofs.PpsInv Proofs.SliceInv Proofs.Parses Proofs.SpsRoundtrip
     Proofs.PpsRoundtrip Proofs.SliceRoundtrip Proofs.SpsConverse Proofs.PpsConverse Proofs.C19_proofs.
Local Open Scope N_scope.

Lemma wx_sl_num_ref_idx nm s (Phi : N -> src -> Prop) :
  (forall v s', v <= 31 -> bits s = ue v ++ bits s' -> tail s' = tail s -> Phi v s') -> wp (sl_read_num_ref_idx nm s) Phi.
Proof.
  intros Hk. unfold sl_read_num_ref_idx, rs. apply wp_bind. apply wx_ue. intros v s0 Hb0 Ht0. cbv beta.
  destruct (N.ltb_spec 31 v); [apply wp_fail|]. apply wp_ret. apply Hk; [lia|assumption|assumption].
Qed.

(* ---- ref_pic_list_modification ---- *)
Lemma wx_mods_loop fuel : forall acc s (Phi : list modification -> src -> Prop),
  (length (bits s) < fuel)%nat ->
  (forall l s', bits s = (concat (map enc_mod l) ++ ue 3) ++ bits s' -> tail s' = tail s -> Phi (acc ++ l) s') ->
  wp (read_mods_loop fuel acc s) Phi.
Proof.
  induction fuel as [|f IH]; intros acc s Phi Hf Hk; [lia|]. cbn [read_mods_loop]. unfold rs.
  apply wp_bind. apply wx_ue. intros idc s0 Hb0 Ht0. cbv beta.
  assert (Hlen0 : (length (bits s0) < length (bits s))%nat).
  { rewrite Hb0, app_length. pose proof (enc_ue_length_pos idc). unfold ue. lia. }
  assert (Hstep : forall (mk : N -> modification) nm,
            (forall v, enc_mod (mk v) = ue idc ++ ue v) ->
            wp (bindE (liftE SlRbspError (read_ue nm)) (fun v => read_mods_loop f (acc ++ [mk v])) s0) Phi).
  { intros mk nm Henc. apply wp_bind. apply wx_ue. intros v s1 Hb1 Ht1. cbv beta.
    apply IH; [rewrite Hb1, app_length in Hlen0; lia|].
    intros l s' Hb Ht. rewrite <- app_assoc. cbn [app]. apply (Hk (mk v :: l)); [|congruence].
    cbn [map concat]. rewrite Henc, Hb0, Hb1, Hb. rewrite <- !app_assoc. reflexivity. }
  destruct idc as [|[[p|p|]|[p|p|]|]]; try apply wp_fail.
  - apply (Hstep ModSubtract). intros v. reflexivity.
  - (* 3 *) apply wp_ret. specialize (Hk [] s0). rewrite app_nil_r in Hk. apply Hk; [cbn [map concat app]; exact Hb0|exact Ht0].
  - apply (Hstep ModLongTermRef). intros v. reflexivity.
  - apply (Hstep ModAdd). intros v. reflexivity.
Qed.

Lemma wx_mod_list s (Phi : list modification -> src -> Prop) :
  (forall l e s', bits s = enc_mod_list e l ++ bits s' -> tail s' = tail s -> Phi l s') -> wp (read_mod_list s) Phi.
Proof.
  intros Hk. unfold read_mod_list, rs.
  apply wp_bind. apply wx_bool. intros f s0 Hb0 Ht0. cbv beta. destruct f; cbn [negb].
  - apply wx_mods_loop; [lia|]. intros l s' Hb Ht. cbn [app].
    apply (Hk l true); [|congruence]. destruct l as [|m r].
    + cbn [enc_mod_list map concat app] in *. rewrite Hb0, Hb, <- app_assoc. reflexivity.
    + cbn [enc_mod_list]. rewrite Hb0, Hb, <- !app_assoc. reflexivity.
  - apply wp_ret. apply (Hk [] false); [cbn [enc_mod_list]; exact Hb0|exact Ht0].
Qed.

Lemma wx_rpl fam s (Phi : ref_pic_list_mods -> src -> Prop) :
  (forall r em s', bits s = enc_rpl em r ++ bits s' -> tail s' = tail s -> Phi r s') -> wp (ref_pic_list_mods_read fam s) Phi.
Proof.
  intros Hk. unfold ref_pic_list_mods_read.
  assert (HP : wp ((bindE read_mod_list (fun a => retE (RplP a))) s) Phi).
  { apply wp_bind. apply wx_mod_list. intros a e s0 Hb0 Ht0. cbv beta. apply wp_ret.
    apply (Hk _ (e, false)); [cbn [enc_rpl fst]; exact Hb0|exact Ht0]. }
  destruct fam; try exact HP; try (apply wp_ret; apply (Hk RplI (false, false)); reflexivity).
  apply wp_bind. apply wx_mod_list. intros a e0 s0 Hb0 Ht0. cbv beta.
  apply wp_bind. apply wx_mod_list. intros b e1 s1 Hb1 Ht1. cbv beta. apply wp_ret.
  apply (Hk _ (e0, e1)); [cbn [enc_rpl fst snd]; rewrite Hb0, Hb1, <- app_assoc; reflexivity|congruence].
Qed.

(* ---- pred_weight_table ---- *)
Definition entry_shape (mono : bool) (e : option pred_weight * option (list pred_weight)) : Prop :=
  if mono then snd e = None else exists cw, snd e = Some cw.

Lemma wx_one_weight mono s (Phi : option pred_weight * option (list pred_weight) -> src -> Prop) :
  (forall e s', entry_shape mono e -> bits s = enc_weight_entry mono e ++ bits s' -> tail s' = tail s -> Phi e s') ->
  wp (read_one_weight mono s) Phi.
Proof.
  intros Hk. unfold read_one_weight, rs.
  apply wp_bind. apply wx_bool. intros lf s0 Hb0 Ht0. cbv beta.
  apply wp_bind.
  assert (Hl : wp ((if lf then bindE (liftE SlRbspError (read_se "luma_weight_l0")) (fun w =>
                              bindE (liftE SlRbspError (read_se "luma_offset_l0")) (fun o => retE (Some (mk_pw w o))))
                    else retE None) s0)
                  (fun lw s1 => bits s = (match lw with Some w => flag true ++ enc_pw w | None => flag false end) ++ bits s1 /\ tail s1 = tail s)).
  { destruct lf.
    - apply wp_bind. apply wx_se. intros w s1 Hb1 Ht1. cbv beta.
      apply wp_bind. apply wx_se. intros o s2 Hb2 Ht2. cbv beta. apply wp_ret.
      split; [unfold enc_pw; cbn [pw_weight pw_offset]; rewrite Hb0, Hb1, Hb2, <- !app_assoc; reflexivity|congruence].
    - apply wp_ret. split; [exact Hb0|exact Ht0]. }
  eapply wp_mono; [exact Hl|]. intros lw s1 [Hb1 Ht1]. cbv beta.
  destruct mono.
  - apply wp_ret. apply Hk; [reflexivity|unfold enc_weight_entry; cbn [fst snd]; rewrite app_nil_r; exact Hb1|exact Ht1].
  - apply wp_bind. apply wx_bool. intros cf s2 Hb2 Ht2. cbv beta.
    apply wp_bind. destruct cf.
    + apply wp_bind. apply wx_se. intros w1 s3 Hb3 Ht3. cbv beta.
      apply wp_bind. apply wx_se. intros o1 s4 Hb4 Ht4. cbv beta.
      apply wp_bind. apply wx_se. intros w2 s5 Hb5 Ht5. cbv beta.
      apply wp_bind. apply wx_se. intros o2 s6 Hb6 Ht6. cbv beta.
      apply wp_ret. apply wp_ret. apply Hk; [eexists; reflexivity| |congruence].
      unfold enc_weight_entry, enc_pw. cbn [fst snd pw_weight pw_offset]. rewrite Hb1, Hb2, Hb3, Hb4, Hb5, Hb6, <- !app_assoc. reflexivity.
    + apply wp_ret. apply wp_ret. apply Hk; [eexists; reflexivity| |congruence].
      unfold enc_weight_entry. cbn [fst snd]. rewrite Hb1, Hb2, <- !app_assoc. reflexivity.
Qed.

Lemma weight_entries_of_parsed mono ld cd ws : Forall (entry_shape mono) ws ->
  weight_entries mono (mk_pwt ld cd (map fst ws) (opt_list (map snd ws))) = ws.
Proof.
  intros H. unfold weight_entries. cbn [luma_weights chroma_weights]. destruct mono.
  - induction H as [|[l c] r Hx _ IH]; [reflexivity|]. cbn [map]. cbn [entry_shape snd] in Hx. subst c. cbn [fst]. rewrite IH. reflexivity.
  - induction H as [|[l c] r Hx _ IH]; [reflexivity|]. cbn [entry_shape snd] in Hx. destruct Hx as [cw ->].
    cbn [map fst snd opt_list combine]. rewrite IH. reflexivity.
Qed.

Lemma wx_pwt st pp sp nra s (Phi : pred_weight_table -> src -> Prop) :
  num_ref_idx_l0_default_active_minus1 pp <= 31 ->
  match nra with Some (NraP a) => a <= 31 | Some (NraB a _) => a <= 31 | None => True end ->
  (forall t s', bits s = enc_pwt (spec_mono sp) t ++ bits s' -> tail s' = tail s -> Phi t s') ->
  wp (pred_weight_table_read st pp sp nra s) Phi.
Proof.
  intros Hpp Hnra Hk. unfold pred_weight_table_read, rs. fold (spec_mono sp).
  apply wp_bind. apply wx_ue. intros ld s0 Hb0 Ht0. cbv beta.
  apply wp_bind.
  assert (Hcd : wp ((if spec_mono sp then retE None else bindE (liftE SlRbspError (read_ue "chroma_log2_weight_denom")) (fun v => retE (Some v))) s0)
                   (fun cd s1 => bits s0 = (match cd with Some c => ue c | None => [] end) ++ bits s1 /\ tail s1 = tail s0)).
  { destruct (spec_mono sp); [apply wp_ret; split; reflexivity|].
    apply wp_bind. apply wx_ue. intros v s1 Hb1 Ht1. cbv beta. apply wp_ret. split; assumption. }
  eapply wp_mono; [exact Hcd|]. intros cd s1 [Hb1 Ht1]. cbv beta.
  set (l0 := match nra with Some (NraP a) => a | Some (NraB a _) => a | None => num_ref_idx_l0_default_active_minus1 pp end).
  assert (Hl0 : l0 <= 31) by (unfold l0; destruct nra as [[a|a b]|]; assumption).
  apply wp_bind. unfold add32. destruct (N.ltb_spec (l0 + 1) two32) as [|Hge]; [|unfold two32 in Hge; lia].
  apply (wp_liftO_ok _ (l0 + 1)); [reflexivity|].
  apply wp_bind.
  assert (Hrep : forall n s2 (Psi : list (option pred_weight * option (list pred_weight)) -> src -> Prop),
     (forall ws s3, Forall (entry_shape (spec_mono sp)) ws ->
                    bits s2 = concat (map (enc_weight_entry (spec_mono sp)) ws) ++ bits s3 -> tail s3 = tail s2 -> Psi ws s3) ->
     wp (repE n (read_one_weight (spec_mono sp)) s2) Psi).
  { induction n as [|n IH]; intros s2 Psi HPsi; cbn [repE].
    - apply wp_ret. apply (HPsi []); [constructor|reflexivity|reflexivity].
    - apply wp_bind. apply wx_one_weight. intros e s3 Hsh Hb3 Ht3. cbv beta. apply wp_bind. apply IH.
      intros ws s4 Hall Hb4 Ht4. cbv beta. apply wp_ret.
      apply (HPsi (e :: ws)); [constructor; assumption|cbn [map concat]; rewrite Hb3, Hb4, <- app_assoc; reflexivity|congruence]. }
  apply Hrep. intros ws s2 Hall Hb2 Ht2. cbv beta.
  destruct (family_eqb (family st) FamB); [apply wp_fail|]. apply wp_ret.
  apply Hk; [|congruence]. unfold enc_pwt. rewrite (weight_entries_of_parsed _ _ _ _ Hall).
  cbn [luma_log2_weight_denom chroma_log2_weight_denom]. rewrite Hb0, Hb1, Hb2, <- !app_assoc. reflexivity.
Qed.

(* ---- dec_ref_pic_marking ---- *)
Lemma wx_mmco_loop fuel : forall acc s (Phi : list mmco -> src -> Prop),
  (length (bits s) < fuel)%nat ->
  (forall l s', bits s = (concat (map enc_mmco l) ++ ue 0) ++ bits s' -> tail s' = tail s -> Phi (acc ++ l) s') ->
  wp (read_mmco_loop fuel acc s) Phi.
Proof.
  induction fuel as [|f IH]; intros acc s Phi Hf Hk; [lia|]. cbn [read_mmco_loop]. unfold rs.
  apply wp_bind. apply wx_ue. intros op s0 Hb0 Ht0. cbv beta.
  assert (Hlen0 : (length (bits s0) < length (bits s))%nat).
  { rewrite Hb0, app_length. pose proof (enc_ue_length_pos op). unfold ue. lia. }
  (* one more operation m whose coding is ue op ++ rest-of-m, read from s0 into s1 *)
  assert (Hnext : forall m s1 x, bits s0 = x ++ bits s1 -> tail s1 = tail s0 -> enc_mmco m = ue op ++ x ->
                  wp (read_mmco_loop f (acc ++ [m]) s1) Phi).
  { intros m s1 x Hb1 Ht1 Henc. apply IH; [rewrite Hb1, app_length in Hlen0; lia|].
    intros l s' Hb Ht. rewrite <- app_assoc. cbn [app]. apply (Hk (m :: l)); [|congruence].
    cbn [map concat]. rewrite Henc, Hb0, Hb1, Hb, <- !app_assoc. reflexivity. }
  destruct op as [|[[[p|p|]|[p|p|]|]|[[p|p|]|[p|p|]|]|]]; try apply wp_fail.
  - apply wp_ret. specialize (Hk [] s0). rewrite app_nil_r in Hk. apply Hk; [cbn [map concat app]; exact Hb0|exact Ht0].
  - (* 5 *) apply (Hnext MmAllUnused s0 []); [reflexivity|reflexivity|cbn [enc_mmco]; rewrite app_nil_r; reflexivity].
  - (* 3 *) apply wp_bind. apply wx_ue. intros d s1 Hb1 Ht1. cbv beta.
    apply wp_bind. apply wx_ue. intros i s2 Hb2 Ht2. cbv beta.
    apply (Hnext (MmShortTermUsedForLongTerm d i) s2 (ue d ++ ue i)); [rewrite Hb1, Hb2, <- app_assoc; reflexivity|congruence|reflexivity].
  - (* 6 *) apply wp_bind. apply wx_ue. intros i s1 Hb1 Ht1. cbv beta.
    apply (Hnext (MmCurrentUsedForLongTerm i) s1 (ue i)); [exact Hb1|exact Ht1|reflexivity].
  - (* 4 *) apply wp_bind. apply wx_ue. intros i s1 Hb1 Ht1. cbv beta.
    apply (Hnext (MmMaxUsedLongTerm i) s1 (ue i)); [exact Hb1|exact Ht1|reflexivity].
  - (* 2 *) apply wp_bind. apply wx_ue. intros i s1 Hb1 Ht1. cbv beta.
    apply (Hnext (MmLongTermUnused i) s1 (ue i)); [exact Hb1|exact Ht1|reflexivity].
  - (* 1 *) apply wp_bind. apply wx_ue. intros i s1 Hb1 Ht1. cbv beta.
    apply (Hnext (MmShortTermUnused i) s1 (ue i)); [exact Hb1|exact Ht1|reflexivity].
Qed.

Lemma wx_drm ut s (Phi : dec_ref_pic_marking -> src -> Prop) :
  (forall d s', bits s = enc_drm d ++ bits s' -> tail s' = tail s -> Phi d s') -> wp (dec_ref_pic_marking_read ut s) Phi.
Proof.
  intros Hk. unfold dec_ref_pic_marking_read, rs. destruct (ut =? 5).
  - apply wp_bind. apply wx_bool. intros a s0 Hb0 Ht0. cbv beta.
    apply wp_bind. apply wx_bool. intros b s1 Hb1 Ht1. cbv beta. apply wp_ret.
    apply Hk; [cbn [enc_drm]; rewrite Hb0, Hb1, <- app_assoc; reflexivity|congruence].
  - apply wp_bind. apply wx_bool. intros ad s0 Hb0 Ht0. cbv beta. destruct ad.
    + apply wp_bind. apply wx_mmco_loop; [lia|]. intros ops s1 Hb1 Ht1. cbv beta. apply wp_ret. cbn [app].
      apply Hk; [cbn [enc_drm]; rewrite Hb0, Hb1, <- !app_assoc; reflexivity|congruence].
    + apply wp_ret. apply Hk; [cbn [enc_drm]; exact Hb0|exact Ht0].
Qed.

Lemma slice_type_from_id_inv stv st : slice_type_from_id stv = Some st -> stv = slice_type_id st.
Proof.
  unfold slice_type_from_id. intros H.
  destruct stv as [|p]; [injection H as <-; reflexivity|].
  destruct p as [p|p|]; [destruct p as [p|p|]; [destruct p as [p|p|]|destruct p as [p|p|]; [|destruct p as [p|p|]|]|]
                        |destruct p as [p|p|]; [destruct p as [p|p|]|destruct p as [p|p|]; [|destruct p as [p|p|]|]|]|];
    try discriminate H; injection H as <-; reflexivity.
Qed.

(* optional single elements *)
Lemma wx_opt_ue (b : bool) nm s (Phi : option N -> src -> Prop) :
  (forall o s', bits s = (match o with Some v => ue v | None => [] end) ++ bits s' -> tail s' = tail s -> Phi o s') ->
  wp ((if b then bindE (rs (read_ue nm)) (fun v => retE (Some v)) else retE None) s) Phi.
Proof.
  intros Hk. destruct b; [|apply wp_ret; apply (Hk None); reflexivity].
  unfold rs. apply wp_bind. apply wx_ue. intros v s0 Hb0 Ht0. cbv beta. apply wp_ret. apply (Hk (Some v)); assumption.
Qed.
Lemma wx_opt_bool (b : bool) nm s (Phi : option bool -> src -> Prop) :
  (forall o s', bits s = (match o with Some v => flag v | None => [] end) ++ bits s' -> tail s' = tail s -> Phi o s') ->
  wp ((if b then bindE (rs (read_bool nm)) (fun v => retE (Some v)) else retE None) s) Phi.
Proof.
  intros Hk. destruct b; [|apply wp_ret; apply (Hk None); reflexivity].
  unfold rs. apply wp_bind. apply wx_bool. intros v s0 Hb0 Ht0. cbv beta. apply wp_ret. apply (Hk (Some v)); assumption.
Qed.

(* the context stores every PPS under its own id (an invariant of Context::put_pic_param_set) *)
Definition ctx_keyed (c : context) : Prop := forall id p, pps_by_id c id = Some p -> pic_parameter_set_id p = id.

Lemma ctx_keyed_empty : ctx_keyed ctx_empty.
Proof. intros id p H. unfold pps_by_id, ctx_empty in H. cbn in H. unfold Context.map_get in H. destruct (N.to_nat id); discriminate. Qed.
Lemma ctx_keyed_put_sps c sp : ctx_keyed c -> ctx_keyed (put_seq_param_set c sp).
Proof. intros H id p Hp. apply H. unfold pps_by_id in *. rewrite sps_put_keeps_pps in Hp. exact Hp. Qed.
Lemma ctx_keyed_put_pps c p0 : ctx_keyed c -> ctx_keyed (put_pic_param_set c p0).
Proof.
  intros H id p Hp. destruct (N.eq_dec id (pic_parameter_set_id p0)) as [->|Hne].
  - rewrite pps_lookup_after_put in Hp. injection Hp as <-. reflexivity.
  - rewrite pps_lookup_other in Hp by exact Hne. apply H. exact Hp.
Qed.

Theorem slice_header_converse c hdr s h sid pid s' : ctx_ok c -> ctx_keyed c ->
  slice_header_read c hdr s = OK ((h, sid, pid), s') ->
  exists pp sp ab em, pps_by_id c pid = Some pp /\ sps_by_id c sid = Some sp /\ pps_seq_parameter_set_id pp = sid /\
    bits s = enc_slice_header hdr pp sp h ab em ++ bits s' /\ tail s' = tail s.
Proof.
  intros [Hcs Hcp] Hkey H.
  assert (Hw : wp (slice_header_read c hdr s) (fun r s' =>
     exists pp sp ab em, pps_by_id c (snd r) = Some pp /\ sps_by_id c (snd (fst r)) = Some sp /\ pps_seq_parameter_set_id pp = snd (fst r) /\
       bits s = enc_slice_header hdr pp sp (fst (fst r)) ab em ++ bits s' /\ tail s' = tail s)).
  2:{ rewrite H in Hw. exact Hw. }
  clear H h sid pid s'. unfold slice_header_read. cbv zeta.
  unfold rs at 1. apply wp_bind. apply wx_ue. intros fmb s0 Hb0 Ht0. cbv beta.
  unfold rs at 1. apply wp_bind. apply wx_ue. intros stv s1 Hb1 Ht1. cbv beta.
  destruct (slice_type_from_id stv) as [st|] eqn:Est; [|apply wp_fail].
  apply slice_type_from_id_inv in Est. subst stv.
  unfold rs at 1. apply wp_bind. apply wx_ue. intros ppid s2 Hb2 Ht2. cbv beta.
  unfold pic_param_set_id_from_u32. destruct (255 <? ppid); [apply wp_fail|].
  destruct (pps_by_id c ppid) as [pp|] eqn:Epp; [|apply wp_fail].
  destruct (sps_by_id c (pps_seq_parameter_set_id pp)) as [sp|] eqn:Esp; [|apply wp_fail].
  pose proof (Hkey _ _ Epp) as Hid. pose proof (Hcs _ _ Esp) as Hisps. destruct (Hcp _ _ Epp) as [Hl0 Hinit].
  assert (Hl2 : log2_max_frame_num_minus4 sp <= 12) by (destruct Hisps as (_ & _ & _ & _ & _ & H & _); exact H).
  (* colour plane *)
  apply wp_bind.
  assert (Hcpl : wp ((if separate_colour_plane_flag (chroma_info_ sp)
                      then bindE (rs (read_u 8 2 "colour_plane_id")) (fun v => if 2 <? v then failE (ColourPlaneError v) else retE (Some v))
                      else retE None) s2)
                    (fun cp s3 => bits s2 = (match cp with Some v => u 2 v | None => [] end) ++ bits s3 /\ tail s3 = tail s2)).
  { destruct (separate_colour_plane_flag (chroma_info_ sp)); [|apply wp_ret; split; reflexivity].
    unfold rs. apply wp_bind. apply wx_u. intros v s3 Hb3 Ht3. cbv beta. destruct (2 <? v); [apply wp_fail|]. apply wp_ret. split; assumption. }
  eapply wp_mono; [exact Hcpl|]. intros cp s3 [Hb3 Ht3]. cbv beta.
  apply wp_bind. unfold sps_help, log2_max_frame_num. destruct (N.ltb_spec (log2_max_frame_num_minus4 sp + 4) 256); [|lia]. cbn [wp]. cbv beta.
  unfold rs at 1. apply wp_bind. apply wx_u. intros fn s4 Hb4 Ht4. cbv beta.
  (* field pic *)
  apply wp_bind.
  assert (Hfp : wp ((match frame_mbs_flags_ sp with
                     | Fields _ => bindE (rs (read_bool "field_pic_flag")) (fun f =>
                                     if f then bindE (rs (read_bool "bottom_field_flag")) (fun b => retE (if b then FpBottom else FpTop)) else retE FpFrame)
                     | Frames => retE FpFrame end) s4)
                   (fun fp s5 => bits s4 = enc_field_pic sp fp ++ bits s5 /\ tail s5 = tail s4)).
  { unfold enc_field_pic, rs. destruct (frame_mbs_flags_ sp); [apply wp_ret; split; reflexivity|].
    apply wp_bind. apply wx_bool. intros f s5 Hb5 Ht5. cbv beta. destruct f.
    - apply wp_bind. apply wx_bool. intros b s6 Hb6 Ht6. cbv beta. apply wp_ret.
      split; [destruct b; rewrite Hb5, Hb6, <- app_assoc; reflexivity|congruence].
    - apply wp_ret. split; assumption. }
  eapply wp_mono; [exact Hfp|]. intros fp s5 [Hb5 Ht5]. cbv beta.
  apply wp_bind. apply (wx_opt_ue (nal_unit_type_id hdr =? 5) "idr_pic_id"). intros idr s6 Hb6 Ht6. cbv beta.
  (* poc *)
  apply wp_bind.
  assert (Hpoc : wp ((match pic_order_cnt_ sp with
          | PocTypeZero l =>
              bindE (rs (read_u 32 (l + 4) "pic_order_cnt_lsb")) (fun lsb =>
              if bottom_field_pic_order_in_frame_present_flag pp && (match fp with FpFrame => true | _ => false end) then
                bindE (rs (read_se "delta_pic_order_cnt_bottom")) (fun d => retE (Some (PlFieldsAbsolute lsb d)))
              else retE (Some (PlFrame lsb)))
          | PocTypeOne az _ _ _ =>
              if az then retE (Some (PlFieldsDelta 0 0))
              else
                bindE (rs (read_se "delta_pic_order_cnt[0]")) (fun d0 =>
                if bottom_field_pic_order_in_frame_present_flag pp && (match fp with FpFrame => true | _ => false end) then
                  bindE (rs (read_se "delta_pic_order_cnt[1]")) (fun d1 => retE (Some (PlFieldsDelta d0 d1)))
                else retE (Some (PlFieldsDelta d0 0)))
          | PocTypeTwo => retE None
          end) s6) (fun poc s7 => bits s6 = enc_poc_lsb sp pp fp poc ++ bits s7 /\ tail s7 = tail s6)).
  { unfold enc_poc_lsb, rs. fold (is_frame fp). destruct (pic_order_cnt_ sp) as [l|az nr tb offs|].
    - apply wp_bind. apply wx_u. intros lsb s7 Hb7 Ht7. cbv beta.
      destruct (bottom_field_pic_order_in_frame_present_flag pp && is_frame fp).
      + apply wp_bind. apply wx_se. intros d s8 Hb8 Ht8. cbv beta. apply wp_ret. split; [rewrite Hb7, Hb8, <- app_assoc; reflexivity|congruence].
      + apply wp_ret. split; assumption.
    - destruct az; [apply wp_ret; split; reflexivity|].
      apply wp_bind. apply wx_se. intros d0 s7 Hb7 Ht7. cbv beta.
      destruct (bottom_field_pic_order_in_frame_present_flag pp && is_frame fp).
      + apply wp_bind. apply wx_se. intros d1 s8 Hb8 Ht8. cbv beta. apply wp_ret. split; [rewrite Hb7, Hb8, <- app_assoc; reflexivity|congruence].
      + apply wp_ret. split; [rewrite app_nil_r; exact Hb7|exact Ht7].
    - apply wp_ret. split; reflexivity. }
  eapply wp_mono; [exact Hpoc|]. intros poc s7 [Hb7 Ht7]. cbv beta.
  apply wp_bind. apply (wx_opt_ue (redundant_pic_cnt_present_flag pp) "redundant_pic_cnt "). intros red s8 Hb8 Ht8. cbv beta.
  apply wp_bind. apply (wx_opt_bool (family_eqb (family st) FamB) "direct_spatial_mv_pred_flag"). intros dsp s9 Hb9 Ht9. cbv beta.
  (* nra *)
  apply wp_bind.
  assert (Hnra : wp ((if family_eqb (family st) FamP || family_eqb (family st) FamSP || family_eqb (family st) FamB then
            bindE (rs (read_bool "num_ref_idx_active_override_flag")) (fun ov =>
            if ov then
              bindE (sl_read_num_ref_idx "num_ref_idx_l0_active_minus1") (fun a =>
              if family_eqb (family st) FamB then
                bindE (sl_read_num_ref_idx "num_ref_idx_l1_active_minus1") (fun b => retE (Some (NraB a b)))
              else retE (Some (NraP a)))
            else retE None)
          else retE None) s9)
          (fun nra s10 => bits s9 = enc_nra (family st) nra ++ bits s10 /\ tail s10 = tail s9 /\
                          match nra with Some (NraP a) => a <= 31 | Some (NraB a _) => a <= 31 | None => True end)).
  { unfold enc_nra, fam_p_sp_b, rs. destruct (family_eqb (family st) FamP || family_eqb (family st) FamSP || family_eqb (family st) FamB).
    - apply wp_bind. apply wx_bool. intros ov s10 Hb10 Ht10. cbv beta. destruct ov.
      + apply wp_bind. apply wx_sl_num_ref_idx. intros a s11 Ha Hb11 Ht11. cbv beta.
        destruct (family_eqb (family st) FamB).
        * apply wp_bind. apply wx_sl_num_ref_idx. intros b s12 Hbb Hb12 Ht12. cbv beta. apply wp_ret.
          split; [rewrite Hb10, Hb11, Hb12, <- !app_assoc; reflexivity|]. split; [congruence|exact Ha].
        * apply wp_ret. split; [rewrite Hb10, Hb11, <- !app_assoc; reflexivity|]. split; [congruence|exact Ha].
      + apply wp_ret. split; [exact Hb10|]. split; [exact Ht10|exact I].
    - apply wp_ret. split; [reflexivity|]. split; [reflexivity|exact I]. }
  eapply wp_mono; [exact Hnra|]. intros nra s10 (Hb10 & Ht10 & Hnr). cbv beta.
  destruct ((nal_unit_type_id hdr =? 20) || (nal_unit_type_id hdr =? 21)); [apply wp_fail|].
  apply wp_bind. apply wx_rpl. intros rpl em s11 Hb11 Ht11. cbv beta.
  (* pwt *)
  apply wp_bind.
  assert (Hpwt : wp ((if (weighted_pred_flag pp && (family_eqb (family st) FamP || family_eqb (family st) FamSP))
                         || ((weighted_bipred_idc pp =? 1) && family_eqb (family st) FamB)
                      then bindE (pred_weight_table_read st pp sp nra) (fun t => retE (Some t)) else retE None) s11)
                    (fun o s12 => bits s11 = (match o with Some t => enc_pwt (spec_mono sp) t | None => [] end) ++ bits s12 /\ tail s12 = tail s11)).
  { destruct ((weighted_pred_flag pp && (family_eqb (family st) FamP || family_eqb (family st) FamSP))
              || ((weighted_bipred_idc pp =? 1) && family_eqb (family st) FamB)); [|apply wp_ret; split; reflexivity].
    apply wp_bind. apply wx_pwt; [exact Hl0|exact Hnr|]. intros t s12 Hb12 Ht12. cbv beta. apply wp_ret. split; assumption. }
  eapply wp_mono; [exact Hpwt|]. intros pwt s12 [Hb12 Ht12]. cbv beta.
  (* drm *)
  apply wp_bind.
  assert (Hdrm : wp ((if nal_ref_idc hdr =? 0 then retE None
                      else bindE (dec_ref_pic_marking_read (nal_unit_type_id hdr)) (fun m => retE (Some m))) s12)
                    (fun o s13 => bits s12 = (match o with Some d => enc_drm d | None => [] end) ++ bits s13 /\ tail s13 = tail s12)).
  { destruct (nal_ref_idc hdr =? 0); [apply wp_ret; split; reflexivity|].
    apply wp_bind. apply wx_drm. intros d s13 Hb13 Ht13. cbv beta. apply wp_ret. split; assumption. }
  eapply wp_mono; [exact Hdrm|]. intros drm s13 [Hb13 Ht13]. cbv beta.
  apply wp_bind. apply (wx_opt_ue (entropy_coding_mode_flag pp && negb (family_eqb (family st) FamI) && negb (family_eqb (family st) FamSI)) "cabac_init_idc").
  intros cab s14 Hb14 Ht14. cbv beta.
  unfold rs at 1. apply wp_bind. apply wx_se. intros qpd s15 Hb15 Ht15. cbv beta.
  destruct (51 <? qpd)%Z; [apply wp_fail|].
  (* sp / qs *)
  apply wp_bind.
  assert (Hspq : wp ((if family_eqb (family st) FamSP || family_eqb (family st) FamSI then
            bindE (if family_eqb (family st) FamSP then bindE (rs (read_bool "sp_for_switch_flag")) (fun v => retE (Some v)) else retE None) (fun sw0 =>
            bindE (rs (read_se "slice_qs_delta")) (fun qsd =>
            bindE (liftO (addi32 26 (pic_init_qs_minus26 pp))) (fun base =>
            let q := (base + qsd)%Z in
            if in_i32 q && (0 <=? q)%Z && (q <=? 51)%Z then retE (sw0, Some (Z.to_N q))
            else failE (InvalidSliceQsDelta qsd))))
          else retE (None, None)) s15)
          (fun r s16 => bits s15 = ((match fst r with Some b => flag b | None => [] end) ++
                                    (match snd r with Some q => se (slice_qs_delta_of pp q) | None => [] end)) ++ bits s16 /\ tail s16 = tail s15)).
  { destruct (family_eqb (family st) FamSP || family_eqb (family st) FamSI); [|apply wp_ret; split; reflexivity].
    apply wp_bind. apply (wx_opt_bool (family_eqb (family st) FamSP) "sp_for_switch_flag"). intros sw s16 Hb16 Ht16. cbv beta.
    unfold rs. apply wp_bind. apply wx_se. intros qsd s17 Hb17 Ht17. cbv beta.
    apply wp_bind. unfold addi32.
    assert (E : in_i32 (26 + pic_init_qs_minus26 pp) = true) by (unfold in_i32, two31z; lia). rewrite E.
    apply (wp_liftO_ok _ (26 + pic_init_qs_minus26 pp)%Z); [reflexivity|]. cbv zeta.
    destruct (in_i32 (26 + pic_init_qs_minus26 pp + qsd) && (0 <=? 26 + pic_init_qs_minus26 pp + qsd)%Z
              && (26 + pic_init_qs_minus26 pp + qsd <=? 51)%Z) eqn:Eq; [|apply wp_fail].
    apply wp_ret. cbn [fst snd]. split; [|congruence].
    unfold slice_qs_delta_of. rewrite Z2N.id by lia.
    replace (26 + pic_init_qs_minus26 pp + qsd - 26 - pic_init_qs_minus26 pp)%Z with qsd by lia.
    rewrite Hb16, Hb17, <- !app_assoc. reflexivity. }
  eapply wp_mono; [exact Hspq|]. intros spq s16 [Hb16 Ht16]. cbv beta.
  (* deblocking *)
  apply wp_bind.
  assert (Hddf : wp ((if deblocking_filter_control_present_flag pp then
            bindE (rs (read_ue "disable_deblocking_filter_idc")) (fun v =>
            if 6 <? v then failE (InvalidDisableDeblockingFilterIdc v) else
            if negb (v =? 1) then
              bindE (rs (read_se "slice_alpha_c0_offset_div2")) (fun a =>
              if ((a <? -6) || (6 <? a))%Z then failE (InvalidSliceAlphaC0OffsetDiv2 a) else
              bindE (rs (read_se "slice_beta_offset_div2")) (fun _b => retE v))
            else retE v)
          else retE 0) s16)
          (fun idc s17 => exists ab, bits s16 = enc_deblock pp idc ab ++ bits s17 /\ tail s17 = tail s16)).
  { unfold enc_deblock, rs. destruct (deblocking_filter_control_present_flag pp); [|apply wp_ret; exists (0, 0)%Z; split; reflexivity].
    apply wp_bind. apply wx_ue. intros v s17 Hb17 Ht17. cbv beta. destruct (6 <? v); [apply wp_fail|].
    destruct (N.eqb_spec v 1) as [->|Hne]; cbn [negb].
    - apply wp_ret. exists (0, 0)%Z. split; [rewrite app_nil_r; exact Hb17|exact Ht17].
    - apply wp_bind. apply wx_se. intros a s18 Hb18 Ht18. cbv beta.
      destruct ((a <? -6)%Z || (6 <? a)%Z); [apply wp_fail|].
      apply wp_bind. apply wx_se. intros b s19 Hb19 Ht19. cbv beta. apply wp_ret.
      exists (a, b). cbn [fst snd]. destruct (N.eqb_spec v 1) as [E|_]; [contradiction|].
      split; [rewrite Hb17, Hb18, Hb19, <- !app_assoc; reflexivity|congruence]. }
  eapply wp_mono; [exact Hddf|]. intros ddf s17 (ab & Hb17 & Ht17). cbv beta.
  unfold rs at 1. apply wp_bind. apply wp_has_more. intros more. cbv beta.
  destruct more; cbn [negb]; [|apply wp_fail].
  apply wp_ret. cbn [fst snd]. exists pp, sp, ab, em.
  split; [exact Epp|]. split; [exact Esp|]. split; [reflexivity|]. split; [|congruence].
  unfold enc_slice_header.
  cbn [first_mb_in_slice sh_slice_type colour_plane frame_num sh_field_pic idr_pic_id pic_order_cnt_lsb redundant_pic_cnt
       direct_spatial_mv_pred_flag sh_num_ref_idx_active ref_pic_list_modification sh_pred_weight_table sh_dec_ref_pic_marking
       cabac_init_idc slice_qp_delta sp_for_switch_flag slice_qs disable_deblocking_filter_idc].
  rewrite Hid, Hb0, Hb1, Hb2, Hb3, Hb4, Hb5, Hb6, Hb7, Hb8, Hb9, Hb10, Hb11, Hb12, Hb13, Hb14, Hb15, Hb16, Hb17.
  rewrite <- !app_assoc. reflexivity.
Qed.
