From H264 Require Import Base.Prelude Model.BitReader Model.Sei Spec.SeiSpec Proofs.SeiProofs.
Local Open Scope N_scope.

Lemma read_u32_loop_ff k : forall fuel acc last rest,
  last < 255 -> acc + 255 * N.of_nat k + last < two32 -> (k < fuel)%nat ->
  read_u32_loop fuel (repeat 255 k ++ last :: rest) acc = Some (OK (acc + 255 * N.of_nat k + last, rest)).
Proof.
  induction k as [|k IH]; intros fuel acc last rest Hl Hb Hf; destruct fuel as [|f]; try lia; cbn [repeat app read_u32_loop].
  - destruct (N.leb_spec two32 (acc + last)); [lia|]. destruct (N.eqb_spec last 255); [lia|].
    f_equal. f_equal. f_equal. lia.
  - destruct (N.leb_spec two32 (acc + 255)); [lia|]. change (255 =? 255) with true. cbv iota.
    rewrite IH by lia. f_equal. f_equal. f_equal. lia.
Qed.

Lemma read_u32_ff nm n rest tl : n < two32 ->
  read_u32 nm (mk_bsrc (ff_code n ++ rest) tl) = OK (n, mk_bsrc rest tl).
Proof.
  intros Hn. unfold read_u32, ff_code. cbn [sbytes stail]. rewrite <- app_assoc. cbn [app].
  rewrite read_u32_loop_ff.
  - f_equal. f_equal. rewrite Nnat.N2Nat.id. pose proof (N.div_mod n 255). lia.
  - apply N.mod_lt. lia.
  - rewrite Nnat.N2Nat.id. pose proof (N.div_mod n 255). lia.
  - rewrite app_length, repeat_length. cbn. lia.
Qed.

(* one message is recovered exactly, whatever follows it *)
Lemma sei_next_msg t p rest tl seen :
  t < two32 -> N.of_nat (length p) < two32 ->
  sei_next (mk_sr (mk_bsrc (enc_msg (t, p) ++ rest) tl) seen false) =
  (OK (Some (mk_msg t p)), mk_sr (mk_bsrc rest tl) (seen + 1) false).
Proof.
  intros Ht Hp. unfold sei_next, enc_msg. cbn [sr_done sr_src fst snd payloads_seen].
  rewrite <- app_assoc. rewrite read_u32_ff by exact Ht.
  assert (Hne : exists x xs, (ff_code (N.of_nat (length p)) ++ p) ++ rest = x :: xs).
  { unfold ff_code. destruct (repeat 255 _) as [|y ys]; cbn; eauto. }
  destruct Hne as (x & xs & Hne).
  assert (Hcheck : (if (t =? 128) && (0 <? seen)
                    then match sbytes (mk_bsrc ((ff_code (N.of_nat (length p)) ++ p) ++ rest) tl), stail (mk_bsrc ((ff_code (N.of_nat (length p)) ++ p) ++ rest) tl) with
                         | [], TEof => Some (OK None)
                         | [], t0 => Some (ERR (ReaderErrorFor "payload_type" (kind_of_tail t0)))
                         | _, _ => None
                         end
                    else None) = @None (out biterr (option sei_msg))).
  { destruct ((t =? 128) && (0 <? seen)); [|reflexivity]. cbn [sbytes stail]. rewrite Hne. reflexivity. }
  rewrite Hcheck. rewrite <- app_assoc. rewrite read_u32_ff by exact Hp. cbn [sbytes stail].
  destruct (N.ltb_spec (N.of_nat (length (p ++ rest))) (N.of_nat (length p))) as [Hlt|_].
  { rewrite app_length in Hlt. lia. }
  rewrite Nnat.Nat2N.id. rewrite firstn_app, Nat.sub_diag, firstn_all, firstn_O, app_nil_r.
  rewrite skipn_app, Nat.sub_diag, skipn_all. reflexivity.
Qed.

(* the trailing-bits byte after at least one message ends the sequence *)
Lemma sei_next_end tl seen : 0 < seen -> tl = TEof ->
  sei_next (mk_sr (mk_bsrc [128] tl) seen false) = (OK None, mk_sr (mk_bsrc [] tl) seen true).
Proof.
  intros Hs ->. unfold sei_next. cbn [sr_done sr_src payloads_seen].
  change [128] with (ff_code 128 ++ []). rewrite read_u32_ff by (unfold two32; lia).
  change (128 =? 128) with true. destruct (N.ltb_spec 0 seen); [|lia]. reflexivity.
Qed.

(* iterating next() *)
Fixpoint iterate (n : nat) (r : sei_reader) : list (out biterr (option sei_msg)) :=
  match n with O => [] | S n' => let '(res, r') := sei_next r in res :: iterate n' r' end.

Definition msg_ok (m : N * list byte) : Prop := fst m < two32 /\ N.of_nat (length (snd m)) < two32.

Lemma iterate_done n r : sr_done r = true -> iterate n r = repeat (OK None) n.
Proof.
  revert r. induction n as [|n IH]; intros r Hd; [reflexivity|]. cbn [iterate repeat].
  rewrite sei_done_stays by exact Hd. rewrite IH by exact Hd. reflexivity.
Qed.

Theorem sei_messages msgs : forall seen extra,
  Forall msg_ok msgs -> (msgs <> [] \/ 0 < seen) ->
  iterate (length msgs + 1 + extra) (mk_sr (mk_bsrc (enc_sei msgs) TEof) seen false) =
  map (fun m => OK (Some (mk_msg (fst m) (snd m)))) msgs ++ OK None :: repeat (OK None) extra.
Proof.
  induction msgs as [|[t p] more IH]; intros seen extra Hok Hne.
  - destruct Hne as [Hne|Hs]; [contradiction|]. unfold enc_sei. cbn [map concat app length plus iterate].
    rewrite sei_next_end by (exact Hs || reflexivity). rewrite iterate_done by reflexivity. reflexivity.
  - inversion Hok as [|x l [Ht Hp] Hmore]; subst. cbn [fst snd] in *.
    unfold enc_sei. cbn [map concat length plus iterate]. rewrite <- !app_assoc.
    rewrite sei_next_msg by assumption. cbn [map app fst snd]. f_equal.
    apply (IH (seen + 1) extra Hmore). right. lia.
Qed.

(* ---- the 2^32 boundary of the 0xFF-extension coding ---- *)
Lemma u32_loop_ff n : forall fuel acc b rest, (n < fuel)%nat -> b <> 255 ->
  read_u32_loop fuel (repeat 255 n ++ b :: rest) acc =
  if acc + 255 * N.of_nat n + b <? two32 then Some (OK (acc + 255 * N.of_nat n + b, rest)) else Some (ERR InvalidData).
Proof.
  induction n as [|n IH]; intros fuel acc b rest Hf Hb; (destruct fuel as [|f]; [lia|]); cbn [repeat app read_u32_loop].
  - replace (acc + 255 * N.of_nat 0 + b) with (acc + b) by lia.
    destruct (N.leb_spec two32 (acc + b)); destruct (N.ltb_spec (acc + b) two32); try lia; [reflexivity|].
    destruct (N.eqb_spec b 255); [contradiction|reflexivity].
  - destruct (N.leb_spec two32 (acc + 255)) as [Hov|Hok].
    + destruct (N.ltb_spec (acc + 255 * N.of_nat (S n) + b) two32); [lia|reflexivity].
    + change (255 =? 255) with true. cbv iota. rewrite IH by (try lia; exact Hb).
      replace (acc + 255 + 255 * N.of_nat n + b) with (acc + 255 * N.of_nat (S n) + b) by lia. reflexivity.
Qed.

Theorem read_u32_boundary nm n b rest t : b <> 255 ->
  read_u32 nm (mk_bsrc (repeat 255 n ++ b :: rest) t) =
  if 255 * N.of_nat n + b <? two32 then OK (255 * N.of_nat n + b, mk_bsrc rest t)
  else ERR (ReaderErrorFor nm InvalidData).
Proof.
  intros Hb. unfold read_u32. cbn [sbytes stail].
  rewrite (u32_loop_ff n _ 0 b rest); [|rewrite app_length, repeat_length; cbn [length]; lia|exact Hb].
  rewrite N.add_0_l. destruct (255 * N.of_nat n + b <? two32); reflexivity.
Qed.
