(* C15: the chunk reader delivers head ++ concat tail, each byte once and in order; partial NALs block. *)
From H264 Require Import Base.Prelude Model.RefNal.

(* RefNal::new's precondition: every chunk non-empty.  As an invariant of the reader: *)
Definition wf (r : rdr) : Prop :=
  Forall (fun c => c <> []) (rest r) /\ (cur r = [] -> rest r = []).

Lemma wf_of_nal head tl c : head <> [] -> Forall (fun c => c <> []) tl -> wf (rdr_of_nal head tl c).
Proof. intros Hh Ht. split; [exact Ht|]. cbn. intros H. contradiction. Qed.

Lemma wf_of_slice b : wf (rdr_of_slice b).
Proof. split; [constructor|reflexivity]. Qed.

Lemma wf_next_chunk r : Forall (fun c => c <> []) (rest r) -> wf (next_chunk r).
Proof.
  intros H. unfold next_chunk. destruct (rest r) as [|f t]; split; cbn; try constructor; try reflexivity.
  - inversion H; assumption.
  - intros E. inversion H; subst. contradiction.
Qed.

Lemma rem_next_chunk r : cur r = [] -> rdr_remaining (next_chunk r) = rdr_remaining r.
Proof.
  intros E. unfold next_chunk, rdr_remaining. rewrite E. destruct (rest r) as [|f t]; reflexivity.
Qed.

Lemma rem_nil_wf r : wf r -> (rdr_remaining r = [] <-> cur r = []).
Proof.
  intros [Hne Hc]. unfold rdr_remaining. split; intros H.
  - destruct (cur r); [reflexivity|discriminate].
  - rewrite H, (Hc H). reflexivity.
Qed.

(* fill_buf *)
Lemma fill_buf_spec r : wf r ->
  match rdr_fill_buf r with
  | OK b => b = cur r /\ (b = [] -> rdr_remaining r = [] /\ complete r = true)
  | ERR k => k = WouldBlock /\ rdr_remaining r = [] /\ complete r = false
  | _ => False
  end.
Proof.
  intros Hwf. unfold rdr_fill_buf, at_block. destruct (cur r) as [|b c] eqn:E.
  - destruct (complete r) eqn:Ec; cbn [negb].
    + split; [reflexivity|]. intros _. split; [apply rem_nil_wf; assumption|reflexivity].
    + split; [reflexivity|]. split; [apply rem_nil_wf; assumption|reflexivity].
  - split; [reflexivity|discriminate].
Qed.

(* consume within the buffer *)
Lemma consume_spec r k : wf r -> (k <= length (cur r))%nat ->
  exists r', rdr_consume r k = OK r' /\ wf r' /\ complete r' = complete r /\
             rdr_remaining r = firstn k (cur r) ++ rdr_remaining r'.
Proof.
  intros [Hne Hc] Hk. unfold rdr_consume. destruct (Nat.ltb_spec (length (cur r)) k); [lia|].
  cbn [cur]. destruct (skipn k (cur r)) as [|x xs] eqn:E.
  - eexists. split; [reflexivity|]. split; [apply wf_next_chunk; exact Hne|]. split.
    + unfold next_chunk. cbn. destruct (rest r); reflexivity.
    + rewrite rem_next_chunk by reflexivity. unfold rdr_remaining at 1 2. cbn [cur rest].
      rewrite <- (firstn_skipn k (cur r)) at 1. rewrite E, app_nil_r. reflexivity.
  - eexists. split; [reflexivity|]. split; [split; [exact Hne|discriminate]|]. split; [reflexivity|].
    unfold rdr_remaining. cbn [cur rest]. rewrite <- (firstn_skipn k (cur r)) at 1. rewrite E, <- app_assoc. reflexivity.
Qed.

(* read *)
Lemma read_spec r n : wf r ->
  match rdr_read r n with
  | OK (bytes, r') =>
      wf r' /\ complete r' = complete r /\ rdr_remaining r = bytes ++ rdr_remaining r' /\
      (length bytes <= n)%nat /\
      (bytes = [] -> n = 0%nat \/ (rdr_remaining r = [] /\ complete r = true))
  | ERR k => k = WouldBlock /\ rdr_remaining r = [] /\ complete r = false /\ n <> 0%nat
  | _ => False
  end.
Proof.
  intros Hwf. pose proof Hwf as [Hne Hc]. unfold rdr_read. destruct n as [|n].
  - repeat split; try assumption; try reflexivity; try (cbn; lia).
  - unfold at_block. destruct (cur r) as [|b c] eqn:E.
    + destruct (complete r) eqn:Ec; cbn [negb].
      * cbn [length]. destruct (Nat.ltb_spec (S n) 0); [lia|].
        split; [apply wf_next_chunk; exact Hne|]. split; [unfold next_chunk; destruct (rest r); cbn [complete]; congruence|].
        split; [rewrite rem_next_chunk by exact E; reflexivity|]. split; [cbn; lia|].
        intros _. right. split; [apply rem_nil_wf; assumption|reflexivity].
      * repeat split; try reflexivity; try discriminate. apply rem_nil_wf; assumption.
    + destruct (Nat.ltb_spec (S n) (length (b :: c))) as [Hlt|Hge].
      * split; [split; [exact Hne|]|].
        { cbn [cur]. intros H0. exfalso. apply (f_equal (@length byte)) in H0. rewrite skipn_length in H0. cbn [length] in *. lia. }
        split; [reflexivity|]. split.
        { unfold rdr_remaining. cbn [cur rest]. rewrite E. rewrite app_assoc, firstn_skipn. reflexivity. }
        split; [rewrite firstn_length; lia|]. intros H0. discriminate.
      * split; [apply wf_next_chunk; exact Hne|]. split; [unfold next_chunk; destruct (rest r); cbn [complete]; congruence|]. split.
        { unfold rdr_remaining, next_chunk. rewrite E. destruct (rest r) as [|f t]; cbn [cur rest concat]; [rewrite !app_nil_r|]; reflexivity. }
        split; [cbn [length] in *; lia|]. discriminate.
Qed.

(* ---- whole operation sequences ---- *)
Inductive rop := RRead (n : nat) | RFill | RConsume (k : nat).

(* bytes handed over by one operation (a consume hands over what fill_buf had shown), new state;
   None = the operation reported an error (state unchanged) *)
Definition rstep (r : rdr) (o : rop) : option (list byte * rdr) :=
  match o with
  | RRead n => match rdr_read r n with OK (b, r') => Some (b, r') | _ => None end
  | RFill => match rdr_fill_buf r with OK _ => Some ([], r) | _ => None end
  | RConsume k => match rdr_consume r (Nat.min k (length (cur r))) with
                  | OK r' => Some (firstn (Nat.min k (length (cur r))) (cur r), r')
                  | _ => None
                  end
  end.

Fixpoint rrun (r : rdr) (ops : list rop) : list byte * rdr :=
  match ops with
  | [] => ([], r)
  | o :: more =>
    match rstep r o with
    | Some (b, r') => let '(bs, r'') := rrun r' more in (b ++ bs, r'')
    | None => rrun r more
    end
  end.

Lemma rstep_spec r o : wf r ->
  match rstep r o with
  | Some (b, r') => wf r' /\ complete r' = complete r /\ rdr_remaining r = b ++ rdr_remaining r'
  | None => rdr_remaining r = [] /\ complete r = false
  end.
Proof.
  intros Hwf. destruct o as [n| |k]; cbn [rstep].
  - pose proof (read_spec r n Hwf) as H. destruct (rdr_read r n) as [[b r']|e| |]; try contradiction.
    + destruct H as (H1 & H2 & H3 & _). auto.
    + destruct H as (_ & H1 & H2 & _). auto.
  - pose proof (fill_buf_spec r Hwf) as H. destruct (rdr_fill_buf r) as [b|e| |]; try contradiction.
    + auto.
    + destruct H as (_ & H1 & H2). auto.
  - destruct (consume_spec r (Nat.min k (length (cur r))) Hwf) as (r' & E & H1 & H2 & H3); [lia|].
    rewrite E. auto.
Qed.

Lemma rrun_spec ops : forall r, wf r ->
  let '(bs, r') := rrun r ops in
  wf r' /\ complete r' = complete r /\ rdr_remaining r = bs ++ rdr_remaining r'.
Proof.
  induction ops as [|o more IH]; intros r Hwf; cbn [rrun].
  - auto.
  - pose proof (rstep_spec r o Hwf) as H. destruct (rstep r o) as [[b r1]|].
    + destruct H as (H1 & H2 & H3). specialize (IH r1 H1). destruct (rrun r1 more) as [bs r2].
      destruct IH as (I1 & I2 & I3). split; [assumption|]. split; [congruence|].
      rewrite H3, I3, app_assoc. reflexivity.
    + apply IH. exact Hwf.
Qed.

(* at the end: EOF forever for a complete NAL, WouldBlock forever for an incomplete one *)
Lemma at_end_complete r n : wf r -> rdr_remaining r = [] -> complete r = true ->
  rdr_fill_buf r = OK [] /\ exists r', rdr_read r (S n) = OK ([], r') /\ rdr_remaining r' = [] /\ wf r' /\ complete r' = true.
Proof.
  intros Hwf Hr Hc. apply (rem_nil_wf r Hwf) in Hr. split.
  - unfold rdr_fill_buf, at_block. rewrite Hr, Hc. reflexivity.
  - pose proof (read_spec r (S n) Hwf) as H. unfold rdr_read, at_block in *. rewrite Hr, Hc in *. cbn [negb length] in *.
    destruct (Nat.ltb_spec (S n) 0); [lia|]. destruct H as (H1 & H2 & H3 & _).
    eexists. split; [reflexivity|]. split; [|split; [exact H1|congruence]].
    cbn [app] in H3. rewrite <- H3. apply rem_nil_wf; assumption.
Qed.

Lemma at_end_incomplete r n : wf r -> rdr_remaining r = [] -> complete r = false ->
  rdr_fill_buf r = ERR WouldBlock /\ rdr_read r (S n) = ERR WouldBlock.
Proof.
  intros Hwf Hr Hc. apply (rem_nil_wf r Hwf) in Hr.
  unfold rdr_fill_buf, rdr_read, at_block. rewrite Hr, Hc. split; reflexivity.
Qed.

(* never EOF on an incomplete NAL: an empty successful result means nothing was asked for *)
Lemma incomplete_never_eof r : wf r -> complete r = false ->
  rdr_fill_buf r <> OK [] /\ (forall n r', rdr_read r (S n) <> OK ([], r')).
Proof.
  intros Hwf Hc. split.
  - intros E. pose proof (fill_buf_spec r Hwf) as H. rewrite E in H. destruct H as (_ & H). destruct (H eq_refl). congruence.
  - intros n r' E. pose proof (read_spec r (S n) Hwf) as H. rewrite E in H. destruct H as (_ & _ & _ & _ & H).
    destruct (H eq_refl) as [H0|[_ H0]]; [discriminate|congruence].
Qed.
