From H264 Require Import Base.Prelude Base.Bits.

Lemma to_bits_length k : forall v, length (to_bits k v) = k.
Proof.
  induction k as [|k IH]; intros v; cbn [to_bits]; [reflexivity|].
  rewrite app_length, IH. cbn. lia.
Qed.

Lemma from_bits_acc_app a x y : from_bits_acc a (x ++ y) = from_bits_acc (from_bits_acc a x) y.
Proof. revert a; induction x as [|b x IH]; intros a; cbn [from_bits_acc app]; [reflexivity|apply IH]. Qed.

Lemma b2n_odd v : N.b2n (N.odd v) = v mod 2.
Proof. rewrite <- N.bit0_mod, N.bit0_odd. reflexivity. Qed.

Lemma from_bits_acc_to_bits k : forall a v, v < 2 ^ N.of_nat k ->
  from_bits_acc a (to_bits k v) = a * 2 ^ N.of_nat k + v.
Proof.
  induction k as [|k IH]; intros a v Hv.
  - cbn [to_bits from_bits_acc]. change (N.of_nat 0) with 0 in *. rewrite N.pow_0_r in *. lia.
  - cbn [to_bits]. rewrite from_bits_acc_app. cbn [from_bits_acc].
    rewrite Nnat.Nat2N.inj_succ, N.pow_succ_r' in *.
    rewrite IH by lia. rewrite b2n_odd.
    set (p := 2 ^ N.of_nat k) in *. lia.
Qed.

Lemma from_bits_to_bits k v : v < 2 ^ N.of_nat k -> from_bits (to_bits k v) = v.
Proof. intros H. unfold from_bits. rewrite from_bits_acc_to_bits by exact H. lia. Qed.

Lemma from_bits_acc_bound x : forall a, from_bits_acc a x < (a + 1) * 2 ^ N.of_nat (length x).
Proof.
  induction x as [|b x IH]; intros a; cbn [from_bits_acc length].
  - change (N.of_nat 0) with 0. rewrite N.pow_0_r. lia.
  - rewrite Nnat.Nat2N.inj_succ, N.pow_succ_r'. specialize (IH (2 * a + N.b2n b)).
    set (p := 2 ^ N.of_nat (length x)) in *. destruct b; cbn [N.b2n] in *; nia.
Qed.

Lemma from_bits_bound x : from_bits x < 2 ^ N.of_nat (length x).
Proof. unfold from_bits. pose proof (from_bits_acc_bound x 0). lia. Qed.

Lemma from_bits_acc_shift x : forall a, from_bits_acc a x = a * 2 ^ N.of_nat (length x) + from_bits_acc 0 x.
Proof.
  induction x as [|b x IH]; intros a; cbn [from_bits_acc length].
  - change (N.of_nat 0) with 0. rewrite N.pow_0_r. lia.
  - rewrite Nnat.Nat2N.inj_succ, N.pow_succ_r'. rewrite (IH (2 * a + N.b2n b)), (IH (2 * 0 + N.b2n b)).
    set (p := 2 ^ N.of_nat (length x)) in *. lia.
Qed.

Lemma to_bits_from_bits_snoc x b : from_bits (x ++ [b]) = 2 * from_bits x + N.b2n b.
Proof. unfold from_bits. rewrite from_bits_acc_app. cbn [from_bits_acc]. reflexivity. Qed.

Lemma to_bits_from_bits x : to_bits (length x) (from_bits x) = x.
Proof.
  induction x as [|b x IH] using rev_ind; [reflexivity|].
  rewrite app_length. cbn [length]. rewrite Nat.add_1_r. cbn [to_bits].
  rewrite to_bits_from_bits_snoc.
  replace ((2 * from_bits x + N.b2n b) / 2) with (from_bits x) by (destruct b; cbn [N.b2n]; lia).
  rewrite IH. f_equal. f_equal. destruct b; cbn [N.b2n].
  - rewrite N.add_comm. rewrite N.odd_add_mul_2. reflexivity.
  - rewrite N.add_0_r. rewrite N.odd_mul, Bool.andb_false_l. reflexivity.
Qed.

Lemma take_bits_app x : forall y, take_bits (length x) (x ++ y) = Some (x, y).
Proof.
  induction x as [|b x IH]; intros y; cbn [length take_bits app]; [reflexivity|].
  rewrite IH. reflexivity.
Qed.

Lemma take_bits_spec n : forall bs x y, take_bits n bs = Some (x, y) -> bs = x ++ y /\ length x = n.
Proof.
  induction n as [|n IH]; intros bs x y H; cbn [take_bits] in H.
  - injection H as <- <-. split; reflexivity.
  - destruct bs as [|b r]; [discriminate|].
    destruct (take_bits n r) as [[x' y']|] eqn:E; [|discriminate].
    injection H as <- <-. destruct (IH _ _ _ E) as [-> <-]. split; reflexivity.
Qed.

Lemma take_bits_none n : forall bs, take_bits n bs = None <-> (length bs < n)%nat.
Proof.
  induction n as [|n IH]; intros bs; cbn [take_bits].
  - split; [discriminate|lia].
  - destruct bs as [|b r]; cbn [length]; [split; [lia|reflexivity]|].
    rewrite <- Nat.succ_lt_mono, <- IH.
    destruct (take_bits n r) as [[x y]|]; split; intros H; try discriminate; reflexivity.
Qed.
