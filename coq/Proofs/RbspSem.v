(* Streaming meaning of the ByteReader's scanner states, and its equality with Spec/Escape.unescape. *)
From H264 Require Import Base.Prelude Spec.Escape Model.RefNal Model.Rbsp.
Local Open Scope N_scope.

(* output of the scanner from state st over the unread input: the bytes before the first forbidden
   sequence, and whether the input was clean to its end *)
Fixpoint uout (st : pstate) (raw : list byte) : list byte * bool :=
  match raw with
  | [] => ([], true)
  | b :: r =>
    match st with
    | Start => let '(o, ok) := uout (if b =? 0 then OneZero else Start) r in (b :: o, ok)
    | OneZero => let '(o, ok) := uout (if b =? 0 then TwoZero else Start) r in (b :: o, ok)
    | TwoZero =>
        if b =? 3 then uout PostThree r
        else if b =? 0 then ([], false)
        else let '(o, ok) := uout Start r in (b :: o, ok)
    | Skip n => uout (if n - 1 =? 0 then Start else Skip (n - 1)) r
    | Three => uout PostThree r
    | PostThree =>
        if b =? 0 then let '(o, ok) := uout OneZero r in (b :: o, ok)
        else if b <=? 3 then let '(o, ok) := uout Start r in (b :: o, ok)
        else ([], false)
    end
  end.

Definition of_option (o : option (list byte)) (p : list byte * bool) : Prop :=
  match o with Some l => p = (l, true) | None => snd p = false end.

(* unfolding lemmas for unescape (3-byte look-ahead) *)
Lemma unescape_nz a t : a <> 0 -> unescape (a :: t) = match unescape t with Some u => Some (a :: u) | None => None end.
Proof.
  intros Ha. destruct t as [|b [|c r]]; try reflexivity.
  change (unescape (a :: b :: c :: r)) with
    (if (a =? 0) && (b =? 0) && (c =? 0) then None
     else if (a =? 0) && (b =? 0) && (c =? 3) then
            match r with [] => Some [0; 0] | x :: _ => if 3 <? x then None else match unescape r with Some u => Some (0 :: 0 :: u) | None => None end end
          else match unescape (b :: c :: r) with Some u => Some (a :: u) | None => None end).
  destruct (N.eqb_spec a 0); [contradiction|]. reflexivity.
Qed.
Lemma unescape_0nz b t : b <> 0 -> unescape (0 :: b :: t) = match unescape t with Some u => Some (0 :: b :: u) | None => None end.
Proof.
  intros Hb. destruct t as [|c r]; [reflexivity|].
  change (unescape (0 :: b :: c :: r)) with
    (if (0 =? 0) && (b =? 0) && (c =? 0) then None
     else if (0 =? 0) && (b =? 0) && (c =? 3) then
            match r with [] => Some [0; 0] | x :: _ => if 3 <? x then None else match unescape r with Some u => Some (0 :: 0 :: u) | None => None end end
          else match unescape (b :: c :: r) with Some u => Some (0 :: u) | None => None end).
  destruct (N.eqb_spec b 0); [contradiction|]. rewrite Bool.andb_false_r. cbn [andb].
  rewrite (unescape_nz b) by exact Hb. destruct (unescape (c :: r)); reflexivity.
Qed.
Lemma unescape_000 r : unescape (0 :: 0 :: 0 :: r) = None.
Proof. reflexivity. Qed.
Lemma unescape_003x x r : unescape (0 :: 0 :: 3 :: x :: r) =
  if 3 <? x then None else match unescape (x :: r) with Some u => Some (0 :: 0 :: u) | None => None end.
Proof. reflexivity. Qed.
Lemma unescape_00c c r : c <> 0 -> c <> 3 ->
  unescape (0 :: 0 :: c :: r) = match unescape r with Some u => Some (0 :: 0 :: c :: u) | None => None end.
Proof.
  intros H0 H3.
  change (unescape (0 :: 0 :: c :: r)) with
    (if (0 =? 0) && (0 =? 0) && (c =? 0) then None
     else if (0 =? 0) && (0 =? 0) && (c =? 3) then
            match r with [] => Some [0; 0] | x :: _ => if 3 <? x then None else match unescape r with Some u => Some (0 :: 0 :: u) | None => None end end
          else match unescape (0 :: c :: r) with Some u => Some (0 :: u) | None => None end).
  change (0 =? 0) with true. cbn [andb]. destruct (N.eqb_spec c 0); [contradiction|]. destruct (N.eqb_spec c 3); [contradiction|].
  rewrite unescape_0nz by exact H0. destruct (unescape r); reflexivity.
Qed.

(* the automaton agrees with the look-ahead specification, from each of its data states *)
Lemma uout_spec raw :
  of_option (unescape raw) (uout Start raw) /\
  of_option (unescape (0 :: raw)) (let '(o, ok) := uout OneZero raw in (0 :: o, ok)) /\
  of_option (unescape (0 :: 0 :: raw)) (let '(o, ok) := uout TwoZero raw in (0 :: 0 :: o, ok)) /\
  (match raw with x :: _ => x <= 3 | [] => True end ->
   of_option (unescape raw) (uout PostThree raw)).
Proof.
  induction raw as [|b r (I0 & I1 & I2 & I3)].
  - repeat split; try reflexivity.
  - assert (Hstart : of_option (unescape (b :: r)) (uout Start (b :: r))).
    { cbn [uout]. destruct (N.eqb_spec b 0) as [->|Hb].
      - destruct (uout OneZero r) as [o ok]. exact I1.
      - rewrite unescape_nz by exact Hb. destruct (uout Start r) as [o ok]. unfold of_option in *.
        destruct (unescape r); [injection I0 as -> ->; reflexivity|exact I0]. }
    split; [exact Hstart|]. split; [|split].
    + (* after one zero *)
      cbn [uout]. destruct (N.eqb_spec b 0) as [->|Hb].
      * destruct (uout TwoZero r) as [o ok]. exact I2.
      * rewrite unescape_0nz by exact Hb. destruct (uout Start r) as [o ok]. unfold of_option in *.
        destruct (unescape r); [injection I0 as -> ->; reflexivity|exact I0].
    + (* after two zeros *)
      cbn [uout]. destruct (N.eqb_spec b 3) as [->|Hb3].
      * (* 00 00 03: drop, then PostThree *)
        destruct r as [|x r'].
        -- reflexivity.
        -- rewrite unescape_003x. destruct (N.ltb_spec 3 x) as [Hx|Hx].
           ++ cbn [uout]. destruct (N.eqb_spec x 0); [lia|]. destruct (N.leb_spec x 3); [lia|]. reflexivity.
           ++ specialize (I3 Hx). destruct (uout PostThree (x :: r')) as [o ok]. unfold of_option in *.
              destruct (unescape (x :: r')); [injection I3 as -> ->; reflexivity|exact I3].
      * destruct (N.eqb_spec b 0) as [->|Hb0].
        -- rewrite unescape_000. reflexivity.
        -- rewrite unescape_00c by assumption. destruct (uout Start r) as [o ok]. unfold of_option in *.
           destruct (unescape r); [injection I0 as -> ->; reflexivity|exact I0].
    + (* PostThree with b <= 3 *)
      intros Hb. cbn [uout]. destruct (N.eqb_spec b 0) as [->|Hb0].
      * destruct (uout OneZero r) as [o ok]. exact I1.
      * destruct (N.leb_spec b 3); [|lia]. rewrite unescape_nz by exact Hb0.
        destruct (uout Start r) as [o ok]. unfold of_option in *.
        destruct (unescape r); [injection I0 as -> ->; reflexivity|exact I0].
Qed.

Theorem uout_start_is_unescape raw : of_option (unescape raw) (uout Start raw).
Proof. exact (proj1 (uout_spec raw)). Qed.

(* skipping n header bytes *)
Lemma uout_skip n : forall raw, 0 < n -> n <= N.of_nat (length raw) -> uout (Skip n) raw = uout Start (skipn (N.to_nat n) raw).
Proof.
  induction n as [|n IH] using N.peano_ind; intros raw Hn Hl; [lia|].
  destruct raw as [|b r]; [cbn in Hl; lia|].
  cbn [uout]. replace (N.succ n - 1) with n by lia. rewrite Nnat.N2Nat.inj_succ. cbn [skipn].
  destruct (N.eqb_spec n 0) as [->|Hn0]; [reflexivity|].
  apply IH; [lia|cbn [length] in Hl; lia].
Qed.
