From H264 Require Import Base.Prelude Model.Sps Model.SpsDerived Spec.Derived Proofs.SpsInv.
Local Open Scope N_scope.

Lemma cm32_some a b : a * b < two32 -> checked_mul32 a b = Some (a * b).
Proof. intros H. unfold checked_mul32. destruct (N.ltb_spec (a * b) two32); [reflexivity|lia]. Qed.
Lemma cm32_none a b : two32 <= a * b -> checked_mul32 a b = None.
Proof. intros H. unfold checked_mul32. destruct (N.ltb_spec (a * b) two32); [lia|reflexivity]. Qed.

Definition hsub_of (cf : chroma_format) : N := if chroma_format_eqb cf YUV420 || chroma_format_eqb cf YUV422 then 1 else 0.
Definition vsub_of (cf : chroma_format) : N := if chroma_format_eqb cf YUV420 then 1 else 0.

Lemma step_x_spec cf : Z.of_N (2 ^ hsub_of cf) = crop_unit_x cf.
Proof. destruct cf; reflexivity. Qed.
Lemma step_y_spec cf f : Z.of_N ((match f with Fields _ => 2 | Frames => 1 end) * 2 ^ vsub_of cf) = crop_unit_y cf f.
Proof. destruct cf, f; reflexivity. Qed.

Theorem pixel_dimensions_spec s :
  pic_width_in_mbs_minus1 s < 4294967295 -> pic_height_in_map_units_minus1 s < 4294967295 ->
  match pixel_dimensions s with
  | OK (w, h) => products_fit s /\ crop_within s /\ Z.of_N w = spec_width s /\ Z.of_N h = spec_height s
  | ERR _ => ~ (products_fit s /\ crop_within s)
  | _ => False
  end.
Proof.
  intros Hw Hh. unfold pixel_dimensions, products_fit, crop_within, spec_width, spec_height, coded_width, coded_height, crop_of, u32max.
  set (w1 := pic_width_in_mbs_minus1 s) in *. set (h1 := pic_height_in_map_units_minus1 s) in *.
  set (cf := chroma_format_ (chroma_info_ s)).
  fold (hsub_of cf) (vsub_of cf).
  pose proof (step_x_spec cf) as Hsx. pose proof (step_y_spec cf (frame_mbs_flags_ s)) as Hsy.
  set (sx := 2 ^ hsub_of cf) in *.
  set (mulN := match frame_mbs_flags_ s with Fields _ => 2 | Frames => 1 end) in *.
  set (sy := mulN * 2 ^ vsub_of cf) in *.
  assert (Hmul : Z.of_N mulN = field_mul (frame_mbs_flags_ s)) by (unfold mulN; destruct (frame_mbs_flags_ s); reflexivity).
  unfold checked_add32. destruct (N.ltb_spec (w1 + 1) two32) as [_|Hge]; [|unfold two32 in Hge; lia].
  unfold opt_or_err.
  destruct (N.lt_ge_cases ((w1 + 1) * 16) two32) as [Hwf|Hwf].
  2:{ rewrite cm32_none by exact Hwf. cbn [obind]. unfold two32 in *. intros [Hp _].
      destruct (frame_cropping_ s); destruct Hp as (Hp & _); lia. }
  rewrite cm32_some by exact Hwf. cbn [obind].
  unfold add32. destruct (N.ltb_spec (h1 + 1) two32) as [_|Hge]; [|unfold two32 in Hge; lia]. cbn [obind].
  destruct (N.lt_ge_cases ((h1 + 1) * (mulN * 16)) two32) as [Hhf|Hhf].
  2:{ rewrite cm32_none by exact Hhf. cbn [obind]. unfold two32 in *. intros [Hp _].
      destruct (frame_cropping_ s); destruct Hp as (_ & Hp & _); rewrite <- Hmul in Hp; lia. }
  rewrite cm32_some by exact Hhf. cbn [obind].
  destruct (frame_cropping_ s) as [c|] eqn:Ec.
  - set (l := left_offset c). set (r := right_offset c). set (t := top_offset c). set (b := bottom_offset c).
    destruct (N.lt_ge_cases (l * sx) two32) as [Hl|Hl].
    2:{ rewrite cm32_none by exact Hl. cbn [obind]. unfold two32 in *. intros [(_ & _ & Hp & _) _]. rewrite <- Hsx in Hp. lia. }
    rewrite cm32_some by exact Hl. cbn [obind].
    destruct (N.lt_ge_cases (r * sx) two32) as [Hr|Hr].
    2:{ rewrite cm32_none by exact Hr. cbn [obind]. unfold two32 in *. intros [(_ & _ & _ & Hp & _) _]. rewrite <- Hsx in Hp. lia. }
    rewrite cm32_some by exact Hr. cbn [obind].
    destruct (N.lt_ge_cases (t * sy) two32) as [Ht|Ht].
    2:{ rewrite cm32_none by exact Ht. cbn [obind]. unfold two32 in *. intros [(_ & _ & _ & _ & Hp & _) _]. rewrite <- Hsy in Hp. lia. }
    rewrite cm32_some by exact Ht. cbn [obind].
    destruct (N.lt_ge_cases (b * sy) two32) as [Hb|Hb].
    2:{ rewrite cm32_none by exact Hb. cbn [obind]. unfold two32 in *. intros [(_ & _ & _ & _ & _ & Hp) _]. rewrite <- Hsy in Hp. lia. }
    rewrite cm32_some by exact Hb. cbn [obind].
    unfold checked_sub32.
    destruct (N.leb_spec (l * sx) ((w1 + 1) * 16)) as [H1|H1].
    + destruct (N.leb_spec (r * sx) ((w1 + 1) * 16 - l * sx)) as [H2|H2].
      * destruct (N.leb_spec (t * sy) ((h1 + 1) * (mulN * 16))) as [H3|H3].
        -- destruct (N.leb_spec (b * sy) ((h1 + 1) * (mulN * 16) - t * sy)) as [H4|H4].
           ++ unfold two32 in *. rewrite <- Hsx, <- Hsy, <- Hmul. repeat split; nia.
           ++ unfold two32 in *. rewrite <- Hsy, <- Hmul. intros [_ [_ Hc]]. nia.
        -- unfold two32 in *. rewrite <- Hsy, <- Hmul. intros [_ [_ Hc]]. nia.
      * unfold two32 in *. rewrite <- Hsx. intros [_ [Hc _]]. nia.
    + unfold two32 in *. rewrite <- Hsx. intros [_ [Hc _]]. nia.
  - unfold two32 in *. rewrite <- Hmul. repeat split; try nia; try lia.
Qed.

(* fps: the exact rational time_scale / (2 * num_units_in_tick) when timing info is present *)
Lemma fps_spec s :
  fps s = match vui_parameters_ s with
          | Some v => match timing_info_ v with Some t => Some (time_scale t, 2 * num_units_in_tick t) | None => None end
          | None => None
          end.
Proof. reflexivity. Qed.

(* helpers that add 1 to a ue(v) value never overflow on an accepted SPS; the size saturates *)
Lemma helpers_no_abort s : inv_sps s ->
  pic_width_in_mbs s = OK (pic_width_in_mbs_minus1 s + 1) /\
  pic_height_in_map_units s = OK (pic_height_in_map_units_minus1 s + 1) /\
  pic_size_in_map_units s = OK (N.min ((pic_width_in_mbs_minus1 s + 1) * (pic_height_in_map_units_minus1 s + 1)) 4294967295) /\
  log2_max_frame_num s = OK (log2_max_frame_num_minus4 s + 4).
Proof.
  intros (_ & _ & _ & _ & _ & Hl & _ & _ & Hw & Hh & _).
  unfold pic_size_in_map_units, pic_width_in_mbs, pic_height_in_map_units, log2_max_frame_num, add32.
  destruct (N.ltb_spec (pic_width_in_mbs_minus1 s + 1) two32) as [_|Hge]; [|unfold two32 in Hge; lia].
  destruct (N.ltb_spec (pic_height_in_map_units_minus1 s + 1) two32) as [_|Hge]; [|unfold two32 in Hge; lia].
  destruct (N.ltb_spec (log2_max_frame_num_minus4 s + 4) 256) as [_|Hge]; [|lia].
  repeat split; reflexivity.
Qed.
