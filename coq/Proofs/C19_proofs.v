(* C19: the parameter-set map is a last-writer-wins map keyed by id. *)
From H264 Require Import Base.Prelude Model.Context Model.Sps Model.Pps.

Section MapFacts.
  Context {T : Type}.
  Implicit Types (m : @psmap T).

  Lemma get_put_same m i t : map_get (map_put m i t) i = Some t.
  Proof.
    unfold map_get, map_put. revert m. induction i as [|i IH]; intros m; destruct m as [|x r]; cbn [set_nth nth_error]; auto.
  Qed.

  Lemma get_put_other m i j t : i <> j -> map_get (map_put m i t) j = map_get m j.
  Proof.
    unfold map_get, map_put. revert m j. induction i as [|i IH]; intros m j Hne; destruct m as [|x r]; destruct j as [|j];
      cbn [set_nth nth_error]; try congruence; try reflexivity.
    - destruct j; reflexivity.
    - rewrite IH by congruence. destruct j; reflexivity.
    - apply IH. congruence.
  Qed.

  (* the most recent value written under key i *)
  Fixpoint last_write (i : nat) (ops : list (nat * T)) : option T :=
    match ops with
    | [] => None
    | (j, t) :: r => match last_write i r with Some x => Some x | None => if Nat.eqb i j then Some t else None end
    end.

  Definition puts (m : @psmap T) (ops : list (nat * T)) : @psmap T :=
    fold_left (fun m op => map_put m (fst op) (snd op)) ops m.

  Lemma get_puts ops : forall m i,
    map_get (puts m ops) i = match last_write i ops with Some t => Some t | None => map_get m i end.
  Proof.
    induction ops as [|[j t] r IH]; intros m i; cbn [puts fold_left last_write fst snd]; [reflexivity|].
    fold (puts (map_put m j t) r). rewrite IH. destruct (last_write i r); [reflexivity|].
    destruct (Nat.eqb_spec i j) as [->|Hne]; [apply get_put_same|apply get_put_other; congruence].
  Qed.

  Lemma get_nil i : map_get (@nil (option T)) i = None.
  Proof. unfold map_get. destruct i; reflexivity. Qed.

  Theorem last_writer_wins ops i : map_get (puts [] ops) i = last_write i ops.
  Proof. rewrite get_puts, get_nil. destruct (last_write i ops); reflexivity. Qed.

  (* iteration: each stored value exactly once, in increasing key order *)
  Fixpoint collect (m : @psmap T) (k : nat) (n : nat) : list T :=
    match n with
    | O => []
    | S n' => match map_get m k with Some t => t :: collect m (S k) n' | None => collect m (S k) n' end
    end.

  Lemma collect_shift x m k n : collect (x :: m) (S k) n = collect m k n.
  Proof. revert k. induction n as [|n IH]; intros k; cbn [collect]; [reflexivity|]. unfold map_get. cbn [nth_error]. rewrite IH. reflexivity. Qed.

  Theorem iter_in_key_order m : map_iter m = collect m 0 (length m).
  Proof.
    induction m as [|x r IH]; [reflexivity|]. cbn [map_iter length collect]. unfold map_get at 1. cbn [nth_error].
    rewrite collect_shift. destruct x; rewrite IH; reflexivity.
  Qed.

  Lemma get_beyond m k : (length m <= k)%nat -> map_get m k = None.
  Proof. intros H. unfold map_get. apply nth_error_None in H. rewrite H. reflexivity. Qed.
End MapFacts.

(* the two stores of a Context do not affect each other, and lookups see the latest definition *)
Lemma sps_put_keeps_pps c s : ctx_pps (put_seq_param_set c s) = ctx_pps c.
Proof. reflexivity. Qed.
Lemma pps_put_keeps_sps c p : ctx_sps (put_pic_param_set c p) = ctx_sps c.
Proof. reflexivity. Qed.
Lemma sps_lookup_after_put c s : sps_by_id (put_seq_param_set c s) (seq_parameter_set_id s) = Some s.
Proof. unfold sps_by_id, put_seq_param_set. cbn [ctx_sps]. apply get_put_same. Qed.
Lemma pps_lookup_after_put c p : pps_by_id (put_pic_param_set c p) (pic_parameter_set_id p) = Some p.
Proof. unfold pps_by_id, put_pic_param_set. cbn [ctx_pps]. apply get_put_same. Qed.
Lemma sps_lookup_other c s id : id <> seq_parameter_set_id s -> sps_by_id (put_seq_param_set c s) id = sps_by_id c id.
Proof. intros H. unfold sps_by_id, put_seq_param_set. cbn [ctx_sps]. apply get_put_other. lia. Qed.
Lemma pps_lookup_other c p id : id <> pic_parameter_set_id p -> pps_by_id (put_pic_param_set c p) id = pps_by_id c id.
Proof. intros H. unfold pps_by_id, put_pic_param_set. cbn [ctx_pps]. apply get_put_other. lia. Qed.
