(* C04 forward direction: the SPS parser model recovers every conforming structure from its encoding. *)
From H264 Require Import Base.Prelude Base.Bits Model.BitReader Model.Parser Model.Sps Spec.Golomb Spec.SyntaxSps
     Proofs.BitsLemmas Proofs.C07_proofs Proofs.Parses Proofs.TablesLib Proofs.C14_proofs.
Local Open Scope N_scope.

Ltac pdone := rewrite <- (app_nil_r _) at 1; idtac.

(* close a Parses goal whose parser is `retE v` and whose bits are [] *)
Ltac pret := apply parses_ret.

(* ---- scaling lists ---- *)
Lemma parses_fill n : forall ds j0 last next ud acc r,
  derive_scaling ds n j0 last next ud acc = Some r ->
  Forall (fun d => (-128 <= d <= 127)%Z) ds ->
  Parses (fill_scaling_list n j0 last next ud acc) (concat (map se ds)) r.
Proof.
  induction n as [|n IH]; intros ds j0 last next ud acc r Hd Hr; cbn [derive_scaling fill_scaling_list] in *.
  - destruct ds; [|discriminate]. injection Hd as <-. apply parses_ret.
  - destruct (next =? 0).
    + apply IH; assumption.
    + destruct ds as [|d ds']; [discriminate|]. inversion Hr as [|x xs Hdr Hrest]; subst.
      cbn [map concat]. eapply parses_bind; [apply parses_se; lia|]. cbv beta.
      assert (Hc : ((d <? -128)%Z || (127 <? d)%Z) = false) by lia. rewrite Hc.
      apply IH; assumption.
Qed.

Lemma parses_scaling_list size present sl :
  sem_scaling_list size present = Some sl ->
  match present with Some ds => Forall (fun d => (-128 <= d <= 127)%Z) ds | None => True end ->
  Parses (bindE (liftE SmReader (read_bool "seq_scaling_list_present_flag")) (fun f => read_scaling_list size f))
         (enc_scaling_list present) sl.
Proof.
  intros Hs Hr. unfold enc_scaling_list, sem_scaling_list in *. destruct present as [ds|].
  - eapply parses_bind; [apply parses_bool|]. cbv beta. unfold read_scaling_list. cbn [negb].
    destruct (derive_scaling ds size true 8 8 false []) as [[udf l]|] eqn:Ed; [|discriminate].
    rewrite <- (app_nil_r (concat (map se ds))). eapply parses_bind; [apply (parses_fill _ _ _ _ _ _ _ _ Ed Hr)|]. cbv beta.
    cbn [fst snd]. destruct udf; injection Hs as <-; apply parses_ret.
  - injection Hs as <-. rewrite <- (app_nil_r (flag false)). eapply parses_bind; [apply parses_bool|]. cbv beta.
    unfold read_scaling_list. cbn [negb]. apply parses_ret.
Qed.

Definition deltas_ok (l : option (list Z)) : Prop :=
  match l with Some ds => Forall (fun d => (-128 <= d <= 127)%Z) ds | None => True end.

Lemma parses_scaling_lists ls : forall i l4 l8 r4 r8,
  Forall deltas_ok ls ->
  map Some r4 = map (sem_scaling_list 16) (firstn (6 - i) ls) ->
  map Some r8 = map (sem_scaling_list 64) (skipn (6 - i) ls) ->
  Parses (read_scaling_lists (length ls) i l4 l8) (concat (map enc_scaling_list ls)) (mk_ssm (l4 ++ r4) (l8 ++ r8)).
Proof.
  induction ls as [|x ls IH]; intros i l4 l8 r4 r8 Hok H4 H8; cbn [length read_scaling_lists map concat].
  - rewrite firstn_nil in H4. rewrite skipn_nil in H8. destruct r4; [|discriminate]. destruct r8; [|discriminate].
    rewrite !app_nil_r. apply parses_ret.
  - inversion Hok as [|y ys Hx Hrest]; subst.
    destruct (Nat.ltb_spec i 6) as [Hi|Hi].
    + replace (6 - i)%nat with (S (6 - S i)) in H4, H8 by lia. cbn [firstn skipn map] in H4, H8.
      destruct r4 as [|a r4']; [discriminate|]. injection H4 as Ha H4.
      pose proof (parses_scaling_list 16 x a (eq_sym Ha) Hx) as Hp.
      (* reassociate the parser: flag <- read_bool; sl <- read_scaling_list 16 flag; ... *)
      intros rest tl. specialize (Hp (concat (map enc_scaling_list ls) ++ rest) tl).
      unfold bindE in *. rewrite <- app_assoc.
      destruct (liftE SmReader (read_bool "seq_scaling_list_present_flag") (mk_src (enc_scaling_list x ++ concat (map enc_scaling_list ls) ++ rest) tl))
        as [[f s1]| | |] eqn:Ef; try discriminate.
      rewrite Hp.
      specialize (IH (S i) (l4 ++ [a]) l8 r4' r8 Hrest H4 H8 rest tl).
      rewrite <- app_assoc in IH. exact IH.
    + replace (6 - i)%nat with 0%nat in H4, H8 by lia. cbn [firstn skipn map] in H4, H8.
      destruct r4; [|discriminate]. destruct r8 as [|a r8']; [discriminate|]. injection H8 as Ha H8.
      pose proof (parses_scaling_list 64 x a (eq_sym Ha) Hx) as Hp.
      intros rest tl. specialize (Hp (concat (map enc_scaling_list ls) ++ rest) tl).
      unfold bindE in *. rewrite <- app_assoc.
      destruct (liftE SmReader (read_bool "seq_scaling_list_present_flag") (mk_src (enc_scaling_list x ++ concat (map enc_scaling_list ls) ++ rest) tl))
        as [[f s1]| | |] eqn:Ef; try discriminate.
      rewrite Hp.
      assert (H4' : map Some (@nil scaling_list) = map (sem_scaling_list 16) (firstn (6 - S i) ls)) by (replace (6 - S i)%nat with 0%nat by lia; reflexivity).
      assert (H8' : map Some r8' = map (sem_scaling_list 64) (skipn (6 - S i) ls)) by (replace (6 - S i)%nat with 0%nat by lia; exact H8).
      specialize (IH (S i) l4 (l8 ++ [a]) [] r8' Hrest H4' H8' rest tl).
      rewrite <- app_assoc in IH. rewrite app_nil_r in *. exact IH.
Qed.

(* ---- VUI pieces ---- *)
Ltac pstep := eapply parses_bind; [pprim|cbv beta].
Ltac pfin := rewrite <- (app_nil_r _) at 1.

Lemma to_bits_u n v : u n v = to_bits n v. Proof. reflexivity. Qed.

Lemma parses_cpb c : u32v (bit_rate_value_minus1 c) -> u32v (cpb_size_value_minus1 c) ->
  Parses cpb_spec_read (ue (bit_rate_value_minus1 c) ++ ue (cpb_size_value_minus1 c) ++ flag (cbr_flag c)) c.
Proof.
  intros H1 H2. unfold cpb_spec_read, u32v in *.
  eapply parses_bind; [apply parses_ue; lia|]. cbv beta.
  eapply parses_bind; [apply parses_ue; lia|]. cbv beta.
  rewrite <- (app_nil_r (flag _)). eapply parses_bind; [apply parses_bool|]. cbv beta.
  destruct c. apply parses_ret.
Qed.

Lemma parses_hrd h : wf_hrd h -> Parses hrd_parameters_read (flag true ++ enc_hrd h) (Some h).
Proof.
  intros (Hlen & Hbrs & Hcss & Hspecs & Ha & Hb & Hc & Hd). unfold hrd_parameters_read, enc_hrd.
  eapply parses_bind; [apply parses_bool|]. cbv beta.
  eapply parses_bind; [apply parses_ue; lia|]. cbv beta.
  destruct (N.ltb_spec 31 (N.of_nat (length (cpb_specs h)) - 1)); [lia|].
  eapply parses_bind; [apply parses_u; [lia|exact Hbrs]|]. cbv beta.
  eapply parses_bind; [apply parses_u; [lia|exact Hcss]|]. cbv beta.
  replace (N.to_nat (N.of_nat (length (cpb_specs h)) - 1 + 1)) with (length (cpb_specs h)) by lia.
  eapply parses_bind.
  { apply (parses_repE cpb_spec_read (fun c => ue (bit_rate_value_minus1 c) ++ ue (cpb_size_value_minus1 c) ++ flag (cbr_flag c))).
    eapply Forall_impl; [|exact Hspecs]. intros c [H1 H2]. apply parses_cpb; assumption. }
  cbv beta.
  eapply parses_bind; [apply parses_u; [lia|exact Ha]|]. cbv beta.
  eapply parses_bind; [apply parses_u; [lia|exact Hb]|]. cbv beta.
  eapply parses_bind; [apply parses_u; [lia|exact Hc]|]. cbv beta.
  rewrite <- (app_nil_r (u 5 _)). eapply parses_bind; [apply parses_u; [lia|exact Hd]|]. cbv beta.
  destruct h. apply parses_ret.
Qed.

Lemma parses_hrd_opt o : match o with Some h => wf_hrd h | None => True end ->
  Parses hrd_parameters_read (enc_opt enc_hrd o) o.
Proof.
  intros H. destruct o as [h|]; cbn [enc_opt].
  - apply parses_hrd. exact H.
  - unfold hrd_parameters_read. rewrite <- (app_nil_r (flag false)). eapply parses_bind; [apply parses_bool|]. cbv beta. apply parses_ret.
Qed.

Lemma parses_aspect o : match o with Some a => wf_aspect a | None => True end ->
  Parses aspect_ratio_info_read (enc_opt enc_aspect o) o.
Proof.
  intros H. unfold aspect_ratio_info_read. destruct o as [a|]; cbn [enc_opt].
  - eapply parses_bind; [apply parses_bool|]. cbv beta. destruct a as [|idc|n|w hh]; cbn [enc_aspect wf_aspect] in *.
    + rewrite <- (app_nil_r (u 8 0)). eapply parses_bind; [apply parses_u; [lia|cbn; lia]|]. cbv beta. apply parses_ret.
    + rewrite <- (app_nil_r (u 8 idc)). eapply parses_bind; [apply parses_u; [lia|change (2 ^ 8) with 256; lia]|]. cbv beta.
      destruct (N.eqb_spec idc 0); [lia|]. destruct (N.leb_spec idc 16); [|lia]. apply parses_ret.
    + rewrite <- (app_nil_r (u 8 n)). eapply parses_bind; [apply parses_u; [lia|change (2 ^ 8) with 256; lia]|]. cbv beta.
      destruct (N.eqb_spec n 0); [lia|]. destruct (N.leb_spec n 16); [lia|]. destruct (N.eqb_spec n 255); [lia|]. apply parses_ret.
    + destruct H as [Hw Hh]. eapply parses_bind; [apply parses_u; [lia|cbn; lia]|]. cbv beta.
      change (255 =? 0) with false. change (255 <=? 16) with false. change (255 =? 255) with true. cbv iota.
      eapply parses_bind; [apply parses_u; [lia|exact Hw]|]. cbv beta.
      rewrite <- (app_nil_r (u 16 hh)). eapply parses_bind; [apply parses_u; [lia|exact Hh]|]. cbv beta. apply parses_ret.
  - rewrite <- (app_nil_r (flag false)). eapply parses_bind; [apply parses_bool|]. cbv beta. apply parses_ret.
Qed.

Lemma parses_overscan o : Parses overscan_appropriate_read
  (match o with OvUnspecified => flag false | OvAppropriate => flag true ++ flag true | OvInappropriate => flag true ++ flag false end) o.
Proof.
  unfold overscan_appropriate_read. destruct o.
  - rewrite <- (app_nil_r (flag false)). eapply parses_bind; [apply parses_bool|]. cbv beta. apply parses_ret.
  - eapply parses_bind; [apply parses_bool|]. cbv beta. rewrite <- (app_nil_r (flag true)). eapply parses_bind; [apply parses_bool|]. cbv beta. apply parses_ret.
  - eapply parses_bind; [apply parses_bool|]. cbv beta. rewrite <- (app_nil_r (flag false)). eapply parses_bind; [apply parses_bool|]. cbv beta. apply parses_ret.
Qed.

Lemma parses_vst o :
  match o with
  | Some x => video_format x < 8 /\ match colour_description_ x with
                                    | Some c => colour_primaries c < 256 /\ transfer_characteristics c < 256 /\ matrix_coefficients c < 256
                                    | None => True end
  | None => True end ->
  Parses video_signal_type_read
    (enc_opt (fun x => u 3 (video_format x) ++ flag (video_full_range_flag x) ++
                enc_opt (fun c => u 8 (colour_primaries c) ++ u 8 (transfer_characteristics c) ++ u 8 (matrix_coefficients c))
                        (colour_description_ x)) o) o.
Proof.
  intros H. unfold video_signal_type_read. destruct o as [x|]; cbn [enc_opt].
  - destruct H as [Hvf Hcd]. eapply parses_bind; [apply parses_bool|]. cbv beta.
    eapply parses_bind; [apply parses_u; [lia|exact Hvf]|]. cbv beta.
    eapply parses_bind; [apply parses_bool|]. cbv beta.
    destruct x as [vf fr cd]. cbn [colour_description_ video_format video_full_range_flag] in *.
    destruct cd as [c|]; cbn [enc_opt].
    + destruct Hcd as (H1 & H2 & H3). eapply parses_bind; [apply parses_bool|]. cbv beta.
      rewrite <- (app_nil_r (u 8 (colour_primaries c) ++ _)).
      eapply parses_bind.
      { eapply parses_bind; [apply parses_u; [lia|exact H1]|]. cbv beta.
        eapply parses_bind; [apply parses_u; [lia|exact H2]|]. cbv beta.
        rewrite <- (app_nil_r (u 8 (matrix_coefficients c))). eapply parses_bind; [apply parses_u; [lia|exact H3]|]. cbv beta.
        apply parses_ret. }
      cbv beta. destruct c. apply parses_ret.
    + rewrite <- (app_nil_r (flag false)). eapply parses_bind; [apply parses_bool|]. cbv beta.
      rewrite <- (app_nil_r []). eapply parses_bind; [apply parses_ret|]. cbv beta. apply parses_ret.
  - rewrite <- (app_nil_r (flag false)). eapply parses_bind; [apply parses_bool|]. cbv beta. apply parses_ret.
Qed.

Lemma parses_chroma_loc o :
  match o with Some c => u32v (chroma_sample_loc_type_top_field c) /\ u32v (chroma_sample_loc_type_bottom_field c) | None => True end ->
  Parses chroma_loc_info_read
    (enc_opt (fun c => ue (chroma_sample_loc_type_top_field c) ++ ue (chroma_sample_loc_type_bottom_field c)) o) o.
Proof.
  intros H. unfold chroma_loc_info_read, u32v in *. destruct o as [c|]; cbn [enc_opt].
  - destruct H as [H1 H2]. eapply parses_bind; [apply parses_bool|]. cbv beta.
    eapply parses_bind; [apply parses_ue; lia|]. cbv beta.
    rewrite <- (app_nil_r (ue _)). eapply parses_bind; [apply parses_ue; lia|]. cbv beta. destruct c. apply parses_ret.
  - rewrite <- (app_nil_r (flag false)). eapply parses_bind; [apply parses_bool|]. cbv beta. apply parses_ret.
Qed.

Lemma parses_timing o :
  match o with Some t => num_units_in_tick t < 4294967296 /\ time_scale t < 4294967296 | None => True end ->
  Parses timing_info_read
    (enc_opt (fun t => u 32 (num_units_in_tick t) ++ u 32 (time_scale t) ++ flag (fixed_frame_rate_flag t)) o) o.
Proof.
  intros H. unfold timing_info_read. destruct o as [t|]; cbn [enc_opt].
  - destruct H as [H1 H2]. eapply parses_bind; [apply parses_bool|]. cbv beta.
    eapply parses_bind; [apply parses_u; [lia|exact H1]|]. cbv beta.
    eapply parses_bind; [apply parses_u; [lia|exact H2]|]. cbv beta.
    rewrite <- (app_nil_r (flag _)). eapply parses_bind; [apply parses_bool|]. cbv beta. destruct t. apply parses_ret.
  - rewrite <- (app_nil_r (flag false)). eapply parses_bind; [apply parses_bool|]. cbv beta. apply parses_ret.
Qed.

Lemma parses_restrictions mr o :
  match o with
  | Some b => max_bytes_per_pic_denom b <= 16 /\ max_bits_per_mb_denom b <= 16 /\
              log2_max_mv_length_horizontal b <= 16 /\ log2_max_mv_length_vertical b <= 16 /\
              max_num_reorder_frames b <= max_dec_frame_buffering b /\ mr <= max_dec_frame_buffering b /\
              u32v (max_dec_frame_buffering b)
  | None => True end ->
  Parses (bitstream_restrictions_read mr)
    (enc_opt (fun b => flag (motion_vectors_over_pic_boundaries_flag b) ++ ue (max_bytes_per_pic_denom b) ++
                    ue (max_bits_per_mb_denom b) ++ ue (log2_max_mv_length_horizontal b) ++ ue (log2_max_mv_length_vertical b) ++
                    ue (max_num_reorder_frames b) ++ ue (max_dec_frame_buffering b)) o) o.
Proof.
  intros H. unfold bitstream_restrictions_read, u32v in *. destruct o as [b|]; cbn [enc_opt].
  - destruct H as (H1 & H2 & H3 & H4 & H5 & H6 & H7).
    eapply parses_bind; [apply parses_bool|]. cbv beta.
    eapply parses_bind; [apply parses_bool|]. cbv beta.
    eapply parses_bind; [apply parses_ue; lia|]. cbv beta. destruct (N.ltb_spec 16 (max_bytes_per_pic_denom b)); [lia|].
    eapply parses_bind; [apply parses_ue; lia|]. cbv beta. destruct (N.ltb_spec 16 (max_bits_per_mb_denom b)); [lia|].
    eapply parses_bind; [apply parses_ue; lia|]. cbv beta. destruct (N.ltb_spec 16 (log2_max_mv_length_horizontal b)); [lia|].
    eapply parses_bind; [apply parses_ue; lia|]. cbv beta. destruct (N.ltb_spec 16 (log2_max_mv_length_vertical b)); [lia|].
    eapply parses_bind; [apply parses_ue; lia|]. cbv beta.
    rewrite <- (app_nil_r (ue (max_dec_frame_buffering b))). eapply parses_bind; [apply parses_ue; lia|]. cbv beta.
    destruct (N.ltb_spec (max_dec_frame_buffering b) (max_num_reorder_frames b)); [lia|].
    destruct (N.ltb_spec (max_dec_frame_buffering b) mr); [lia|].
    destruct b. apply parses_ret.
  - rewrite <- (app_nil_r (flag false)). eapply parses_bind; [apply parses_bool|]. cbv beta. apply parses_ret.
Qed.

Lemma parses_vui mr o : match o with Some v => wf_vui mr v | None => True end ->
  Parses (vui_parameters_read mr) (enc_opt enc_vui o) o.
Proof.
  intros H. unfold vui_parameters_read. destruct o as [v|]; cbn [enc_opt].
  - destruct H as (Har & Hvs & Hcl & Hti & Hnal & Hvcl & Hld & Hbr). unfold enc_vui.
    eapply parses_bind; [apply parses_bool|]. cbv beta.
    eapply parses_bind; [apply parses_aspect; exact Har|]. cbv beta.
    eapply parses_bind; [apply parses_overscan|]. cbv beta.
    eapply parses_bind; [apply parses_vst; exact Hvs|]. cbv beta.
    eapply parses_bind; [apply parses_chroma_loc; exact Hcl|]. cbv beta.
    eapply parses_bind; [apply parses_timing; exact Hti|]. cbv beta.
    eapply parses_bind; [apply parses_hrd_opt; exact Hnal|]. cbv beta.
    eapply parses_bind; [apply parses_hrd_opt; exact Hvcl|]. cbv beta.
    eapply parses_bind.
    { instantiate (1 := low_delay_hrd_flag v).
      destruct (is_some (nal_hrd_parameters v) || is_some (vcl_hrd_parameters v)); destruct (low_delay_hrd_flag v) as [b|]; try discriminate.
      - rewrite <- (app_nil_r (flag b)). eapply parses_bind; [apply parses_bool|]. cbv beta. apply parses_ret.
      - apply parses_ret. }
    cbv beta.
    eapply parses_bind; [apply parses_bool|]. cbv beta.
    rewrite <- (app_nil_r (enc_opt _ (bitstream_restrictions_ v))).
    eapply parses_bind; [apply parses_restrictions; exact Hbr|]. cbv beta.
    destruct v. apply parses_ret.
  - rewrite <- (app_nil_r (flag false)). eapply parses_bind; [apply parses_bool|]. cbv beta. apply parses_ret.
Qed.

Lemma parses_poc p : wf_poc p -> Parses pic_order_cnt_read (enc_poc p) p.
Proof.
  intros H. unfold pic_order_cnt_read. destruct p as [l|az nr tb offs|]; cbn [enc_poc wf_poc] in *.
  - eapply parses_bind; [apply parses_ue; lia|]. cbv beta iota.
    rewrite <- (app_nil_r (ue l)). eapply parses_bind; [apply parses_ue; lia|]. cbv beta.
    destruct (N.ltb_spec 12 l); [lia|]. apply parses_ret.
  - destruct H as (Hnr & Htb & Hlen & Hoffs). unfold s32v in *.
    eapply parses_bind; [apply parses_ue; lia|]. cbv beta iota.
    eapply parses_bind; [apply parses_bool|]. cbv beta.
    eapply parses_bind; [apply parses_se; lia|]. cbv beta.
    eapply parses_bind; [apply parses_se; lia|]. cbv beta.
    eapply parses_bind; [apply parses_ue; lia|]. cbv beta.
    destruct (N.ltb_spec 255 (N.of_nat (length offs))); [lia|].
    rewrite Nnat.Nat2N.id. rewrite <- (app_nil_r (concat (map se offs))).
    eapply parses_bind.
    { apply (parses_repE _ se). eapply Forall_impl; [|exact Hoffs]. intros z Hz. apply parses_se. exact Hz. }
    cbv beta. apply parses_ret.
  - rewrite <- (app_nil_r (ue 2)). eapply parses_bind; [apply parses_ue; lia|]. cbv beta iota. apply parses_ret.
Qed.

Lemma spec_has_chroma_info_sweep :
  forallb (fun p => Bool.eqb (spec_has_chroma_info p) (has_chroma_info p)) (Proofs.TablesLib.range 256) = true.
Proof. vm_compute. reflexivity. Qed.

Lemma spec_has_chroma_info_eq p : p < 256 -> spec_has_chroma_info p = has_chroma_info p.
Proof.
  intros Hp. pose proof (Proofs.TablesLib.forall_range _ 256 spec_has_chroma_info_sweep p Hp) as H.
  apply Bool.eqb_prop in H. exact H.
Qed.

Lemma parses_bit_depth v : v <= 6 -> Parses read_bit_depth_minus8 (ue v) v.
Proof.
  intros H. unfold read_bit_depth_minus8. rewrite <- (app_nil_r (ue v)).
  eapply parses_bind; [apply parses_ue; lia|]. cbv beta. destruct (N.ltb_spec 6 v); [lia|]. apply parses_ret.
Qed.

Lemma chroma_idc_roundtrip cf : cf = chroma_format_of_idc (idc_of_chroma_format cf) -> True.
Proof. auto. Qed.

Lemma parses_chroma_info x lists : wf_sps x lists ->
  Parses (chroma_info_read (profile_idc x))
    (if spec_has_chroma_info (profile_idc x) then
       let ci := chroma_info_ x in
       let idc := idc_of_chroma_format (chroma_format_ ci) in
       ue idc ++ (if idc =? 3 then flag (separate_colour_plane_flag ci) else []) ++
       ue (bit_depth_luma_minus8 ci) ++ ue (bit_depth_chroma_minus8 ci) ++ flag (qpprime_y_zero_transform_bypass_flag ci) ++
       match lists with
       | Some ls => flag true ++ concat (map enc_scaling_list ls)
       | None => flag false
       end
     else []) (chroma_info_ x).
Proof.
  intros (Hp & _ & _ & _ & Hci & _). unfold chroma_info_read. rewrite <- (spec_has_chroma_info_eq _ Hp).
  destruct (spec_has_chroma_info (profile_idc x)).
  - destruct Hci as (Hidc & Hcf & Hsep & Hbl & Hbc & Hlists). cbv zeta.
    set (ci := chroma_info_ x) in *. set (idc := idc_of_chroma_format (chroma_format_ ci)) in *.
    eapply parses_bind; [apply parses_ue; lia|]. cbv beta.
    eapply parses_bind.
    { instantiate (1 := separate_colour_plane_flag ci). destruct (N.eqb_spec idc 3) as [E3|E3].
      - rewrite <- (app_nil_r (flag _)). apply parses_cast with (b1 := [separate_colour_plane_flag ci]); [rewrite app_nil_r; reflexivity|].
        apply parses_bool.
      - destruct (separate_colour_plane_flag ci) eqn:Es.
        + exfalso. specialize (Hsep eq_refl). unfold idc in E3. rewrite Hsep in E3. apply E3. reflexivity.
        + apply parses_ret. }
    cbv beta.
    eapply parses_bind; [apply parses_bit_depth; exact Hbl|]. cbv beta.
    eapply parses_bind; [apply parses_bit_depth; exact Hbc|]. cbv beta.
    eapply parses_bind; [apply parses_bool|]. cbv beta.
    unfold read_scaling_matrix.
    destruct lists as [ls|].
    + destruct Hlists as (Hlen & Hrange & l4 & l8 & Hsm & H4 & H8).
      rewrite <- (app_nil_r (flag true ++ _)).
      eapply parses_bind.
      { eapply parses_bind; [apply parses_bool|]. cbv beta.
        rewrite <- (app_nil_r (concat _)). eapply parses_bind.
        { apply parses_mapE. unfold seq_scaling_matrix_read. fold idc. rewrite <- Hlen.
          apply (parses_scaling_lists ls 0 [] [] l4 l8); [exact Hrange|exact H4|exact H8]. }
        cbv beta. apply parses_ret. }
      cbv beta. cbn [app].
      match goal with |- Parses (retE ?r) [] ?c => assert (Hr : r = c); [|rewrite Hr; apply parses_ret] end.
      rewrite <- Hcf, <- Hsm. subst idc ci. destruct (chroma_info_ x); reflexivity.
    + rewrite <- (app_nil_r (flag false)).
      eapply parses_bind.
      { rewrite <- (app_nil_r (flag false)). eapply parses_bind; [apply parses_bool|]. cbv beta. apply parses_ret. }
      cbv beta.
      match goal with |- Parses (retE ?r) [] ?c => assert (Hr : r = c); [|rewrite Hr; apply parses_ret] end.
      rewrite <- Hcf, <- Hlists. subst idc ci. destruct (chroma_info_ x); reflexivity.
  - destruct Hci as [-> _]. apply parses_ret.
Qed.

Lemma parses_frame_mbs f : Parses frame_mbs_flags_read
  (match f with Frames => flag true | Fields m => flag false ++ flag m end) f.
Proof.
  unfold frame_mbs_flags_read. destruct f as [|m].
  - rewrite <- (app_nil_r (flag true)). eapply parses_bind; [apply parses_bool|]. cbv beta. apply parses_ret.
  - eapply parses_bind; [apply parses_bool|]. cbv beta. rewrite <- (app_nil_r (flag m)).
    eapply parses_bind; [apply parses_bool|]. cbv beta. apply parses_ret.
Qed.

Lemma parses_cropping o :
  match o with Some c => u32v (left_offset c) /\ u32v (right_offset c) /\ u32v (top_offset c) /\ u32v (bottom_offset c) | None => True end ->
  Parses frame_cropping_read
    (enc_opt (fun c => ue (left_offset c) ++ ue (right_offset c) ++ ue (top_offset c) ++ ue (bottom_offset c)) o) o.
Proof.
  intros H. unfold frame_cropping_read, u32v in *. destruct o as [c|]; cbn [enc_opt].
  - destruct H as (H1 & H2 & H3 & H4). eapply parses_bind; [apply parses_bool|]. cbv beta.
    eapply parses_bind; [apply parses_ue; lia|]. cbv beta.
    eapply parses_bind; [apply parses_ue; lia|]. cbv beta.
    eapply parses_bind; [apply parses_ue; lia|]. cbv beta.
    rewrite <- (app_nil_r (ue _)). eapply parses_bind; [apply parses_ue; lia|]. cbv beta. destruct c. apply parses_ret.
  - rewrite <- (app_nil_r (flag false)). eapply parses_bind; [apply parses_bool|]. cbv beta. apply parses_ret.
Qed.

Theorem parses_sps_body x lists : wf_sps x lists -> Parses sps_body (enc_sps x lists) x.
Proof.
  intros Hwf. pose proof Hwf as (Hp & Hc & Hl & Hid & Hci & Hl2 & Hpoc & Hmr & Hw & Hh & Hcrop & Hvui).
  unfold sps_body, enc_sps, u32v in *.
  eapply parses_bind; [apply parses_u; [lia|exact Hp]|]. cbv beta.
  eapply parses_bind; [apply parses_u; [lia|exact Hc]|]. cbv beta.
  eapply parses_bind; [apply parses_u; [lia|exact Hl]|]. cbv beta.
  eapply parses_bind; [apply parses_ue; lia|]. cbv beta.
  unfold seq_param_set_id_from_u32. destruct (N.ltb_spec 31 (seq_parameter_set_id x)); [lia|].
  eapply parses_bind; [apply (parses_chroma_info x lists Hwf)|]. cbv beta.
  eapply parses_bind; [apply parses_ue; lia|]. cbv beta.
  destruct (N.ltb_spec 12 (log2_max_frame_num_minus4 x)); [lia|].
  eapply parses_bind; [apply parses_mapE; apply parses_poc; exact Hpoc|]. cbv beta.
  eapply parses_bind; [apply parses_ue; lia|]. cbv beta.
  eapply parses_bind; [apply parses_bool|]. cbv beta.
  eapply parses_bind; [apply parses_ue; lia|]. cbv beta.
  eapply parses_bind; [apply parses_ue; lia|]. cbv beta.
  eapply parses_bind; [apply parses_frame_mbs|]. cbv beta.
  eapply parses_bind; [apply parses_bool|]. cbv beta.
  eapply parses_bind; [apply parses_cropping; exact Hcrop|]. cbv beta.
  rewrite <- (app_nil_r (enc_opt enc_vui _)).
  eapply parses_bind; [apply parses_vui; exact Hvui|]. cbv beta.
  destruct x. apply parses_ret.
Qed.

(* the whole NAL payload: structure + rbsp trailing bits (any number of trailing zero bits) *)
Theorem sps_roundtrip x lists k : wf_sps x lists ->
  sps_from_bits (mk_src (enc_sps x lists ++ trailing_bits k) TEof) = OK x.
Proof.
  intros Hwf. unfold sps_from_bits. rewrite (parses_sps_body x lists Hwf (trailing_bits k) TEof).
  unfold finish_rbsp, trailing_bits. cbn [bits tail].
  assert (Hu : unary1 (repeat false k) 0 = None) by (apply unary1_none; rewrite repeat_length; reflexivity).
  rewrite Hu. reflexivity.
Qed.

(* exactly up to the trailing bits: anything else after the structure is refused *)
Theorem sps_exact_consumption x lists t : wf_sps x lists ->
  (sps_from_bits (mk_src (enc_sps x lists ++ t) TEof) = OK x <-> exists k, t = trailing_bits k).
Proof.
  intros Hwf. unfold sps_from_bits. rewrite (parses_sps_body x lists Hwf t TEof).
  pose proof (Proofs.C14_proofs.finish_rbsp_ok_iff (mk_src t TEof) eq_refl) as H. cbn [bits] in H.
  split.
  - intros Hok. destruct (finish_rbsp (mk_src t TEof)) as [[]| | |] eqn:E; try discriminate. apply H. reflexivity.
  - intros Hk. apply H in Hk. rewrite Hk. reflexivity.
Qed.
