(* Histories of read / fill_buf / consume on the ByteReader model, the drain loop and decode_nal. *)
From H264 Require Import Base.Prelude Spec.Escape Model.RefNal Model.Rbsp Proofs.C15_proofs Proofs.RbspSem Proofs.RbspScan Proofs.RbspReader.
Local Open Scope N_scope.

Lemma uout_len raw : forall s, (length (fst (uout s raw)) <= length raw)%nat.
Proof.
  induction raw as [|b r IH]; intros s; [cbn; lia|]. cbn [uout].
  destruct s; repeat match goal with |- context [if ?c then _ else _] => destruct c end; try (cbn; lia);
  match goal with |- context [uout ?s' r] => pose proof (IH s'); destruct (uout s' r) end; cbn [fst length] in *; lia.
Qed.

Lemma uout_full raw : forall s, length (fst (uout s raw)) = length raw -> uout s raw = (raw, true).
Proof.
  induction raw as [|b r IH]; intros s H; [reflexivity|]. cbn [uout] in *.
  destruct s; repeat match goal with |- context [if ?c then _ else _] => destruct c end;
  try (cbn in H; discriminate);
  match goal with |- context [uout ?s' r] => pose proof (IH s') as IH'; pose proof (uout_len r s'); destruct (uout s' r) end;
  cbn [fst length] in *; try lia; (assert (IH2 : (l, b0) = (r, true)) by (apply IH'; lia)); inversion IH2; reflexivity.
Qed.

Lemma meaning_len r : binv r -> (length (fst (meaning r)) <= length (raw_of r))%nat.
Proof.
  intros _. unfold meaning. pose proof (uout_len (skipn (idx r) (raw_of r)) (st r)) as H.
  destruct (uout (st r) (skipn (idx r) (raw_of r))) as [o ok]. cbn [fst] in *.
  rewrite app_length, firstn_length. rewrite skipn_length in H. lia.
Qed.

Lemma meaning_at_end r : raw_of r = [] -> meaning r = ([], true).
Proof. intros H. unfold meaning. rewrite H. destruct (idx r); reflexivity. Qed.

Lemma meaning_prefix r : binv r -> exists t, fst (meaning r) = firstn (idx r) (cur (inner r)) ++ t.
Proof.
  intros (_ & Hidx & _). unfold meaning. rewrite firstn_raw_cur by exact Hidx.
  destruct (uout _ _) as [o ok]. exists o. reflexivity.
Qed.

(* ---- Read::read ---- *)
Inductive read_outcome (r : br) (n : nat) : out iokind (list byte) * br -> Prop :=
| rd_data b r' : binv r' -> complete (inner r') = complete (inner r) ->
    fst (meaning r) = b ++ fst (meaning r') -> snd (meaning r') = snd (meaning r) ->
    (length b <= n)%nat -> (b = [] -> n = 0%nat \/ (complete (inner r) = true /\ meaning r = ([], true))) ->
    read_outcome r n (OK b, r')
| rd_block r' : binv r' -> meaning r' = meaning r -> complete (inner r) = false -> meaning r = ([], true) ->
    complete (inner r') = complete (inner r) -> read_outcome r n (ERR WouldBlock, r')
| rd_invalid r' : binv r' -> meaning r' = meaning r -> snd (meaning r) = false -> complete (inner r') = complete (inner r) ->
    read_outcome r n (ERR InvalidData, r').

Lemma br_read_spec r n : binv r -> read_outcome r n (br_read r n).
Proof.
  intros Hb. unfold br_read. pose proof (br_fill_buf_spec r Hb) as Hf.
  destruct Hf as [b r' Hb' Hm Hc Hbdef Hlen Hne|r' Hb' Hm Hc Hct Hraw Hi|r' Hb' Hm Hc Hcf Hraw Hi|r' Hb' Hm Hs Hu Hc].
  - destruct (br_consume_spec r' (Nat.min n (length b)) Hb') as (r2 & Hcs & Hb2 & Hc2 & Hi2 & Hfst & Hsnd & _); [lia|].
    rewrite Hcs. apply rd_data; try assumption.
    + congruence.
    + rewrite <- Hm, Hfst, Hbdef. rewrite firstn_firstn. f_equal. f_equal. rewrite firstn_length. lia.
    + congruence.
    + rewrite firstn_length. lia.
    + intros E. left. destruct b as [|b0 bt]; [contradiction|]. destruct n; [reflexivity|]. cbn in E. discriminate.
  - destruct (br_consume_spec r' (Nat.min n (length (@nil byte))) Hb') as (r2 & Hcs & Hb2 & Hc2 & Hi2 & Hfst & Hsnd & _); [cbn [length]; lia|].
    rewrite Hcs. cbn [length] in *. rewrite Nat.min_0_r in *. cbn [firstn] in *.
    assert (Hmr : meaning r = ([], true)) by (rewrite <- Hm; apply meaning_at_end; exact Hraw).
    apply rd_data; try assumption.
    + congruence.
    + rewrite <- Hm, Hfst. reflexivity.
    + congruence.
    + cbn. lia.
    + intros _. right. split; [|exact Hmr].
      congruence.
  - apply rd_block; try assumption.
    + congruence.
    + rewrite <- Hm. apply meaning_at_end. exact Hraw.
  - apply rd_invalid; assumption.
Qed.

(* ---- histories ---- *)
Inductive bop := BFill | BConsume (k : nat) | BRead (n : nat).

(* Runs a history until its first error; `acc` collects the bytes handed over for good (read results and
   consumed prefixes of the fill_buf window).  consume k is clamped to the window, which is the BufRead
   contract (the harness drives the crate the same way). *)
Fixpoint brun (r : br) (ops : list bop) (acc : list byte) : list byte * out iokind unit * br :=
  match ops with
  | [] => (acc, OK tt, r)
  | BFill :: t =>
      match br_fill_buf r with
      | (OK _, r') => brun r' t acc
      | (ERR e, r') => (acc, ERR e, r') | (PANIC w, r') => (acc, PANIC w, r') | (FUEL, r') => (acc, FUEL, r')
      end
  | BConsume k :: t =>
      let a := Nat.min k (idx r) in
      match br_consume r a with
      | OK r' => brun r' t (acc ++ firstn a (cur (inner r)))
      | ERR e => (acc, ERR e, r) | PANIC w => (acc, PANIC w, r) | FUEL => (acc, FUEL, r)
      end
  | BRead n :: t =>
      match br_read r n with
      | (OK b, r') => brun r' t (acc ++ b)
      | (ERR e, r') => (acc, ERR e, r') | (PANIC w, r') => (acc, PANIC w, r') | (FUEL, r') => (acc, FUEL, r')
      end
  end.

Definition hist_ok (r : br) (acc : list byte) (res : list byte * out iokind unit * br) : Prop :=
  let '(d, o, r') := res in
  binv r' /\ complete (inner r') = complete (inner r) /\
  exists dl, d = acc ++ dl /\ fst (meaning r) = dl ++ fst (meaning r') /\ snd (meaning r') = snd (meaning r) /\
  match o with
  | OK _ => True
  | ERR InvalidData => snd (meaning r) = false
  | ERR WouldBlock => complete (inner r) = false /\ meaning r' = ([], true)
  | _ => False
  end.

Lemma brun_spec ops : forall r acc, binv r -> hist_ok r acc (brun r ops acc).
Proof.
  induction ops as [|o t IH]; intros r acc Hb.
  - cbn [brun hist_ok]. split; [exact Hb|]. split; [reflexivity|]. exists []. rewrite app_nil_r. repeat split.
  - destruct o as [|k|n]; cbn [brun].
    + pose proof (br_fill_buf_spec r Hb) as Hf.
      destruct Hf as [b r' Hb' Hm Hc Hbdef Hlen Hne|r' Hb' Hm Hc Hct Hraw Hi|r' Hb' Hm Hc Hcf Hraw Hi|r' Hb' Hm Hs Hu Hc].
      * specialize (IH r' acc Hb'). unfold hist_ok in *. destruct (brun r' t acc) as [[d o] r2].
        rewrite <- Hm, <- Hc. exact IH.
      * specialize (IH r' acc Hb'). unfold hist_ok in *. destruct (brun r' t acc) as [[d o] r2].
        rewrite <- Hm, <- Hc. exact IH.
      * cbn [hist_ok]. split; [exact Hb'|]. split; [exact Hc|]. exists []. rewrite app_nil_r, Hm. repeat split.
        -- congruence.
        -- rewrite <- Hm. apply meaning_at_end. exact Hraw.
      * cbn [hist_ok]. split; [exact Hb'|]. split; [exact Hc|]. exists []. rewrite app_nil_r, Hm. repeat split. exact Hs.
    + destruct (br_consume_spec r (Nat.min k (idx r)) Hb) as (r2 & Hcs & Hb2 & Hc2 & Hi2 & Hfst & Hsnd & _); [lia|].
      rewrite Hcs. specialize (IH r2 (acc ++ firstn (Nat.min k (idx r)) (cur (inner r))) Hb2).
      unfold hist_ok in *. destruct (brun r2 t _) as [[d o] r3].
      destruct IH as (Hb3 & Hc3 & dl & Hd & Hf3 & Hs3 & Ho). split; [exact Hb3|]. split; [congruence|].
      exists (firstn (Nat.min k (idx r)) (cur (inner r)) ++ dl). rewrite Hd, <- app_assoc. split; [reflexivity|].
      rewrite Hfst, Hf3, <- app_assoc. split; [reflexivity|]. split; [congruence|].
      destruct o as [u|e|w|]; try exact Ho. destruct e; try exact Ho; rewrite <- ?Hsnd, <- ?Hc2; exact Ho.
    + pose proof (br_read_spec r n Hb) as Hr.
      destruct Hr as [b r' Hb' Hc Hfst Hsnd Hlen Hemp|r' Hb' Hm Hcf Hmr Hc|r' Hb' Hm Hs Hc].
      * specialize (IH r' (acc ++ b) Hb'). unfold hist_ok in *. destruct (brun r' t _) as [[d o] r3].
        destruct IH as (Hb3 & Hc3 & dl & Hd & Hf3 & Hs3 & Ho). split; [exact Hb3|]. split; [congruence|].
        exists (b ++ dl). rewrite Hd, <- app_assoc. split; [reflexivity|].
        rewrite Hfst, Hf3, <- app_assoc. split; [reflexivity|]. split; [congruence|].
        destruct o as [u|e|w|]; try exact Ho. destruct e; try exact Ho; rewrite <- ?Hsnd, <- ?Hc; exact Ho.
      * cbn [hist_ok]. split; [exact Hb'|]. split; [exact Hc|]. exists []. rewrite app_nil_r, Hm. repeat split.
        -- exact Hcf.
        -- congruence.
      * cbn [hist_ok]. split; [exact Hb'|]. split; [exact Hc|]. exists []. rewrite app_nil_r, Hm. repeat split. exact Hs.
Qed.

(* ---- the drain loop (read_to_end and every bit reader built on the ByteReader) ---- *)
Definition drain_ok (r : br) (acc : list byte) (res : list byte * term * br) : Prop :=
  let '(d, t, r') := res in
  exists dl, d = acc ++ dl /\
  match t with
  | TermEof => complete (inner r) = true /\ meaning r = (dl, true)
  | TermErr WouldBlock => complete (inner r) = false /\ meaning r = (dl, true)
  | TermErr InvalidData => snd (meaning r) = false /\ exists rest, fst (meaning r) = dl ++ rest
  | _ => False
  end.

Lemma drain_loop_spec fuel : forall r acc, binv r -> (length (fst (meaning r)) < fuel)%nat ->
  drain_ok r acc (br_drain_loop fuel r acc).
Proof.
  induction fuel as [|f IH]; intros r acc Hb Hf; [lia|]. cbn [br_drain_loop].
  pose proof (br_fill_buf_spec r Hb) as Hfb.
  destruct Hfb as [b r' Hb' Hm Hc Hbdef Hlen Hne|r' Hb' Hm Hc Hct Hraw Hi|r' Hb' Hm Hc Hcf Hraw Hi|r' Hb' Hm Hs Hu Hc].
  - destruct b as [|b0 bt]; [contradiction|].
    destruct (br_consume_spec r' (length (b0 :: bt)) Hb') as (r2 & Hcs & Hb2 & Hc2 & Hi2 & Hfst & Hsnd & _); [lia|].
    rewrite Hcs.
    assert (Hfb : firstn (length (b0 :: bt)) (cur (inner r')) = b0 :: bt) by (rewrite Hlen; symmetry; exact Hbdef).
    rewrite Hfb in Hfst.
    assert (Hlt : (length (fst (meaning r2)) < f)%nat).
    { rewrite <- Hm, Hfst, app_length in Hf. cbn [length] in Hf. lia. }
    specialize (IH r2 (acc ++ b0 :: bt) Hb2 Hlt). unfold drain_ok in *.
    destruct (br_drain_loop f r2 _) as [[d t] r3]. destruct IH as (dl & Hd & Ht).
    exists ((b0 :: bt) ++ dl). rewrite Hd, <- app_assoc. split; [reflexivity|].
    assert (Hmm : meaning r = ((b0 :: bt) ++ fst (meaning r2), snd (meaning r2))).
    { rewrite <- Hm, (surjective_pairing (meaning r')), Hfst, Hsnd. reflexivity. }
    destruct t as [|e|w|]; try exact Ht.
    + destruct Ht as [Hct Hm2]. split; [congruence|]. rewrite Hmm, Hm2. reflexivity.
    + destruct e; try exact Ht.
      * destruct Ht as [Hcf Hm2]. split; [congruence|]. rewrite Hmm, Hm2. reflexivity.
      * destruct Ht as [Hs2 [rest Hr2]]. split; [rewrite Hmm; exact Hs2|]. exists rest. rewrite Hmm. cbn [fst]. rewrite Hr2, app_assoc. reflexivity.
  - cbn [drain_ok]. exists []. rewrite app_nil_r. split; [reflexivity|]. split; [congruence|].
    rewrite <- Hm. apply meaning_at_end. exact Hraw.
  - cbn [drain_ok]. exists []. rewrite app_nil_r. split; [reflexivity|]. split; [congruence|].
    rewrite <- Hm. apply meaning_at_end. exact Hraw.
  - cbn [drain_ok]. exists []. rewrite app_nil_r. split; [reflexivity|]. split; [exact Hs|]. exists (fst (meaning r)). reflexivity.
Qed.

Lemma br_drain_spec r : binv r -> drain_ok r [] (br_drain r).
Proof.
  intros Hb. unfold br_drain. apply drain_loop_spec; [exact Hb|].
  pose proof (meaning_len r Hb). unfold raw_of in *. lia.
Qed.

(* ---- a fresh reader means unescape of the input after the skipped header ---- *)
Lemma binv_new rd skip mf : wf rd -> 1 <= mf -> binv (br_new rd skip mf).
Proof.
  intros Hwf Hmf. unfold binv, br_new. cbn [inner idx max_fill st].
  repeat match goal with |- _ /\ _ => apply conj end; try assumption; try lia.
  destruct (N.eqb_spec skip 0); [exact I|]. split; [reflexivity|lia].
Qed.

Lemma meaning_new rd skip mf : skip <= N.of_nat (length (rdr_remaining rd)) ->
  meaning (br_new rd skip mf) = uout Start (skipn (N.to_nat skip) (rdr_remaining rd)).
Proof.
  intros Hs. unfold meaning, br_new, raw_of. cbn [inner idx st skipn firstn app].
  destruct (N.eqb_spec skip 0) as [->|Hn].
  - cbn [N.to_nat skipn]. apply (let_pair (uout _ _)).
  - rewrite uout_skip by lia. apply (let_pair (uout _ _)).
Qed.

Theorem new_reader_unescape rd skip mf : skip <= N.of_nat (length (rdr_remaining rd)) ->
  of_option (unescape (skipn (N.to_nat skip) (rdr_remaining rd))) (meaning (br_new rd skip mf)).
Proof. intros Hs. rewrite meaning_new by exact Hs. apply uout_start_is_unescape. Qed.

(* ---- decode_nal ---- *)
Lemma scan_idx_mono clen l : forall s i s' i', scan clen s i l = ScanDone s' i' -> (i <= i')%nat.
Proof.
  induction l as [|b l IH]; intros s i s' i' H; cbn [scan] in H; [inversion H; lia|].
  destruct s; repeat match type of H with context [if ?c then _ else _] => destruct c end;
    try discriminate; try (apply IH in H; lia); inversion H; lia.
Qed.

Lemma loop_step_nz f r : idx r <> 0%nat -> br_fill_loop (S f) r = (OK r, r).
Proof. intros H. cbn [br_fill_loop]. destruct (Nat.eqb_spec (idx r) 0); [contradiction|reflexivity]. Qed.

Lemma loop_step_z f r : idx r = 0%nat -> br_fill_loop (S f) r =
  match try_fill_buf_slow r with
  | OK (true, r') => br_fill_loop f r'
  | OK (false, r') => (OK r', r')
  | ERR e => (ERR e, try_fill_state_after_err r)
  | PANIC w => (PANIC w, r)
  | FUEL => (FUEL, r)
  end.
Proof. intros H. cbn [br_fill_loop]. rewrite H. reflexivity. Qed.

Lemma consume1_slice n0 nt : rdr_consume (rdr_of_slice (n0 :: nt)) 1 = OK (rdr_of_slice nt).
Proof. unfold rdr_consume, rdr_of_slice. cbn [cur length Nat.ltb Nat.leb skipn rest complete]. destruct nt; reflexivity. Qed.

Lemma try_fill_skip1 n0 nt mf : 1 <= mf ->
  try_fill_buf_slow (br_new (rdr_of_slice (n0 :: nt)) 1 mf) = OK (true, mk_br (rdr_of_slice nt) Start 0 mf).
Proof.
  intros Hmf. unfold try_fill_buf_slow, br_new. change (1 =? 0) with false. cbn [idx inner st max_fill Nat.eqb negb].
  change (rdr_fill_buf (rdr_of_slice (n0 :: nt))) with (@OK iokind _ (n0 :: nt)). cbn [obind].
  remember (N.to_nat (N.min (N.of_nat (length (n0 :: nt))) mf)) as limit eqn:El.
  destruct limit as [|l']; [cbn [length] in El; lia|]. cbn [firstn scan].
  replace (Nat.min (length (n0 :: nt)) (N.to_nat 1)) with 1%nat by (cbn [length]; lia).
  change (1 - N.of_nat 1 =? 0) with true. cbv iota. rewrite consume1_slice. reflexivity.
Qed.

Lemma try_fill_whole nt s mf : nt <> [] -> N.of_nat (length nt) <= mf ->
  try_fill_buf_slow (mk_br (rdr_of_slice nt) s 0 mf) =
  match scan (length nt) s 0 nt with
  | ScanDone s' i => OK (true, mk_br (rdr_of_slice nt) s' i mf)
  | ScanConsume s' k => obind (rdr_consume (rdr_of_slice nt) k) (fun inner' => OK (true, mk_br inner' s' 0 mf))
  | ScanErr _ _ => ERR InvalidData
  end.
Proof.
  intros Hne Hmf. unfold try_fill_buf_slow. cbn [idx inner st max_fill Nat.eqb negb].
  destruct nt as [|n1 nt']; [contradiction|].
  change (rdr_fill_buf (rdr_of_slice (n1 :: nt'))) with (@OK iokind _ (n1 :: nt')). cbn [obind].
  replace (N.to_nat (N.min (N.of_nat (length (n1 :: nt'))) mf)) with (length (n1 :: nt')) by lia.
  rewrite firstn_all. reflexivity.
Qed.

Lemma after_err_whole nt s mf : nt <> [] -> N.of_nat (length nt) <= mf ->
  forall s' i, scan (length nt) s 0 nt = ScanErr s' i ->
  try_fill_state_after_err (mk_br (rdr_of_slice nt) s 0 mf) = mk_br (rdr_of_slice nt) s' i mf.
Proof.
  intros Hne Hmf s' i Hs. unfold try_fill_state_after_err. cbn [idx inner st max_fill].
  destruct nt as [|n1 nt']; [contradiction|].
  change (rdr_fill_buf (rdr_of_slice (n1 :: nt'))) with (@OK iokind _ (n1 :: nt')). cbv zeta iota.
  replace (N.to_nat (N.min (N.of_nat (length (n1 :: nt'))) mf)) with (length (n1 :: nt')) by lia.
  rewrite firstn_all, Hs. reflexivity.
Qed.

Definition decode_nal_spec (nal : list byte) : out iokind cow :=
  match unescape (tl nal) with
  | None => ERR InvalidData
  | Some p => if Nat.eqb (length p) (length (tl nal)) then OK (Borrowed (tl nal)) else OK (Owned p)
  end.

Lemma unescape_via_uout l o ok : uout Start l = (o, ok) ->
  unescape l = if ok then Some o else None.
Proof.
  intros H. pose proof (uout_start_is_unescape l) as Hu. rewrite H in Hu.
  destruct (unescape l) as [p|]; cbn [of_option snd] in Hu.
  - inversion Hu; subst. reflexivity.
  - subst ok. reflexivity.
Qed.

Lemma meaning_slice nt s i mf : meaning (mk_br (rdr_of_slice nt) s i mf) =
  (let '(o, ok) := uout s (skipn i (nt ++ [])) in (firstn i (nt ++ []) ++ o, ok)).
Proof. reflexivity. Qed.

Theorem decode_nal_correct nal : nal <> [] -> N.of_nat (length nal) <= usize_max ->
  decode_nal nal = decode_nal_spec nal.
Proof.
  intros Hne Hlen. destruct nal as [|n0 nt]; [contradiction|]. clear Hne.
  unfold decode_nal, decode_nal_spec. cbn [tl]. unfold br_fill_buf.
  replace (br_fuel (br_new (rdr_of_slice (n0 :: nt)) 1 usize_max)) with (S (S (S (2 * length nt + 3))))
    by (unfold br_fuel, br_new, rdr_remaining, rdr_of_slice; cbn [inner cur rest concat length]; rewrite app_nil_r; cbn [length]; lia).
  rewrite loop_step_z by reflexivity. rewrite try_fill_skip1 by (unfold usize_max; lia).
  destruct nt as [|n1 nt'].
  { vm_compute. reflexivity. }
  set (nt := n1 :: nt') in *.
  assert (Hnt : nt <> []) by discriminate.
  assert (Hmf : N.of_nat (length nt) <= usize_max) by (cbn [length] in Hlen; lia).
  rewrite loop_step_z by reflexivity. rewrite try_fill_whole by assumption.
  pose proof (scan_sem (length nt) nt Start 0%nat [] I) as Hs.
  pose proof (after_err_whole nt Start usize_max Hnt Hmf) as Hafter.
  destruct (scan (length nt) Start 0 nt) as [s' i'|s' k|s' i'] eqn:Escan.
  - destruct Hs as (passed & rest' & Hl & Hi' & Hu & Hend). cbn [Nat.add] in Hi'.
    assert (Hpos : (1 <= i')%nat).
    { unfold nt in Escan. cbn [scan] in Escan. apply scan_idx_mono in Escan. exact Escan. }
    rewrite loop_step_nz by (cbn [idx]; lia). cbn [inner idx].
    change (rdr_fill_buf (rdr_of_slice nt)) with (@OK iokind _ nt).
    assert (Hlp : length nt = (length passed + length rest')%nat) by (rewrite Hl, app_length; reflexivity).
    cbv beta iota. destruct (Nat.ltb_spec (length nt) i') as [Hx|_]; [lia|].
    assert (Hfp : firstn i' nt = passed).
    { rewrite Hl, Hi', firstn_app, firstn_all, Nat.sub_diag, firstn_O, app_nil_r. reflexivity. }
    rewrite Hfp. cbv beta iota. cbn [length].
    destruct (Nat.eqb_spec (length passed + 1) (S (length nt))) as [Heq|Hneq].
    + assert (rest' = []) by (destruct rest'; [reflexivity|cbn [length] in Hlp; lia]). subst rest'.
      cbn [app uout] in Hu. rewrite app_nil_r in Hu, Hl. rewrite app_nil_r in Hu. rewrite <- Hl in Hu.
      rewrite (unescape_via_uout nt nt true Hu). rewrite Nat.eqb_refl. reflexivity.
    + destruct Hend as [[-> _]|[-> [r'' ->]]]; [rewrite app_nil_r in Hl; subst passed; lia|].
      set (r2 := mk_br (rdr_of_slice nt) Three i' usize_max).
      assert (Hb2 : binv r2).
      { unfold binv, r2. cbn [inner idx st max_fill cur rdr_of_slice].
        repeat match goal with |- _ /\ _ => apply conj end; try exact I; [apply wf_of_slice|lia|unfold usize_max; lia]. }
      assert (Hm2 : meaning r2 = uout Start (nt ++ [])).
      { unfold r2. rewrite meaning_slice, Hu.
        assert (Hsk : skipn i' (nt ++ []) = (3 :: r'') ++ []).
        { rewrite Hl, <- app_assoc, Hi', skipn_app, skipn_all, Nat.sub_diag. reflexivity. }
        assert (Hfi : firstn i' (nt ++ []) = passed).
        { rewrite Hl, <- app_assoc, Hi', firstn_app, firstn_all, Nat.sub_diag, firstn_O, app_nil_r. reflexivity. }
        rewrite Hsk, Hfi. reflexivity. }
      assert (Hshort : (length (fst (uout Start (nt ++ []))) < length nt)%nat).
      { rewrite Hu. cbn [uout app]. pose proof (uout_len (r'' ++ []) PostThree) as Hle.
        destruct (uout PostThree (r'' ++ [])) as [o ok]. cbn [fst] in *.
        rewrite app_length in *. cbn [length] in *. rewrite Hlp. cbn [length]. lia. }
      rewrite app_nil_r in Hm2, Hshort.
      pose proof (br_drain_spec r2 Hb2) as Hd. destruct (br_drain r2) as [[acc t] r3].
      cbn [drain_ok] in Hd. destruct Hd as (dl & Hacc & Ht). cbn [app] in Hacc. subst acc.
      destruct t as [|e|w|]; try contradiction.
      * destruct Ht as [_ Hm]. rewrite Hm2 in Hm. rewrite (unescape_via_uout nt dl true Hm).
        rewrite Hm in Hshort. cbn [fst] in Hshort.
        destruct (Nat.eqb_spec (length dl) (length nt)); [lia|reflexivity].
      * destruct e; try contradiction.
        -- destruct Ht as [Hc _]. discriminate Hc.
        -- destruct Ht as [Hsn _]. rewrite Hm2 in Hsn.
           destruct (uout Start nt) as [o ok] eqn:Eu. cbn [snd] in Hsn. subst ok.
           rewrite (unescape_via_uout nt o false Eu). reflexivity.
  - destruct Hs.
  - destruct Hs as (passed & rest' & Hl & Hne & Hi' & Hu & _). rewrite app_nil_r in Hu.
    rewrite (unescape_via_uout nt passed false Hu). reflexivity.
Qed.

Lemma unescape_same_length l p : unescape l = Some p -> length p = length l -> p = l.
Proof.
  intros Hu Hl. pose proof (uout_start_is_unescape l) as H. rewrite Hu in H. cbn [of_option] in H.
  assert (Hf : uout Start l = (l, true)) by (apply uout_full; rewrite H; exact Hl).
  rewrite H in Hf. inversion Hf. reflexivity.
Qed.

Lemma unescape_length l p : unescape l = Some p -> (length p <= length l)%nat.
Proof.
  intros Hu. pose proof (uout_start_is_unescape l) as H. rewrite Hu in H. cbn [of_option] in H.
  pose proof (uout_len l Start) as Hl. rewrite H in Hl. exact Hl.
Qed.

(* ---- statements against unescape ---- *)
Lemma uout_clean_prefix raw : forall s, exists k, uout s (firstn k raw) = (fst (uout s raw), true).
Proof.
  induction raw as [|b r IH]; intros s; [exists 0%nat; reflexivity|]. cbn [uout].
  destruct s; repeat match goal with |- context [if ?c then _ else _] => destruct c eqn:? end;
  try (exists 0%nat; reflexivity);
  match goal with |- context [uout ?s' r] => destruct (IH s') as [k Hk]; exists (S k); cbn [firstn uout] end;
  repeat match goal with H : ?c = _ |- context [if ?c then _ else _] => rewrite H end;
  rewrite Hk; destruct (uout _ r); reflexivity.
Qed.

Definition is_prefix (d p : list byte) : Prop := exists rest, p = d ++ rest.

(* delivered bytes come from a clean prefix of the input *)
Definition from_clean_prefix (d raw : list byte) : Prop :=
  exists k p, unescape (firstn k raw) = Some p /\ is_prefix d p.

Lemma prefix_of_meaning_clean raw d : is_prefix d (fst (uout Start raw)) -> from_clean_prefix d raw.
Proof.
  intros Hp. destruct (uout_clean_prefix raw Start) as [k Hk]. exists k, (fst (uout Start raw)).
  split; [|exact Hp]. rewrite (unescape_via_uout _ _ _ Hk). reflexivity.
Qed.

Definition payload (head : list byte) (tl : list (list byte)) (skip : N) : list byte :=
  skipn (N.to_nat skip) (head ++ concat tl).

Theorem stream_history head tl c skip mf ops :
  head <> [] -> Forall (fun ch => ch <> []) tl -> 1 <= mf -> skip <= N.of_nat (length (head ++ concat tl)) ->
  let '(d, o, _) := brun (br_new (rdr_of_nal head tl c) skip mf) ops [] in
  match unescape (payload head tl skip) with
  | Some p => is_prefix d p /\
      match o with OK _ => True | ERR WouldBlock => c = false /\ d = p | _ => False end
  | None => from_clean_prefix d (payload head tl skip) /\
      match o with OK _ => True | ERR InvalidData => True | _ => False end
  end.
Proof.
  intros Hh Ht Hmf Hs. set (r0 := br_new (rdr_of_nal head tl c) skip mf).
  assert (Hb : binv r0) by (apply binv_new; [apply wf_of_nal; assumption|exact Hmf]).
  pose proof (brun_spec ops r0 [] Hb) as H. unfold hist_ok in H.
  destruct (brun r0 ops []) as [[d o] r']. destruct H as (Hb' & Hc & dl & Hd & Hf & Hsn & Ho). cbn [app] in Hd. subst dl.
  assert (Hm0 : meaning r0 = uout Start (payload head tl skip)) by (apply meaning_new; exact Hs).
  rewrite Hm0 in *. destruct (uout Start (payload head tl skip)) as [P ok] eqn:Eu. cbn [fst snd] in *.
  rewrite (unescape_via_uout _ _ _ Eu). destruct ok.
  - split; [exists (fst (meaning r')); exact Hf|].
    destruct o as [u|e|w|]; try exact Ho. destruct e; try exact Ho.
    + destruct Ho as [Hcf Hm]. split; [exact Hcf|]. rewrite Hm in Hf. cbn [fst] in Hf. rewrite app_nil_r in Hf. symmetry. exact Hf.
    + discriminate Ho.
  - split.
    + apply prefix_of_meaning_clean. rewrite Eu. exists (fst (meaning r')). exact Hf.
    + destruct o as [u|e|w|]; try exact Ho. destruct e; try exact Ho; try exact I.
      destruct Ho as [_ Hm]. rewrite Hm in Hsn. discriminate Hsn.
Qed.

Theorem stream_drain head tl c skip mf :
  head <> [] -> Forall (fun ch => ch <> []) tl -> 1 <= mf -> skip <= N.of_nat (length (head ++ concat tl)) ->
  let '(d, t, _) := br_drain (br_new (rdr_of_nal head tl c) skip mf) in
  match unescape (payload head tl skip) with
  | Some p => d = p /\ t = (if c then TermEof else TermErr WouldBlock)
  | None => from_clean_prefix d (payload head tl skip) /\ t = TermErr InvalidData
  end.
Proof.
  intros Hh Ht Hmf Hs. set (r0 := br_new (rdr_of_nal head tl c) skip mf).
  assert (Hb : binv r0) by (apply binv_new; [apply wf_of_nal; assumption|exact Hmf]).
  pose proof (br_drain_spec r0 Hb) as H. unfold drain_ok in H.
  destruct (br_drain r0) as [[d t] r']. destruct H as (dl & Hd & Ho). cbn [app] in Hd. subst dl.
  assert (Hm0 : meaning r0 = uout Start (payload head tl skip)) by (apply meaning_new; exact Hs).
  assert (Hc0 : complete (inner r0) = c) by reflexivity.
  rewrite Hm0, Hc0 in *. destruct (uout Start (payload head tl skip)) as [P ok] eqn:Eu. cbn [fst snd] in *.
  rewrite (unescape_via_uout _ _ _ Eu).
  destruct t as [|e|w|]; try contradiction.
  - destruct Ho as [-> Hm]. inversion Hm; subst. split; reflexivity.
  - destruct e; try contradiction.
    + destruct Ho as [-> Hm]. inversion Hm; subst. split; reflexivity.
    + destruct Ho as [-> [rest Hr]]. split; [|reflexivity].
      apply prefix_of_meaning_clean. rewrite Eu. exists rest. exact Hr.
Qed.
