(* Meaning of call traces and the byte-at-a-time abstract machine for Annex B framing. *)
From H264 Require Import Base.Prelude Model.AnnexB.

(* accumulators: units closed so far, bytes of the open unit so far *)
Definition accu := (list (list byte) * list byte)%type.

Definition feed_call (a : accu) (c : call) : accu :=
  let op' := snd a ++ concat (bufs c) in
  if fin c then (fst a ++ [op'], []) else (fst a, op').
Definition feed_calls (cs : list call) (a : accu) : accu := fold_left feed_call cs a.

Inductive ev := Emit (b : list byte) | End.
Definition feed_ev (a : accu) (e : ev) : accu :=
  match e with
  | Emit b => (fst a, snd a ++ b)
  | End => (fst a ++ [snd a], [])
  end.
Definition feed_evs (es : list ev) (a : accu) : accu := fold_left feed_ev es a.

(* the abstract machine: one byte at a time, held-back zeros are emitted only once disproved *)
Definition astep (st : astate) (b : byte) : astate * list ev :=
  match st with
  | AStart => (if b =? 0 then AStartOneZero else AStart, [])
  | AStartOneZero => (if b =? 0 then AStartTwoZero else AStart, [])
  | AStartTwoZero => (if b =? 0 then AStartTwoZero else if b =? 1 then AInUnit else AStart, [])
  | AInUnit => if b =? 0 then (AInUnitOneZero, []) else (AInUnit, [Emit [b]])
  | AInUnitOneZero => if b =? 0 then (AInUnitTwoZero, []) else (AInUnit, [Emit [0; b]])
  | AInUnitTwoZero =>
      if b =? 0 then (AStartTwoZero, [End])
      else if b =? 1 then (AInUnit, [End])
      else (AInUnit, [Emit [0; 0; b]])
  end.

Fixpoint arun (st : astate) (l : list byte) : astate * list ev :=
  match l with
  | [] => (st, [])
  | b :: l' => let '(st1, e1) := astep st b in
               let '(st2, e2) := arun st1 l' in (st2, e1 ++ e2)
  end.

Definition areset (st : astate) : list ev :=
  match in_unit st with
  | Some bt => [Emit (zeros bt); End]
  | None => []
  end.

Lemma feed_calls_app x y a : feed_calls (x ++ y) a = feed_calls y (feed_calls x a).
Proof. apply fold_left_app. Qed.
Lemma feed_evs_app x y a : feed_evs (x ++ y) a = feed_evs y (feed_evs x a).
Proof. apply fold_left_app. Qed.

Lemma arun_app x : forall st y,
  arun st (x ++ y) = let '(s1, e1) := arun st x in let '(s2, e2) := arun s1 y in (s2, e1 ++ e2).
Proof.
  induction x as [|b x IH]; intros st y; cbn [app arun].
  - destruct (arun st y) as [s2 e2]. reflexivity.
  - destruct (astep st b) as [s0 e0]. rewrite IH.
    destruct (arun s0 x) as [s1 e1]. destruct (arun s1 y) as [s2 e2]. rewrite app_assoc. reflexivity.
Qed.
