(* SPS parser: never aborts, and every accepted value satisfies the range invariants (C16, C03). *)
From H264 Require Import Base.Prelude Base.Bits Model.BitReader Model.Parser Model.Sps Spec.Golomb
     Proofs.BitsLemmas Proofs.C07_proofs Proofs.Wp.
Local Open Scope N_scope.

Ltac wp_chain :=
  wp_bits;
  repeat match goal with
  | H1 : consumes ?a ?b, H2 : consumes ?b ?c |- _ =>
      let H := fresh "Hc" in pose proof (consumes_trans _ _ _ H1 H2) as H; clear H1 H2
  end.

Ltac wp_walk :=
  lazymatch goal with
  | |- consumes ?a ?a => apply consumes_refl
  | H : consumes ?a ?b |- consumes ?a ?b => exact H
  | H : consumes ?a ?m |- consumes ?a ?b => apply (consumes_trans a m b H); clear H; wp_walk
  end.
Ltac wp_done := wp_bits; wp_walk.

Ltac wp_prim :=
  first
  [ apply wp_read_bool; intros ? ? ? ?
  | apply wp_read_u; intros ? ? ? ? ? ?
  | apply wp_read_ue; intros ? ? ? ? ?
  | apply wp_read_se; intros ? ? ? ? ? ].

Ltac wp_go :=
  repeat first
  [ apply wp_bind
  | wp_prim
  | apply wp_fail
  | apply wp_mapE
  | match goal with |- wp ((if ?c then _ else _) _) _ => destruct c eqn:? end
  | progress cbv beta ].

(* ---- scaling lists ---- *)
Definition sl_values_ok (l : list N) : Prop := Forall (fun v => 1 <= v <= 255) l.
Definition inv_scaling_list (size : nat) (sl : scaling_list) : Prop :=
  match sl with SlList l => length l = size /\ sl_values_ok l | _ => True end.

Lemma wp_fill_scaling_list n : forall j0 last next ud acc s (Phi : bool * list N -> src -> Prop),
  1 <= last <= 255 -> next <= 255 -> sl_values_ok acc ->
  (forall r s', length (snd r) = (length acc + n)%nat -> sl_values_ok (snd r) -> consumes s s' -> Phi r s') ->
  wp (fill_scaling_list n j0 last next ud acc s) Phi.
Proof.
  induction n as [|n IH]; intros j0 last next ud acc s Phi Hl Hn Hacc Hk; cbn [fill_scaling_list].
  - apply wp_ret. apply Hk; [cbn; lia|exact Hacc|apply consumes_refl].
  - destruct (next =? 0) eqn:En.
    + apply IH; [exact Hl|lia|apply Forall_app; split; [exact Hacc|constructor; [exact Hl|constructor]]|].
      intros r s' Hlen Hv Hc. apply Hk; [rewrite Hlen, app_length; cbn [length]; lia|exact Hv|exact Hc].
    + apply wp_bind. apply wp_read_se. intros d s1 Hd Hex Ht. cbv beta.
      destruct ((d <? -128)%Z || (127 <? d)%Z) eqn:Er; [apply wp_fail|].
      assert (Hm : (0 <= (Z.of_N last + d + 256) mod 256 < 256)%Z) by (apply Z.mod_pos_bound; lia).
      set (next' := Z.to_N ((Z.of_N last + d + 256) mod 256)) in *.
      assert (Hn' : next' <= 255) by (unfold next'; lia).
      destruct Hex as (k & _ & _ & Hb).
      apply IH.
      * destruct (next' =? 0) eqn:E0; [exact Hl|lia].
      * exact Hn'.
      * apply Forall_app; split; [exact Hacc|]. constructor; [|constructor].
        destruct (next' =? 0) eqn:E0; [exact Hl|lia].
      * intros r s' Hlen Hv Hc. apply Hk; [rewrite Hlen, app_length; cbn [length]; lia|exact Hv|].
        wp_done.
Qed.

Lemma wp_read_scaling_list size present s (Phi : scaling_list -> src -> Prop) :
  (forall sl s', inv_scaling_list size sl -> consumes s s' -> Phi sl s') ->
  wp (read_scaling_list size present s) Phi.
Proof.
  intros Hk. unfold read_scaling_list. destruct present; cbn [negb].
  - apply wp_bind. apply wp_fill_scaling_list; [lia|lia|constructor|].
    intros r s' Hlen Hv Hc. cbv beta. apply wp_ret. apply Hk; [|exact Hc].
    destruct (fst r); cbn; [exact I|]. split; [rewrite Hlen; reflexivity|exact Hv].
  - apply wp_ret. apply Hk; [exact I|apply consumes_refl].
Qed.

Definition inv_lists (l4 l8 : list scaling_list) : Prop :=
  Forall (inv_scaling_list 16) l4 /\ Forall (inv_scaling_list 64) l8.

Lemma wp_read_scaling_lists n : forall i l4 l8 s (Phi : seq_scaling_matrix -> src -> Prop),
  inv_lists l4 l8 ->
  (forall m s', inv_lists (scaling_list4x4 m) (scaling_list8x8 m) ->
                (length (scaling_list4x4 m) + length (scaling_list8x8 m) = length l4 + length l8 + n)%nat ->
                (length (scaling_list4x4 m) = length l4 + (Nat.min n (6 - i)))%nat ->
                consumes s s' -> Phi m s') ->
  wp (read_scaling_lists n i l4 l8 s) Phi.
Proof.
  induction n as [|n IH]; intros i l4 l8 s Phi [H4 H8] Hk; cbn [read_scaling_lists].
  - apply wp_ret. apply Hk; cbn; [split; assumption|lia|lia|apply consumes_refl].
  - apply wp_bind. apply wp_read_bool. intros flag s1 Hb Ht. cbv beta.
    destruct (Nat.ltb_spec i 6).
    + apply wp_bind. apply wp_mapE || idtac. apply wp_read_scaling_list. intros sl s2 Hsl Hc2. cbv beta.
      apply IH; [split; [apply Forall_app; split; [exact H4|constructor; [exact Hsl|constructor]]|exact H8]|].
      intros m s' Hinv Hlen Hl4 Hc. apply Hk; [exact Hinv|rewrite Hlen, app_length; cbn [length]; lia|rewrite Hl4, app_length; cbn [length]; lia|].
      wp_done.
    + apply wp_bind. apply wp_read_scaling_list. intros sl s2 Hsl Hc2. cbv beta.
      apply IH; [split; [exact H4|apply Forall_app; split; [exact H8|constructor; [exact Hsl|constructor]]]|].
      intros m s' Hinv Hlen Hl4 Hc. apply Hk; [exact Hinv|rewrite Hlen, app_length; cbn [length]; lia|rewrite Hl4; lia|].
      wp_done.
Qed.

Definition inv_ssm (idc : N) (m : seq_scaling_matrix) : Prop :=
  inv_lists (scaling_list4x4 m) (scaling_list8x8 m) /\
  length (scaling_list4x4 m) = 6%nat /\
  length (scaling_list8x8 m) = (if (idc =? 3)%N then 6%nat else 2%nat).

Lemma wp_seq_scaling_matrix idc s (Phi : seq_scaling_matrix -> src -> Prop) :
  (forall m s', inv_ssm idc m -> consumes s s' -> Phi m s') ->
  wp (seq_scaling_matrix_read idc s) Phi.
Proof.
  intros Hk. unfold seq_scaling_matrix_read. apply wp_read_scaling_lists; [split; constructor|].
  intros m s' Hinv Hlen Hl4 Hc. apply Hk; [|exact Hc]. split; [exact Hinv|].
  cbn [length] in *. destruct (idc =? 3); cbn in *; lia.
Qed.

(* ---- chroma info ---- *)
Definition inv_chroma_info (ci : chroma_info) : Prop :=
  bit_depth_luma_minus8 ci <= 6 /\ bit_depth_chroma_minus8 ci <= 6 /\
  (separate_colour_plane_flag ci = true -> chroma_format_ ci = YUV444) /\
  match scaling_matrix ci with
  | Some m => inv_lists (scaling_list4x4 m) (scaling_list8x8 m) /\ length (scaling_list4x4 m) = 6%nat /\
              length (scaling_list8x8 m) = (if chroma_format_eqb (chroma_format_ ci) YUV444 then 6%nat else 2%nat)
  | None => True
  end.

Lemma chroma_444_iff idc : chroma_format_eqb (chroma_format_of_idc idc) YUV444 = (idc =? 3).
Proof.
  unfold chroma_format_of_idc.
  destruct idc as [|p]; [reflexivity|]. destruct p as [[p|p|]|[p|p|]|]; try reflexivity; destruct p; reflexivity.
Qed.

Lemma wp_bit_depth s (Phi : N -> src -> Prop) :
  (forall v s', v <= 6 -> consumes s s' -> Phi v s') -> wp (read_bit_depth_minus8 s) Phi.
Proof.
  intros Hk. unfold read_bit_depth_minus8. wp_go. apply wp_ret. apply Hk; [lia|wp_done].
Qed.

Lemma wp_chroma_info p s (Phi : chroma_info -> src -> Prop) :
  (forall ci s', inv_chroma_info ci -> consumes s s' -> Phi ci s') -> wp (chroma_info_read p s) Phi.
Proof.
  intros Hk. unfold chroma_info_read. destruct (has_chroma_info p).
  - apply wp_bind. apply wp_read_ue. intros idc s1 Hidc Hb1 Ht1. cbv beta.
    apply wp_bind.
    assert (Hsep : wp ((if idc =? 3 then liftE RbspReaderError (read_bool "separate_colour_plane_flag") else retE false) s1)
                      (fun sep s2 => (sep = true -> idc = 3) /\ consumes s1 s2)).
    { destruct (N.eqb_spec idc 3).
      - apply wp_read_bool. intros b s2 Hb Ht. split; [auto|]. eapply consumes_step; [|exact Ht]. instantiate (1 := [b]). exact Hb.
      - apply wp_ret. split; [discriminate|apply consumes_refl]. }
    eapply wp_mono; [exact Hsep|]. intros sep s2 [Hs Hc2]. cbv beta.
    apply wp_bind. apply wp_bit_depth. intros bl s3 Hbl Hc3. cbv beta.
    apply wp_bind. apply wp_bit_depth. intros bc s4 Hbc Hc4. cbv beta.
    apply wp_bind. apply wp_read_bool. intros qp s5 Hb5 Ht5. cbv beta.
    apply wp_bind. unfold read_scaling_matrix. apply wp_bind. apply wp_read_bool. intros f s6 Hb6 Ht6. cbv beta.
    destruct f.
    + apply wp_bind. apply wp_mapE. apply wp_seq_scaling_matrix. intros m s7 Hm Hc7. cbv beta.
      apply wp_ret. apply wp_ret. wp_chain.
      apply Hk.
      * split; [exact Hbl|]. split; [exact Hbc|]. split.
        { cbn. intros H. rewrite (Hs H). reflexivity. }
        cbn [scaling_matrix chroma_format_]. rewrite chroma_444_iff. destruct Hm as (Hi & H4 & H8). auto.
      * wp_done.
    + apply wp_ret. apply wp_ret. wp_chain. apply Hk.
      * split; [exact Hbl|]. split; [exact Hbc|]. split; [cbn; intros H; rewrite (Hs H); reflexivity|exact I].
      * wp_done.
  - apply wp_ret. apply Hk; [|apply consumes_refl]. unfold inv_chroma_info, chroma_info_default. cbn.
    split; [lia|]. split; [lia|]. split; [discriminate|exact I].
Qed.

(* ---- picture order count ---- *)
Definition inv_poc (p : pic_order_cnt) : Prop :=
  match p with
  | PocTypeZero l => l <= 12
  | PocTypeOne _ nr tb offs =>
      (length offs <= 255)%nat /\ (- 2147483647 <= nr <= 2147483647)%Z /\ (- 2147483647 <= tb <= 2147483647)%Z /\
      Forall (fun z => (- 2147483647 <= z <= 2147483647)%Z) offs
  | PocTypeTwo => True
  end.

Lemma wp_pic_order_cnt s (Phi : pic_order_cnt -> src -> Prop) :
  (forall p s', inv_poc p -> consumes s s' -> Phi p s') -> wp (pic_order_cnt_read s) Phi.
Proof.
  intros Hk. unfold pic_order_cnt_read. apply wp_bind. apply wp_read_ue. intros t s1 Ht Hb1 Hl1. cbv beta.
  destruct t as [|[[p|p|]|[p|p|]|]]; try apply wp_fail.
  - (* type 0 *) wp_go. apply wp_ret. apply Hk; [cbn; lia|wp_done].
  - (* type 2 *) apply wp_ret. apply Hk; [exact I|wp_done].
  - (* type 1 *)
    apply wp_bind. apply wp_read_bool. intros az s2 Hb2 Hl2. cbv beta.
    apply wp_bind. apply wp_read_se. intros nr s3 Hnr [k3 (_ & _ & Hb3)] Hl3. cbv beta.
    apply wp_bind. apply wp_read_se. intros tb s4 Htb [k4 (_ & _ & Hb4)] Hl4. cbv beta.
    apply wp_bind. apply wp_read_ue. intros n s5 Hn Hb5 Hl5. cbv beta.
    destruct (255 <? n) eqn:En; [apply wp_fail|].
    apply wp_bind.
    apply (wp_repE _ (fun z => (- 2147483647 <= z <= 2147483647)%Z)).
    + intros s6 Hc6. apply wp_read_se. intros z s7 Hz [k (_ & _ & Hb7)] Hl7. split; [exact Hz|]. eapply consumes_step; eassumption.
    + intros offs s8 Hall Hlen Hc8. cbv beta. apply wp_ret. apply Hk.
      * cbn. split; [lia|]. auto.
      * wp_done.
Qed.

(* ---- small structures: any result is fine, they only consume ---- *)
Ltac wp_simple Hk := wp_go; try apply wp_ret; try (apply Hk; wp_done).

Lemma wp_frame_mbs_flags s (Phi : frame_mbs_flags -> src -> Prop) :
  (forall v s', consumes s s' -> Phi v s') -> wp (frame_mbs_flags_read s) Phi.
Proof. intros Hk. unfold frame_mbs_flags_read. wp_simple Hk. Qed.

Definition inv_crop (c : frame_cropping) : Prop :=
  left_offset c < 4294967295 /\ right_offset c < 4294967295 /\ top_offset c < 4294967295 /\ bottom_offset c < 4294967295.

Lemma wp_frame_cropping s (Phi : option frame_cropping -> src -> Prop) :
  (forall v s', match v with Some c => inv_crop c | None => True end -> consumes s s' -> Phi v s') ->
  wp (frame_cropping_read s) Phi.
Proof.
  intros Hk. unfold frame_cropping_read. wp_go; apply wp_ret; (apply Hk; [|wp_done]); [|exact I].
  unfold inv_crop; cbn; auto.
Qed.

Lemma wp_aspect_ratio s (Phi : option aspect_ratio_info -> src -> Prop) :
  (forall v s', consumes s s' -> Phi v s') -> wp (aspect_ratio_info_read s) Phi.
Proof. intros Hk. unfold aspect_ratio_info_read. wp_simple Hk. Qed.

Lemma wp_overscan s (Phi : overscan_appropriate -> src -> Prop) :
  (forall v s', consumes s s' -> Phi v s') -> wp (overscan_appropriate_read s) Phi.
Proof. intros Hk. unfold overscan_appropriate_read. wp_simple Hk. Qed.

Lemma wp_video_signal_type s (Phi : option video_signal_type -> src -> Prop) :
  (forall v s', match v with Some x => video_format x < 8 | None => True end -> consumes s s' -> Phi v s') ->
  wp (video_signal_type_read s) Phi.
Proof.
  intros Hk. unfold video_signal_type_read.
  wp_go; repeat (apply wp_ret; cbv beta); try (apply wp_bind; apply wp_ret; cbv beta; apply wp_ret);
    (apply Hk; [|wp_done]); cbn; try exact I;
    match goal with H : ?v < 2 ^ 3 |- ?v < 8 => exact H end.
Qed.

Lemma wp_chroma_loc s (Phi : option chroma_loc_info -> src -> Prop) :
  (forall v s', consumes s s' -> Phi v s') -> wp (chroma_loc_info_read s) Phi.
Proof. intros Hk. unfold chroma_loc_info_read. wp_simple Hk. Qed.

Lemma wp_timing_info s (Phi : option timing_info -> src -> Prop) :
  (forall v s', match v with Some t => num_units_in_tick t < 4294967296 /\ time_scale t < 4294967296 | None => True end ->
                consumes s s' -> Phi v s') ->
  wp (timing_info_read s) Phi.
Proof.
  intros Hk. unfold timing_info_read. wp_go; apply wp_ret; (apply Hk; [|wp_done]); [|exact I].
  cbn. split; assumption.
Qed.

Lemma wp_cpb_spec s (Phi : cpb_spec -> src -> Prop) :
  (forall v s', consumes s s' -> Phi v s') -> wp (cpb_spec_read s) Phi.
Proof. intros Hk. unfold cpb_spec_read. wp_simple Hk. Qed.

Definition inv_hrd (h : hrd_parameters) : Prop :=
  (1 <= length (cpb_specs h) <= 32)%nat /\
  initial_cpb_removal_delay_length_minus1 h < 32 /\ cpb_removal_delay_length_minus1 h < 32 /\
  dpb_output_delay_length_minus1 h < 32 /\ time_offset_length h < 32.

Lemma wp_hrd s (Phi : option hrd_parameters -> src -> Prop) :
  (forall v s', match v with Some h => inv_hrd h | None => True end -> consumes s s' -> Phi v s') ->
  wp (hrd_parameters_read s) Phi.
Proof.
  intros Hk. unfold hrd_parameters_read.
  apply wp_bind. apply wp_read_bool. intros f s1 Hb1 Hl1. cbv beta. destruct f.
  - apply wp_bind. apply wp_read_ue. intros cnt s2 Hcnt Hb2 Hl2. cbv beta.
    destruct (31 <? cnt) eqn:Ec; [apply wp_fail|].
    apply wp_bind. apply wp_read_u. intros brs s3 _ _ Hb3 Hl3. cbv beta.
    apply wp_bind. apply wp_read_u. intros css s4 _ _ Hb4 Hl4. cbv beta.
    apply wp_bind. apply (wp_repE _ (fun _ => True)).
    + intros s5 Hc5. apply wp_cpb_spec. intros v s6 Hc6. split; [exact I|exact Hc6].
    + intros specs s7 _ Hlen Hc7. cbv beta.
      apply wp_bind. apply wp_read_u. intros a s8 _ Ha Hb8 Hl8. cbv beta.
      apply wp_bind. apply wp_read_u. intros b s9 _ Hbb Hb9 Hl9. cbv beta.
      apply wp_bind. apply wp_read_u. intros c s10 _ Hcc Hb10 Hl10. cbv beta.
      apply wp_bind. apply wp_read_u. intros d s11 _ Hd Hb11 Hl11. cbv beta.
      apply wp_ret. apply Hk; [|wp_done].
      unfold inv_hrd. cbn. change (2 ^ 5) with 32 in *. repeat split; try assumption; lia.
  - apply wp_ret. apply Hk; [exact I|wp_done].
Qed.

Definition inv_br (mr : N) (b : bitstream_restrictions) : Prop :=
  max_bytes_per_pic_denom b <= 16 /\ max_bits_per_mb_denom b <= 16 /\
  log2_max_mv_length_horizontal b <= 16 /\ log2_max_mv_length_vertical b <= 16 /\
  max_num_reorder_frames b <= max_dec_frame_buffering b /\ mr <= max_dec_frame_buffering b /\
  max_dec_frame_buffering b < 4294967295.

Lemma wp_bitstream_restrictions mr s (Phi : option bitstream_restrictions -> src -> Prop) :
  (forall v s', match v with Some b => inv_br mr b | None => True end -> consumes s s' -> Phi v s') ->
  wp (bitstream_restrictions_read mr s) Phi.
Proof.
  intros Hk. unfold bitstream_restrictions_read.
  wp_go; apply wp_ret; (apply Hk; [|wp_done]); [|exact I].
  unfold inv_br. cbn. repeat split; lia.
Qed.

Definition inv_vui (mr : N) (v : vui_parameters) : Prop :=
  match nal_hrd_parameters v with Some h => inv_hrd h | None => True end /\
  match vcl_hrd_parameters v with Some h => inv_hrd h | None => True end /\
  match bitstream_restrictions_ v with Some b => inv_br mr b | None => True end /\
  match timing_info_ v with Some t => num_units_in_tick t < 4294967296 /\ time_scale t < 4294967296 | None => True end /\
  match video_signal_type_ v with Some x => video_format x < 8 | None => True end /\
  (is_some (low_delay_hrd_flag v) = is_some (nal_hrd_parameters v) || is_some (vcl_hrd_parameters v)).

Lemma wp_vui mr s (Phi : option vui_parameters -> src -> Prop) :
  (forall v s', match v with Some x => inv_vui mr x | None => True end -> consumes s s' -> Phi v s') ->
  wp (vui_parameters_read mr s) Phi.
Proof.
  intros Hk. unfold vui_parameters_read.
  apply wp_bind. apply wp_read_bool. intros f s1 Hb1 Hl1. cbv beta. destruct f.
  - apply wp_bind. apply wp_aspect_ratio. intros ar s2 Hc2. cbv beta.
    apply wp_bind. apply wp_overscan. intros ov s3 Hc3. cbv beta.
    apply wp_bind. apply wp_video_signal_type. intros vs s4 Hvs Hc4. cbv beta.
    apply wp_bind. apply wp_chroma_loc. intros cl s5 Hc5. cbv beta.
    apply wp_bind. apply wp_timing_info. intros ti s6 Hti Hc6. cbv beta.
    apply wp_bind. apply wp_hrd. intros nal s7 Hnal Hc7. cbv beta.
    apply wp_bind. apply wp_hrd. intros vcl s8 Hvcl Hc8. cbv beta.
    apply wp_bind.
    assert (Hld : wp ((if is_some nal || is_some vcl
                       then bindE (liftE RbspReaderError (read_bool "low_delay_hrd_flag")) (fun x => retE (Some x))
                       else retE None) s8)
                     (fun ld s9 => is_some ld = is_some nal || is_some vcl /\ consumes s8 s9)).
    { destruct (is_some nal || is_some vcl).
      - apply wp_bind. apply wp_read_bool. intros x s9 Hb9 Hl9. cbv beta. apply wp_ret. split; [reflexivity|exact (consumes_step s8 s9 [x] Hb9 Hl9)].
      - apply wp_ret. split; [reflexivity|apply consumes_refl]. }
    eapply wp_mono; [exact Hld|]. intros ld s9 [Hlde Hc9]. cbv beta.
    apply wp_bind. apply wp_read_bool. intros ps s10 Hb10 Hl10. cbv beta.
    apply wp_bind. apply wp_bitstream_restrictions. intros br s11 Hbr Hc11. cbv beta.
    apply wp_ret. apply Hk; [|wp_done].
    unfold inv_vui. cbn. repeat split; assumption.
  - apply wp_ret. apply Hk; [exact I|wp_done].
Qed.

(* ---- the whole SPS ---- *)
Definition inv_sps (v : sps) : Prop :=
  profile_idc v < 256 /\ constraint_flags v < 256 /\ level_idc v < 256 /\
  seq_parameter_set_id v < 32 /\
  inv_chroma_info (chroma_info_ v) /\
  log2_max_frame_num_minus4 v <= 12 /\
  inv_poc (pic_order_cnt_ v) /\
  max_num_ref_frames v < 4294967295 /\
  pic_width_in_mbs_minus1 v < 4294967295 /\ pic_height_in_map_units_minus1 v < 4294967295 /\
  match frame_cropping_ v with Some c => inv_crop c | None => True end /\
  match vui_parameters_ v with Some x => inv_vui (max_num_ref_frames v) x | None => True end.

Lemma wp_sps_body s (Phi : sps -> src -> Prop) :
  (forall v s', inv_sps v -> consumes s s' -> Phi v s') -> wp (sps_body s) Phi.
Proof.
  intros Hk. unfold sps_body.
  apply wp_bind. apply wp_read_u. intros p s1 _ Hp Hb1 Hl1. cbv beta.
  apply wp_bind. apply wp_read_u. intros c s2 _ Hc Hb2 Hl2. cbv beta.
  apply wp_bind. apply wp_read_u. intros l s3 _ Hl Hb3 Hl3. cbv beta.
  apply wp_bind. apply wp_read_ue. intros idv s4 Hidv Hb4 Hl4. cbv beta.
  unfold seq_param_set_id_from_u32. destruct (31 <? idv) eqn:Eid; [apply wp_fail|].
  apply wp_bind. apply wp_chroma_info. intros ci s5 Hci Hc5. cbv beta.
  apply wp_bind. apply wp_read_ue. intros l2 s6 Hl2v Hb6 Hl6. cbv beta.
  destruct (12 <? l2) eqn:El2; [apply wp_fail|].
  apply wp_bind. apply wp_mapE. apply wp_pic_order_cnt. intros poc s7 Hpoc Hc7. cbv beta.
  apply wp_bind. apply wp_read_ue. intros mr s8 Hmr Hb8 Hl8. cbv beta.
  apply wp_bind. apply wp_read_bool. intros gaps s9 Hb9 Hl9. cbv beta.
  apply wp_bind. apply wp_read_ue. intros w s10 Hw Hb10 Hl10. cbv beta.
  apply wp_bind. apply wp_read_ue. intros h s11 Hh Hb11 Hl11. cbv beta.
  apply wp_bind. apply wp_frame_mbs_flags. intros fm s12 Hc12. cbv beta.
  apply wp_bind. apply wp_read_bool. intros d8 s13 Hb13 Hl13. cbv beta.
  apply wp_bind. apply wp_frame_cropping. intros crop s14 Hcrop Hc14. cbv beta.
  apply wp_bind. apply wp_vui. intros vui s15 Hvui Hc15. cbv beta.
  apply wp_ret. apply Hk; [|wp_done].
  unfold inv_sps.
  cbn [profile_idc constraint_flags level_idc seq_parameter_set_id chroma_info_ log2_max_frame_num_minus4 pic_order_cnt_
       max_num_ref_frames pic_width_in_mbs_minus1 pic_height_in_map_units_minus1 frame_cropping_ vui_parameters_].
  change (2 ^ 8) with 256 in *.
  repeat match goal with |- _ /\ _ => apply conj end; try assumption; lia.
Qed.

Theorem sps_from_bits_inv s :
  match sps_from_bits s with
  | OK v => inv_sps v
  | ERR _ => True
  | _ => False
  end.
Proof.
  unfold sps_from_bits. pose proof (wp_sps_body s (fun v _ => inv_sps v) (fun v s' H _ => H)) as H.
  destruct (sps_body s) as [[v s']| | |]; cbn in H; try exact H; try exact I.
  unfold finish_rbsp. destruct (bits s') as [|[|] r]; try exact I.
  - destruct (unary1 r 0); [exact I|]. destruct (tail s'); [exact H|exact I|exact I].
  - destruct (unary1 r 0); exact I.
Qed.
