(* C11, converse direction: every payload buffering_period / pic_timing accept is the encoding (Spec/SyntaxSei.v)
   of the structure returned, followed by the SEI payload alignment. *)
From H264 Require Import Base.Prelude Base.Bits Model.BitReader Model.Parser Model.Sps Model.Context Model.Pps Model.Sei
     Spec.Golomb Spec.SyntaxSps Spec.SyntaxSei
     Proofs.BitsLemmas Proofs.C07_proofs Proofs.Wp Proofs.C14_proofs Proofs.SpsInv Proofs.PpsInv Proofs.Parses Proofs.SpsRoundtrip
     Proofs.PpsRoundtrip Proofs.SeiRoundtrip Proofs.SpsConverse Proofs.PpsConverse Proofs.C19_proofs.
Local Open Scope N_scope.

(* the context stores every SPS under its own id *)
Definition ctx_keyed_sps (c : context) : Prop := forall id sp, sps_by_id c id = Some sp -> seq_parameter_set_id sp = id.
Lemma ctx_keyed_sps_empty : ctx_keyed_sps ctx_empty.
Proof. intros id p H. unfold sps_by_id, ctx_empty in H. cbn in H. unfold Context.map_get in H. destruct (N.to_nat id); discriminate. Qed.
Lemma ctx_keyed_sps_put_pps c p : ctx_keyed_sps c -> ctx_keyed_sps (put_pic_param_set c p).
Proof. intros H id sp Hs. apply H. unfold sps_by_id in *. rewrite pps_put_keeps_sps in Hs. exact Hs. Qed.
Lemma ctx_keyed_sps_put_sps c s0 : ctx_keyed_sps c -> ctx_keyed_sps (put_seq_param_set c s0).
Proof.
  intros H id sp Hs. destruct (N.eq_dec id (seq_parameter_set_id s0)) as [->|Hne].
  - rewrite sps_lookup_after_put in Hs. injection Hs as <-. reflexivity.
  - rewrite sps_lookup_other in Hs by exact Hne. apply H. exact Hs.
Qed.

(* ---- buffering_period ---- *)
Lemma wx_bp_hrd h s (Phi : option (list (N * N)) -> src -> Prop) :
  (forall l s', bits s = enc_bp_hrd h l ++ bits s' -> tail s' = tail s -> Phi l s') -> wp (bp_hrd h s) Phi.
Proof.
  intros Hk. unfold bp_hrd. destruct h as [p|]; [|apply wp_ret; apply (Hk None); reflexivity].
  apply wp_bind. unfold read_cpb_removal_delay_list.
  apply (wx_rep _ (fun d => u (N.to_nat (initial_cpb_removal_delay_length_minus1 p + 1)) (fst d) ++
                            u (N.to_nat (initial_cpb_removal_delay_length_minus1 p + 1)) (snd d))).
  - intros s0 Psi HPsi. unfold rb.
    apply wp_bind. apply wx_u. intros a s1 Hb1 Ht1. cbv beta.
    apply wp_bind. apply wx_u. intros b s2 Hb2 Ht2. cbv beta. apply wp_ret.
    apply (HPsi (a, b)); [cbn [fst snd]; rewrite Hb1, Hb2, <- app_assoc; reflexivity|congruence].
  - intros l s1 Hlen Hb1 Ht1. cbv beta. apply wp_ret. apply (Hk (Some l)); [cbn [enc_bp_hrd]; exact Hb1|exact Ht1].
Qed.

Theorem bp_converse c payload b : ctx_keyed_sps c -> buffering_period_read c payload = OK b ->
  exists sp pad, sps_by_id c (seq_parameter_set_id sp) = Some sp /\
    bits_of_bytes payload = enc_bp sp b ++ pad /\ sei_pad_ok pad.
Proof.
  intros Hkey H. unfold buffering_period_read in H.
  set (s := mk_src (bits_of_bytes payload) TEof) in *.
  set (body := bindE (rb (read_ue "seq_parameter_set_id")) _) in H.
  assert (Hw : wp (body s) (fun v s' => exists sp, sps_by_id c (seq_parameter_set_id sp) = Some sp /\
                                           bits s = enc_bp sp v ++ bits s' /\ tail s' = tail s)).
  { unfold body, rb. apply wp_bind. apply wx_ue. intros idv s0 Hb0 Ht0. cbv beta.
    unfold seq_param_set_id_from_u32. destruct (31 <? idv); [apply wp_fail|].
    destruct (sps_by_id c idv) as [sp|] eqn:Esp; [|apply wp_fail].
    pose proof (Hkey _ _ Esp) as Hid.
    fold (nal_hrd_of sp). fold (vcl_hrd_of sp).
    apply wp_bind. apply wx_bp_hrd. intros n s1 Hb1 Ht1. cbv beta.
    apply wp_bind. apply wx_bp_hrd. intros v s2 Hb2 Ht2. cbv beta. apply wp_ret.
    exists sp. split; [rewrite Hid; exact Esp|]. split; [|congruence].
    unfold enc_bp. cbn [nal_hrd_bp vcl_hrd_bp]. rewrite Hid, Hb0, Hb1, Hb2, <- !app_assoc. reflexivity. }
  destruct (body s) as [[v s']| | |]; try discriminate. cbn [wp] in Hw. destruct Hw as (sp & Hsp & Hbits & Ht).
  destruct (finish_sei_payload s') as [[]| | |] eqn:Ef; try discriminate. injection H as <-.
  exists sp, (bits s'). split; [exact Hsp|]. split; [exact Hbits|].
  apply (finish_sei_ok_iff s' Ht). exact Ef.
Qed.

(* ---- pic_timing ---- *)
Lemma sign_extend_inv tol raw : 0 < tol -> raw < 2 ^ tol -> Z.to_N (sign_extend tol raw mod 2 ^ Z.of_N tol) = raw.
Proof.
  intros Ht Hr. unfold sign_extend. destruct (N.eqb_spec tol 0); [lia|].
  assert (HN : Z.of_N (2 ^ tol) = (2 ^ Z.of_N tol)%Z) by apply N2Z.inj_pow.
  assert (Hpos : (0 < 2 ^ Z.of_N tol)%Z) by (apply Z.pow_pos_nonneg; lia).
  assert (Hrz : (0 <= Z.of_N raw < 2 ^ Z.of_N tol)%Z) by (rewrite <- HN; lia).
  destruct (raw <? 2 ^ (tol - 1)).
  - rewrite Z.mod_small by exact Hrz. apply N2Z.id.
  - rewrite HN. replace (Z.of_N raw - 2 ^ Z.of_N tol)%Z with (Z.of_N raw + (-1) * 2 ^ Z.of_N tol)%Z by lia.
    rewrite Z.mod_add by lia. rewrite Z.mod_small by exact Hrz. apply N2Z.id.
Qed.

Lemma wx_smh (full : bool) s (Phi : sec_min_hour -> src -> Prop) :
  (forall t s', bits s = enc_smh full t ++ bits s' -> tail s' = tail s -> Phi t s') ->
  wp ((if full then
         bindE (rp (read_u 8 6 "seconds_value")) (fun sv => bindE (rp (read_u 8 6 "minutes_value")) (fun m =>
         bindE (rp (read_u 8 5 "hours_value")) (fun h => retE (SmhSMH sv m h))))
       else
         bindE (rp (read_bool "seconds_flag")) (fun sf =>
         if sf then
           bindE (rp (read_u 8 6 "seconds_value")) (fun sv =>
           bindE (rp (read_bool "minutes_flag")) (fun mf =>
           if mf then
             bindE (rp (read_u 8 6 "minutes_value")) (fun m =>
             bindE (rp (read_bool "hours_flag")) (fun hf =>
             if hf then bindE (rp (read_u 8 5 "hours_value")) (fun h => retE (SmhSMH sv m h))
             else retE (SmhSM sv m)))
           else retE (SmhS sv)))
         else retE SmhNone)) s) Phi.
Proof.
  intros Hk. unfold rp. destruct full.
  - apply wp_bind. apply wx_u. intros sv s0 Hb0 Ht0. cbv beta.
    apply wp_bind. apply wx_u. intros m s1 Hb1 Ht1. cbv beta.
    apply wp_bind. apply wx_u. intros h s2 Hb2 Ht2. cbv beta. apply wp_ret.
    apply Hk; [cbn [enc_smh]; rewrite Hb0, Hb1, Hb2, <- !app_assoc; reflexivity|congruence].
  - apply wp_bind. apply wx_bool. intros sf s0 Hb0 Ht0. cbv beta. destruct sf.
    2:{ apply wp_ret. apply Hk; [cbn [enc_smh]; exact Hb0|exact Ht0]. }
    apply wp_bind. apply wx_u. intros sv s1 Hb1 Ht1. cbv beta.
    apply wp_bind. apply wx_bool. intros mf s2 Hb2 Ht2. cbv beta. destruct mf.
    2:{ apply wp_ret. apply Hk; [cbn [enc_smh]; rewrite Hb0, Hb1, Hb2, <- !app_assoc; reflexivity|congruence]. }
    apply wp_bind. apply wx_u. intros m s3 Hb3 Ht3. cbv beta.
    apply wp_bind. apply wx_bool. intros hf s4 Hb4 Ht4. cbv beta. destruct hf.
    2:{ apply wp_ret. apply Hk; [cbn [enc_smh]; rewrite Hb0, Hb1, Hb2, Hb3, Hb4, <- !app_assoc; reflexivity|congruence]. }
    apply wp_bind. apply wx_u. intros h s5 Hb5 Ht5. cbv beta. apply wp_ret.
    apply Hk; [cbn [enc_smh]; rewrite Hb0, Hb1, Hb2, Hb3, Hb4, Hb5, <- !app_assoc; reflexivity|congruence].
Qed.

Lemma wx_ct sp s (Phi : clock_timestamp -> src -> Prop) :
  (forall c full s', bits s = enc_ct sp full c ++ bits s' -> tail s' = tail s -> Phi c s') ->
  wp (clock_timestamp_read sp s) Phi.
Proof.
  intros Hk. unfold clock_timestamp_read. rewrite model_tol. unfold rp at 1 2 3 4 5 6 7.
  apply wp_bind. apply wx_u. intros ct s0 Hb0 Ht0. cbv beta.
  apply wp_bind. apply wx_bool. intros nu s1 Hb1 Ht1. cbv beta.
  apply wp_bind. apply wx_u. intros cn s2 Hb2 Ht2. cbv beta.
  apply wp_bind. apply wx_bool. intros full s3 Hb3 Ht3. cbv beta.
  apply wp_bind. apply wx_bool. intros disc s4 Hb4 Ht4. cbv beta.
  apply wp_bind. apply wx_bool. intros drop s5 Hb5 Ht5. cbv beta.
  apply wp_bind. apply wx_u. intros nf s6 Hb6 Ht6. cbv beta.
  apply wp_bind. apply (wx_smh full). intros t s7 Hb7 Ht7. cbv beta.
  apply wp_bind.
  assert (Hoff : wp ((if time_offset_length_of sp =? 0 then retE None
                      else bindE (rp (read_u 32 (time_offset_length_of sp) "time_offset_length")) (fun raw =>
                           retE (Some (sign_extend (time_offset_length_of sp) raw)))) s7)
                    (fun o s8 => bits s7 = enc_time_offset (time_offset_length_of sp) o ++ bits s8 /\ tail s8 = tail s7)).
  { destruct (N.eqb_spec (time_offset_length_of sp) 0) as [E|E]; [apply wp_ret; split; reflexivity|].
    unfold rp. apply wp_bind. apply wp_read_u. intros raw s8 _ Hraw Hb8 Ht8. cbv beta. apply wp_ret.
    split; [|exact Ht8]. cbn [enc_time_offset]. rewrite sign_extend_inv by (try lia; exact Hraw). exact Hb8. }
  eapply wp_mono; [exact Hoff|]. intros off s8 [Hb8 Ht8]. cbv beta. apply wp_ret.
  apply (Hk _ full); [|congruence]. unfold enc_ct.
  cbn [ct_type nuit_field_based_flag counting_type discontinuity_flag cnt_dropped_flag n_frames smh time_offset].
  rewrite Hb0, Hb1, Hb2, Hb3, Hb4, Hb5, Hb6, Hb7, Hb8, <- !app_assoc. reflexivity.
Qed.

Theorem pt_converse sp payload t : pic_timing_read sp payload = OK t ->
  exists fulls pad, bits_of_bytes payload = enc_pt sp t fulls ++ pad /\ sei_pad_ok pad.
Proof.
  intros H. unfold pic_timing_read in H.
  set (s := mk_src (bits_of_bytes payload) TEof) in *.
  match type of H with context [match ?b s with _ => _ end] => set (body := b) in H end.
  assert (Hw : wp (body s) (fun v s' => exists fulls, bits s = enc_pt sp v fulls ++ bits s' /\ tail s' = tail s)).
  { unfold body. apply wp_bind.
    (* delays *)
    assert (Hdel : wp ((match vui_parameters_ sp with
               | Some v =>
                 match (match nal_hrd_parameters v with Some h => Some h | None => vcl_hrd_parameters v end) with
                 | Some h =>
                     bindE (rp (read_u 32 (cpb_removal_delay_length_minus1 h + 1) "cpb_removal_delay")) (fun a =>
                     bindE (rp (read_u 32 (dpb_output_delay_length_minus1 h + 1) "dpb_output_delay")) (fun b => retE (Some (a, b))))
                 | None => retE None
                 end
               | None => retE None
               end) s)
             (fun d s0 => bits s = (match delays_hrd_of sp, d with
                                    | Some h, Some (a, b) => u (N.to_nat (cpb_removal_delay_length_minus1 h + 1)) a ++ u (N.to_nat (dpb_output_delay_length_minus1 h + 1)) b
                                    | _, _ => [] end) ++ bits s0 /\ tail s0 = tail s)).
    { unfold delays_hrd_of, nal_hrd_of, vcl_hrd_of, rp. destruct (vui_parameters_ sp) as [v|]; [|apply wp_ret; split; reflexivity].
      destruct (match nal_hrd_parameters v with Some h => Some h | None => vcl_hrd_parameters v end) as [h|]; [|apply wp_ret; split; reflexivity].
      apply wp_bind. apply wx_u. intros a s0 Hb0 Ht0. cbv beta.
      apply wp_bind. apply wx_u. intros b s1 Hb1 Ht1. cbv beta. apply wp_ret.
      split; [rewrite Hb0, Hb1, <- app_assoc; reflexivity|congruence]. }
    eapply wp_mono; [exact Hdel|]. intros d s0 [Hb0 Ht0]. cbv beta.
    apply wp_bind.
    assert (Hps : wp ((match vui_parameters_ sp with
           | Some v =>
             if pic_struct_present_flag v then
               bindE (rp (read_u 8 4 "pic_struct")) (fun id =>
               if 15 <? id then failE (PtInvalidPicStructId id) else
               bindE (repE (num_clock_timestamps id)
                        (bindE (rp (read_bool "clock_timestamp_flag")) (fun f =>
                         if f then bindE (clock_timestamp_read sp) (fun c => retE (Some c)) else retE None)))
                     (fun cts => retE (Some (id, cts))))
             else retE None
           | None => retE None
           end) s0)
           (fun ps s1 => exists fulls, bits s0 = (match ps with Some (id, cts) => u 4 id ++ concat (map (enc_ct_opt sp) (combine cts fulls)) | None => [] end)
                                        ++ bits s1 /\ tail s1 = tail s0)).
    { destruct (vui_parameters_ sp) as [v|]; [|apply wp_ret; exists []; split; reflexivity].
      destruct (pic_struct_present_flag v); [|apply wp_ret; exists []; split; reflexivity].
      unfold rp at 1. apply wp_bind. apply wx_u. intros id s1 Hb1 Ht1. cbv beta.
      destruct (15 <? id); [apply wp_fail|].
      apply wp_bind.
      assert (Hrep : forall n s2 (Psi : list (option clock_timestamp) -> src -> Prop),
         (forall cts fulls s3, length fulls = length cts ->
                               bits s2 = concat (map (enc_ct_opt sp) (combine cts fulls)) ++ bits s3 -> tail s3 = tail s2 -> Psi cts s3) ->
         wp (repE n (bindE (rp (read_bool "clock_timestamp_flag")) (fun f =>
                      if f then bindE (clock_timestamp_read sp) (fun c => retE (Some c)) else retE None)) s2) Psi).
      { induction n as [|n IH]; intros s2 Psi HPsi; cbn [repE].
        - apply wp_ret. apply (HPsi [] []); reflexivity.
        - apply wp_bind. unfold rp at 1. apply wp_bind. apply wx_bool. intros f s3 Hb3 Ht3. cbv beta. destruct f.
          + apply wp_bind. apply wx_ct. intros c full s4 Hb4 Ht4. cbv beta. apply wp_ret.
            apply wp_bind. apply IH. intros cts fulls s5 Hlen Hb5 Ht5. cbv beta. apply wp_ret.
            apply (HPsi (Some c :: cts) (full :: fulls)); [cbn [length]; lia| |congruence].
            cbn [combine map concat enc_ct_opt fst snd]. rewrite Hb3, Hb4, Hb5, <- !app_assoc. reflexivity.
          + apply wp_ret. apply wp_bind. apply IH. intros cts fulls s4 Hlen Hb4 Ht4. cbv beta. apply wp_ret.
            apply (HPsi (None :: cts) (false :: fulls)); [cbn [length]; lia| |congruence].
            cbn [combine map concat enc_ct_opt fst snd]. rewrite Hb3, Hb4, <- !app_assoc. reflexivity. }
      apply Hrep. intros cts fulls s2 Hlen Hb2 Ht2. cbv beta. apply wp_ret.
      exists fulls. split; [rewrite Hb1, Hb2, <- app_assoc; reflexivity|congruence]. }
    eapply wp_mono; [exact Hps|]. intros ps s1 (fulls & Hb1 & Ht1). cbv beta. apply wp_ret.
    exists fulls. split; [|congruence]. unfold enc_pt. cbn [pt_delays pt_pic_struct]. rewrite Hb0, Hb1, <- app_assoc. reflexivity. }
  destruct (body s) as [[v s']| | |]; try discriminate. cbn [wp] in Hw. destruct Hw as (fulls & Hbits & Ht).
  destruct (finish_sei_payload s') as [[]| | |] eqn:Ef; try discriminate. injection H as <-.
  exists fulls, (bits s'). split; [exact Hbits|]. apply (finish_sei_ok_iff s' Ht). exact Ef.
Qed.
