(* C14: more_rbsp_data / trailing bits are exact at every bit position. *)
From H264 Require Import Base.Prelude Base.Bits Model.BitReader Proofs.C07_proofs.

Definition any_one (l : list bool) : bool := existsb (fun b => b) l.

Lemma unary1_any_one l : forall acc, (exists x, unary1 l acc = Some x) <-> any_one l = true.
Proof.
  induction l as [|b l IH]; intros acc; cbn [unary1 any_one existsb].
  - split; [intros [x H]; discriminate|discriminate].
  - destruct b; cbn [orb].
    + split; [reflexivity|]. intros _. eexists; reflexivity.
    + apply IH.
Qed.

Lemma unary1_none_any_one l acc : unary1 l acc = None <-> any_one l = false.
Proof.
  pose proof (unary1_any_one l acc) as H. destruct (unary1 l acc) as [x|]; destruct (any_one l).
  - split; discriminate.
  - exfalso. assert (false = true) by (apply H; eexists; reflexivity). discriminate.
  - exfalso. destruct H as [_ H]. destruct (H eq_refl) as [x Hx]. discriminate.
  - split; reflexivity.
Qed.

Lemma any_one_false_repeat l : any_one l = false <-> l = repeat false (length l).
Proof.
  induction l as [|b l IH]; cbn [any_one existsb length repeat]; [split; reflexivity|].
  destruct b; cbn [orb].
  - split; discriminate.
  - rewrite IH. split; intros H; [f_equal; exact H|injection H as H; exact H].
Qed.

Lemma any_one_nth l : any_one l = true <-> exists j, nth j l false = true.
Proof.
  induction l as [|b l IH]; cbn [any_one existsb].
  - split; [discriminate|]. intros [j H]. destruct j; discriminate.
  - destruct b; cbn [orb].
    + split; [|reflexivity]. intros _. exists 0%nat. reflexivity.
    + rewrite IH. split; intros [j H]; [exists (S j); exact H|].
      destruct j; [discriminate|]. exists j. exact H.
Qed.

(* has_more_rbsp_data, for every tail *)
Lemma has_more_spec nm s :
  has_more_rbsp_data nm s =
    if any_one (List.tl (bits s)) then OK (true, s)
    else match tail s with
         | TEof => OK (false, s)
         | t => ERR (ReaderErrorFor nm (kind_of_tail t))
         end.
Proof.
  unfold has_more_rbsp_data. destruct (bits s) as [|b r]; cbn [List.tl].
  - reflexivity.
  - destruct (unary1 r 0) as [x|] eqn:E.
    + assert (any_one r = true) by (apply (unary1_any_one r 0); eexists; exact E). rewrite H. reflexivity.
    + apply unary1_none_any_one in E. rewrite E. reflexivity.
Qed.

Lemma finish_rbsp_spec s :
  finish_rbsp s =
    match bits s with
    | [] => ERR (ReaderErrorFor "finish" (kind_of_tail (tail s)))
    | b :: r =>
        if any_one r then ERR RemainingData
        else if b then match tail s with
                       | TEof => OK tt
                       | t => ERR (ReaderErrorFor "finish" (kind_of_tail t))
                       end
             else ERR (ReaderErrorFor "finish" (kind_of_tail (tail s)))
    end.
Proof.
  unfold finish_rbsp, eof_err. destruct (bits s) as [|b r]; [reflexivity|].
  destruct (unary1 r 0) as [x|] eqn:E.
  - assert (H : any_one r = true) by (apply (unary1_any_one r 0); eexists; exact E). rewrite H.
    destruct b; reflexivity.
  - apply unary1_none_any_one in E. rewrite E. destruct b; reflexivity.
Qed.

Lemma finish_rbsp_ok_iff s : tail s = TEof ->
  (finish_rbsp s = OK tt <-> exists k, bits s = true :: repeat false k).
Proof.
  intros Ht. rewrite finish_rbsp_spec, Ht. destruct (bits s) as [|b r].
  - split; [discriminate|]. intros [k H]. discriminate.
  - destruct (any_one r) eqn:E.
    + split; [discriminate|]. intros [k H]. injection H as -> ->.
      assert (any_one (repeat false k) = false) by (apply any_one_false_repeat; rewrite repeat_length; reflexivity).
      congruence.
    + apply any_one_false_repeat in E. destruct b.
      * split; [|reflexivity]. intros _. exists (length r). rewrite <- E. reflexivity.
      * split; [discriminate|]. intros [k H]. discriminate.
Qed.

Lemma finish_rbsp_remaining_iff s :
  finish_rbsp s = ERR RemainingData <-> any_one (List.tl (bits s)) = true.
Proof.
  rewrite finish_rbsp_spec. destruct (bits s) as [|b r]; cbn [List.tl].
  - split; discriminate.
  - destruct (any_one r); [split; reflexivity|]. destruct b; [destruct (tail s)|]; split; discriminate.
Qed.

Lemma finish_sei_spec s :
  finish_sei_payload s =
    match bits s with
    | [] => match tail s with
            | TEof => OK tt
            | t => ERR (ReaderErrorFor "finish" (kind_of_tail t))
            end
    | false :: _ => ERR RemainingData
    | true :: r =>
        if any_one r then ERR RemainingData
        else match tail s with
             | TEof => OK tt
             | t => ERR (ReaderErrorFor "finish" (kind_of_tail t))
             end
    end.
Proof.
  unfold finish_sei_payload. destruct (bits s) as [|b r]; [reflexivity|]. destruct b; [|reflexivity].
  destruct (unary1 r 0) as [x|] eqn:E.
  - assert (H : any_one r = true) by (apply (unary1_any_one r 0); eexists; exact E). rewrite H. reflexivity.
  - apply unary1_none_any_one in E. rewrite E. reflexivity.
Qed.

Lemma finish_sei_ok_iff s : tail s = TEof ->
  (finish_sei_payload s = OK tt <-> bits s = [] \/ exists k, bits s = true :: repeat false k).
Proof.
  intros Ht. rewrite finish_sei_spec, Ht. destruct (bits s) as [|b r].
  - split; [left; reflexivity|reflexivity].
  - destruct b.
    + destruct (any_one r) eqn:E.
      * split; [discriminate|]. intros [H|[k H]]; [discriminate|]. injection H as ->.
        assert (any_one (repeat false k) = false) by (apply any_one_false_repeat; rewrite repeat_length; reflexivity).
        congruence.
      * apply any_one_false_repeat in E. split; [|reflexivity]. intros _. right. exists (length r). rewrite <- E. reflexivity.
    + split; [discriminate|]. intros [H|[k H]]; discriminate.
Qed.
