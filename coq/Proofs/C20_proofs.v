(* C20: proofs by complete enumeration of the implementation's own graphs (Gen/ImplTables.v,
   Gen/ImplLevel.v are dumped from the real crate on every run). *)
From H264 Require Import Base.Prelude Proofs.TablesLib Gen.ImplTables Gen.ImplLevel.
Local Open Scope N_scope.

(* ---- NAL header byte ---- *)
Definition hdr_ok (b : N) : bool :=
  match lookup b impl_hdr with
  | Some None => 128 <=? b
  | Some (Some (r, t, back)) => (b <? 128) && (r =? (b / 32) mod 4) && (t =? b mod 32) && (back =? b)
  | None => false
  end.
Lemma hdr_sweep : forallb hdr_ok (range 256) = true. Proof. vm_compute. reflexivity. Qed.

Lemma header_total : forall b, b < 256 ->
  match lookup b impl_hdr with
  | Some None => 128 <= b
  | Some (Some (r, t, back)) => b < 128 /\ r = (b / 32) mod 4 /\ t = b mod 32 /\ back = b
  | None => False
  end.
Proof.
  intros b Hb. pose proof (forall_range hdr_ok 256 hdr_sweep b Hb) as H. unfold hdr_ok in H.
  destruct (lookup b impl_hdr) as [[[[r t] back]|]|]; try discriminate; lia.
Qed.

(* ---- unit types ---- *)
Definition ut_ok (id : N) : bool :=
  match lookup id impl_ut with
  | Some (Some (Some (back, _))) => (id <? 32) && (back =? id)
  | Some (Some None) => 32 <=? id
  | _ => false
  end.
Lemma ut_sweep : forallb ut_ok (range 256) = true. Proof. vm_compute. reflexivity. Qed.

Definition ut_name (id : N) : option string :=
  match lookup id impl_ut with Some (Some (Some (_, nm))) => Some nm | _ => None end.

Definition ut_distinct_ok (i : N) : bool :=
  forallb (fun j => (i =? j) || negb (match ut_name i, ut_name j with
                                       | Some a, Some b => String.eqb a b
                                       | _, _ => true end)) (range 32).
Lemma ut_distinct_sweep : forallb ut_distinct_ok (range 32) = true. Proof. vm_compute. reflexivity. Qed.

(* PartialEq on unit types: for_id a == for_id b exactly when a = b (key 32a+b of the dumped table) *)
Definition uteq_ok (k : N) : bool :=
  match lookup k impl_uteq with
  | Some (Some e) => Bool.eqb e (k / 32 =? k mod 32)
  | _ => false
  end.
Lemma uteq_sweep : forallb uteq_ok (range 1024) = true. Proof. vm_compute. reflexivity. Qed.

Lemma unit_type_eq : forall a b, a < 32 -> b < 32 -> lookup (32 * a + b) impl_uteq = Some (Some (a =? b)).
Proof.
  intros a b Ha Hb. assert (Hk : 32 * a + b < 1024) by lia.
  pose proof (forall_range uteq_ok 1024 uteq_sweep (32 * a + b) Hk) as H. unfold uteq_ok in H.
  destruct (lookup (32 * a + b) impl_uteq) as [[e|]|]; try discriminate.
  replace ((32 * a + b) / 32) with a in H by (apply (N.div_unique _ 32 a b); lia).
  replace ((32 * a + b) mod 32) with b in H by (apply (N.mod_unique _ 32 a b); lia).
  apply Bool.eqb_prop in H. subst e. reflexivity.
Qed.

Lemma unit_type_roundtrip : forall id, id < 256 ->
  (id < 32 -> exists nm, lookup id impl_ut = Some (Some (Some (id, nm)))) /\
  (32 <= id -> lookup id impl_ut = Some (Some None)).
Proof.
  intros id Hid. pose proof (forall_range ut_ok 256 ut_sweep id Hid) as H. unfold ut_ok in H.
  destruct (lookup id impl_ut) as [[[[back nm]|]|]|]; try discriminate.
  - split; intros Hlt; [|lia]. exists nm. assert (back = id) by lia. subst. reflexivity.
  - split; intros Hlt; [lia|reflexivity].
Qed.

Lemma unit_type_injective : forall i j nm, i < 32 -> j < 32 ->
  ut_name i = Some nm -> ut_name j = Some nm -> i = j.
Proof.
  intros i j nm Hi Hj Hni Hnj.
  pose proof (forall_range ut_distinct_ok 32 ut_distinct_sweep i Hi) as H.
  unfold ut_distinct_ok in H. rewrite forallb_forall in H.
  specialize (H j (in_range j 32 Hj)). rewrite Hni, Hnj, String.eqb_refl in H.
  destruct (N.eqb_spec i j); [assumption|discriminate].
Qed.

(* ---- profile_idc <-> Profile ---- *)
Definition prof_ok (b : N) : bool :=
  match lookup b impl_prof with
  | Some (back, _, _, wrapped) => (back =? b) && (wrapped =? b)
  | None => false
  end.
Lemma prof_sweep : forallb prof_ok (range 256) = true. Proof. vm_compute. reflexivity. Qed.

Lemma profile_roundtrip : forall b, b < 256 ->
  exists nm ci, lookup b impl_prof = Some (b, nm, ci, b).
Proof.
  intros b Hb. pose proof (forall_range prof_ok 256 prof_sweep b Hb) as H. unfold prof_ok in H.
  destruct (lookup b impl_prof) as [[[[back nm] ci] w]|]; try discriminate.
  exists nm, ci. assert (back = b) by lia. assert (w = b) by lia. subst. reflexivity.
Qed.

(* ---- (constraint flags, level_idc) <-> Level ---- *)
Definition flag3 (f : N) : bool := (f / 16) mod 2 =? 1.
Definition name_is (idx : N) (s : string) : bool :=
  String.eqb (nth (N.to_nat idx) level_names EmptyString) s.

Definition lvl_row_ok (f : N) (row : list (N * N * N)) : bool :=
  forallb (fun l =>
    match lookup l (map (fun '(l, back, nm) => (l, (back, nm))) row) with
    | Some (back, nm) =>
        (back =? l)
        && Bool.eqb (name_is nm "L1_b") ((l =? 11) && flag3 f)
        && Bool.eqb (name_is nm "L1_1") ((l =? 11) && negb (flag3 f))
    | None => false
    end) (range 256).
Definition lvl_ok (f : N) : bool :=
  match lookup f impl_lvl with Some row => lvl_row_ok f row | None => false end.
Lemma lvl_sweep : forallb lvl_ok (range 256) = true. Proof. vm_compute. reflexivity. Qed.

Definition impl_level (f l : N) : option (N * N) :=
  match lookup f impl_lvl with
  | Some row => lookup l (map (fun '(l, back, nm) => (l, (back, nm))) row)
  | None => None
  end.

Lemma level_roundtrip : forall f l, f < 256 -> l < 256 ->
  exists nm, impl_level f l = Some (l, nm) /\
    (name_is nm "L1_b" = true <-> l = 11 /\ flag3 f = true) /\
    (name_is nm "L1_1" = true <-> l = 11 /\ flag3 f = false).
Proof.
  intros f l Hf Hl. pose proof (forall_range lvl_ok 256 lvl_sweep f Hf) as H.
  unfold lvl_ok in H. unfold impl_level. destruct (lookup f impl_lvl) as [row|]; [|discriminate].
  unfold lvl_row_ok in H. rewrite forallb_forall in H. specialize (H l (in_range l 256 Hl)).
  destruct (lookup l _) as [[back nm]|]; [|discriminate].
  exists nm. apply andb_prop in H. destruct H as [H H3]. apply andb_prop in H. destruct H as [H1 H2].
  assert (back = l) by lia. subst back. split; [reflexivity|].
  apply Bool.eqb_prop in H2. apply Bool.eqb_prop in H3. rewrite H2, H3.
  destruct (N.eqb_spec l 11); destruct (flag3 f); cbn; split; intuition (try discriminate; try lia).
Qed.

(* ---- ConstraintFlags accessors ---- *)
Definition bitn (v k : N) : bool := (v / 2 ^ k) mod 2 =? 1.
Definition cf_ok (b : N) : bool :=
  match lookup b impl_cf with
  | Some (f0, f1, f2, f3, f4, f5, rz, back) =>
      Bool.eqb f0 (bitn b 7) && Bool.eqb f1 (bitn b 6) && Bool.eqb f2 (bitn b 5) &&
      Bool.eqb f3 (bitn b 4) && Bool.eqb f4 (bitn b 3) && Bool.eqb f5 (bitn b 2) &&
      (rz =? b mod 4) && (back =? b)
  | None => false
  end.
Lemma cf_sweep : forallb cf_ok (range 256) = true. Proof. vm_compute. reflexivity. Qed.

Lemma constraint_flags_preserved : forall b, b < 256 ->
  lookup b impl_cf = Some (bitn b 7, bitn b 6, bitn b 5, bitn b 4, bitn b 3, bitn b 2, b mod 4, b).
Proof.
  intros b Hb. pose proof (forall_range cf_ok 256 cf_sweep b Hb) as H. unfold cf_ok in H.
  destruct (lookup b impl_cf) as [[[[[[[[f0 f1] f2] f3] f4] f5] rz] back]|]; [|discriminate].
  repeat (apply andb_prop in H; let H' := fresh "H" in destruct H as [H H']).
  repeat match goal with X : Bool.eqb _ _ = true |- _ => apply Bool.eqb_prop in X end.
  assert (rz = b mod 4) by lia. assert (back = b) by lia. congruence.
Qed.

(* ---- parameter-set id wrappers, on the probe set ---- *)
Definition id_ok (limit : N) (kv : N * option N) : bool :=
  let '(x, r) := kv in
  match r with
  | Some y => (x <=? limit) && (y =? x)
  | None => limit <? x
  end.
Lemma spsid_sweep : forallb (id_ok 31) impl_spsid = true. Proof. vm_compute. reflexivity. Qed.
Lemma ppsid_sweep : forallb (id_ok 255) impl_ppsid = true. Proof. vm_compute. reflexivity. Qed.

Definition probe_covers (l : list (N * option N)) : bool :=
  forallb (fun x => match lookup x l with Some _ => true | None => false end)
          (range 301 ++ [4294967294; 4294967295; 65535; 65536; 2147483648]).
Lemma spsid_probes : probe_covers impl_spsid = true. Proof. vm_compute. reflexivity. Qed.
Lemma ppsid_probes : probe_covers impl_ppsid = true. Proof. vm_compute. reflexivity. Qed.

Lemma id_ok_spec limit x r : id_ok limit (x, r) = true ->
  (r = Some x /\ x <= limit) \/ (r = None /\ limit < x).
Proof.
  unfold id_ok. destruct r as [y|]; intros H.
  - left. apply andb_prop in H. destruct H as [H1 H2].
    apply N.leb_le in H1. apply N.eqb_eq in H2. subst. split; [reflexivity|assumption].
  - right. apply N.ltb_lt in H. split; [reflexivity|assumption].
Qed.

Lemma id_wrappers : forall x r,
  (In (x, r) impl_spsid -> (r = Some x /\ x <= 31) \/ (r = None /\ 31 < x)) /\
  (In (x, r) impl_ppsid -> (r = Some x /\ x <= 255) \/ (r = None /\ 255 < x)).
Proof.
  intros x r. split; intros Hin.
  - pose proof spsid_sweep as H. rewrite forallb_forall in H. exact (id_ok_spec 31 x r (H _ Hin)).
  - pose proof ppsid_sweep as H. rewrite forallb_forall in H. exact (id_ok_spec 255 x r (H _ Hin)).
Qed.
