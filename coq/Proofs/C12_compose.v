(* C12: composition of the framing, accumulation and RBSP links. *)
From H264 Require Import Base.Prelude Base.Bits Spec.AnnexBSpec Spec.AccumSpec Spec.Escape Spec.AvccSpec
     Model.BitReader Model.RefNal Model.Rbsp Model.Source Model.AnnexB Model.Accum Model.Sei Model.Avcc Model.Context Model.Pps Model.Driver
     Proofs.EscapeProofs Proofs.AnnexB_sem Proofs.AnnexB_push Proofs.AnnexB_compose Proofs.C08_proofs Proofs.C09_proofs
     Proofs.RbspStream Proofs.C17_tie Proofs.C12_frame.
Local Open Scope N_scope.

Definition frs_of (calls : list call) : list (list (list byte) * bool) := map (fun c => (bufs c, fin c)) calls.

Definition nonempty (l : list byte) : bool := match l with [] => false | _ => true end.

(* the units the fragment calls describe, starting with `sofar` already received for the open unit *)
Fixpoint units_of (calls : list call) (sofar : list byte) : list (list byte) * list byte :=
  match calls with
  | [] => ([], sofar)
  | c :: more =>
      let s' := sofar ++ concat (bufs c) in
      if fin c then let '(u, o) := units_of more [] in (s' :: u, o) else units_of more s'
  end.

Lemma feed_calls_units calls : forall D sofar,
  feed_calls calls (D, sofar) = (D ++ fst (units_of calls sofar), snd (units_of calls sofar)).
Proof.
  induction calls as [|c more IH]; intros D sofar; cbn [feed_calls fold_left units_of].
  - rewrite app_nil_r. reflexivity.
  - unfold feed_call at 2. cbn [fst snd]. fold (feed_calls more). destruct (fin c).
    + rewrite IH. destruct (units_of more []) as [u o]. cbn [fst snd]. rewrite <- app_assoc. reflexivity.
    + apply IH.
Qed.

(* an always-Buffer handler sees, as complete invocations, exactly the non-empty units *)
Lemma spec_run_units calls : forall sofar,
  map fst (filter (fun v => snd v) (spec_run sofar false [] (frs_of calls))) = filter nonempty (fst (units_of calls sofar)).
Proof.
  induction calls as [|c more IH]; intros sofar; [reflexivity|].
  cbn [frs_of map spec_run units_of]. fold (frs_of more).
  destruct (sofar ++ concat (bufs c)) as [|x xs] eqn:Es.
  - destruct (fin c).
    + destruct (units_of more []) as [u o] eqn:Eu. cbn [fst filter nonempty]. specialize (IH []). rewrite Eu in IH. exact IH.
    + apply IH.
  - cbn [next_decision]. destruct (fin c).
    + destruct (units_of more []) as [u o] eqn:Eu. cbn [filter snd fst map nonempty]. f_equal.
      specialize (IH []). rewrite Eu in IH. exact IH.
    + cbn [filter snd]. apply IH.
Qed.

Lemma slices_ok_of_calls calls : Forall call_ok calls -> slices_ok (frs_of calls).
Proof.
  intros H. unfold slices_ok, frs_of. apply Forall_forall. intros fr Hin. apply in_map_iff in Hin.
  destruct Hin as (c & <- & Hc). rewrite Forall_forall in H. apply (H c Hc).
Qed.

Lemma pushes_calls_ok cs : forall st, Forall call_ok (snd (pushes st cs)).
Proof.
  induction cs as [|c more IH]; intros st; cbn [pushes]; [constructor|].
  pose proof (push_calls_ok st c) as H1. destruct (push st c) as [st1 k1]. specialize (IH st1).
  destruct (pushes st1 more) as [st2 k2]. cbn [snd] in *. apply Forall_app. split; assumption.
Qed.

Lemma filter_map_view (l : list invocation) :
  map fst (filter (fun v => snd v) (map view l)) = map inv_bytes (filter inv_complete l).
Proof.
  induction l as [|i r IH]; [reflexivity|]. cbn [map filter view snd]. destruct (inv_complete i); cbn [map fst]; rewrite IH; reflexivity.
Qed.

Lemma filter_nonempty_all l : Forall (fun u => u <> []) l -> filter nonempty l = l.
Proof. induction 1 as [|x r Hx _ IH]; [reflexivity|]. cbn [filter]. destruct x; [contradiction|]. cbn [nonempty]. rewrite IH. reflexivity. Qed.

(* Delivery: any push partition of the serialised stream, then the end of the stream (reset), makes the
   accumulator show an always-Buffer handler exactly the NAL units as complete invocations - each once,
   in order, byte-identical - whatever it shows as incomplete invocations in between *)
Theorem delivery units t cs :
  Forall (fun u => unit_ok (snd u)) units -> (t = 0%nat \/ 3 <= t)%nat ->
  concat cs = annexb_encode units t ->
  let '(st, k) := pushes AStart cs in
  map inv_bytes (filter inv_complete (run_fragments acc_init [] (frs_of (k ++ snd (reset st))))) = map snd units.
Proof.
  intros Hu Ht Hc. pose proof (pushes_reset_segment cs) as Hseg. pose proof (pushes_calls_ok cs AStart) as Hok.
  destruct (pushes AStart cs) as [st k]. cbn [snd] in Hok.
  assert (Hall : Forall call_ok (k ++ snd (reset st))) by (apply Forall_app; split; [exact Hok|apply reset_calls_ok]).
  rewrite <- filter_map_view, (refines_init _ [] (slices_ok_of_calls _ Hall)). unfold spec_history.
  rewrite spec_run_units. rewrite feed_calls_units in Hseg. cbn [app] in Hseg. injection Hseg as Hs _.
  rewrite Hs, Hc, (segment_encode units t Hu Ht).
  apply filter_nonempty_all. rewrite Forall_map. eapply Forall_impl; [|exact Hu]. intros u (Hne & _). exact Hne.
Qed.

(* What a parser sees of a clean NAL does not depend on how the accumulator chunked it: the bit source
   (and the byte source under the SEI reader) equals that of the contiguous NAL *)
Theorem parse_view_chunk_independent head tl p :
  head <> [] -> Forall (fun ch => ch <> []) tl ->
  unescape (skipn 1 (head ++ concat tl)) = Some p ->
  bitsrc_of_source (SrcNal true (head :: tl)) = nal_bitsrc (head ++ concat tl) /\
  bytesrc_of_source (SrcNal true (head :: tl)) = bytesrc_of_source (SrcNal true [head ++ concat tl]).
Proof.
  intros Hh Ht Hu.
  assert (Hne : head ++ concat tl <> []) by (destruct head; [contradiction|discriminate]).
  assert (Hu' : unescape (skipn 1 ((head ++ concat tl) ++ concat [])) = Some p) by (cbn [concat]; rewrite app_nil_r; exact Hu).
  unfold nal_bitsrc. split.
  - rewrite (bitsrc_of_nal true head tl p Hh Ht Hu), (bitsrc_of_nal true (head ++ concat tl) [] p Hne (Forall_nil _) Hu'). reflexivity.
  - rewrite (bytesrc_of_nal true head tl p Hh Ht Hu), (bytesrc_of_nal true (head ++ concat tl) [] p Hne (Forall_nil _) Hu'). reflexivity.
Qed.

(* the invocations the handler is shown always consist of non-empty chunks (what RefNal::new needs) *)
Lemma nal_fragment_chunks_ok a pol bufs e :
  Forall (fun b => b <> []) bufs ->
  Forall (fun i => Forall (fun ch => ch <> []) (inv_chunks i)) (snd (nal_fragment a pol bufs e)).
Proof.
  intros Hb. unfold nal_fragment. destruct (aint a); [|constructor].
  destruct (abuf a) as [|x xs] eqn:Ea.
  - destruct bufs as [|b0 tl]; [constructor|]. destruct (next_decision pol) as [d pol']. cbn [snd].
    constructor; [|constructor]. cbn [inv_chunks]. exact Hb.
  - destruct (next_decision pol) as [d pol']. cbn [snd]. constructor; [|constructor]. cbn [inv_chunks].
    constructor; [discriminate|exact Hb].
Qed.

(* Parameter sets through an AVC configuration record: the context is the one obtained by parsing each
   listed NAL alone, SPS first, in order *)
Theorem avcc_context h spss ppss trailing :
  (length spss <= 31)%nat -> (length ppss <= 255)%nat -> ah_reserved3 h <= 7 ->
  Forall nal_len_ok spss -> Forall nal_len_ok ppss -> Forall (nal_like 7) spss -> Forall (nal_like 8) ppss ->
  create_context (build_avcc h spss ppss trailing) =
  obind (ctx_of_sps (map ItOk spss) ctx_empty) (fun c => ctx_of_pps (map ItOk ppss) c).
Proof.
  intros H1 H2 H3 H4 H5 H6 H7. destruct (build_ok h spss ppss trailing H1 H2 H3 H4 H5) as (_ & Hs & Hp).
  unfold create_context. rewrite (Hs H6), (Hp H7). reflexivity.
Qed.
