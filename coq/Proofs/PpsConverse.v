(* C05, converse direction: every bit string the PPS structure parser accepts is the encoding (per
   Spec/SyntaxPps.v) of the structure it returns. *)
From H264 Require Import Base.Prelude Base.Bits Model.BitReader Model.Parser Model.Sps Model.SpsDerived Model.Context Model.Pps
     Spec.Golomb Spec.SyntaxSps Spec.SyntaxPps
     Proofs.BitsLemmas Proofs.C07_proofs Proofs.Wp Proofs.SpsInv Proofs.PpsInv Proofs.Parses Proofs.SpsRoundtrip Proofs.PpsRoundtrip
     Proofs.SpsConverse.
Local Open Scope N_scope.

Lemma wp_helper {A} (x : out spserr A) s (Phi : A -> src -> Prop) :
  (forall a, x = OK a -> Phi a s) -> (forall e, x <> ERR e) -> (forall w, x <> PANIC w) -> x <> FUEL -> wp (sps_helper x s) Phi.
Proof. intros H He Hp Hf. unfold sps_helper. destruct x as [a|e|w|]; cbn; [apply H; reflexivity|apply (He e); reflexivity|apply (Hp w); reflexivity|apply Hf; reflexivity]. Qed.

(* the helpers consume nothing: under wp we only need that they do not abort (inv_sps) *)
Lemma wx_helper_size sp s (Phi : N -> src -> Prop) : inv_sps sp -> (forall n, Phi n s) -> wp (sps_helper (pic_size_in_map_units sp) s) Phi.
Proof. intros Hi H. apply wp_sps_helper_size; [exact Hi|]. intros n _. apply H. Qed.
Lemma wx_helper_width sp s (Phi : N -> src -> Prop) : inv_sps sp -> (forall n, 1 <= n -> Phi n s) -> wp (sps_helper (pic_width_in_mbs sp) s) Phi.
Proof. intros Hi H. apply wp_sps_helper_width; [exact Hi|]. intros n _ Hn. apply H. lia. Qed.

Lemma wx_rect sp s (Phi : N * N -> src -> Prop) : inv_sps sp ->
  (forall r s', bits s = (ue (fst r) ++ ue (snd r)) ++ bits s' -> tail s' = tail s -> Phi r s') -> wp (slice_rect_read sp s) Phi.
Proof.
  intros Hi Hk. unfold slice_rect_read, rd.
  apply wp_bind. apply wx_ue. intros tl s0 Hb0 Ht0. cbv beta.
  apply wp_bind. apply wx_ue. intros br s1 Hb1 Ht1. cbv beta.
  destruct (br <? tl); [apply wp_fail|].
  apply wp_bind. apply wx_helper_size; [exact Hi|]. intros size. cbv beta.
  destruct (size <? br); [apply wp_fail|].
  apply wp_bind. apply wx_helper_width; [exact Hi|]. intros w Hw. cbv beta.
  destruct (N.eqb_spec w 0); [lia|]. destruct (br mod w <? tl mod w); [apply wp_fail|].
  apply wp_ret. apply Hk; [cbn [fst snd]; rewrite Hb0, Hb1, <- app_assoc; reflexivity|congruence].
Qed.

Lemma wx_run_length sp s (Phi : N -> src -> Prop) : inv_sps sp ->
  (forall v s', bits s = ue v ++ bits s' -> tail s' = tail s -> Phi v s') -> wp (read_run_length sp s) Phi.
Proof.
  intros Hi Hk. unfold read_run_length, rd.
  apply wp_bind. apply wx_ue. intros v s0 Hb0 Ht0. cbv beta.
  apply wp_bind. apply wp_sps_helper_size; [exact Hi|]. intros size Hsize. cbv beta.
  apply wp_bind. unfold sub32. destruct (N.leb_spec 1 size); [|lia]. apply (wp_liftO_ok _ (size - 1)); [reflexivity|].
  destruct (size - 1 <? v); [apply wp_fail|]. apply wp_ret. apply Hk; assumption.
Qed.

Lemma wx_rep {E A} (p : PE E A) (enc : A -> list bool) n : forall s (Phi : list A -> src -> Prop),
  (forall s0 (Psi : A -> src -> Prop), (forall a s1, bits s0 = enc a ++ bits s1 -> tail s1 = tail s0 -> Psi a s1) -> wp (p s0) Psi) ->
  (forall l s', length l = n -> bits s = concat (map enc l) ++ bits s' -> tail s' = tail s -> Phi l s') ->
  wp (repE n p s) Phi.
Proof.
  induction n as [|n IH]; intros s Phi Hp Hk; cbn [repE].
  - apply wp_ret. apply (Hk []); reflexivity.
  - apply wp_bind. apply Hp. intros a s1 Hb1 Ht1. cbv beta. apply wp_bind. apply IH; [exact Hp|].
    intros l s2 Hlen Hb2 Ht2. cbv beta. apply wp_ret.
    apply (Hk (a :: l)); [cbn [length]; lia|cbn [map concat]; rewrite Hb1, Hb2, <- app_assoc; reflexivity|congruence].
Qed.

Lemma wx_ids_loop fuel : forall count size acc s (Phi : list N -> src -> Prop),
  1 <= size -> (length (bits s) < fuel)%nat ->
  (forall ids s', N.of_nat (length ids) = count -> bits s = concat (map (to_bits (N.to_nat size)) ids) ++ bits s' -> tail s' = tail s ->
                  Phi (acc ++ ids) s') ->
  wp (read_ids_loop fuel count size acc s) Phi.
Proof.
  induction fuel as [|f IH]; intros count size acc s Phi Hs Hf Hk; [lia|]. cbn [read_ids_loop].
  destruct (N.eqb_spec count 0) as [->|Hc].
  - apply wp_ret. specialize (Hk [] s). rewrite app_nil_r in Hk. apply Hk; reflexivity.
  - unfold rd. apply wp_bind. apply wp_read_u. intros x s1 _ _ Hb1 Ht1. cbv beta.
    assert (Hlen : (length (bits s1) < length (bits s))%nat) by (rewrite Hb1, app_length, to_bits_length; lia).
    apply IH; [exact Hs|lia|]. intros ids s' Hl Hb Ht. rewrite <- app_assoc. cbn [app].
    apply (Hk (x :: ids)); [cbn [length]; lia|cbn [map concat]; rewrite Hb1, Hb, <- app_assoc; reflexivity|congruence].
Qed.

Lemma wx_group_ids n s (Phi : list N -> src -> Prop) : 1 <= n <= 7 ->
  (forall ids s', bits s = (ue (N.of_nat (length ids) - 1) ++ concat (map (u (slice_group_id_bits n)) ids)) ++ bits s' -> tail s' = tail s ->
                  Phi ids s') ->
  wp (read_group_ids n s) Phi.
Proof.
  intros Hn Hk. unfold read_group_ids, rd.
  apply wp_bind. apply wp_read_ue. intros m1 s1 Hm Hb1 Ht1. cbv beta.
  apply wp_bind. unfold add32. destruct (N.ltb_spec (m1 + 1) two32) as [|Hge]; [|unfold two32 in Hge; lia].
  apply (wp_liftO_ok _ (m1 + 1)); [reflexivity|].
  pose proof (ceil_log2_range n Hn) as Hr.
  apply wx_ids_loop; [lia|lia|]. intros ids s' Hlen Hb Ht. cbn [app].
  apply Hk; [|congruence]. unfold u, slice_group_id_bits. rewrite <- (ceil_log2_is_spec n Hn).
  replace (N.of_nat (length ids) - 1) with m1 by lia. rewrite Hb1, Hb, <- app_assoc. reflexivity.
Qed.

Lemma wx_slice_group n sp s (Phi : slice_group -> src -> Prop) : inv_sps sp -> 1 <= n <= 7 ->
  (forall g s', num_slice_groups_minus1_of (Some g) = n -> bits s = enc_slice_group g ++ bits s' -> tail s' = tail s -> Phi g s') ->
  wp (slice_group_read n sp s) Phi.
Proof.
  intros Hi Hn Hk. unfold slice_group_read, rd.
  apply wp_bind. apply wx_ue. intros t s0 Hb0 Ht0. cbv beta.
  destruct t as [|[[[p|p|]|[p|p|]|]|[[p|p|]|[p|p|]|]|]]; try apply wp_fail.
  - (* 0 *) apply wp_bind. unfold add32. destruct (N.ltb_spec (n + 1) two32) as [|Hge]; [|unfold two32 in Hge; lia].
    apply (wp_liftO_ok _ (n + 1)); [reflexivity|].
    apply wp_bind. apply (wx_rep (read_run_length sp) ue); [intros s1 Psi HPsi; apply wx_run_length; [exact Hi|exact HPsi]|].
    intros l s2 Hlen Hb2 Ht2. cbv beta. apply wp_ret.
    apply Hk; [cbn [num_slice_groups_minus1_of]; lia|cbn [enc_slice_group]; rewrite Hb0, Hb2, <- app_assoc; reflexivity|congruence].
  - (* 5 *)
    apply wp_bind. apply wx_bool. intros d s1 Hb1 Ht1. cbv beta.
    apply wp_bind. apply wx_ue. intros r s2 Hb2 Ht2. cbv beta.
    apply wp_bind. apply wp_sps_helper_size; [exact Hi|]. intros size Hsize. cbv beta.
    apply wp_bind. unfold sub32. destruct (N.leb_spec 1 size); [|lia]. apply (wp_liftO_ok _ (size - 1)); [reflexivity|].
    destruct (size - 1 <? r); [apply wp_fail|]. apply wp_ret.
    apply Hk; [reflexivity|cbn [enc_slice_group]; rewrite Hb0, Hb1, Hb2, <- !app_assoc; reflexivity|congruence].
  - (* 3 *)
    apply wp_bind. apply wx_bool. intros d s1 Hb1 Ht1. cbv beta.
    apply wp_bind. apply wx_ue. intros r s2 Hb2 Ht2. cbv beta.
    apply wp_bind. apply wp_sps_helper_size; [exact Hi|]. intros size Hsize. cbv beta.
    apply wp_bind. unfold sub32. destruct (N.leb_spec 1 size); [|lia]. apply (wp_liftO_ok _ (size - 1)); [reflexivity|].
    destruct (size - 1 <? r); [apply wp_fail|]. apply wp_ret.
    apply Hk; [reflexivity|cbn [enc_slice_group]; rewrite Hb0, Hb1, Hb2, <- !app_assoc; reflexivity|congruence].
  - (* 6 *) apply wp_bind. apply wx_group_ids; [exact Hn|]. intros ids s1 Hb1 Ht1. cbv beta. apply wp_ret.
    apply Hk; [reflexivity|cbn [enc_slice_group]; rewrite Hb0, Hb1, <- !app_assoc; reflexivity|congruence].
  - (* 4 *)
    apply wp_bind. apply wx_bool. intros d s1 Hb1 Ht1. cbv beta.
    apply wp_bind. apply wx_ue. intros r s2 Hb2 Ht2. cbv beta.
    apply wp_bind. apply wp_sps_helper_size; [exact Hi|]. intros size Hsize. cbv beta.
    apply wp_bind. unfold sub32. destruct (N.leb_spec 1 size); [|lia]. apply (wp_liftO_ok _ (size - 1)); [reflexivity|].
    destruct (size - 1 <? r); [apply wp_fail|]. apply wp_ret.
    apply Hk; [reflexivity|cbn [enc_slice_group]; rewrite Hb0, Hb1, Hb2, <- !app_assoc; reflexivity|congruence].
  - (* 2 *) apply wp_bind.
    apply (wx_rep (slice_rect_read sp) (fun r => ue (fst r) ++ ue (snd r))); [intros s1 Psi HPsi; apply wx_rect; [exact Hi|exact HPsi]|].
    intros l s2 Hlen Hb2 Ht2. cbv beta. apply wp_ret.
    apply Hk; [cbn [num_slice_groups_minus1_of]; lia|cbn [enc_slice_group]; rewrite Hb0, Hb2, <- app_assoc; reflexivity|congruence].
  - (* 1 *) apply wp_ret. apply Hk; [reflexivity|cbn [enc_slice_group]; exact Hb0|exact Ht0].
Qed.

Lemma wx_slice_groups sp s (Phi : option slice_group -> src -> Prop) : inv_sps sp ->
  (forall g s', bits s = enc_slice_groups g ++ bits s' -> tail s' = tail s -> Phi g s') -> wp (read_slice_groups sp s) Phi.
Proof.
  intros Hi Hk. unfold read_slice_groups, rd.
  apply wp_bind. apply wx_ue. intros n s0 Hb0 Ht0. cbv beta.
  destruct (N.ltb_spec 7 n); [apply wp_fail|]. destruct (N.ltb_spec 0 n).
  - apply wp_bind. apply wx_slice_group; [exact Hi|lia|]. intros g s1 Hn Hb1 Ht1. cbv beta. apply wp_ret.
    apply Hk; [unfold enc_slice_groups; rewrite Hn, Hb0, Hb1, <- app_assoc; reflexivity|congruence].
  - apply wp_ret. assert (n = 0) by lia. subst n. apply Hk; [unfold enc_slice_groups; cbn [num_slice_groups_minus1_of]; rewrite app_nil_r; exact Hb0|exact Ht0].
Qed.

Lemma wx_num_ref_idx nm s (Phi : N -> src -> Prop) :
  (forall v s', bits s = ue v ++ bits s' -> tail s' = tail s -> Phi v s') -> wp (read_num_ref_idx nm s) Phi.
Proof.
  intros Hk. unfold read_num_ref_idx, rd. apply wp_bind. apply wx_ue. intros v s0 Hb0 Ht0. cbv beta.
  destruct (31 <? v); [apply wp_fail|]. apply wp_ret. apply Hk; assumption.
Qed.

Lemma wx_pic_scaling_lists n : forall i l4 l8 s (Phi : list scaling_list * list scaling_list -> src -> Prop),
  (forall r ls s', length ls = n -> bits s = concat (map enc_scaling_list ls) ++ bits s' -> tail s' = tail s -> Phi r s') ->
  wp (read_pic_scaling_lists n i l4 l8 s) Phi.
Proof.
  induction n as [|n IH]; intros i l4 l8 s Phi Hk; cbn [read_pic_scaling_lists].
  - apply wp_ret. apply (Hk _ []); reflexivity.
  - unfold rd. apply wp_bind. apply wx_bool. intros f s0 Hb0 Ht0. cbv beta.
    assert (Hsl : forall size (Psi : scaling_list -> src -> Prop),
               (forall sl p s1, is_some p = f -> bits s0 = sl_body p ++ bits s1 -> tail s1 = tail s0 -> Psi sl s1) ->
               wp (mapE PpsScalingMatrix (read_scaling_list size f) s0) Psi).
    { intros size Psi HPsi. apply wp_mapE. unfold read_scaling_list. destruct f; cbn [negb].
      - apply wp_bind. apply wx_fill. intros r ds s1 Hb1 Ht1. cbv beta. apply wp_ret.
        apply (HPsi _ (Some ds)); [reflexivity|exact Hb1|exact Ht1].
      - apply wp_ret. apply (HPsi _ None); reflexivity. }
    destruct (Nat.ltb i 6); apply wp_bind; apply Hsl; intros sl p s1 Hp Hb1 Ht1; cbv beta; apply IH; intros r ls s' Hlen Hb Ht;
      (apply (Hk r (p :: ls)); [cbn [length]; lia| |congruence]);
      cbn [map concat]; rewrite enc_scaling_list_split, Hp, Hb0, Hb1, Hb, <- !app_assoc; reflexivity.
Qed.

Lemma wx_psm sp t8 s (Phi : option pic_scaling_matrix -> src -> Prop) :
  (forall m plists s', bits s = enc_psm plists ++ bits s' -> tail s' = tail s -> Phi m s') -> wp (pic_scaling_matrix_read sp t8 s) Phi.
Proof.
  intros Hk. unfold pic_scaling_matrix_read, rd.
  apply wp_bind. apply wx_bool. intros f s0 Hb0 Ht0. cbv beta. destruct f; cbn [negb].
  - apply wp_bind. apply wx_pic_scaling_lists. intros r ls s1 Hlen Hb1 Ht1. cbv beta. apply wp_ret.
    apply (Hk _ (Some ls)); [unfold enc_psm; rewrite Hb0, Hb1, <- app_assoc; reflexivity|congruence].
  - apply wp_ret. apply (Hk _ None); [unfold enc_psm; exact Hb0|exact Ht0].
Qed.

Lemma wx_pps_extra sp s (Phi : option pps_extra -> src -> Prop) :
  (forall e plists s', bits s = enc_pps_ext e plists ++ bits s' -> tail s' = tail s -> Phi e s') -> wp (pps_extra_read sp s) Phi.
Proof.
  intros Hk. unfold pps_extra_read, rd.
  apply wp_bind. apply wp_has_more. intros more. cbv beta. destruct more.
  - apply wp_bind. apply wx_bool. intros t s0 Hb0 Ht0. cbv beta.
    apply wp_bind. apply wx_psm. intros m plists s1 Hb1 Ht1. cbv beta.
    apply wp_bind. apply wx_se. intros q s2 Hb2 Ht2. cbv beta.
    destruct ((q <? -12)%Z || (12 <? q)%Z); [apply wp_fail|]. apply wp_ret.
    apply (Hk _ plists); [|congruence]. cbn [enc_pps_ext transform_8x8_mode_flag second_chroma_qp_index_offset].
    fold (enc_psm plists). rewrite Hb0, Hb1, Hb2, <- !app_assoc. reflexivity.
  - apply wp_ret. apply (Hk None None); reflexivity.
Qed.

Theorem pps_body_converse c s v s' : ctx_sps_ok c -> pps_body c s = OK (v, s') ->
  exists plists, bits s = enc_pps v plists ++ bits s' /\ tail s' = tail s.
Proof.
  intros Hc H.
  assert (Hw : wp (pps_body c s) (fun v s' => exists plists, bits s = enc_pps v plists ++ bits s' /\ tail s' = tail s)).
  2:{ rewrite H in Hw. exact Hw. }
  clear H v s'. unfold pps_body, rd.
  apply wp_bind. apply wx_ue. intros idv s0 Hb0 Ht0. cbv beta.
  unfold pic_param_set_id_from_u32. destruct (255 <? idv); [apply wp_fail|].
  apply wp_bind. apply wx_ue. intros sidv s1 Hb1 Ht1. cbv beta.
  unfold seq_param_set_id_from_u32. destruct (31 <? sidv); [apply wp_fail|].
  destruct (sps_by_id c sidv) as [sp|] eqn:Esp; [|apply wp_fail].
  pose proof (Hc _ _ Esp) as Hi.
  apply wp_bind. apply wx_bool. intros ec s2 Hb2 Ht2. cbv beta.
  apply wp_bind. apply wx_bool. intros bf s3 Hb3 Ht3. cbv beta.
  apply wp_bind. apply wx_slice_groups; [exact Hi|]. intros sg s4 Hb4 Ht4. cbv beta.
  apply wp_bind. apply wx_num_ref_idx. intros l0 s5 Hb5 Ht5. cbv beta.
  apply wp_bind. apply wx_num_ref_idx. intros l1 s6 Hb6 Ht6. cbv beta.
  apply wp_bind. apply wx_bool. intros wpf s7 Hb7 Ht7. cbv beta.
  apply wp_bind. apply wx_u. intros wb s8 Hb8 Ht8. cbv beta.
  apply wp_bind. apply wx_se. intros qp s9 Hb9 Ht9. cbv beta.
  apply wp_bind. apply wx_se. intros qs s10 Hb10 Ht10. cbv beta.
  apply wp_bind. apply wx_se. intros cq s11 Hb11 Ht11. cbv beta.
  apply wp_bind. apply wx_bool. intros db s12 Hb12 Ht12. cbv beta.
  apply wp_bind. apply wx_bool. intros ci s13 Hb13 Ht13. cbv beta.
  apply wp_bind. apply wx_bool. intros rp s14 Hb14 Ht14. cbv beta.
  apply wp_bind. apply wx_pps_extra. intros ext plists s15 Hb15 Ht15. cbv beta.
  repeat match goal with |- wp ((if ?c then _ else _) _) _ => destruct c; [apply wp_fail|] end.
  apply wp_ret. exists plists. split; [|congruence].
  unfold enc_pps.
  cbn [pic_parameter_set_id pps_seq_parameter_set_id entropy_coding_mode_flag bottom_field_pic_order_in_frame_present_flag slice_groups
       num_ref_idx_l0_default_active_minus1 num_ref_idx_l1_default_active_minus1 weighted_pred_flag weighted_bipred_idc
       pic_init_qp_minus26 pic_init_qs_minus26 chroma_qp_index_offset deblocking_filter_control_present_flag constrained_intra_pred_flag
       redundant_pic_cnt_present_flag extension].
  rewrite Hb0, Hb1, Hb2, Hb3, Hb4, Hb5, Hb6, Hb7, Hb8, Hb9, Hb10, Hb11, Hb12, Hb13, Hb14, Hb15. rewrite <- ?app_assoc. reflexivity.
Qed.
