From H264 Require Import Base.Prelude Model.Nal Model.Source Model.Avcc Model.Sps Model.Context Model.Pps Spec.AvccSpec
     Proofs.SpsInv Proofs.PpsInv Proofs.C19_proofs.
Local Open Scope N_scope.

Lemma idx_ok data i : (i < length data)%nat -> exists b, idx data i = OK b /\ nth_error data i = Some b.
Proof. intros H. unfold idx. destruct (nth_error data i) eqn:E; [eauto|]. apply nth_error_None in E. lia. Qed.

Lemma ck_ok data n : (n <= length data)%nat -> ck data n = OK tt.
Proof. intros H. unfold ck. destruct (Nat.ltb_spec (length data) n); [lia|reflexivity]. Qed.
Lemma ck_inv data n : ck data n = OK tt -> (n <= length data)%nat.
Proof. unfold ck. destruct (Nat.ltb_spec (length data) n); [discriminate|intros _; assumption]. Qed.
Lemma ck_cases data n : ck data n = OK tt \/ ck data n = ERR (NotEnoughData n (length data)).
Proof. unfold ck. destruct (Nat.ltb (length data) n); auto. Qed.

(* a successful walk over n length-prefixed entries starting at `len`: what it guarantees *)
Inductive entries (data : list byte) : nat -> nat -> nat -> Prop :=
| ent_nil len : entries data 0 len len
| ent_cons n len a b e :
    nth_error data len = Some a -> nth_error data (len + 1) = Some b ->
    (len + 2 + be16 a b <= length data)%nat ->
    entries data n (len + 2 + be16 a b) e -> entries data (S n) len e.

Lemma sets_end_entries data n : forall len e, sets_end data n len = OK e -> entries data n len e.
Proof.
  induction n as [|n IH]; intros len e H; cbn [sets_end] in H.
  - injection H as <-. constructor.
  - destruct (ck_cases data (len + 2)) as [Hc|Hc]; rewrite Hc in H; [|discriminate]. cbn [obind] in H.
    apply ck_inv in Hc.
    destruct (idx_ok data len) as (a & Ha & Hna); [lia|]. rewrite Ha in H. cbn [obind] in H.
    destruct (idx_ok data (len + 1)) as (b & Hb & Hnb); [lia|]. rewrite Hb in H. cbn [obind] in H.
    destruct (ck_cases data (len + 2 + be16 a b)) as [Hc2|Hc2]; rewrite Hc2 in H; [|discriminate]. cbn [obind] in H.
    apply ck_inv in Hc2. econstructor; eauto.
Qed.

(* sets_end never panics: it only answers OK or NotEnoughData *)
Lemma sets_end_no_abort data n : forall len, no_abort (sets_end data n len).
Proof.
  induction n as [|n IH]; intros len; cbn [sets_end]; [exact I|].
  destruct (ck_cases data (len + 2)) as [Hc|Hc]; rewrite Hc; [|exact I]. cbn [obind]. apply ck_inv in Hc.
  destruct (idx_ok data len) as (a & Ha & _); [lia|]. rewrite Ha. cbn [obind].
  destruct (idx_ok data (len + 1)) as (b & Hb & _); [lia|]. rewrite Hb. cbn [obind].
  destruct (ck_cases data (len + 2 + be16 a b)) as [Hc2|Hc2]; rewrite Hc2; [|exact I]. cbn [obind]. apply IH.
Qed.

Lemma nth_error_skipn {A} (l : list A) k i : nth_error (skipn k l) i = nth_error l (k + i).
Proof. revert l. induction k as [|k IH]; intros l; [reflexivity|]. destruct l; [destruct i; reflexivity|]. cbn. apply IH. Qed.

Lemma skipn_skipn {A} (x y : nat) (l : list A) : skipn x (skipn y l) = skipn (x + y) l.
Proof.
  revert l. induction y as [|y IH]; intros l; [rewrite Nat.add_0_r; reflexivity|].
  rewrite Nat.add_succ_r. destruct l; [rewrite !skipn_nil; reflexivity|]. cbn [skipn]. apply IH.
Qed.

Definition item_ok (it : item) : Prop := match it with ItOk nal => nal <> [] | ItErr _ => True end.

(* an error item does not advance the iterator: the same item repeats *)
Lemma iter_take_stuck n : forall buf expected it,
  iter_next buf expected = OK (Some (it, buf)) -> iter_take n buf expected = OK (repeat it n).
Proof.
  induction n as [|n IH]; intros buf expected it H; cbn [iter_take repeat]; [reflexivity|].
  rewrite H. cbn [obind]. rewrite (IH _ _ _ H). reflexivity.
Qed.

Lemma idx_skipn data len i x : nth_error data (len + i) = Some x -> idx (skipn len data) i = OK x.
Proof. intros H. unfold idx. rewrite nth_error_skipn, H. reflexivity. Qed.

Lemma iter_next_entry data expected len a b :
  nth_error data len = Some a -> nth_error data (len + 1) = Some b -> (len + 2 + be16 a b <= length data)%nat ->
  (exists d, iter_next (skipn len data) expected = OK (Some (ItErr d, skipn len data))) \/
  (be16 a b <> 0%nat /\
   iter_next (skipn len data) expected =
     OK (Some (ItOk (firstn (be16 a b) (skipn (len + 2) data)), skipn (len + 2 + be16 a b) data))).
Proof.
  intros Ha Hb Hlen. unfold iter_next.
  destruct (skipn len data) as [|x xs] eqn:Eb.
  { exfalso. apply (f_equal (@length byte)) in Eb. rewrite skipn_length in Eb. cbn in Eb. lia. }
  rewrite <- Eb.
  rewrite (idx_skipn data len 0 a) by (rewrite Nat.add_0_r; exact Ha). cbn [obind].
  rewrite (idx_skipn data len 1 b) by exact Hb. cbn [obind].
  destruct (Nat.eqb_spec (be16 a b) 0) as [Hz|Hnz]; [left; eexists; reflexivity|].
  assert (Hh : exists h, nth_error data (len + 2) = Some h).
  { destruct (nth_error data (len + 2)) eqn:E; [eauto|]. apply nth_error_None in E. lia. }
  destruct Hh as (h & Hh).
  rewrite skipn_skipn. rewrite (Nat.add_comm 2 len).
  rewrite (idx_skipn data (len + 2) 0 h) by (rewrite Nat.add_0_r; exact Hh). cbn [obind].
  destruct (nal_header_new h) as [hdr|]; [|left; eexists; reflexivity].
  destruct (nal_unit_type_id hdr =? expected)%N; [|left; eexists; reflexivity].
  destruct (Nat.ltb_spec (length (skipn (len + 2) data)) (be16 a b)) as [Hlt|_].
  { rewrite skipn_length in Hlt. lia. }
  right. split; [exact Hnz|]. rewrite skipn_skipn.
  replace (be16 a b + (len + 2))%nat with (len + 2 + be16 a b)%nat by lia. reflexivity.
Qed.

Lemma iter_take_entries data expected n : forall len e, entries data n len e ->
  exists l, iter_take n (skipn len data) expected = OK l /\ Forall item_ok l.
Proof.
  induction n as [|n IH]; intros len e H.
  - exists []. split; [reflexivity|constructor].
  - inversion H as [|n' len' a b e' Ha Hb Hlen Hrest]; subst.
    destruct (iter_next_entry data expected len a b Ha Hb Hlen) as [[d Hd]|[Hnz Hok]].
    + rewrite (iter_take_stuck (S n) _ _ _ Hd). eexists. split; [reflexivity|].
      apply Forall_forall. intros it Hin. apply repeat_spec in Hin. subst. exact I.
    + cbn [iter_take]. rewrite Hok. cbn [obind].
      destruct (IH _ _ Hrest) as (l & Hl & Hall). rewrite Hl. cbn [obind].
      eexists. split; [reflexivity|]. constructor; [|exact Hall].
      cbn. intros E. apply (f_equal (@length byte)) in E. rewrite firstn_length, skipn_length in E. cbn in E. lia.
Qed.

(* ---- once construction has succeeded, nothing can panic ---- *)
Lemma try_from_ok_facts data : try_from data = OK tt ->
  exists nsps off np e,
    (6 <= length data)%nat /\ num_of_sps data = OK nsps /\ sets_end data nsps 6%nat = OK off /\
    (off < length data)%nat /\ idx data off = OK np /\ sets_end data (N.to_nat np) (off + 1)%nat = OK e.
Proof.
  unfold try_from. destruct (ck_cases data 6%nat) as [Hc|Hc]; rewrite Hc; [|discriminate]. cbn [obind]. apply ck_inv in Hc.
  destruct (idx_ok data 0%nat) as (v & Hv & _); [lia|]. rewrite Hv. cbn [obind].
  destruct (negb (v =? 1)); [discriminate|].
  unfold seq_param_sets_end, num_of_sps. destruct (idx_ok data 5%nat) as (b5 & Hb5 & _); [lia|]. rewrite Hb5. cbn [obind].
  destruct (sets_end data (N.to_nat (N.land b5 31)) 6%nat) as [off| | |] eqn:Es; try discriminate. cbn [obind].
  destruct (ck_cases data (off + 1)%nat) as [Hc2|Hc2]; rewrite Hc2; [|discriminate]. cbn [obind]. apply ck_inv in Hc2.
  destruct (idx_ok data off) as (np & Hnp & _); [lia|]. rewrite Hnp. cbn [obind].
  destruct (sets_end data (N.to_nat np) (off + 1)%nat) as [e| | |] eqn:Ep; try discriminate. intros _.
  exists (N.to_nat (N.land b5 31)), off, np, e. repeat split; try assumption; try reflexivity; lia.
Qed.

Theorem iterators_after_try_from data : try_from data = OK tt ->
  (exists l, sequence_parameter_sets data = OK l /\ Forall item_ok l) /\
  (exists l, picture_parameter_sets data = OK l /\ Forall item_ok l).
Proof.
  intros H. destruct (try_from_ok_facts data H) as (nsps & off & np & e & Hlen & Hn & Hs & Hoff & Hnp & Hp).
  split.
  - unfold sequence_parameter_sets. rewrite Hn. cbn [obind].
    apply (iter_take_entries data 7 nsps 6%nat off). apply sets_end_entries. exact Hs.
  - unfold picture_parameter_sets, seq_param_sets_end. rewrite Hn. cbn [obind]. rewrite Hs, Hnp. cbn [obind].
    apply (iter_take_entries data 8 (N.to_nat np) (off + 1)%nat e). apply sets_end_entries. exact Hp.
Qed.

(* create_context over well-formed item lists never panics *)
Lemma ctx_of_sps_no_abort l : forall c, Forall item_ok l -> ctx_sps_ok c ->
  match ctx_of_sps l c with OK c' => ctx_sps_ok c' | ERR _ => True | _ => False end.
Proof.
  induction l as [|it l IH]; intros c Hall Hc; cbn [ctx_of_sps]; [exact Hc|].
  inversion Hall as [|x xs Hit Hrest]; subst. destruct it as [nal|d]; [|exact I].
  destruct nal as [|b r]; [cbn in Hit; contradiction|].
  pose proof (sps_from_bits_inv (nal_bitsrc (b :: r))) as Hinv.
  destruct (sps_from_bits (nal_bitsrc (b :: r))) as [s| | |] eqn:E; try contradiction; [|exact I].
  apply IH; [exact Hrest|]. intros id sp Hget.
  destruct (N.eq_dec id (seq_parameter_set_id s)) as [->|Hne].
  - rewrite sps_lookup_after_put in Hget. injection Hget as <-. exact Hinv.
  - rewrite sps_lookup_other in Hget by exact Hne. exact (Hc _ _ Hget).
Qed.

Lemma ctx_of_pps_no_abort l : forall c, Forall item_ok l -> ctx_sps_ok c -> no_abort (ctx_of_pps l c).
Proof.
  induction l as [|it l IH]; intros c Hall Hc; cbn [ctx_of_pps]; [exact I|].
  inversion Hall as [|x xs Hit Hrest]; subst. destruct it as [nal|d]; [|exact I].
  destruct nal as [|b r]; [cbn in Hit; contradiction|].
  pose proof (pps_from_bits_inv c (nal_bitsrc (b :: r)) Hc) as Hinv.
  destruct (pps_from_bits c (nal_bitsrc (b :: r))) as [p| | |]; try contradiction; [|exact I].
  apply IH; [exact Hrest|]. intros id sp Hget. exact (Hc id sp Hget).
Qed.

Lemma ctx_empty_ok : ctx_sps_ok ctx_empty.
Proof. intros id sp H. unfold sps_by_id, ctx_empty in H. cbn in H. unfold map_get in H. destruct (N.to_nat id); discriminate. Qed.

Theorem create_context_no_abort data : try_from data = OK tt -> no_abort (create_context data).
Proof.
  intros H. destruct (iterators_after_try_from data H) as [(ls & Hs & Hsall) (lp & Hp & Hpall)].
  unfold create_context. rewrite Hs. cbn [obind].
  pose proof (ctx_of_sps_no_abort ls ctx_empty Hsall ctx_empty_ok) as Hc.
  destruct (ctx_of_sps ls ctx_empty) as [c| | |]; try contradiction; [|exact I]. cbn [obind].
  rewrite Hp. cbn [obind]. apply ctx_of_pps_no_abort; assumption.
Qed.

Theorem try_from_no_abort data : no_abort (try_from data).
Proof.
  unfold try_from. destruct (ck_cases data 6%nat) as [Hc|Hc]; rewrite Hc; [|exact I]. cbn [obind]. apply ck_inv in Hc.
  destruct (idx_ok data 0%nat) as (v & Hv & _); [lia|]. rewrite Hv. cbn [obind].
  destruct (negb (v =? 1)); [exact I|].
  unfold seq_param_sets_end, num_of_sps. destruct (idx_ok data 5%nat) as (b5 & Hb5 & _); [lia|]. rewrite Hb5. cbn [obind].
  pose proof (sets_end_no_abort data (N.to_nat (N.land b5 31)) 6%nat) as Hn.
  destruct (sets_end data (N.to_nat (N.land b5 31)) 6%nat) as [off| | |]; try contradiction; [|exact I]. cbn [obind].
  destruct (ck_cases data (off + 1)%nat) as [Hc2|Hc2]; rewrite Hc2; [|exact I]. cbn [obind]. apply ck_inv in Hc2.
  destruct (idx_ok data off) as (np & Hnp & _); [lia|]. rewrite Hnp. cbn [obind].
  pose proof (sets_end_no_abort data (N.to_nat np) (off + 1)%nat) as Hn2.
  destruct (sets_end data (N.to_nat np) (off + 1)%nat); try contradiction; exact I.
Qed.

(* a version other than 1 is refused; fewer than 6 bytes are refused *)
Theorem version_refused data v : (6 <= length data)%nat -> nth_error data 0%nat = Some v -> v <> 1 ->
  try_from data = ERR (UnsupportedConfigurationVersion v).
Proof.
  intros Hl Hv Hne. unfold try_from. rewrite ck_ok by exact Hl. cbn [obind]. unfold idx. rewrite Hv. cbn [obind].
  destruct (N.eqb_spec v 1); [contradiction|reflexivity].
Qed.

(* ---- records built from lists of NAL units ---- *)
Definition nal_len_ok (nal : list byte) : Prop := N.of_nat (length nal) <= 65535.

Lemma be16_len n : N.of_nat n <= 65535 -> be16 (N.of_nat n / 256) (N.of_nat n mod 256) = n.
Proof. intros H. unfold be16. pose proof (N.div_mod (N.of_nat n) 256). lia. Qed.

Lemma enc_ps_length nal : length (enc_ps nal) = (2 + length nal)%nat.
Proof. reflexivity. Qed.

Fixpoint total_len (l : list (list byte)) : nat :=
  match l with [] => 0%nat | x :: r => (2 + length x + total_len r)%nat end.

Lemma concat_enc_length l : length (concat (map enc_ps l)) = total_len l.
Proof. induction l as [|x r IH]; [reflexivity|]. cbn [map concat total_len]. rewrite app_length, enc_ps_length, IH. lia. Qed.

Lemma nth_error_mid {A} (pre : list A) x post : nth_error (pre ++ x :: post) (length pre) = Some x.
Proof. rewrite nth_error_app2 by lia. rewrite Nat.sub_diag. reflexivity. Qed.

Lemma sets_end_built l : forall pre post,
  Forall nal_len_ok l ->
  sets_end (pre ++ concat (map enc_ps l) ++ post) (length l) (length pre) = OK (length pre + total_len l)%nat.
Proof.
  induction l as [|x r IH]; intros pre post Hall; cbn [length sets_end total_len]; [f_equal; lia|].
  inversion Hall as [|y ys Hx Hr]; subst. unfold nal_len_ok in Hx.
  set (data := pre ++ concat (map enc_ps (x :: r)) ++ post).
  assert (Hlen : length data = (length pre + (2 + length x + total_len r) + length post)%nat).
  { unfold data. rewrite !app_length, concat_enc_length. cbn [total_len]. lia. }
  rewrite ck_ok by lia. cbn [obind].
  assert (Ha : nth_error data (length pre) = Some (N.of_nat (length x) / 256)).
  { unfold data. cbn [map concat enc_ps app]. apply nth_error_mid. }
  assert (Hb : nth_error data (length pre + 1) = Some (N.of_nat (length x) mod 256)).
  { unfold data. cbn [map concat enc_ps app].
    replace (pre ++ (N.of_nat (length x) / 256) :: (N.of_nat (length x) mod 256) :: (x ++ concat (map enc_ps r)) ++ post)
      with ((pre ++ [N.of_nat (length x) / 256]) ++ (N.of_nat (length x) mod 256) :: (x ++ concat (map enc_ps r)) ++ post)
      by (rewrite <- app_assoc; reflexivity).
    replace (length pre + 1)%nat with (length (pre ++ [N.of_nat (length x) / 256])) by (rewrite app_length; reflexivity).
    apply nth_error_mid. }
  unfold idx. rewrite Ha, Hb. cbn [obind]. rewrite be16_len by exact Hx.
  rewrite ck_ok by lia. cbn [obind].
  specialize (IH (pre ++ enc_ps x) post Hr).
  replace (length (pre ++ enc_ps x)) with (length pre + 2 + length x)%nat in IH by (rewrite app_length, enc_ps_length; lia).
  replace ((pre ++ enc_ps x) ++ concat (map enc_ps r) ++ post) with data in IH
    by (unfold data; cbn [map concat]; rewrite <- !app_assoc; reflexivity).
  rewrite IH. f_equal. lia.
Qed.

Definition nal_like (t : N) (nal : list byte) : Prop :=
  exists b r, nal = b :: r /\ nal_header_new b = Some b /\ nal_unit_type_id b = t.

Lemma iter_take_built t l : forall pre post,
  Forall nal_len_ok l -> Forall (nal_like t) l ->
  iter_take (length l) (skipn (length pre) (pre ++ concat (map enc_ps l) ++ post)) t = OK (map ItOk l).
Proof.
  induction l as [|x r IH]; intros pre post Hlen Hlike; [reflexivity|].
  inversion Hlen as [|y ys Hx Hr]; subst. inversion Hlike as [|y ys Hxl Hrl]; subst. unfold nal_len_ok in Hx.
  destruct Hxl as (b & rest & -> & Hhdr & Hty).
  cbn [length iter_take map].
  rewrite skipn_app, skipn_all, Nat.sub_diag. cbn [app skipn map concat enc_ps].
  unfold iter_next. cbn [app]. unfold idx. cbn [nth_error obind skipn].
  rewrite be16_len by exact Hx. cbn [length Nat.eqb]. cbn [nth_error obind].
  rewrite Hhdr, Hty, N.eqb_refl.
  match goal with |- context [if ?c then PANIC _ else _] => destruct c eqn:Ec end.
  { apply Nat.ltb_lt in Ec. cbn [length] in Ec. rewrite !app_length in Ec. lia. }
  cbn [obind firstn skipn].
  replace (firstn (length rest) ((rest ++ concat (map enc_ps r)) ++ post)) with rest
    by (rewrite <- app_assoc, firstn_app, Nat.sub_diag, firstn_all, firstn_O, app_nil_r; reflexivity).
  replace (skipn (length rest) ((rest ++ concat (map enc_ps r)) ++ post)) with (concat (map enc_ps r) ++ post)
    by (rewrite <- app_assoc, skipn_app, Nat.sub_diag, skipn_all; reflexivity).
  specialize (IH [] post Hr Hrl). cbn [length skipn app] in IH. rewrite IH. reflexivity.
Qed.

Theorem build_ok h spss ppss trailing :
  (length spss <= 31)%nat -> (length ppss <= 255)%nat -> ah_reserved3 h <= 7 ->
  Forall nal_len_ok spss -> Forall nal_len_ok ppss ->
  try_from (build_avcc h spss ppss trailing) = OK tt /\
  (Forall (nal_like 7) spss -> sequence_parameter_sets (build_avcc h spss ppss trailing) = OK (map ItOk spss)) /\
  (Forall (nal_like 8) ppss -> picture_parameter_sets (build_avcc h spss ppss trailing) = OK (map ItOk ppss)).
Proof.
  intros Hns Hnp Hres Hs Hp.
  set (hdr := [1; ah_profile h; ah_compat h; ah_level h; ah_byte4 h; ah_reserved3 h * 32 + N.of_nat (length spss)]).
  set (data := build_avcc h spss ppss trailing).
  assert (Hdata : data = hdr ++ concat (map enc_ps spss) ++ ([N.of_nat (length ppss)] ++ concat (map enc_ps ppss) ++ trailing)) by reflexivity.
  assert (Hnum : num_of_sps data = OK (length spss)).
  { unfold num_of_sps, idx. rewrite Hdata. cbn [hdr app nth_error obind]. f_equal.
    replace (ah_reserved3 h * 32 + N.of_nat (length spss)) with (N.of_nat (length spss) + ah_reserved3 h * 32) by lia.
    change 31 with (N.ones 5). rewrite N.land_ones. change (2 ^ 5) with 32.
    rewrite N.mod_add by lia. rewrite N.mod_small by lia. lia. }
  assert (Hend : sets_end data (length spss) 6 = OK (6 + total_len spss)%nat).
  { rewrite Hdata. apply (sets_end_built spss hdr _ Hs). }
  set (off := (6 + total_len spss)%nat).
  assert (Hoff : nth_error data off = Some (N.of_nat (length ppss))).
  { rewrite Hdata. rewrite app_assoc. replace off with (length (hdr ++ concat (map enc_ps spss))) by (rewrite app_length, concat_enc_length; reflexivity).
    apply nth_error_mid. }
  assert (Hdata2 : data = (hdr ++ concat (map enc_ps spss) ++ [N.of_nat (length ppss)]) ++ concat (map enc_ps ppss) ++ trailing).
  { rewrite Hdata. rewrite <- !app_assoc. reflexivity. }
  assert (Hpre2 : length (hdr ++ concat (map enc_ps spss) ++ [N.of_nat (length ppss)]) = (off + 1)%nat).
  { rewrite !app_length, concat_enc_length. reflexivity. }
  assert (Hend2 : sets_end data (length ppss) (off + 1) = OK (off + 1 + total_len ppss)%nat).
  { rewrite Hdata2, <- Hpre2. apply (sets_end_built ppss _ _ Hp). }
  assert (Hlen : (off + 1 + total_len ppss <= length data)%nat).
  { rewrite Hdata2, app_length, Hpre2, app_length, concat_enc_length. lia. }
  split; [|split].
  - unfold try_from. fold data. rewrite ck_ok by lia. cbn [obind].
    unfold idx at 1. rewrite Hdata at 1. cbn [hdr app nth_error obind]. change (1 =? 1) with true. cbn [negb].
    unfold seq_param_sets_end. rewrite Hnum. cbn [obind]. rewrite Hend. cbn [obind]. fold off.
    rewrite ck_ok by lia. cbn [obind]. unfold idx. rewrite Hoff. cbn [obind]. rewrite Nnat.Nat2N.id, Hend2. reflexivity.
  - intros Hlike. unfold sequence_parameter_sets. fold data. rewrite Hnum. cbn [obind].
    rewrite Hdata. change 6%nat with (length hdr). apply iter_take_built; assumption.
  - intros Hlike. unfold picture_parameter_sets, seq_param_sets_end. fold data. rewrite Hnum. cbn [obind]. rewrite Hend. fold off.
    unfold idx. rewrite Hoff. cbn [obind]. rewrite Nnat.Nat2N.id.
    rewrite Hdata2, <- Hpre2. apply iter_take_built; assumption.
Qed.

(* truncation inside the declared parameter sets is refused *)
Lemma nth_error_firstn {A} (l : list A) k i : (i < k)%nat -> nth_error (firstn k l) i = nth_error l i.
Proof.
  revert l i. induction k as [|k IH]; intros l i Hi; [lia|]. destruct l; [destruct i; reflexivity|].
  destruct i; [reflexivity|]. cbn. apply IH. lia.
Qed.

Lemma sets_end_truncated data n : forall len e k, sets_end data n len = OK e -> (len <= k < e)%nat ->
  exists x, sets_end (firstn k data) n len = ERR (NotEnoughData x k).
Proof.
  induction n as [|n IH]; intros len e k H Hk; cbn [sets_end] in *.
  - injection H as <-. lia.
  - destruct (ck_cases data (len + 2)) as [Hc|Hc]; rewrite Hc in H; [|discriminate]. cbn [obind] in H. apply ck_inv in Hc.
    destruct (idx_ok data len) as (a & Ha & Hna); [lia|]. rewrite Ha in H. cbn [obind] in H.
    destruct (idx_ok data (len + 1)) as (b & Hb & Hnb); [lia|]. rewrite Hb in H. cbn [obind] in H.
    destruct (ck_cases data (len + 2 + be16 a b)) as [Hc2|Hc2]; rewrite Hc2 in H; [|discriminate]. cbn [obind] in H. apply ck_inv in Hc2.
    assert (Hfl : length (firstn k data) = k).
    { apply firstn_length_le. pose proof (sets_end_entries _ _ _ _ H) as He. clear - He Hc2 Hk.
      assert (forall n l e, entries data n l e -> (l <= length data -> e <= length data)%nat).
      { induction 1; intros; [assumption|]. apply IHentries. lia. }
      specialize (H _ _ _ He Hc2). lia. }
    unfold ck at 1. rewrite Hfl. destruct (Nat.ltb_spec k (len + 2)) as [|Hge]; [eexists; reflexivity|]. cbn [obind].
    unfold idx. rewrite !nth_error_firstn by lia. rewrite Hna, Hnb. cbn [obind].
    unfold ck at 1. rewrite Hfl. destruct (Nat.ltb_spec k (len + 2 + be16 a b)) as [|Hge2]; [eexists; reflexivity|]. cbn [obind].
    apply (IH _ _ _ H). lia.
Qed.

Lemma sets_end_prefix_ok data n : forall len e k, sets_end data n len = OK e -> (e <= k)%nat ->
  sets_end (firstn k data) n len = OK e.
Proof.
  induction n as [|n IH]; intros len e k H Hk; cbn [sets_end] in *; [exact H|].
  destruct (ck_cases data (len + 2)) as [Hc|Hc]; rewrite Hc in H; [|discriminate]. cbn [obind] in H. apply ck_inv in Hc.
  destruct (idx_ok data len) as (a & Ha & Hna); [lia|]. rewrite Ha in H. cbn [obind] in H.
  destruct (idx_ok data (len + 1)) as (b & Hb & Hnb); [lia|]. rewrite Hb in H. cbn [obind] in H.
  destruct (ck_cases data (len + 2 + be16 a b)) as [Hc2|Hc2]; rewrite Hc2 in H; [|discriminate]. cbn [obind] in H. apply ck_inv in Hc2.
  assert (Hmono : (len + 2 + be16 a b <= e)%nat).
  { pose proof (sets_end_entries _ _ _ _ H) as He. clear - He. induction He; lia. }
  assert (Hfl : (len + 2 + be16 a b <= length (firstn k data))%nat) by (rewrite firstn_length; lia).
  rewrite ck_ok by lia. cbn [obind]. unfold idx. rewrite !nth_error_firstn by lia. rewrite Hna, Hnb. cbn [obind].
  rewrite ck_ok by exact Hfl. cbn [obind]. apply IH; assumption.
Qed.

Theorem try_from_truncated data : try_from data = OK tt ->
  exists e, (e <= length data)%nat /\
    forall k, (k < e)%nat -> exists x, try_from (firstn k data) = ERR (NotEnoughData x k).
Proof.
  intros H. destruct (try_from_ok_facts data H) as (nsps & off & np & e & Hlen & Hn & Hs & Hoff & Hnp & Hp).
  assert (Hmono1 : (6 <= off)%nat) by (pose proof (sets_end_entries _ _ _ _ Hs) as He; clear - He; induction He; lia).
  assert (Hmono2 : (off + 1 <= e)%nat) by (pose proof (sets_end_entries _ _ _ _ Hp) as He; clear - He; induction He; lia).
  assert (Hele : (e <= length data)%nat).
  { pose proof (sets_end_entries _ _ _ _ Hp) as He. clear - He Hoff.
    assert (forall n l e, entries data n l e -> (l <= length data -> e <= length data)%nat).
    { induction 1; intros; [assumption|]. apply IHentries. lia. }
    apply (H _ _ _ He). lia. }
  exists e. split; [exact Hele|]. intros k Hk.
  assert (Hfl : length (firstn k data) = k) by (apply firstn_length_le; lia).
  unfold try_from. unfold ck at 1. rewrite Hfl.
  destruct (Nat.ltb_spec k 6) as [|Hk6]; [eexists; reflexivity|]. cbn [obind].
  (* version byte and count byte are inside the prefix *)
  unfold try_from in H. rewrite ck_ok in H by exact Hlen. cbn [obind] in H.
  destruct (idx_ok data 0%nat) as (v & Hv & Hnv); [lia|]. rewrite Hv in H. cbn [obind] in H.
  unfold idx at 1. rewrite nth_error_firstn by lia. rewrite Hnv. cbn [obind].
  destruct (negb (v =? 1)); [discriminate|].
  unfold seq_param_sets_end, num_of_sps. unfold num_of_sps in Hn.
  destruct (idx_ok data 5%nat) as (b5 & Hb5 & Hnb5); [lia|]. rewrite Hb5 in Hn. cbn [obind] in Hn. injection Hn as Hn.
  unfold idx at 1. rewrite nth_error_firstn by lia. rewrite Hnb5. cbn [obind]. rewrite Hn.
  destruct (Nat.lt_ge_cases k off) as [Hlt|Hge].
  - destruct (sets_end_truncated data nsps 6%nat off k Hs) as (x & Hx); [lia|]. rewrite Hx. eexists. reflexivity.
  - rewrite (sets_end_prefix_ok data nsps 6%nat off k Hs Hge). cbn [obind].
    unfold ck at 1. rewrite Hfl. destruct (Nat.ltb_spec k (off + 1)) as [|Hk1]; [eexists; reflexivity|]. cbn [obind].
    unfold idx at 1. rewrite nth_error_firstn by lia.
    unfold idx in Hnp. destruct (nth_error data off) as [npv|] eqn:Enp; [|discriminate]. injection Hnp as ->. cbn [obind].
    destruct (sets_end_truncated data (N.to_nat np) (off + 1)%nat e k Hp) as (x & Hx); [lia|]. rewrite Hx. eexists. reflexivity.
Qed.
