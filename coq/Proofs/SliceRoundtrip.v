(* C06 forward direction: the slice header parser model recovers every conforming header from its
   encoding and stops on the first bit of slice data. *)
From H264 Require Import Base.Prelude Base.Bits Model.BitReader Model.Parser Model.Nal Model.Sps Model.SpsDerived Model.Context Model.Pps
     Model.Slice Spec.Golomb Spec.SyntaxSps Spec.SyntaxPps Spec.SyntaxSlice
     Proofs.BitsLemmas Proofs.C07_proofs Proofs.Parses Proofs.C14_proofs Proofs.SpsRoundtrip Proofs.PpsRoundtrip
     Proofs.Wp Proofs.SpsInv Proofs.PpsInv Proofs.SliceInv.
Local Open Scope N_scope.

Ltac pue := apply parses_ue; unfold u32v in *; lia.
Ltac pse := apply parses_se; unfold s32v in *; lia.

(* ---- ref_pic_list_modification ---- *)
Lemma enc_mod_length m : (1 <= length (enc_mod m))%nat.
Proof. destruct m; cbn [enc_mod]; rewrite app_length; pose proof (enc_ue_length_pos 0); pose proof (enc_ue_length_pos 1); pose proof (enc_ue_length_pos 2); unfold ue; lia. Qed.

Lemma concat_length_ge {A} (f : A -> list bool) l : (forall x, 1 <= length (f x))%nat -> (length l <= length (concat (map f l)))%nat.
Proof. intros H. induction l as [|x r IH]; cbn [map concat length]; [lia|]. rewrite app_length. specialize (H x). lia. Qed.

Lemma parses_mods_loop l : forall fuel acc, (length l < fuel)%nat -> Forall (fun m => u32v (mod_val m)) l ->
  Parses (read_mods_loop fuel acc) (concat (map enc_mod l) ++ ue 3) (acc ++ l).
Proof.
  induction l as [|m r IH]; intros fuel acc Hf Hall; (destruct fuel as [|f]; [cbn [length] in Hf; lia|]); cbn [read_mods_loop map concat].
  - cbn [app]. pcast (ue 3 ++ []). unfold rs. eapply parses_bind; [pue|]. cbv beta iota. rewrite app_nil_r. apply parses_ret.
  - inversion Hall as [|y ys Hm Hr]; subst. cbn [length] in Hf.
    replace (acc ++ m :: r) with ((acc ++ [m]) ++ r) by (rewrite <- app_assoc; reflexivity).
    rewrite <- app_assoc. unfold rs.
    destruct m as [v|v|v]; cbn [enc_mod mod_val] in *; rewrite <- app_assoc;
      (eapply parses_bind; [pue|]); cbv beta iota; (eapply parses_bind; [pue|]); cbv beta; apply IH; try assumption; lia.
Qed.

Lemma parses_mod_list e l : Forall (fun m => u32v (mod_val m)) l -> Parses read_mod_list (enc_mod_list e l) l.
Proof.
  intros Hall. unfold read_mod_list, enc_mod_list, rs. destruct l as [|m r].
  - destruct e.
    + eapply parses_bind; [apply parses_bool|]. cbv beta. cbn [negb].
      intros rest tl. cbn [bits].
      pose proof (parses_mods_loop [] (S (length (ue 3 ++ rest))) []) as Hp. cbn [app map concat length] in Hp.
      apply Hp; [lia|constructor].
    + pcast (flag false ++ []). eapply parses_bind; [apply parses_bool|]. cbv beta. cbn [negb]. apply parses_ret.
  - eapply parses_bind; [apply parses_bool|]. cbv beta. cbn [negb].
    intros rest tl. cbn [bits].
    pose proof (parses_mods_loop (m :: r) (S (length ((concat (map enc_mod (m :: r)) ++ ue 3) ++ rest))) [] ) as Hp.
    cbn [app] in Hp. apply Hp; [|exact Hall].
    rewrite !app_length. pose proof (concat_length_ge enc_mod (m :: r) enc_mod_length). lia.
Qed.

Lemma parses_rpl fam em r : wf_rpl fam r -> Parses (ref_pic_list_mods_read fam) (enc_rpl em r) r.
Proof.
  intros H. unfold ref_pic_list_mods_read, enc_rpl. destruct fam; destruct r as [|a|a b]; cbn [wf_rpl] in H; try contradiction.
  - pcast (enc_mod_list (fst em) a ++ []). eapply parses_bind; [apply parses_mod_list; exact H|]. cbv beta. apply parses_ret.
  - destruct H as [Ha Hb]. eapply parses_bind; [apply parses_mod_list; exact Ha|]. cbv beta.
    pcast (enc_mod_list (snd em) b ++ []). eapply parses_bind; [apply parses_mod_list; exact Hb|]. cbv beta. apply parses_ret.
  - apply parses_ret.
  - pcast (enc_mod_list (fst em) a ++ []). eapply parses_bind; [apply parses_mod_list; exact H|]. cbv beta. apply parses_ret.
  - apply parses_ret.
Qed.

(* ---- pred_weight_table ---- *)
Definition wf_entry (mono : bool) (e : option pred_weight * option (list pred_weight)) : Prop :=
  match fst e with Some w => wf_pw w | None => True end /\
  (if mono then snd e = None
   else snd e = Some [] \/ exists a b, snd e = Some [a; b] /\ wf_pw a /\ wf_pw b).

Lemma parses_one_weight mono e : wf_entry mono e -> Parses (read_one_weight mono) (enc_weight_entry mono e) e.
Proof.
  intros [Hl Hc]. destruct e as [lw cw]. cbn [fst snd] in *. unfold read_one_weight, enc_weight_entry, rs. cbn [fst snd].
  assert (Hfront : forall (k : option pred_weight -> PE sliceerr (option pred_weight * option (list pred_weight))) b2,
            Parses (k lw) b2 (lw, cw) ->
            Parses (lf <- liftE SlRbspError (read_bool "luma_weight_l0_flag") ;;
                    lw0 <- (if lf then w <- liftE SlRbspError (read_se "luma_weight_l0") ;; o <- liftE SlRbspError (read_se "luma_offset_l0") ;; retE (Some (mk_pw w o))
                            else retE None) ;; k lw0)%pe
                   ((match lw with Some w => flag true ++ enc_pw w | None => flag false end) ++ b2) (lw, cw)).
  { intros k b2 Hk. destruct lw as [w|].
    - rewrite <- app_assoc. eapply parses_bind; [apply parses_bool|]. cbv beta iota. destruct Hl as [H1 H2].
      eapply (parses_bind _ _ (enc_pw w) b2 (Some w)); [|exact Hk]. unfold enc_pw.
      eapply parses_bind; [pse|]. cbv beta. pcast (se (pw_offset w) ++ []). eapply parses_bind; [pse|]. cbv beta.
      destruct w. apply parses_ret.
    - eapply parses_bind; [apply parses_bool|]. cbv beta iota.
      apply (parses_bind _ _ [] b2 None); [apply parses_ret|exact Hk]. }
  apply Hfront.
  cbv beta. destruct mono.
  - subst cw. apply parses_ret.
  - destruct Hc as [->|(a & b & -> & [Ha1 Ha2] & [Hb1 Hb2])].
    + pcast (flag false ++ []). eapply parses_bind; [apply parses_bool|]. cbv beta iota.
      pcast ([] ++ @nil bool). eapply parses_bind; [apply parses_ret|]. cbv beta. apply parses_ret.
    + pcast ((flag true ++ enc_pw a ++ enc_pw b) ++ []). rewrite <- !app_assoc.
      eapply parses_bind; [apply parses_bool|]. cbv beta iota. unfold enc_pw. rewrite <- !app_assoc.
      pcast ((se (pw_weight a) ++ se (pw_offset a) ++ se (pw_weight b) ++ se (pw_offset b)) ++ []).
      eapply (parses_bind _ _ (se (pw_weight a) ++ se (pw_offset a) ++ se (pw_weight b) ++ se (pw_offset b)) [] [a; b]).
      { eapply parses_bind; [pse|]. cbv beta. eapply parses_bind; [pse|]. cbv beta.
        eapply parses_bind; [pse|]. cbv beta. pcast (se (pw_offset b) ++ []). eapply parses_bind; [pse|]. cbv beta.
        destruct a, b. apply parses_ret. }
      cbv beta. apply parses_ret.
Qed.

Lemma opt_list_map_some {A} (l : list A) : opt_list (map Some l) = l.
Proof. induction l as [|x r IH]; cbn [map opt_list]; [reflexivity|]. rewrite IH. reflexivity. Qed.

Lemma opt_list_none {A B} (l : list B) : opt_list (map (fun _ => @None A) l) = [].
Proof. induction l as [|x r IH]; cbn [map opt_list]; [reflexivity|exact IH]. Qed.

Lemma map_fst_combine {A B} (a : list A) : forall (b : list B), length a = length b -> map fst (combine a b) = a.
Proof. induction a as [|x r IH]; intros [|y s] H; cbn in *; try reflexivity; try discriminate. rewrite IH by lia. reflexivity. Qed.
Lemma map_snd_combine {A B} (a : list A) : forall (b : list B), length a = length b -> map snd (combine a b) = b.
Proof. induction a as [|x r IH]; intros [|y s] H; cbn in *; try reflexivity; try discriminate. rewrite IH by lia. reflexivity. Qed.

Lemma weight_entries_spec mono t cnt : wf_pwt mono cnt t ->
  map fst (weight_entries mono t) = luma_weights t /\ opt_list (map snd (weight_entries mono t)) = chroma_weights t /\
  length (weight_entries mono t) = length (luma_weights t) /\ Forall (wf_entry mono) (weight_entries mono t).
Proof.
  intros (Hld & Hc & Hcnt & Hl). unfold weight_entries. destruct mono.
  - destruct Hc as [_ Hcw]. rewrite Hcw. rewrite !map_map. cbn [fst snd]. rewrite map_id, map_length.
    split; [reflexivity|]. split; [apply opt_list_none|]. split; [reflexivity|].
    apply Forall_forall. intros e He. apply in_map_iff in He. destruct He as (l & <- & Hin). split; [|reflexivity].
    cbn [fst]. rewrite Forall_forall in Hl. apply (Hl l Hin).
  - destruct Hc as (_ & Hlen & Hcw).
    assert (Hlen' : length (luma_weights t) = length (map Some (chroma_weights t))) by (rewrite map_length; lia).
    split; [apply map_fst_combine; exact Hlen'|].
    split; [rewrite map_snd_combine by exact Hlen'; apply opt_list_map_some|].
    split; [rewrite combine_length, map_length; lia|].
    apply Forall_forall. intros [l c] He. pose proof (in_combine_l _ _ _ _ He) as H1. pose proof (in_combine_r _ _ _ _ He) as H2.
    apply in_map_iff in H2. destruct H2 as (c0 & <- & Hin). split; cbn [fst snd].
    + rewrite Forall_forall in Hl. apply (Hl l H1).
    + rewrite Forall_forall in Hcw. destruct (Hcw c0 Hin) as [->|(a & b & -> & Ha & Hb)]; [left; reflexivity|right; exists a, b; auto].
Qed.

Lemma parses_pwt st pp sp nra t : family_eqb (family st) FamB = false ->
  l0_count pp nra <= 32 ->
  wf_pwt (spec_mono sp) (l0_count pp nra) t ->
  Parses (pred_weight_table_read st pp sp nra) (enc_pwt (spec_mono sp) t) t.
Proof.
  intros Hb Hcnt Hwf. pose proof (weight_entries_spec _ _ _ Hwf) as (Hfst & Hsnd & Hlen & Hall).
  destruct Hwf as (Hld & Hc & Hn & Hl).
  unfold pred_weight_table_read, enc_pwt, rs. fold (spec_mono sp).
  eapply parses_bind; [pue|]. cbv beta.
  eapply (parses_bind _ _ (match chroma_log2_weight_denom t with Some c => ue c | None => [] end) _ (chroma_log2_weight_denom t)).
  { destruct (spec_mono sp).
    - destruct Hc as [-> _]. apply parses_ret.
    - destruct Hc as ((c & -> & Hcu) & _). pcast (ue c ++ []). eapply parses_bind; [pue|]. cbv beta. apply parses_ret. }
  cbv beta.
  pcast ([] ++ (concat (map (enc_weight_entry (spec_mono sp)) (weight_entries (spec_mono sp) t)) ++ [])).
  eapply (parses_bind _ _ [] _ (l0_count pp nra)).
  { apply parses_liftO. unfold l0_count, add32 in *.
    destruct (N.ltb_spec (match nra with Some (NraP a) => a | Some (NraB a _) => a | None => num_ref_idx_l0_default_active_minus1 pp end + 1) two32) as [_|Hge];
      [reflexivity|unfold two32 in Hge; lia]. }
  cbv beta.
  eapply (parses_bind _ _ _ [] (weight_entries (spec_mono sp) t)).
  { replace (N.to_nat (l0_count pp nra)) with (length (weight_entries (spec_mono sp) t)) by (rewrite Hlen; lia).
    apply (parses_repE (read_one_weight (spec_mono sp)) (enc_weight_entry (spec_mono sp))).
    eapply Forall_impl; [|exact Hall]. intros e He. apply parses_one_weight. exact He. }
  cbv beta. rewrite Hb, Hfst, Hsnd. destruct t. apply parses_ret.
Qed.

(* ---- dec_ref_pic_marking ---- *)
Lemma enc_mmco_length m : (1 <= length (enc_mmco m))%nat.
Proof.
  destruct m; cbn [enc_mmco]; rewrite ?app_length;
  pose proof (enc_ue_length_pos 1); pose proof (enc_ue_length_pos 2); pose proof (enc_ue_length_pos 3);
  pose proof (enc_ue_length_pos 4); pose proof (enc_ue_length_pos 5); pose proof (enc_ue_length_pos 6); unfold ue; lia.
Qed.

Lemma parses_mmco_loop l : forall fuel acc, (length l < fuel)%nat -> Forall wf_mmco l ->
  Parses (read_mmco_loop fuel acc) (concat (map enc_mmco l) ++ ue 0) (acc ++ l).
Proof.
  induction l as [|m r IH]; intros fuel acc Hf Hall; (destruct fuel as [|f]; [cbn [length] in Hf; lia|]); cbn [read_mmco_loop map concat].
  - cbn [app]. pcast (ue 0 ++ []). unfold rs. eapply parses_bind; [pue|]. cbv beta iota. rewrite app_nil_r. apply parses_ret.
  - inversion Hall as [|y ys Hm Hr]; subst. cbn [length] in Hf.
    replace (acc ++ m :: r) with ((acc ++ [m]) ++ r) by (rewrite <- app_assoc; reflexivity).
    rewrite <- app_assoc. unfold rs.
    destruct m as [d|n|d i|n| |i]; cbn [enc_mmco wf_mmco] in *; rewrite <- ?app_assoc;
      (eapply parses_bind; [pue|]); cbv beta iota;
      repeat (eapply parses_bind; [pue|]; cbv beta); rewrite ?(app_assoc acc); apply IH; try assumption; lia.
Qed.

Lemma parses_drm ut d : wf_drm ut d -> Parses (dec_ref_pic_marking_read ut) (enc_drm d) d.
Proof.
  intros H. unfold dec_ref_pic_marking_read, enc_drm, rs. destruct d as [a b| |ops]; cbn [wf_drm] in H.
  - subst ut. change (5 =? 5) with true. cbv iota.
    eapply parses_bind; [apply parses_bool|]. cbv beta.
    pcast (flag b ++ []). eapply parses_bind; [apply parses_bool|]. cbv beta. apply parses_ret.
  - destruct (N.eqb_spec ut 5); [contradiction|].
    pcast (flag false ++ []). eapply parses_bind; [apply parses_bool|]. cbv beta iota. apply parses_ret.
  - destruct H as [Hut Hall]. destruct (N.eqb_spec ut 5); [contradiction|].
    eapply parses_bind; [apply parses_bool|]. cbv beta iota.
    pcast ((concat (map enc_mmco ops) ++ ue 0) ++ []).
    eapply (parses_bind _ _ (concat (map enc_mmco ops) ++ ue 0) [] ops); [|apply parses_ret].
    intros rest tl. cbn [bits].
    pose proof (parses_mmco_loop ops (S (length ((concat (map enc_mmco ops) ++ ue 0) ++ rest))) []) as Hp.
    cbn [app] in Hp. apply Hp; [|exact Hall].
    rewrite !app_length. pose proof (concat_length_ge enc_mmco ops enc_mmco_length). lia.
Qed.

(* ---- the optional elements of slice_header ---- *)
Lemma parses_opt_ue (b : bool) nm o :
  (if b then exists v, o = Some v /\ u32v v else o = None) ->
  Parses (if b then bindE (rs (read_ue nm)) (fun v => retE (Some v)) else retE None)
         (match o with Some v => ue v | None => [] end) o.
Proof.
  intros H. destruct b.
  - destruct H as (v & -> & Hv). pcast (ue v ++ []). unfold rs. eapply parses_bind; [pue|]. cbv beta. apply parses_ret.
  - subst o. apply parses_ret.
Qed.

Lemma parses_opt_bool (b : bool) nm o :
  (if b then exists v, o = Some v else o = None) ->
  Parses (if b then bindE (rs (read_bool nm)) (fun v => retE (Some v)) else retE None)
         (match o with Some v => flag v | None => [] end) o.
Proof.
  intros H. destruct b.
  - destruct H as (v & ->). pcast (flag v ++ []). unfold rs. eapply parses_bind; [apply parses_bool|]. cbv beta. apply parses_ret.
  - subst o. apply parses_ret.
Qed.

Lemma parses_colour_plane (b : bool) o :
  (if b then exists v, o = Some v /\ v <= 2 else o = None) ->
  Parses (if b then bindE (rs (read_u 8 2 "colour_plane_id")) (fun v => if 2 <? v then failE (ColourPlaneError v) else retE (Some v)) else retE None)
         (match o with Some v => u 2 v | None => [] end) o.
Proof.
  intros H. destruct b.
  - destruct H as (v & -> & Hv). pcast (u 2 v ++ []). unfold rs.
    eapply parses_bind; [apply (parses_u _ 8 2); [lia|change (2 ^ 2) with 4; lia]|]. cbv beta.
    destruct (N.ltb_spec 2 v); [lia|]. apply parses_ret.
  - subst o. apply parses_ret.
Qed.

Lemma parses_field_pic sp fp :
  match frame_mbs_flags_ sp with Frames => fp = FpFrame | Fields _ => True end ->
  Parses (match frame_mbs_flags_ sp with
          | Fields _ => bindE (rs (read_bool "field_pic_flag")) (fun f =>
                          if f then bindE (rs (read_bool "bottom_field_flag")) (fun b => retE (if b then FpBottom else FpTop))
                          else retE FpFrame)
          | Frames => retE FpFrame
          end) (enc_field_pic sp fp) fp.
Proof.
  intros H. unfold enc_field_pic, rs. destruct (frame_mbs_flags_ sp).
  - subst fp. apply parses_ret.
  - destruct fp.
    + pcast (flag false ++ []). eapply parses_bind; [apply parses_bool|]. cbv beta iota. apply parses_ret.
    + eapply parses_bind; [apply parses_bool|]. cbv beta iota.
      pcast (flag false ++ []). eapply parses_bind; [apply parses_bool|]. cbv beta iota. apply parses_ret.
    + eapply parses_bind; [apply parses_bool|]. cbv beta iota.
      pcast (flag true ++ []). eapply parses_bind; [apply parses_bool|]. cbv beta iota. apply parses_ret.
Qed.

Definition log2_max_pic_order_cnt_ok (sp : sps) : Prop :=
  match pic_order_cnt_ sp with PocTypeZero l => l <= 12 | _ => True end.

Lemma parses_poc sp pp fp poc : log2_max_pic_order_cnt_ok sp -> wf_poc_lsb sp pp fp poc ->
  Parses (match pic_order_cnt_ sp with
          | PocTypeZero l =>
              bindE (rs (read_u 32 (l + 4) "pic_order_cnt_lsb")) (fun lsb =>
              if bottom_field_pic_order_in_frame_present_flag pp && is_frame fp then
                bindE (rs (read_se "delta_pic_order_cnt_bottom")) (fun d => retE (Some (PlFieldsAbsolute lsb d)))
              else retE (Some (PlFrame lsb)))
          | PocTypeOne az _ _ _ =>
              if az then retE (Some (PlFieldsDelta 0 0))
              else
                bindE (rs (read_se "delta_pic_order_cnt[0]")) (fun d0 =>
                if bottom_field_pic_order_in_frame_present_flag pp && is_frame fp then
                  bindE (rs (read_se "delta_pic_order_cnt[1]")) (fun d1 => retE (Some (PlFieldsDelta d0 d1)))
                else retE (Some (PlFieldsDelta d0 0)))
          | PocTypeTwo => retE None
          end) (enc_poc_lsb sp pp fp poc) poc.
Proof.
  unfold log2_max_pic_order_cnt_ok, wf_poc_lsb, enc_poc_lsb, rs. intros Hl H.
  destruct (pic_order_cnt_ sp) as [l|az nr tb offs|].
  - destruct (bottom_field_pic_order_in_frame_present_flag pp && is_frame fp).
    + destruct H as (lsb & d & -> & Hlsb & Hd).
      eapply parses_bind; [apply parses_u; [lia|exact Hlsb]|]. cbv beta.
      pcast (se d ++ []). eapply parses_bind; [pse|]. cbv beta. apply parses_ret.
    + destruct H as (lsb & -> & Hlsb).
      pcast (u (N.to_nat (l + 4)) lsb ++ []). eapply parses_bind; [apply parses_u; [lia|exact Hlsb]|]. cbv beta. apply parses_ret.
  - destruct H as (d0 & d1 & -> & H0 & H1 & Haz & Hboth). destruct az.
    + destruct (Haz eq_refl) as [-> ->]. apply parses_ret.
    + eapply parses_bind; [pse|]. cbv beta.
      destruct (bottom_field_pic_order_in_frame_present_flag pp && is_frame fp).
      * pcast (se d1 ++ []). eapply parses_bind; [pse|]. cbv beta. apply parses_ret.
      * rewrite (Hboth eq_refl). apply parses_ret.
  - subst poc. apply parses_ret.
Qed.

Lemma parses_nra f n : wf_nra f n ->
  (fam_p_sp_b f = false -> n = None) ->
  Parses (if family_eqb f FamP || family_eqb f FamSP || family_eqb f FamB then
            bindE (rs (read_bool "num_ref_idx_active_override_flag")) (fun ov =>
            if ov then
              bindE (sl_read_num_ref_idx "num_ref_idx_l0_active_minus1") (fun a =>
              if family_eqb f FamB then
                bindE (sl_read_num_ref_idx "num_ref_idx_l1_active_minus1") (fun b => retE (Some (NraB a b)))
              else retE (Some (NraP a)))
            else retE None)
          else retE None) (enc_nra f n) n.
Proof.
  intros Hwf Hnone. unfold enc_nra, fam_p_sp_b in *.
  assert (Hnum : forall nm v, v <= 31 -> Parses (sl_read_num_ref_idx nm) (ue v) v).
  { intros nm v Hv. unfold sl_read_num_ref_idx, rs. pcast (ue v ++ []). eapply parses_bind; [pue|]. cbv beta.
    destruct (N.ltb_spec 31 v); [lia|]. apply parses_ret. }
  destruct (family_eqb f FamP || family_eqb f FamSP || family_eqb f FamB) eqn:Ef.
  - unfold rs. destruct n as [[a|a b]|]; cbn [wf_nra] in Hwf.
    + destruct Hwf as [Hf Ha]. assert (Hb : family_eqb f FamB = false) by (destruct f; cbn in *; congruence).
      eapply parses_bind; [apply parses_bool|]. cbv beta iota.
      pcast (ue a ++ []). eapply parses_bind; [apply Hnum; exact Ha|]. cbv beta. rewrite Hb. apply parses_ret.
    + destruct Hwf as (Hf & Ha & Hb).
      eapply parses_bind; [apply parses_bool|]. cbv beta iota.
      eapply parses_bind; [apply Hnum; exact Ha|]. cbv beta. rewrite Hf.
      pcast (ue b ++ []). eapply parses_bind; [apply Hnum; exact Hb|]. cbv beta. apply parses_ret.
    + pcast (flag false ++ []). eapply parses_bind; [apply parses_bool|]. cbv beta iota. apply parses_ret.
  - rewrite (Hnone eq_refl). apply parses_ret.
Qed.

Lemma parses_spq f pp sw qs :
  (-26 <= pic_init_qs_minus26 pp <= 25)%Z ->
  (if family_eqb f FamSP then exists b, sw = Some b else sw = None) ->
  (if fam_sp_si f then exists q, qs = Some q /\ q <= 51 else qs = None) ->
  Parses (if family_eqb f FamSP || family_eqb f FamSI then
            bindE (if family_eqb f FamSP then bindE (rs (read_bool "sp_for_switch_flag")) (fun v => retE (Some v)) else retE None) (fun sw0 =>
            bindE (rs (read_se "slice_qs_delta")) (fun qsd =>
            bindE (liftO (addi32 26 (pic_init_qs_minus26 pp))) (fun base =>
            let q := (base + qsd)%Z in
            if in_i32 q && (0 <=? q)%Z && (q <=? 51)%Z then retE (sw0, Some (Z.to_N q))
            else failE (InvalidSliceQsDelta qsd))))
          else retE (None, None))
         ((match sw with Some b => flag b | None => [] end) ++ (match qs with Some q => se (slice_qs_delta_of pp q) | None => [] end))
         (sw, qs).
Proof.
  intros Hinit Hsw Hqs. unfold fam_sp_si in *.
  destruct (family_eqb f FamSP || family_eqb f FamSI) eqn:Ef.
  - destruct Hqs as (q & -> & Hq).
    eapply (parses_bind _ _ _ _ sw); [apply (parses_opt_bool (family_eqb f FamSP) "sp_for_switch_flag" sw Hsw)|]. cbv beta.
    pcast (se (slice_qs_delta_of pp q) ++ []). unfold rs, slice_qs_delta_of.
    eapply parses_bind; [apply parses_se; lia|]. cbv beta.
    pcast ([] ++ @nil bool). eapply (parses_bind _ _ [] [] (26 + pic_init_qs_minus26 pp)%Z).
    { apply parses_liftO. unfold addi32.
      assert (E : in_i32 (26 + pic_init_qs_minus26 pp) = true) by (unfold in_i32, two31z; lia). rewrite E. reflexivity. }
    cbv beta zeta.
    replace (26 + pic_init_qs_minus26 pp + (Z.of_N q - 26 - pic_init_qs_minus26 pp))%Z with (Z.of_N q) by lia.
    assert (Hc : in_i32 (Z.of_N q) && (0 <=? Z.of_N q)%Z && (Z.of_N q <=? 51)%Z = true).
    { unfold in_i32, two31z. lia. }
    rewrite Hc, N2Z.id. apply parses_ret.
  - assert (Hsp : family_eqb f FamSP = false) by (destruct (family_eqb f FamSP); [discriminate|reflexivity]).
    rewrite Hsp in Hsw. subst sw qs. apply parses_ret.
Qed.

Lemma parses_ddf pp idc ab :
  (if deblocking_filter_control_present_flag pp
   then idc <= 6 /\ (idc <> 1 -> (-6 <= fst ab <= 6)%Z /\ s32v (snd ab))
   else idc = 0) ->
  Parses (if deblocking_filter_control_present_flag pp then
            bindE (rs (read_ue "disable_deblocking_filter_idc")) (fun v =>
            if 6 <? v then failE (InvalidDisableDeblockingFilterIdc v) else
            if negb (v =? 1) then
              bindE (rs (read_se "slice_alpha_c0_offset_div2")) (fun a =>
              if ((a <? -6) || (6 <? a))%Z then failE (InvalidSliceAlphaC0OffsetDiv2 a) else
              bindE (rs (read_se "slice_beta_offset_div2")) (fun _b => retE v))
            else retE v)
          else retE 0) (enc_deblock pp idc ab) idc.
Proof.
  intros H. unfold enc_deblock, rs. destruct (deblocking_filter_control_present_flag pp).
  - destruct H as [H6 Hab]. eapply parses_bind; [pue|]. cbv beta.
    destruct (N.ltb_spec 6 idc); [lia|]. destruct (N.eqb_spec idc 1) as [->|Hne]; cbn [negb].
    + apply parses_ret.
    + destruct (Hab Hne) as [Ha Hb]. eapply parses_bind; [pse|]. cbv beta.
      assert (Hc : ((fst ab <? -6)%Z || (6 <? fst ab)%Z) = false) by lia. rewrite Hc.
      pcast (se (snd ab) ++ []). eapply parses_bind; [pse|]. cbv beta. apply parses_ret.
  - subst idc. apply parses_ret.
Qed.

Lemma slice_type_id_roundtrip st : slice_type_from_id (slice_type_id st) = Some st /\ slice_type_id st <= 9.
Proof. destruct st as [[] []]; split; try reflexivity; vm_compute; discriminate. Qed.

Lemma parses_pwt_opt st pp sp nra o :
  l0_count pp nra <= 32 ->
  (if has_pwt pp (family st) then family_eqb (family st) FamB = false /\
       exists t, o = Some t /\ wf_pwt (spec_mono sp) (l0_count pp nra) t
   else o = None) ->
  Parses (if has_pwt pp (family st) then bindE (pred_weight_table_read st pp sp nra) (fun t => retE (Some t)) else retE None)
         (match o with Some t => enc_pwt (spec_mono sp) t | None => [] end) o.
Proof.
  intros Hc H. destruct (has_pwt pp (family st)).
  - destruct H as (Hb & t & -> & Hwf). pcast (enc_pwt (spec_mono sp) t ++ []).
    eapply parses_bind; [apply parses_pwt; assumption|]. cbv beta. apply parses_ret.
  - subst o. apply parses_ret.
Qed.

Lemma parses_drm_opt ref_idc ut o :
  (if ref_idc =? 0 then o = None else exists d, o = Some d /\ wf_drm ut d) ->
  Parses (if ref_idc =? 0 then retE None else bindE (dec_ref_pic_marking_read ut) (fun m => retE (Some m)))
         (match o with Some d => enc_drm d | None => [] end) o.
Proof.
  intros H. destruct (ref_idc =? 0).
  - subst o. apply parses_ret.
  - destruct H as (d & -> & Hwf). pcast (enc_drm d ++ []).
    eapply parses_bind; [apply parses_drm; exact Hwf|]. cbv beta. apply parses_ret.
Qed.

Theorem slice_header_roundtrip c hdr pp sp h ab em rest tl :
  ctx_ok c -> wf_slice c hdr pp sp h ab -> any_one (List.tl rest) = true ->
  slice_header_read c hdr (mk_src (enc_slice_header hdr pp sp h ab em ++ rest) tl)
  = OK ((h, pps_seq_parameter_set_id pp, pic_parameter_set_id pp), mk_src rest tl).
Proof.
  intros [Hcs Hcp] Hwf Hmore.
  destruct Hwf as (Hpid & Hpps & Hsps & Hu20 & Hu21 & Hfmb & Hcpl & Hfn & Hfp & Hidr & Hpoc & Hred & Hdsp & Hnra & Hrpl &
                   Hpwt & Hdrm & Hcab & Hqpd & Hsw & Hqs & Hddf).
  pose proof (Hcs _ _ Hsps) as Hisps. destruct (Hcp _ _ Hpps) as [Hl0 Hinit].
  assert (Hl2 : log2_max_frame_num_minus4 sp <= 12) by (destruct Hisps as (_ & _ & _ & _ & _ & H & _); exact H).
  assert (Hpocok : log2_max_pic_order_cnt_ok sp).
  { destruct Hisps as (_ & _ & _ & _ & _ & _ & Hp & _). unfold log2_max_pic_order_cnt_ok, inv_poc in *.
    destruct (pic_order_cnt_ sp); try exact I. exact Hp. }
  destruct (slice_type_id_roundtrip (sh_slice_type h)) as [Hst Hst9].
  unfold slice_header_read, enc_slice_header. rewrite <- !app_assoc.
  bp (ue (first_mb_in_slice h)) (first_mb_in_slice h) ltac:(pue).
  bp (ue (slice_type_id (sh_slice_type h))) (slice_type_id (sh_slice_type h)) ltac:(pue).
  rewrite Hst.
  bp (ue (pic_parameter_set_id pp)) (pic_parameter_set_id pp) ltac:(pue).
  unfold pic_param_set_id_from_u32. destruct (N.ltb_spec 255 (pic_parameter_set_id pp)); [lia|].
  rewrite Hpps, Hsps.
  bp (match colour_plane h with Some v => u 2 v | None => [] end) (colour_plane h) ltac:(apply parses_colour_plane; exact Hcpl).
  unfold bindE at 1. unfold sps_help at 1. unfold log2_max_frame_num.
  destruct (N.ltb_spec (log2_max_frame_num_minus4 sp + 4) 256); [|lia].
  bp (u (N.to_nat (log2_max_frame_num_minus4 sp + 4)) (frame_num h)) (frame_num h) ltac:(apply parses_u; [lia|exact Hfn]).
  bp (enc_field_pic sp (sh_field_pic h)) (sh_field_pic h) ltac:(apply parses_field_pic; exact Hfp).
  bp (match idr_pic_id h with Some v => ue v | None => [] end) (idr_pic_id h) ltac:(apply parses_opt_ue; exact Hidr).
  bp (enc_poc_lsb sp pp (sh_field_pic h) (pic_order_cnt_lsb h)) (pic_order_cnt_lsb h) ltac:(apply parses_poc; assumption).
  bp (match redundant_pic_cnt h with Some v => ue v | None => [] end) (redundant_pic_cnt h) ltac:(apply parses_opt_ue; exact Hred).
  bp (match direct_spatial_mv_pred_flag h with Some b => flag b | None => [] end) (direct_spatial_mv_pred_flag h) ltac:(apply parses_opt_bool; exact Hdsp).
  assert (Hnone : fam_p_sp_b (family (sh_slice_type h)) = false -> sh_num_ref_idx_active h = None).
  { intros Hf. unfold fam_p_sp_b in Hf. destruct (sh_num_ref_idx_active h) as [[a|a b]|]; [| |reflexivity]; cbn [wf_nra] in Hnra.
    - destruct Hnra as [Hx _]. destruct (family (sh_slice_type h)); cbn in *; congruence.
    - destruct Hnra as [Hx _]. destruct (family (sh_slice_type h)); cbn in *; congruence. }
  assert (Hcnt : l0_count pp (sh_num_ref_idx_active h) <= 32).
  { unfold l0_count. destruct (sh_num_ref_idx_active h) as [[a|a b]|]; cbn [wf_nra] in Hnra; lia. }
  bp (enc_nra (family (sh_slice_type h)) (sh_num_ref_idx_active h)) (sh_num_ref_idx_active h) ltac:(apply parses_nra; assumption).
  destruct (N.eqb_spec (nal_unit_type_id hdr) 20); [contradiction|]. destruct (N.eqb_spec (nal_unit_type_id hdr) 21); [contradiction|].
  cbn [orb].
  bp (enc_rpl em (ref_pic_list_modification h)) (ref_pic_list_modification h) ltac:(apply parses_rpl; exact Hrpl).
  bp (match sh_pred_weight_table h with Some t => enc_pwt (spec_mono sp) t | None => [] end) (sh_pred_weight_table h)
     ltac:(apply (parses_pwt_opt (sh_slice_type h) pp sp (sh_num_ref_idx_active h) (sh_pred_weight_table h) Hcnt Hpwt)).
  bp (match sh_dec_ref_pic_marking h with Some d => enc_drm d | None => [] end) (sh_dec_ref_pic_marking h)
     ltac:(apply (parses_drm_opt (nal_ref_idc hdr) (nal_unit_type_id hdr) (sh_dec_ref_pic_marking h) Hdrm)).
  bp (match cabac_init_idc h with Some v => ue v | None => [] end) (cabac_init_idc h)
     ltac:(apply (parses_opt_ue (has_cabac_init pp (family (sh_slice_type h))) "cabac_init_idc" (cabac_init_idc h) Hcab)).
  bp (se (slice_qp_delta h)) (slice_qp_delta h) ltac:(apply parses_se; lia).
  destruct (Z.ltb_spec 51 (slice_qp_delta h)); [lia|].
  rewrite (app_assoc (match sp_for_switch_flag h with Some b => flag b | None => [] end)).
  bp ((match sp_for_switch_flag h with Some b => flag b | None => [] end) ++
      (match slice_qs h with Some q => se (slice_qs_delta_of pp q) | None => [] end)) (sp_for_switch_flag h, slice_qs h)
     ltac:(apply (parses_spq (family (sh_slice_type h)) pp (sp_for_switch_flag h) (slice_qs h) Hinit Hsw Hqs)).
  bp (enc_deblock pp (disable_deblocking_filter_idc h) ab) (disable_deblocking_filter_idc h) ltac:(apply parses_ddf; exact Hddf).
  unfold bindE at 1. unfold rs, liftE. rewrite has_more_spec. cbn [bits]. rewrite Hmore. cbn [negb fst snd].
  destruct h. reflexivity.
Qed.
