(* The hand-written model tables agree with the implementation's dumped tables (complete sweeps). *)
From H264 Require Import Base.Prelude Proofs.TablesLib Gen.ImplTables Model.Nal.
Local Open Scope N_scope.

Definition model_hdr_row (b : N) : option (N * N * N) :=
  match nal_header_new b with
  | Some h => Some (nal_ref_idc h, nal_unit_type_id h, h)
  | None => None
  end.

Lemma hdr_model_eq_impl_sweep :
  forallb (fun b => match lookup b impl_hdr, model_hdr_row b with
                    | Some (Some (r, t, back)), Some (r', t', back') => (r =? r') && (t =? t') && (back =? back')
                    | Some None, None => true
                    | _, _ => false
                    end) (range 256) = true.
Proof. vm_compute. reflexivity. Qed.

Lemma hdr_model_eq_impl b : b < 256 -> lookup b impl_hdr = Some (model_hdr_row b).
Proof.
  intros Hb. pose proof (forall_range _ 256 hdr_model_eq_impl_sweep b Hb) as H. cbv beta in H.
  destruct (lookup b impl_hdr) as [[[[r t] k]|]|]; destruct (model_hdr_row b) as [[[r' t'] k']|]; try discriminate.
  - repeat (apply andb_prop in H; let H' := fresh "H" in destruct H as [H H']).
    apply N.eqb_eq in H, H0, H1. subst. reflexivity.
  - reflexivity.
Qed.

Lemma ut_model_eq_impl_sweep :
  forallb (fun id => match lookup id impl_ut, unit_type_name id with
                     | Some (Some (Some (back, nm))), Some nm' => (back =? id) && String.eqb nm nm'
                     | Some (Some None), None => true
                     | _, _ => false
                     end) (range 256) = true.
Proof. vm_compute. reflexivity. Qed.

(* ---- profile / level / chroma-info tables of the model vs the implementation ---- *)
From H264 Require Import Model.Sps Model.SpsDerived Model.ShowSps Gen.ImplLevel.

Lemma prof_model_eq_impl_sweep :
  forallb (fun b => match lookup b impl_prof with
                    | Some (back, nm, ci, wrapped) =>
                        (back =? b) && String.eqb nm (show_profile b) && Bool.eqb ci (has_chroma_info b) && (wrapped =? b)
                    | None => false
                    end) (range 256) = true.
Proof. vm_compute. reflexivity. Qed.

Lemma prof_model_eq_impl b : b < 256 -> lookup b impl_prof = Some (b, show_profile b, has_chroma_info b, b).
Proof.
  intros Hb. pose proof (forall_range _ 256 prof_model_eq_impl_sweep b Hb) as H. cbv beta in H.
  destruct (lookup b impl_prof) as [[[[back nm] ci] w]|]; [|discriminate].
  repeat (apply andb_prop in H; let H' := fresh "H" in destruct H as [H H']).
  apply N.eqb_eq in H, H0. apply String.eqb_eq in H2. apply Bool.eqb_prop in H1. subst. reflexivity.
Qed.

Lemma lvl_model_eq_impl_sweep :
  forallb (fun f => match lookup f impl_lvl with
                    | Some row => forallb (fun '(l, back, nm) =>
                                    (back =? l) && String.eqb (nth (N.to_nat nm) level_names EmptyString) (show_level f l)) row
                                  && (length row =? 256)%nat
                    | None => false
                    end) (range 256) = true.
Proof. vm_compute. reflexivity. Qed.

(* ---- T.35 country codes and SEI payload type names ---- *)
From H264 Require Import Model.SeiTables.

(* the dump called ItuTT35::read on [b; 0xa1; 0xa2; 0xa3]: name and number of bytes consumed *)
Lemma t35_model_eq_impl_sweep :
  forallb (fun b => match lookup b impl_t35, t35_read [b; 161; 162; 163] with
                    | Some (Some (nm, off)), T35Ok nm' rest => String.eqb nm nm' && (N.of_nat (length rest) + off =? 4)
                    | _, _ => false
                    end) (range 256) = true.
Proof. vm_compute. reflexivity. Qed.

(* distinct country codes are reported as distinct values: the value identifies the code *)
Lemma t35_names_injective_sweep :
  forallb (fun a => forallb (fun b => (a =? b) || negb (String.eqb (t35_country_name a) (t35_country_name b))) (range 255)) (range 255) = true.
Proof. vm_compute. reflexivity. Qed.

Lemma seitype_model_eq_impl_sweep :
  forallb (fun kv => match snd kv with Some nm => String.eqb nm (sei_type_name (fst kv)) | None => false end) impl_seitype = true.
Proof. vm_compute. reflexivity. Qed.
