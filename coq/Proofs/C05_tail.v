From H264 Require Import Base.Prelude Model.BitReader Spec.SyntaxSps Proofs.C14_proofs.

(* the optional PPS tail is detected exactly when data precedes the trailing bits *)
Lemma has_more_before_trailing nm ext k tl :
  ext <> [] -> has_more_rbsp_data nm (mk_src (ext ++ trailing_bits k) tl) = OK (true, mk_src (ext ++ trailing_bits k) tl).
Proof.
  intros Hne. rewrite has_more_spec. cbn [bits]. destruct ext as [|b r]; [contradiction|]. cbn [app List.tl].
  assert (H : any_one (r ++ trailing_bits k) = true).
  { unfold any_one, trailing_bits. rewrite existsb_app. cbn [existsb]. rewrite Bool.orb_true_r. reflexivity. }
  rewrite H. reflexivity.
Qed.

Lemma has_more_at_trailing nm k : has_more_rbsp_data nm (mk_src (trailing_bits k) TEof) = OK (false, mk_src (trailing_bits k) TEof).
Proof.
  rewrite has_more_spec. cbn [bits tail trailing_bits List.tl].
  assert (H : any_one (repeat false k) = false) by (apply any_one_false_repeat; rewrite repeat_length; reflexivity).
  rewrite H. reflexivity.
Qed.
