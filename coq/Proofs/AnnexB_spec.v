(* The abstract machine, run over a whole stream and then reset, computes the start-code segmentation. *)
From H264 Require Import Base.Prelude Model.AnnexB Spec.AnnexBSpec Proofs.AnnexB_sem.

(* units closed by running the machine from `st` over `l` and resetting, starting from accumulators a *)
Definition closed_after (st : astate) (l : list byte) (a : accu) : list (list byte) :=
  let '(st', es) := arun st l in fst (feed_evs (es ++ areset st') a).

(* unfolding equations of the 3-byte look-ahead *)
Lemma outside_short l : (length l < 3)%nat -> outside l = [].
Proof. destruct l as [|a [|b [|c r]]]; cbn [length]; intros H; try reflexivity. lia. Qed.

Lemma outside_cons x l : outside (x :: l) =
  match l with
  | b :: c :: rest => if (x =? 0) && (b =? 0) && (c =? 1) then (let '(u, us) := inside rest in u :: us) else outside l
  | _ => []
  end.
Proof. destruct l as [|b [|c rest]]; reflexivity. Qed.

Lemma inside_cons x l : inside (x :: l) =
  match l with
  | b :: c :: rest =>
      if (x =? 0) && (b =? 0) && (c =? 1) then (let '(u, us) := inside rest in ([], u :: us))
      else if (x =? 0) && (b =? 0) && (c =? 0) then ([], outside l)
      else let '(u, us) := inside l in (x :: u, us)
  | _ => (x :: l, [])
  end.
Proof. destruct l as [|b [|c rest]]; reflexivity. Qed.

Lemma outside_nonzero x l : x <> 0 -> outside (x :: l) = outside l.
Proof.
  intros Hx. rewrite outside_cons. destruct l as [|b [|c rest]]; try reflexivity.
  destruct (N.eqb_spec x 0); [contradiction|]. reflexivity.
Qed.

Lemma inside_nonzero x l : x <> 0 -> inside (x :: l) = let '(u, us) := inside l in (x :: u, us).
Proof.
  intros Hx. rewrite inside_cons. destruct l as [|b [|c rest]]; try reflexivity.
  destruct (N.eqb_spec x 0); [contradiction|]. reflexivity.
Qed.

Lemma feed_evs_closed_prefix es : forall cl op, exists more op',
  feed_evs es (cl, op) = (cl ++ more, op').
Proof.
  induction es as [|e es IH]; intros cl op; cbn [feed_evs fold_left].
  - exists [], op. rewrite app_nil_r. reflexivity.
  - destruct e; cbn [feed_ev fst snd].
    + apply IH.
    + destruct (IH (cl ++ [op]) []) as (more & op' & H). exists (op :: more), op'.
      unfold feed_evs in H. rewrite H. rewrite <- app_assoc. reflexivity.
Qed.

(* the six state-wise correspondences, by induction on the rest of the stream *)
Definition spec_of (st : astate) (l : list byte) (cl : list (list byte)) (op : list byte) : list (list byte) :=
  match st with
  | AStart => cl ++ outside l
  | AStartOneZero => cl ++ outside (0 :: l)
  | AStartTwoZero => cl ++ outside (0 :: 0 :: l)
  | AInUnit => cl ++ (let '(u, us) := inside l in (op ++ u) :: us)
  | AInUnitOneZero => cl ++ (let '(u, us) := inside (0 :: l) in (op ++ u) :: us)
  | AInUnitTwoZero => cl ++ (let '(u, us) := inside (0 :: 0 :: l) in (op ++ u) :: us)
  end.

Lemma closed_after_step st b l a :
  closed_after st (b :: l) a = closed_after (fst (astep st b)) l (feed_evs (snd (astep st b)) a).
Proof.
  unfold closed_after. cbn [arun]. destruct (astep st b) as [s1 e1]. cbn [fst snd].
  destruct (arun s1 l) as [s2 e2]. rewrite <- app_assoc, feed_evs_app. reflexivity.
Qed.

Lemma run_is_spec l : forall st cl op,
  (in_unit st = None -> op = []) ->
  closed_after st l (cl, op) = spec_of st l cl op.
Proof.
  induction l as [|b l IH]; intros st cl op Hop.
  - (* end of stream: the reset *)
    unfold closed_after. destruct st; cbn; rewrite ?app_nil_r; reflexivity.
  - rewrite closed_after_step. destruct st; cbn [astep fst snd spec_of].
    + (* AStart *)
      destruct (N.eqb_spec b 0) as [->|Hb]; cbn [feed_evs fold_left].
      * rewrite IH by exact Hop. reflexivity.
      * rewrite IH by exact Hop. cbn [spec_of]. rewrite (outside_nonzero b) by exact Hb. reflexivity.
    + (* AStartOneZero: we stand for outside (0 :: b :: l) *)
      destruct (N.eqb_spec b 0) as [->|Hb]; cbn [feed_evs fold_left].
      * rewrite IH by exact Hop. reflexivity.
      * rewrite IH by exact Hop. cbn [spec_of]. rewrite (outside_cons 0 (b :: l)).
        destruct l as [|c rest].
        { rewrite outside_short by (cbn; lia). reflexivity. }
        destruct (N.eqb_spec b 0); [contradiction|]. cbn [andb]. rewrite Bool.andb_false_r. cbn [andb].
        rewrite (outside_nonzero b) by exact Hb. reflexivity.
    + (* AStartTwoZero: outside (0 :: 0 :: b :: l) *)
      destruct (N.eqb_spec b 0) as [->|Hb0]; cbn [feed_evs fold_left].
      * rewrite IH by exact Hop. cbn [spec_of]. rewrite (outside_cons 0 (0 :: 0 :: l)). cbn [N.eqb andb].
        change (0 =? 1) with false. rewrite Bool.andb_false_r. reflexivity.
      * destruct (N.eqb_spec b 1) as [->|Hb1].
        -- rewrite IH by (intros H; discriminate H). cbn [spec_of].
           rewrite (outside_cons 0 (0 :: 1 :: l)). change (0 =? 0) with true. change (1 =? 1) with true. cbn [andb].
           assert (op = []) by (apply Hop; reflexivity). subst op. cbn [app]. reflexivity.
        -- rewrite IH by exact Hop. cbn [spec_of]. rewrite (outside_cons 0 (0 :: b :: l)).
           change (0 =? 0) with true. cbn [andb]. destruct (N.eqb_spec b 1); [contradiction|].
           rewrite (outside_cons 0 (b :: l)). destruct l as [|c rest].
           { rewrite outside_short by (cbn; lia). reflexivity. }
           destruct (N.eqb_spec b 0); [contradiction|]. cbn [andb]. rewrite Bool.andb_false_r. cbn [andb].
           rewrite (outside_nonzero b) by exact Hb0. reflexivity.
    + (* AInUnit *)
      destruct (N.eqb_spec b 0) as [->|Hb]; cbn [fst snd feed_evs fold_left feed_ev].
      * rewrite IH by (intros H; discriminate H). reflexivity.
      * rewrite IH by (intros H; discriminate H). cbn [spec_of]. rewrite (inside_nonzero b) by exact Hb.
        destruct (inside l) as [u us]. rewrite <- app_assoc. reflexivity.
    + (* AInUnitOneZero: inside (0 :: b :: l) *)
      destruct (N.eqb_spec b 0) as [->|Hb]; cbn [fst snd feed_evs fold_left feed_ev].
      * rewrite IH by (intros H; discriminate H). reflexivity.
      * rewrite IH by (intros H; discriminate H). cbn [spec_of]. rewrite (inside_cons 0 (b :: l)).
        destruct l as [|c rest].
        { cbn [inside]. rewrite <- app_assoc. reflexivity. }
        destruct (N.eqb_spec b 0); [contradiction|]. cbn [andb]. rewrite !Bool.andb_false_r. cbn [andb].
        rewrite (inside_nonzero b) by exact Hb. destruct (inside (c :: rest)) as [u us]. rewrite <- app_assoc. reflexivity.
    + (* AInUnitTwoZero: inside (0 :: 0 :: b :: l) *)
      destruct (N.eqb_spec b 0) as [->|Hb0]; cbn [fst snd feed_evs fold_left feed_ev].
      * rewrite IH by reflexivity. cbn [spec_of]. rewrite (inside_cons 0 (0 :: 0 :: l)).
        change (0 =? 0) with true. change (0 =? 1) with false. cbn [andb]. rewrite app_nil_r, <- app_assoc. reflexivity.
      * destruct (N.eqb_spec b 1) as [->|Hb1]; cbn [fst snd feed_evs fold_left feed_ev].
        -- rewrite IH by (intros H; discriminate H). cbn [spec_of]. rewrite (inside_cons 0 (0 :: 1 :: l)).
           change (0 =? 0) with true. change (1 =? 1) with true. cbn [andb].
           destruct (inside l) as [u us]. rewrite app_nil_r, <- app_assoc. reflexivity.
        -- rewrite IH by (intros H; discriminate H). cbn [spec_of]. rewrite (inside_cons 0 (0 :: b :: l)).
           change (0 =? 0) with true. cbn [andb]. destruct (N.eqb_spec b 1); [contradiction|].
           destruct (N.eqb_spec b 0); [contradiction|].
           rewrite (inside_cons 0 (b :: l)). destruct l as [|c rest].
           { cbn [inside]. rewrite <- app_assoc. reflexivity. }
           destruct (N.eqb_spec b 0); [contradiction|]. cbn [andb]. rewrite !Bool.andb_false_r. cbn [andb].
           rewrite (inside_nonzero b) by exact Hb0. destruct (inside (c :: rest)) as [u us]. rewrite <- !app_assoc. reflexivity.
Qed.

Theorem stream_then_reset_is_segment stream :
  closed_after AStart stream ([], []) = segment stream.
Proof. rewrite run_is_spec by reflexivity. reflexivity. Qed.
